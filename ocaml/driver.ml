(* driver.ml -- runs case lines through the extracted model.
   usage: driver [--release] < cases > results       (one result line per case line) *)
module M = Model
type positive = M.positive = XI of positive | XO of positive | XH
type n = M.n = N0 | Npos of positive

let rec pos_of_int (n : int) : positive =
  if n = 1 then XH
  else if n land 1 = 0 then XO (pos_of_int (n lsr 1))
  else XI (pos_of_int (n lsr 1))
let n_of_int (n : int) : n = if n = 0 then N0 else Npos (pos_of_int n)
let rec int_of_pos (p : positive) : int =
  match p with XH -> 1 | XO q -> 2 * int_of_pos q | XI q -> 2 * int_of_pos q + 1
let int_of_n (x : n) : int = match x with N0 -> 0 | Npos p -> int_of_pos p

let table = Array.init 256 n_of_int

let to_list (s : string) : n list =
  let r = ref [] in
  for i = String.length s - 1 downto 0 do r := table.(Char.code s.[i]) :: !r done;
  !r

let of_list (l : n list) : string =
  let b = Buffer.create 256 in
  List.iter (fun x -> Buffer.add_char b (Char.chr (int_of_n x land 255))) l;
  Buffer.contents b

let () =
  let m = if Array.length Sys.argv > 1 && Sys.argv.(1) = "--release" then M.release_mode else M.debug_mode in
  (try
     while true do
       let line = input_line stdin in
       let out = (try of_list (M.run_line m (to_list line)) with Stack_overflow -> "ERR stack") in
       print_string out; print_char '\n'
     done
   with End_of_file -> ());
  flush stdout
