//! Parsers and printers of the interchange language (see coq/model/Text.v for the grammar).
use std::borrow::Cow;
use std::io;

use tokio_modbus::bytes::Bytes;
use tokio_modbus::{Error, ExceptionCode, ExceptionResponse, ProtocolError, Request, Response};

pub fn hex(bs: &[u8]) -> String {
    if bs.is_empty() {
        return "-".into();
    }
    let mut s = String::with_capacity(bs.len() * 2);
    for b in bs {
        s.push_str(&format!("{b:02x}"));
    }
    s
}

pub fn unhex(s: &str) -> Option<Vec<u8>> {
    if s == "-" {
        return Some(vec![]);
    }
    if s.len() % 2 != 0 {
        return None;
    }
    (0..s.len() / 2)
        .map(|i| u8::from_str_radix(s.get(2 * i..2 * i + 2)?, 16).ok())
        .collect()
}

pub fn bits(bs: &[bool]) -> String {
    if bs.is_empty() {
        return "-".into();
    }
    bs.iter().map(|b| if *b { '1' } else { '0' }).collect()
}

pub fn unbits(s: &str) -> Option<Vec<bool>> {
    if s == "-" {
        return Some(vec![]);
    }
    s.chars()
        .map(|c| match c {
            '0' => Some(false),
            '1' => Some(true),
            _ => None,
        })
        .collect()
}

pub fn words(ws: &[u16]) -> String {
    if ws.is_empty() {
        return "-".into();
    }
    ws.iter().map(|w| w.to_string()).collect::<Vec<_>>().join(".")
}

pub fn unwords(s: &str) -> Option<Vec<u16>> {
    if s == "-" {
        return Some(vec![]);
    }
    s.split('.').map(|w| w.parse().ok()).collect()
}

fn b01(b: bool) -> &'static str {
    if b {
        "1"
    } else {
        "0"
    }
}

fn unb01(s: &str) -> Option<bool> {
    match s {
        "0" => Some(false),
        "1" => Some(true),
        _ => None,
    }
}

pub fn show_req(r: &Request<'_>) -> String {
    use Request::*;
    match r {
        ReadCoils(a, q) => format!("RC:{a}:{q}"),
        ReadDiscreteInputs(a, q) => format!("RDI:{a}:{q}"),
        WriteSingleCoil(a, b) => format!("WSC:{a}:{}", b01(*b)),
        WriteMultipleCoils(a, bs) => format!("WMC:{a}:{}", bits(bs)),
        ReadInputRegisters(a, q) => format!("RIR:{a}:{q}"),
        ReadHoldingRegisters(a, q) => format!("RHR:{a}:{q}"),
        WriteSingleRegister(a, w) => format!("WSR:{a}:{w}"),
        WriteMultipleRegisters(a, ws) => format!("WMR:{a}:{}", words(ws)),
        ReportServerId => "RSI".into(),
        MaskWriteRegister(a, x, y) => format!("MWR:{a}:{x}:{y}"),
        ReadWriteMultipleRegisters(ra, rq, wa, ws) => format!("RWMR:{ra}:{rq}:{wa}:{}", words(ws)),
        Custom(fc, d) => format!("CU:{fc}:{}", hex(d)),
    }
}

pub fn parse_req(s: &str) -> Option<Request<'static>> {
    use Request::*;
    let f: Vec<&str> = s.split(':').collect();
    let n = |i: usize| -> Option<u16> { f.get(i)?.parse().ok() };
    Some(match (f[0], f.len()) {
        ("RC", 3) => ReadCoils(n(1)?, n(2)?),
        ("RDI", 3) => ReadDiscreteInputs(n(1)?, n(2)?),
        ("WSC", 3) => WriteSingleCoil(n(1)?, unb01(f[2])?),
        ("WMC", 3) => WriteMultipleCoils(n(1)?, Cow::Owned(unbits(f[2])?)),
        ("RIR", 3) => ReadInputRegisters(n(1)?, n(2)?),
        ("RHR", 3) => ReadHoldingRegisters(n(1)?, n(2)?),
        ("WSR", 3) => WriteSingleRegister(n(1)?, n(2)?),
        ("WMR", 3) => WriteMultipleRegisters(n(1)?, Cow::Owned(unwords(f[2])?)),
        ("RSI", 1) => ReportServerId,
        ("MWR", 4) => MaskWriteRegister(n(1)?, n(2)?, n(3)?),
        ("RWMR", 5) => ReadWriteMultipleRegisters(n(1)?, n(2)?, n(3)?, Cow::Owned(unwords(f[4])?)),
        ("CU", 3) => Custom(f[1].parse().ok()?, Cow::Owned(unhex(f[2])?)),
        _ => return None,
    })
}

pub fn show_rsp(r: &Response) -> String {
    use Response::*;
    match r {
        ReadCoils(bs) => format!("RC:{}", bits(bs)),
        ReadDiscreteInputs(bs) => format!("RDI:{}", bits(bs)),
        WriteSingleCoil(a, b) => format!("WSC:{a}:{}", b01(*b)),
        WriteMultipleCoils(a, q) => format!("WMC:{a}:{q}"),
        ReadInputRegisters(ws) => format!("RIR:{}", words(ws)),
        ReadHoldingRegisters(ws) => format!("RHR:{}", words(ws)),
        WriteSingleRegister(a, w) => format!("WSR:{a}:{w}"),
        WriteMultipleRegisters(a, q) => format!("WMR:{a}:{q}"),
        ReportServerId(id, run, d) => format!("RSI:{id}:{}:{}", b01(*run), hex(d)),
        MaskWriteRegister(a, x, y) => format!("MWR:{a}:{x}:{y}"),
        ReadWriteMultipleRegisters(ws) => format!("RWMR:{}", words(ws)),
        Custom(fc, d) => format!("CU:{fc}:{}", hex(d)),
    }
}

pub fn parse_rsp(s: &str) -> Option<Response> {
    use Response::*;
    let f: Vec<&str> = s.split(':').collect();
    let n = |i: usize| -> Option<u16> { f.get(i)?.parse().ok() };
    Some(match (f[0], f.len()) {
        ("RC", 2) => ReadCoils(unbits(f[1])?),
        ("RDI", 2) => ReadDiscreteInputs(unbits(f[1])?),
        ("RIR", 2) => ReadInputRegisters(unwords(f[1])?),
        ("RHR", 2) => ReadHoldingRegisters(unwords(f[1])?),
        ("RWMR", 2) => ReadWriteMultipleRegisters(unwords(f[1])?),
        ("WSC", 3) => WriteSingleCoil(n(1)?, unb01(f[2])?),
        ("WMC", 3) => WriteMultipleCoils(n(1)?, n(2)?),
        ("WSR", 3) => WriteSingleRegister(n(1)?, n(2)?),
        ("WMR", 3) => WriteMultipleRegisters(n(1)?, n(2)?),
        ("CU", 3) => Custom(f[1].parse().ok()?, Bytes::from(unhex(f[2])?)),
        ("MWR", 4) => MaskWriteRegister(n(1)?, n(2)?, n(3)?),
        ("RSI", 4) => ReportServerId(f[1].parse().ok()?, unb01(f[2])?, unhex(f[3])?),
        _ => return None,
    })
}

pub fn show_exr(e: &ExceptionResponse) -> String {
    format!("X:{}:{}", e.function.value(), u8::from(e.exception))
}

pub fn show_rr(rr: &Result<Response, ExceptionResponse>) -> String {
    match rr {
        Ok(r) => format!("R:{}", show_rsp(r)),
        Err(e) => show_exr(e),
    }
}

pub fn show_kind(k: io::ErrorKind) -> String {
    format!("{k:?}")
}

pub fn parse_kind(s: &str) -> Option<io::ErrorKind> {
    use io::ErrorKind::*;
    Some(match s {
        "UnexpectedEof" => UnexpectedEof,
        "InvalidData" => InvalidData,
        "InvalidInput" => InvalidInput,
        "BrokenPipe" => BrokenPipe,
        "NotConnected" => NotConnected,
        "WriteZero" => WriteZero,
        "TimedOut" => TimedOut,
        "Other" => Other,
        "ConnectionReset" => ConnectionReset,
        "ConnectionAborted" => ConnectionAborted,
        "ConnectionRefused" => ConnectionRefused,
        "PermissionDenied" => PermissionDenied,
        "AddrInUse" => AddrInUse,
        "AlreadyExists" => AlreadyExists,
        "NotFound" => NotFound,
        "Unsupported" => Unsupported,
        "OutOfMemory" => OutOfMemory,
        "HostUnreachable" => HostUnreachable,
        "AddrNotAvailable" => AddrNotAvailable,
        "Interrupted" => Interrupted,
        "WouldBlock" => WouldBlock,
        _ => return None,
    })
}

pub fn show_error(e: &Error) -> String {
    match e {
        Error::Transport(e) => format!("T:{}", show_kind(e.kind())),
        Error::Protocol(ProtocolError::HeaderMismatch { result, .. }) => format!("HM:{}", show_rr(result)),
        Error::Protocol(ProtocolError::FunctionCodeMismatch { request, result }) => {
            format!("FM:{}:{}", request.value(), show_rr(result))
        }
    }
}

pub fn show_call(r: &tokio_modbus::Result<Response>) -> String {
    match r {
        Ok(Ok(rsp)) => format!("OK:{}", show_rsp(rsp)),
        Ok(Err(code)) => format!("EX:{}", u8::from(*code)),
        Err(e) => show_error(e),
    }
}

pub fn show_exc_code(c: ExceptionCode) -> String {
    format!("{}", u8::from(c))
}
