//! Operations that need a real runtime: the synchronous client and the asynchronous client against a
//! scripted peer over loopback TCP or a pseudo-terminal (C16/C17), and many concurrent clients
//! against one server (C18).
use std::io;
use std::sync::{Arc, Mutex};
use std::time::{Duration, Instant};

use tokio::io::{AsyncReadExt, AsyncWriteExt};
use tokio_modbus::client::sync::{Client as _, Reader as _, Writer as _};
use tokio_modbus::client::{Client as _, Reader as _, Writer as _};
use tokio_modbus::prelude::SlaveContext as _;
use tokio_modbus::{Request, Response, Slave};

use crate::text::*;

#[derive(Clone, Debug)]
pub enum Peer {
    Reply(Vec<u8>),
    Close,
    Silent,
    Slow(u64, Vec<u8>),
}

pub fn parse_peer(s: &str) -> Option<Peer> {
    if s == "c" {
        Some(Peer::Close)
    } else if s == "s" {
        Some(Peer::Silent)
    } else if let Some(h) = s.strip_prefix('r') {
        unhex(h).map(Peer::Reply)
    } else if let Some(rest) = s.strip_prefix('w') {
        let (ms, h) = rest.split_once(':')?;
        Some(Peer::Slow(ms.parse().ok()?, unhex(h)?))
    } else {
        None
    }
}

/// reads one request: bytes until the line has been idle for `idle`
async fn read_frame<T: AsyncReadExt + Unpin>(t: &mut T, idle: Duration, first: Duration) -> io::Result<Vec<u8>> {
    let mut buf = vec![];
    let mut tmp = [0u8; 512];
    loop {
        let wait = if buf.is_empty() { first } else { idle };
        match tokio::time::timeout(wait, t.read(&mut tmp)).await {
            Err(_) => return Ok(buf),
            Ok(Ok(0)) => return Ok(buf),
            Ok(Ok(n)) => buf.extend_from_slice(&tmp[..n]),
            Ok(Err(e)) => return if buf.is_empty() { Err(e) } else { Ok(buf) },
        }
    }
}

async fn peer_loop<T: AsyncReadExt + AsyncWriteExt + Unpin>(mut t: T, script: Vec<Peer>, log: Arc<Mutex<Vec<Vec<u8>>>>, linger: Duration) {
    for step in script {
        let Ok(fr) = read_frame(&mut t, Duration::from_millis(40), Duration::from_secs(3)).await else {
            return;
        };
        if fr.is_empty() {
            return;
        }
        log.lock().unwrap().push(fr);
        match step {
            Peer::Reply(b) => {
                let _ = t.write_all(&b).await;
                let _ = t.flush().await;
            }
            Peer::Close => return,
            Peer::Silent => {}
            Peer::Slow(ms, b) => {
                tokio::time::sleep(Duration::from_millis(ms)).await;
                let _ = t.write_all(&b).await;
                let _ = t.flush().await;
            }
        }
    }
    // stay connected until the client is done
    let _ = read_frame(&mut t, Duration::from_millis(40), linger).await;
}

enum Op {
    Call(Request<'static>, bool),
    SetSlave(u8),
    /// set_timeout(Some(ms)) / reset_timeout() on the blocking context
    SetTimeout(Option<u64>),
}

fn parse_ops(tokens: &[&str]) -> Option<(Vec<Op>, Vec<Peer>)> {
    let mut ops = vec![];
    let mut peers = vec![];
    for op in tokens.split(|t| *t == ";") {
        match op {
            [h @ ("call" | "typed"), rq, p] => {
                ops.push(Op::Call(parse_req(rq)?, *h == "typed"));
                peers.push(parse_peer(p)?);
            }
            ["slave", n] => ops.push(Op::SetSlave(n.parse().ok()?)),
            ["timeout", t] => ops.push(Op::SetTimeout(if *t == "-" { None } else if *t == "max" { Some(u64::MAX) } else { Some(t.parse().ok()?) })),
            _ => return None,
        }
    }
    Some((ops, peers))
}

fn show_t<T>(r: &tokio_modbus::Result<T>, f: impl Fn(&T) -> String) -> String {
    match r {
        Ok(Ok(v)) => f(v),
        Ok(Err(c)) => format!("EX:{}", u8::from(*c)),
        Err(e) => show_error(e),
    }
}

macro_rules! typed_dispatch {
    ($ctx:expr, $req:expr, $($aw:tt)*) => {{
        use Request::*;
        let b = |v: &Vec<bool>| format!("B:{}", bits(v));
        let w = |v: &Vec<u16>| format!("W:{}", words(v));
        let u = |_: &()| "U".to_string();
        match $req {
            ReadCoils(a, q) => show_t(&$ctx.read_coils(*a, *q)$($aw)*, b),
            ReadDiscreteInputs(a, q) => show_t(&$ctx.read_discrete_inputs(*a, *q)$($aw)*, b),
            ReadInputRegisters(a, q) => show_t(&$ctx.read_input_registers(*a, *q)$($aw)*, w),
            ReadHoldingRegisters(a, q) => show_t(&$ctx.read_holding_registers(*a, *q)$($aw)*, w),
            ReadWriteMultipleRegisters(ra, rq, wa, ws) => show_t(&$ctx.read_write_multiple_registers(*ra, *rq, *wa, ws)$($aw)*, w),
            WriteSingleCoil(a, c) => show_t(&$ctx.write_single_coil(*a, *c)$($aw)*, u),
            WriteMultipleCoils(a, cs) => show_t(&$ctx.write_multiple_coils(*a, cs)$($aw)*, u),
            WriteSingleRegister(a, v) => show_t(&$ctx.write_single_register(*a, *v)$($aw)*, u),
            WriteMultipleRegisters(a, vs) => show_t(&$ctx.write_multiple_registers(*a, vs)$($aw)*, u),
            MaskWriteRegister(a, x, y) => show_t(&$ctx.masked_write_register(*a, *x, *y)$($aw)*, u),
            _ => "ERR typedreq".to_string(),
        }
    }};
}

/// `SYNC|ASYNC <tcp|rtu> <timeout ms|-> <slave|-> <ops>`; op = `call|typed <req> <peer>` | `slave <n>`
/// output: per op `result rx=<request frame the peer received for it>`, then ` ; elapsed_ok=<0|1>`
fn ms_dur(ms: u64) -> Duration {
    if ms == u64::MAX {
        Duration::MAX
    } else {
        Duration::from_millis(ms)
    }
}

pub fn run_live(is_sync: bool, tokens: &[&str]) -> String {
    if tokens.len() < 4 {
        return "ERR live".into();
    }
    let proto = tokens[0];
    // `max` = Duration::MAX, the largest timeout the API accepts (it can never fire)
    let mut timeout: Option<Duration> = if tokens[1] == "-" { None } else if tokens[1] == "max" { Some(Duration::MAX) } else { tokens[1].parse().ok().map(ms_dur) };
    let slave: Option<u8> = if tokens[2] == "-" { None } else { tokens[2].parse().ok() };
    let Some((ops, peers)) = parse_ops(&tokens[3..]) else {
        return "ERR liveops".into();
    };
    let log: Arc<Mutex<Vec<Vec<u8>>>> = Arc::new(Mutex::new(vec![]));
    let mut outs: Vec<String> = vec![];
    let mut timing_ok = true;

    // peer runs on its own thread + runtime
    let (addr_tx, addr_rx) = std::sync::mpsc::channel::<String>();
    let log2 = log.clone();
    let proto2 = proto.to_string();
    let longest = ops.iter().filter_map(|o| if let Op::SetTimeout(Some(ms)) = o { Some(ms_dur(*ms)) } else { None }).chain(timeout).filter(|t| *t != Duration::MAX).max();
    let linger = longest.map_or(Duration::from_millis(250), |t| t + Duration::from_millis(300));
    let peer_thread = std::thread::spawn(move || {
        let rt = tokio::runtime::Builder::new_current_thread().enable_all().build().unwrap();
        rt.block_on(async move {
            if proto2 == "tcp" {
                let l = tokio::net::TcpListener::bind("127.0.0.1:0").await.unwrap();
                addr_tx.send(l.local_addr().unwrap().to_string()).unwrap();
                if let Ok(Ok((s, _))) = tokio::time::timeout(Duration::from_secs(10), l.accept()).await {
                    peer_loop(s, peers, log2, linger).await;
                }
            } else {
                let (master, slave) = tokio_serial::SerialStream::pair().unwrap();
                use tokio_serial::SerialPort as _;
                addr_tx.send(slave.name().unwrap_or_default()).unwrap();
                peer_loop(master, peers, log2, linger).await;
                drop(slave);
            }
        });
    });
    let addr = addr_rx.recv_timeout(Duration::from_secs(10)).unwrap_or_default();

    let mut rx_seen = 0usize;
    let mut take_rx = |log: &Arc<Mutex<Vec<Vec<u8>>>>| -> String {
        // the peer logs a frame 40 ms after its last byte; give it time
        let deadline = Instant::now() + Duration::from_millis(3000);
        loop {
            {
                let l = log.lock().unwrap();
                if l.len() > rx_seen {
                    let s = l[rx_seen..].iter().map(|f| hex(f)).collect::<Vec<_>>().join("+");
                    rx_seen = l.len();
                    return s;
                }
            }
            if Instant::now() > deadline {
                return "-".into();
            }
            std::thread::sleep(Duration::from_millis(5));
        }
    };

    if is_sync {
        let ctx = if proto == "tcp" {
            let sa: std::net::SocketAddr = addr.parse().unwrap();
            match (slave, timeout) {
                (None, None) => tokio_modbus::client::sync::tcp::connect(sa),
                (None, t) => tokio_modbus::client::sync::tcp::connect_with_timeout(sa, t),
                (Some(s), None) => tokio_modbus::client::sync::tcp::connect_slave(sa, Slave(s)),
                (Some(s), t) => tokio_modbus::client::sync::tcp::connect_slave_with_timeout(sa, Slave(s), t),
            }
        } else {
            let b = tokio_serial::new(addr.clone(), 115200);
            match (slave, timeout) {
                (None, None) => tokio_modbus::client::sync::rtu::connect(&b),
                (None, t) => tokio_modbus::client::sync::rtu::connect_with_timeout(&b, t),
                (Some(s), None) => tokio_modbus::client::sync::rtu::connect_slave(&b, Slave(s)),
                (Some(s), t) => tokio_modbus::client::sync::rtu::connect_slave_with_timeout(&b, Slave(s), t),
            }
        };
        let mut ctx = match ctx {
            Ok(c) => c,
            Err(e) => return format!("CONNECT:{}", show_kind(e.kind())),
        };
        for op in &ops {
            match op {
                Op::SetSlave(n) => {
                    ctx.set_slave(Slave(*n));
                    outs.push("ok".into());
                }
                Op::SetTimeout(t) => {
                    match t {
                        Some(ms) => ctx.set_timeout(ms_dur(*ms)),
                        None => ctx.reset_timeout(),
                    }
                    timeout = ctx.timeout();
                    outs.push(format!("ok t={}", ctx.timeout().map_or("-".to_string(), |d| if d == Duration::MAX { "max".to_string() } else { d.as_millis().to_string() })));
                }
                Op::Call(req, typed) => {
                    let t0 = Instant::now();
                    let res = if *typed { typed_dispatch!(ctx, req,) } else { show_call(&ctx.call(req.clone())) };
                    let el = t0.elapsed();
                    if let Some(t) = timeout {
                        if el > t.saturating_add(Duration::from_secs(5)) {
                            timing_ok = false;
                        }
                    }
                    outs.push(format!("{res} rx={}", take_rx(&log)));
                }
            }
        }
    } else {
        let rt = tokio::runtime::Builder::new_current_thread().enable_all().build().unwrap();
        let r: Result<(), String> = rt.block_on(async {
            let mut ctx = if proto == "tcp" {
                let sa: std::net::SocketAddr = addr.parse().unwrap();
                match slave {
                    None => tokio_modbus::client::tcp::connect(sa).await,
                    Some(s) => tokio_modbus::client::tcp::connect_slave(sa, Slave(s)).await,
                }
                .map_err(|e| format!("CONNECT:{}", show_kind(e.kind())))?
            } else {
                let b = tokio_serial::new(addr.clone(), 115200);
                let port = tokio_serial::SerialStream::open(&b).map_err(|e| format!("CONNECT:{e}"))?;
                match slave {
                    None => tokio_modbus::client::rtu::attach(port),
                    Some(s) => tokio_modbus::client::rtu::attach_slave(port, Slave(s)),
                }
            };
            for op in &ops {
                match op {
                    Op::SetSlave(n) => {
                        ctx.set_slave(Slave(*n));
                        outs.push("ok".into());
                    }
                    Op::SetTimeout(t) => {
                        // the asynchronous client has no timeout of its own: the caller wraps each call
                        timeout = t.map(ms_dur);
                        outs.push(format!("ok t={}", t.map_or("-".to_string(), |ms| if ms == u64::MAX { "max".to_string() } else { ms.to_string() })));
                    }
                    Op::Call(req, typed) => {
                        let fut = async {
                            if *typed {
                                typed_dispatch!(ctx, req, .await)
                            } else {
                                show_call(&ctx.call(req.clone()).await)
                            }
                        };
                        let res = match timeout {
                            None => fut.await,
                            Some(t) => match tokio::time::timeout(t, fut).await {
                                Ok(r) => r,
                                Err(_) => "T:TimedOut".to_string(),
                            },
                        };
                        outs.push(format!("{res} rx={}", take_rx(&log)));
                    }
                }
            }
            let _ = ctx.disconnect().await;
            Ok(())
        });
        if let Err(e) = r {
            return e;
        }
    }
    let _ = peer_thread.join();
    format!("{} ; timing_ok={}", outs.join(" ; "), if timing_ok { 1 } else { 0 })
}

// ---------------------------------------------------------------------------------------------
// CONC <tcp|rtu> <workers> <plan>   plan = connections separated by '|', each a ','-list of
// `<delay_us>:<frame hex>`.  Service rule (mirrored by the orchestrator):
//   WriteSingleRegister(a, v) -> echo;  ReadHoldingRegisters(a, q<=8) -> [a, a+1, ..];
//   ReadCoils -> no response;  anything else -> exception ServerDeviceFailure (4)
// output: per connection `sent=<hex> recv=<hex> addr=<1|0>`, joined by " | "
// ---------------------------------------------------------------------------------------------
struct RuleService {
    _addr: std::net::SocketAddr,
}

impl tokio_modbus::server::Service for RuleService {
    type Request = tokio_modbus::SlaveRequest<'static>;
    type Response = Option<Response>;
    type Exception = tokio_modbus::ExceptionCode;
    type Future = std::future::Ready<Result<Option<Response>, tokio_modbus::ExceptionCode>>;
    fn call(&self, req: Self::Request) -> Self::Future {
        std::future::ready(match req.request {
            Request::WriteSingleRegister(a, v) => Ok(Some(Response::WriteSingleRegister(a, v))),
            Request::ReadHoldingRegisters(a, q) if q <= 8 => Ok(Some(Response::ReadHoldingRegisters((0..q).map(|i| a.wrapping_add(i)).collect()))),
            Request::ReadCoils(_, _) => Ok(None),
            _ => Err(tokio_modbus::ExceptionCode::ServerDeviceFailure),
        })
    }
}

pub fn run_conc(tokens: &[&str]) -> String {
    let [proto, workers, plan] = tokens else {
        return "ERR conc".into();
    };
    let workers: usize = workers.parse().unwrap_or(4);
    let conns: Vec<Vec<(u64, Vec<u8>)>> = plan
        .split('|')
        .map(|c| {
            c.split(',')
                .filter_map(|e| {
                    let (d, h) = e.split_once(':')?;
                    Some((d.parse().ok()?, unhex(h)?))
                })
                .collect()
        })
        .collect();
    let rt = tokio::runtime::Builder::new_multi_thread().worker_threads(workers).enable_all().build().unwrap();
    let factory_addrs: Arc<Mutex<Vec<std::net::SocketAddr>>> = Arc::new(Mutex::new(vec![]));
    let proto = proto.to_string();
    let out = rt.block_on(async {
        let v6 = proto.ends_with('6');
        let proto = proto.trim_end_matches('6').to_string();
        let listener = tokio::net::TcpListener::bind(if v6 { "[::1]:0" } else { "127.0.0.1:0" }).await.unwrap();
        let addr = listener.local_addr().unwrap();
        let fa = factory_addrs.clone();
        let proto3 = proto.clone();
        let server = tokio::spawn(async move {
            let new_service = move |a: std::net::SocketAddr| {
                fa.lock().unwrap().push(a);
                Ok(Some(RuleService { _addr: a }))
            };
            if proto3 == "tcp" {
                let on_connected = |stream, a| {
                    let ns = new_service.clone();
                    async move { tokio_modbus::server::tcp::accept_tcp_connection(stream, a, ns) }
                };
                let _ = tokio_modbus::server::tcp::Server::new(listener).serve(&on_connected, |_e| {}).await;
            } else {
                let on_connected = |stream, a| {
                    let ns = new_service.clone();
                    async move { tokio_modbus::server::rtu_over_tcp::accept_tcp_connection(stream, a, ns) }
                };
                let _ = tokio_modbus::server::rtu_over_tcp::Server::new(listener).serve(&on_connected, |_e| {}).await;
            }
        });
        let mut handles = vec![];
        for plan in conns {
            handles.push(tokio::spawn(async move {
                let t0 = Instant::now();
                let s = tokio::net::TcpStream::connect(addr).await.unwrap();
                let local = s.local_addr().unwrap();
                let (mut rd, mut wr) = s.into_split();
                let reader = tokio::spawn(async move {
                    let mut got = vec![];
                    let mut last = Instant::now();
                    let mut tmp = [0u8; 4096];
                    loop {
                        match tokio::time::timeout(Duration::from_millis(2500), rd.read(&mut tmp)).await {
                            Err(_) => break,
                            Ok(Ok(0)) => break,
                            Ok(Ok(n)) => {
                                got.extend_from_slice(&tmp[..n]);
                                last = Instant::now();
                            }
                            Ok(Err(_)) => break,
                        }
                    }
                    (got, last)
                });
                let mut sent = vec![];
                for (delay, frame) in plan {
                    if delay > 0 {
                        tokio::time::sleep(Duration::from_micros(delay)).await;
                    }
                    let _ = wr.write_all(&frame).await;
                    sent.extend_from_slice(&frame);
                }
                let (got, last) = reader.await.unwrap_or_else(|_| (vec![], Instant::now()));
                (local, sent, got, last.duration_since(t0).as_millis())
            }));
        }
        let mut res = vec![];
        for h in handles {
            res.push(h.await.unwrap());
        }
        server.abort();
        res
    });
    let fa = factory_addrs.lock().unwrap().clone();
    let mut parts = vec![];
    for (local, sent, got, ms) in &out {
        let n = fa.iter().filter(|a| *a == local).count();
        parts.push(format!("sent={} recv={} addr={} ms={}", hex(sent), hex(got), n, ms));
    }
    let extra = fa.len() as i64 - out.len() as i64;
    format!("{} ; factory_extra={}", parts.join(" | "), extra)
}

// ---------------------------------------------------------------------------------------------
// Serial RTU server (`server::rtu::Server`) over a pseudo-terminal.
//
// SERSRV <chunks: dHEX,dHEX,..> <service table> <ncalls> <nbytes> <w|e> [abort]
//   The chunks are written to the master side one after the other; the server runs on the slave side
//   with a table service.  The harness waits (event driven, bounded by the watchdog) until the server
//   future has ended, or -- when the caller expects the server to keep waiting (`w`) -- until at least
//   <ncalls> service invocations and <nbytes> reply bytes have been seen, then a short grace period for
//   surplus output.  With `abort` the abort signal of `serve_until` is fired afterwards.
//   output: `<calls ','-joined>|<all reply bytes hex>|WAIT or FINISHED or ABORTED or E:<kind>`
//
// SERE2E <slave> <op> ; <op> ...    op = call|typed <request> <service reply>
//   real asynchronous RTU client on one end of a pty, real serial RTU server on the other.
//   output per op: `<client result> seen=<C:slave:request the service saw for it, '+'-joined>`
// ---------------------------------------------------------------------------------------------
struct SerService {
    table: Vec<crate::SvcReply>,
    idx: std::sync::atomic::AtomicUsize,
    calls: Arc<Mutex<Vec<String>>>,
    notify: Arc<tokio::sync::Notify>,
}

impl tokio_modbus::server::Service for SerService {
    type Request = tokio_modbus::SlaveRequest<'static>;
    type Response = Option<Response>;
    type Exception = tokio_modbus::ExceptionCode;
    type Future = std::future::Ready<Result<Option<Response>, tokio_modbus::ExceptionCode>>;
    fn call(&self, req: Self::Request) -> Self::Future {
        let i = self.idx.fetch_add(1, std::sync::atomic::Ordering::SeqCst);
        self.calls.lock().unwrap().push(format!("C:{}:{}", req.slave, show_req(&req.request)));
        self.notify.notify_one();
        std::future::ready(match self.table.get(i) {
            None | Some(crate::SvcReply::Decline) => Ok(None),
            Some(crate::SvcReply::Reply(r)) => Ok(Some(r.clone())),
            Some(crate::SvcReply::Exc(c)) => Err(*c),
        })
    }
}

pub fn run_sersrv(tokens: &[&str]) -> String {
    let (chunks, sv, ncalls, nbytes, end, abort) = match tokens {
        [c, s, a, b, e] => (c, s, a, b, e, false),
        [c, s, a, b, e, x] if *x == "abort" => (c, s, a, b, e, true),
        _ => return "ERR sersrv".into(),
    };
    let Some(table) = crate::parse_svc(sv) else {
        return "ERR sersrvsvc".into();
    };
    let mut parts: Vec<Vec<u8>> = vec![];
    if *chunks != "-" {
        for c in chunks.split(',') {
            match c.strip_prefix('d').and_then(unhex) {
                Some(v) if !v.is_empty() => parts.push(v),
                _ => return "ERR sersrvchunks".into(),
            }
        }
    }
    let (Ok(ncalls), Ok(nbytes)) = (ncalls.parse::<usize>(), nbytes.parse::<usize>()) else {
        return "ERR sersrvn".into();
    };
    let expect_end = *end == "e";
    let rt = tokio::runtime::Builder::new_current_thread().enable_all().build().unwrap();
    let calls: Arc<Mutex<Vec<String>>> = Arc::new(Mutex::new(vec![]));
    let notify = Arc::new(tokio::sync::Notify::new());
    let out = rt.block_on(async {
        let Ok((mut master, slave)) = tokio_serial::SerialStream::pair() else {
            return "ERR pty".to_string();
        };
        let svc = SerService { table, idx: Default::default(), calls: calls.clone(), notify: notify.clone() };
        let server = tokio_modbus::server::rtu::Server::new(slave);
        let (tx, rx) = tokio::sync::oneshot::channel::<()>();
        let abort_signal = Box::pin(async move {
            let _ = rx.await;
        });
        let n2 = notify.clone();
        let mut task = tokio::spawn(async move {
            let r = server.serve_until(svc, abort_signal).await;
            n2.notify_one();
            r
        });
        let got: Arc<Mutex<Vec<u8>>> = Arc::new(Mutex::new(vec![]));
        let mut ended: Option<String> = None;
        let show_end = |r: Result<io::Result<tokio_modbus::server::Terminated>, tokio::task::JoinError>| match r {
            Ok(Ok(tokio_modbus::server::Terminated::Finished)) => "FINISHED".to_string(),
            Ok(Ok(tokio_modbus::server::Terminated::Aborted)) => "ABORTED".to_string(),
            Ok(Err(e)) => format!("E:{}", show_kind(e.kind())),
            Err(e) if e.is_panic() => "PANIC".to_string(),
            Err(_) => "CANCELLED".to_string(),
        };
        let deadline = tokio::time::Instant::now() + crate::watchdog();
        let mut tmp = [0u8; 1024];
        let mut to_write: std::collections::VecDeque<Vec<u8>> = parts.into();
        let mut grace: Option<tokio::time::Instant> = None;
        loop {
            // feed the next chunk (the pty buffers it; the server reads whatever fragmentation results)
            if let Some(c) = to_write.pop_front() {
                if master.write_all(&c).await.is_err() {
                    break;
                }
                let _ = master.flush().await;
                tokio::task::yield_now().await;
            }
            let satisfied = to_write.is_empty() && !expect_end && calls.lock().unwrap().len() >= ncalls && got.lock().unwrap().len() >= nbytes;
            if satisfied && grace.is_none() {
                grace = Some(tokio::time::Instant::now() + Duration::from_millis(if nbytes == 0 && ncalls == 0 { 60 } else { 25 }));
            }
            let until = grace.unwrap_or(deadline).min(deadline);
            if tokio::time::Instant::now() >= until {
                break;
            }
            let more_to_write = !to_write.is_empty();
            tokio::select! {
                r = &mut task, if ended.is_none() => { ended = Some(show_end(r)); }
                r = master.read(&mut tmp) => match r {
                    Ok(0) | Err(_) => { if ended.is_some() { break; } tokio::time::sleep(Duration::from_millis(1)).await; }
                    Ok(n) => got.lock().unwrap().extend_from_slice(&tmp[..n]),
                },
                _ = notify.notified() => {}
                _ = tokio::time::sleep_until(until) => {}
                _ = std::future::ready(()), if more_to_write => {}
            }
            if ended.is_some() && to_write.is_empty() {
                // drain what the server wrote before it ended
                while let Ok(Ok(n)) = tokio::time::timeout(Duration::from_millis(20), master.read(&mut tmp)).await {
                    if n == 0 {
                        break;
                    }
                    got.lock().unwrap().extend_from_slice(&tmp[..n]);
                }
                break;
            }
        }
        let mut end = ended.unwrap_or_else(|| "WAIT".to_string());
        if end == "WAIT" && abort {
            let _ = tx.send(());
            end = match tokio::time::timeout(crate::watchdog(), &mut task).await {
                Ok(r) => show_end(r),
                Err(_) => "HUNG".to_string(),
            };
        } else if end == "WAIT" {
            task.abort();
        }
        if end == "WAIT" && expect_end {
            end = "HUNG".to_string();
        }
        let c = calls.lock().unwrap().join(",");
        let g = hex(&got.lock().unwrap());
        format!("{}|{}|{}", if c.is_empty() { "-".to_string() } else { c }, if g.is_empty() { "-".to_string() } else { g }, end)
    });
    drop(rt);
    out
}

/// `E2E <tcp|rtu|ser> <slave> <op> ; <op> ...`   op = call|typed <request> <service reply>
/// The real asynchronous client against the real server of the same transport: Modbus TCP over a loopback socket
/// (`client::tcp::connect_slave` / `server::tcp::Server`), RTU over a loopback socket (`client::rtu::attach_slave` /
/// `server::rtu_over_tcp::Server`) or RTU over a pty (`server::rtu::Server`).
pub fn run_e2e(tokens: &[&str]) -> String {
    if tokens.len() < 5 {
        return "ERR e2e".into();
    }
    let proto = tokens[0].to_string();
    let Ok(slave) = tokens[1].parse::<u8>() else {
        return "ERR slave".into();
    };
    let mut ops: Vec<(Request<'static>, bool)> = vec![];
    let mut table: Vec<crate::SvcReply> = vec![];
    for op in tokens[2..].split(|t| *t == ";") {
        match op {
            [h @ ("call" | "typed"), rq, sv] => {
                let (Some(r), Some(mut s)) = (parse_req(rq), crate::parse_svc(sv)) else {
                    return "ERR e2eop".into();
                };
                if s.len() != 1 {
                    return "ERR e2esvc".into();
                }
                ops.push((r, *h == "typed"));
                table.push(s.remove(0));
            }
            _ => return "ERR e2eop".into(),
        }
    }
    let rt = tokio::runtime::Builder::new_current_thread().enable_all().build().unwrap();
    let calls: Arc<Mutex<Vec<String>>> = Arc::new(Mutex::new(vec![]));
    let notify = Arc::new(tokio::sync::Notify::new());
    let out = rt.block_on(async {
        let svc = SerService { table, idx: Default::default(), calls: calls.clone(), notify: notify.clone() };
        let (mut ctx, task): (tokio_modbus::client::Context, tokio::task::JoinHandle<()>) = if proto == "ser" {
            let Ok((master, slave_end)) = tokio_serial::SerialStream::pair() else {
                return "ERR pty".to_string();
            };
            let server = tokio_modbus::server::rtu::Server::new(slave_end);
            let task = tokio::spawn(async move {
                let _ = server.serve_forever(svc).await;
            });
            (tokio_modbus::client::rtu::attach_slave(master, Slave(slave)), task)
        } else {
            let listener = tokio::net::TcpListener::bind("127.0.0.1:0").await.unwrap();
            let addr = listener.local_addr().unwrap();
            let slot = Arc::new(Mutex::new(Some(svc)));
            let p2 = proto.clone();
            let task = tokio::spawn(async move {
                let on_connected = move |stream: tokio::net::TcpStream, _a: std::net::SocketAddr| {
                    let s = slot.lock().unwrap().take();
                    async move { Ok::<_, io::Error>(s.map(|s| (s, stream))) }
                };
                if p2 == "tcp" {
                    let _ = tokio_modbus::server::tcp::Server::new(listener).serve(&on_connected, |_e| {}).await;
                } else {
                    let _ = tokio_modbus::server::rtu_over_tcp::Server::new(listener).serve(&on_connected, |_e| {}).await;
                }
            });
            if proto == "tcp" {
                match tokio_modbus::client::tcp::connect_slave(addr, Slave(slave)).await {
                    Ok(c) => (c, task),
                    Err(e) => return format!("CONNECT:{}", show_kind(e.kind())),
                }
            } else {
                match tokio::net::TcpStream::connect(addr).await {
                    Ok(s) => (tokio_modbus::client::rtu::attach_slave(s, Slave(slave)), task),
                    Err(e) => return format!("CONNECT:{}", show_kind(e.kind())),
                }
            }
        };
        let mut outs = vec![];
        let mut seen = 0usize;
        for (req, typed) in &ops {
            let fut = async {
                if *typed {
                    typed_dispatch!(ctx, req, .await)
                } else {
                    show_call(&ctx.call(req.clone()).await)
                }
            };
            let res = match tokio::time::timeout(crate::watchdog(), fut).await {
                Ok(r) => r,
                Err(_) => "HUNG".to_string(),
            };
            let cs = calls.lock().unwrap();
            outs.push(format!("{res} seen={}", if cs.len() > seen { cs[seen..].join("+") } else { "-".to_string() }));
            seen = cs.len();
        }
        task.abort();
        outs.join(" ; ")
    });
    drop(rt);
    out
}


/// `ACCADDR <tcp|rtu> <socket address>`: the library's `accept_tcp_connection` helper called with a live stream and
/// the given peer address; output `<address as given> n=<factory invocations> same=<1 iff the factory saw that address>`
pub fn run_accaddr(tokens: &[&str]) -> String {
    let [proto, a] = tokens else {
        return "ERR accaddr".into();
    };
    let Ok(want) = a.parse::<std::net::SocketAddr>() else {
        return "ERR addr".into();
    };
    let rt = tokio::runtime::Builder::new_current_thread().enable_all().build().unwrap();
    let seen: Arc<Mutex<Vec<std::net::SocketAddr>>> = Arc::new(Mutex::new(vec![]));
    let s2 = seen.clone();
    let ok = rt.block_on(async {
        let l = tokio::net::TcpListener::bind("127.0.0.1:0").await.unwrap();
        let la = l.local_addr().unwrap();
        let (c, s) = tokio::join!(tokio::net::TcpStream::connect(la), l.accept());
        let (_c, (stream, _)) = (c.unwrap(), s.unwrap());
        let factory = move |x: std::net::SocketAddr| {
            s2.lock().unwrap().push(x);
            Ok(Some(RuleService { _addr: x }))
        };
        if *proto == "tcp" {
            tokio_modbus::server::tcp::accept_tcp_connection(stream, want, factory).map(|o| o.is_some())
        } else {
            tokio_modbus::server::rtu_over_tcp::accept_tcp_connection(stream, want, factory).map(|o| o.is_some())
        }
    });
    let sn = seen.lock().unwrap();
    match ok {
        Ok(true) => format!("{} n={} same={}", a, sn.len(), if sn.len() == 1 && sn[0] == want { 1 } else { 0 }),
        Ok(false) => format!("{a} REJECTED"),
        Err(e) => format!("{a} E:{}", show_kind(e.kind())),
    }
}

// ---------------------------------------------------------------------------------------------
// SURVIVE <tcp|rtu> <end> <plan>   end = e:<Kind> (a later connection's setup fails: `serve` returns that error)
//                                       | r (a later connection is rejected: `serve` keeps listening)
//                                  plan = connections separated by '|', each `<first request hex>/<second request hex>/<svc>/<svc>`
//                                         (the two service tokens are for the model; here the RuleService answers)
//                                         (WriteSingleRegister frames, which the RuleService echoes)
// The connections of the plan are established and exchange their first request with the RuleService; then one more
// connection arrives whose setup ends as <end>; after the accept loop has dealt with it (for e:<Kind>: after
// `serve` has returned), every established connection sends its second request.  A connection that is served
// independently of the others still gets its reply (the connection tasks do not belong to the accept loop).
// output: `serve=<E:Kind|LISTENING> | <per connection: first=<hex> second=<hex>>`
// ---------------------------------------------------------------------------------------------
pub fn run_survive(tokens: &[&str]) -> String {
    let [proto, end, plan] = tokens else {
        return "ERR survive".into();
    };
    let plan: Vec<(Vec<u8>, Vec<u8>)> = plan
        .split('|')
        .filter_map(|c| {
            let mut it = c.split('/');
            Some((unhex(it.next()?)?, unhex(it.next()?)?))
        })
        .collect();
    let n = plan.len();
    let rt = tokio::runtime::Builder::new_multi_thread().worker_threads(2).enable_all().build().unwrap();
    let proto = proto.to_string();
    let end = end.to_string();
    rt.block_on(async {
        let listener = tokio::net::TcpListener::bind("127.0.0.1:0").await.unwrap();
        let addr = listener.local_addr().unwrap();
        let setups = Arc::new(std::sync::atomic::AtomicUsize::new(0));
        let (s2, end2, proto2) = (setups.clone(), end.clone(), proto.clone());
        let hello_mode = end == "h";
        let hello2 = hello_mode;
        let server = tokio::spawn(async move {
            let fail_at = n;
            let mk = move |i: usize| -> io::Result<bool> {
                if i < fail_at {
                    return Ok(true);
                }
                if let Some(k) = end2.strip_prefix("e:") {
                    return Err(io::Error::new(parse_kind(k).unwrap_or(io::ErrorKind::Other), "scripted setup failure"));
                }
                Ok(false)
            };
            if proto2 == "tcp" {
                let on_connected = |stream, a| {
                    let i = s2.fetch_add(1, std::sync::atomic::Ordering::SeqCst);
                    let d = mk(i);
                    let hello = hello2;
                    async move {
                        let mut stream: tokio::net::TcpStream = stream;
                        if hello {
                            // a connection setup that really awaits something from its peer (a hello byte, a TLS handshake ...)
                            let mut b = [0u8; 1];
                            stream.read_exact(&mut b).await?;
                        }
                        match d {
                            Ok(true) => tokio_modbus::server::tcp::accept_tcp_connection(stream, a, |x| Ok(Some(RuleService { _addr: x }))),
                            Ok(false) => Ok(None),
                            Err(e) => Err(e),
                        }
                    }
                };
                tokio_modbus::server::tcp::Server::new(listener).serve(&on_connected, |_e| {}).await
            } else {
                let on_connected = |stream, a| {
                    let i = s2.fetch_add(1, std::sync::atomic::Ordering::SeqCst);
                    let d = mk(i);
                    let hello = hello2;
                    async move {
                        let mut stream: tokio::net::TcpStream = stream;
                        if hello {
                            let mut b = [0u8; 1];
                            stream.read_exact(&mut b).await?;
                        }
                        match d {
                            Ok(true) => tokio_modbus::server::rtu_over_tcp::accept_tcp_connection(stream, a, |x| Ok(Some(RuleService { _addr: x }))),
                            Ok(false) => Ok(None),
                            Err(e) => Err(e),
                        }
                    }
                };
                tokio_modbus::server::rtu_over_tcp::Server::new(listener).serve(&on_connected, |_e| {}).await
            }
        });
        async fn exchange(s: &mut tokio::net::TcpStream, f: &[u8]) -> Vec<u8> {
            if s.write_all(f).await.is_err() {
                return vec![];
            }
            let mut got = vec![];
            let mut tmp = [0u8; 512];
            // the RuleService echoes WriteSingleRegister: as many bytes come back as the request has (a leading hello byte,
            // 0x48, is consumed by the connection setup and not echoed)
            let want = if f.first() == Some(&0x48) && f.len() % 2 == 1 { f.len() - 1 } else { f.len() };
            while got.len() < want {
                match tokio::time::timeout(crate::watchdog(), s.read(&mut tmp)).await {
                    Ok(Ok(0)) | Ok(Err(_)) | Err(_) => break,
                    Ok(Ok(m)) => got.extend_from_slice(&tmp[..m]),
                }
            }
            got
        }
        let mut conns = vec![];
        let mut firsts = vec![];
        if hello_mode {
            // all peers connect first (their setups overlap: each on_connected awaits its peer's hello byte while the later
            // connections are already waiting to be accepted); a little later the hellos and first requests follow, in order
            for _ in 0..n {
                conns.push(tokio::net::TcpStream::connect(addr).await.unwrap());
                tokio::time::sleep(Duration::from_millis(15)).await;
            }
            for (k, s) in conns.iter_mut().enumerate() {
                let mut f = vec![0x48u8];
                f.extend_from_slice(&plan[k].0);
                let mut got = exchange(s, &f).await;
                // (exchange waits for as many bytes as it sent; the reply is one byte shorter than hello + request)
                got.truncate(plan[k].0.len());
                firsts.push(got);
            }
            let mut parts = vec![];
            for (k, s) in conns.iter_mut().enumerate() {
                let second = exchange(s, &plan[k].1).await;
                parts.push(format!("first={} second={}", hex(&firsts[k]), hex(&second)));
            }
            let st = if server.is_finished() { "ENDED" } else { "LISTENING" };
            server.abort();
            return format!("serve={} | {}", st, parts.join(" | "));
        }
        for k in 0..n {
            let mut s = tokio::net::TcpStream::connect(addr).await.unwrap();
            firsts.push(exchange(&mut s, &plan[k].0).await);
            conns.push(s);
        }
        // the connection whose setup fails / is rejected
        let extra = tokio::net::TcpStream::connect(addr).await.unwrap();
        let t0 = Instant::now();
        let mut server = server;
        let serve_end = if end.starts_with("e:") {
            match tokio::time::timeout(crate::watchdog(), &mut server).await {
                Ok(Ok(Err(e))) => format!("E:{}", show_kind(e.kind())),
                Ok(Ok(Ok(()))) => "OK".to_string(),
                Ok(Err(_)) => "PANIC".to_string(),
                Err(_) => "LISTENING".to_string(),
            }
        } else {
            while setups.load(std::sync::atomic::Ordering::SeqCst) <= n && t0.elapsed() < crate::watchdog() {
                tokio::time::sleep(Duration::from_millis(2)).await;
            }
            tokio::time::sleep(Duration::from_millis(20)).await;
            if server.is_finished() { "ENDED".to_string() } else { "LISTENING".to_string() }
        };
        let mut parts = vec![];
        for (k, mut s) in conns.into_iter().enumerate() {
            let second = exchange(&mut s, &plan[k].1).await;
            parts.push(format!("first={} second={}", hex(&firsts[k]), hex(&second)));
        }
        drop(extra);
        server.abort();
        format!("serve={} | {}", serve_end, parts.join(" | "))
    })
}
