//! A scripted in-memory transport: every poll of the I/O object consumes one script event.
//! Exhausted scripts: reads stay pending forever (and flag `starved`), writes accept everything,
//! flush and shutdown succeed.
use std::collections::VecDeque;
use std::io;
use std::pin::Pin;
use std::sync::{Arc, Mutex};
use std::task::{Context, Poll};

use tokio::io::{AsyncRead, AsyncWrite, ReadBuf};

use crate::text::{parse_kind, unhex};

#[derive(Debug, Clone)]
pub enum Rev {
    Data(Vec<u8>),
    Eof,
    Err(io::ErrorKind),
    Pend,
    /// `r<count>x<hex>`: the chunk is delivered <count> times, one per poll, WITHOUT being recorded in `delivered`
    /// (sustained input whose bookkeeping must not drown the library's own memory use in the heap meter)
    Repeat(Vec<u8>, usize),
}
#[derive(Debug, Clone)]
pub enum Wev {
    Accept(usize),
    Zero,
    Err(io::ErrorKind),
    Pend,
}
#[derive(Debug, Clone)]
pub enum Fev {
    Ok,
    Err(io::ErrorKind),
    Pend,
}

fn parse_list<T>(s: &str, f: impl Fn(&str) -> Option<T>) -> Option<Vec<T>> {
    if s == "-" {
        return Some(vec![]);
    }
    s.split(',').map(f).collect()
}

pub fn parse_revs(s: &str) -> Option<Vec<Rev>> {
    parse_list(s, |e| {
        if e == "p" {
            Some(Rev::Pend)
        } else if e == "eof" {
            Some(Rev::Eof)
        } else if let Some(k) = e.strip_prefix("e:") {
            parse_kind(k).map(Rev::Err)
        } else if let Some(h) = e.strip_prefix('d') {
            let v = unhex(h)?;
            if v.is_empty() {
                None
            } else {
                Some(Rev::Data(v))
            }
        } else if let Some(rest) = e.strip_prefix('r') {
            let (n, h) = rest.split_once('x')?;
            let v = unhex(h)?;
            if v.is_empty() {
                None
            } else {
                Some(Rev::Repeat(v, n.parse().ok()?))
            }
        } else {
            None
        }
    })
}
pub fn parse_wevs(s: &str) -> Option<Vec<Wev>> {
    parse_list(s, |e| {
        if e == "p" {
            Some(Wev::Pend)
        } else if e == "z" {
            Some(Wev::Zero)
        } else if let Some(k) = e.strip_prefix("e:") {
            parse_kind(k).map(Wev::Err)
        } else if let Some(n) = e.strip_prefix('a') {
            n.parse().ok().map(Wev::Accept)
        } else {
            None
        }
    })
}
pub fn parse_fevs(s: &str) -> Option<Vec<Fev>> {
    parse_list(s, |e| {
        if e == "p" {
            Some(Fev::Pend)
        } else if e == "ok" {
            Some(Fev::Ok)
        } else if let Some(k) = e.strip_prefix("e:") {
            parse_kind(k).map(Fev::Err)
        } else {
            None
        }
    })
}

/// What happened on the transport, in order (only the entries the server trace needs).
#[derive(Debug, Clone, PartialEq)]
pub enum Log {
    Wrote(Vec<u8>),
    Call(String),
    Report(String),
    Dropped,
}

#[derive(Debug, Default)]
pub struct Shared {
    pub rq: VecDeque<Rev>,
    pub wq: VecDeque<Wev>,
    pub fq: VecDeque<Fev>,
    pub sq: VecDeque<Fev>,
    /// bytes accepted since the last reset
    pub accepted: Vec<u8>,
    /// read chunks actually delivered (after clipping to the offered capacity)
    pub delivered: Vec<Vec<u8>>,
    pub shutdowns: usize,
    /// the last poll found the read script exhausted
    pub starved: bool,
    /// wake the task on scripted Pending (needed under a real runtime)
    pub self_wake: bool,
    pub log: Vec<Log>,
    pub notify: Option<Arc<tokio::sync::Notify>>,
    pub max_read_capacity_seen: usize,
    /// some scripted data chunk did not fit into the capacity offered by the caller and was delivered in pieces
    pub clipped: bool,
    /// a read has returned end of stream: the peer is gone, so an unscripted shutdown fails with NotConnected (as a socket's does)
    pub eof_seen: bool,
}

#[derive(Debug)]
pub struct Transport(pub Arc<Mutex<Shared>>);

impl Transport {
    pub fn new() -> Self {
        Transport(Arc::new(Mutex::new(Shared::default())))
    }
}

impl Drop for Transport {
    fn drop(&mut self) {
        // only the copy owned by the library matters; the harness keeps `Arc<Mutex<Shared>>` itself
        if let Ok(mut s) = self.0.lock() {
            s.log.push(Log::Dropped);
            if let Some(n) = &s.notify {
                n.notify_one();
            }
        }
    }
}

impl AsyncRead for Transport {
    fn poll_read(self: Pin<&mut Self>, cx: &mut Context<'_>, buf: &mut ReadBuf<'_>) -> Poll<io::Result<()>> {
        let mut s = self.0.lock().unwrap();
        s.starved = false;
        match s.rq.pop_front() {
            None => {
                s.starved = true;
                if let Some(n) = &s.notify {
                    n.notify_one();
                }
                Poll::Pending
            }
            Some(Rev::Pend) => {
                if s.self_wake {
                    cx.waker().wake_by_ref();
                }
                Poll::Pending
            }
            Some(Rev::Eof) => {
                s.eof_seen = true;
                Poll::Ready(Ok(()))
            }
            Some(Rev::Err(k)) => Poll::Ready(Err(io::Error::new(k, "scripted read error"))),
            Some(Rev::Repeat(d, left)) => {
                // delivered whole or not at all in this poll; a chunk that does not fit is delivered in pieces like Data
                if d.len() > buf.remaining() {
                    let mut head = d.clone();
                    let rest = head.split_off(buf.remaining());
                    buf.put_slice(&head);
                    s.clipped = true;
                    if left > 1 {
                        s.rq.push_front(Rev::Repeat(d, left - 1));
                    }
                    s.rq.push_front(Rev::Data(rest));
                } else {
                    buf.put_slice(&d);
                    if left > 1 {
                        s.rq.push_front(Rev::Repeat(d, left - 1));
                    }
                }
                Poll::Ready(Ok(()))
            }
            Some(Rev::Data(mut d)) => {
                let n = d.len().min(buf.remaining());
                s.max_read_capacity_seen = s.max_read_capacity_seen.max(buf.remaining());
                let rest = d.split_off(n);
                if !rest.is_empty() {
                    s.clipped = true;
                }
                buf.put_slice(&d);
                s.delivered.push(d);
                if !rest.is_empty() {
                    s.rq.push_front(Rev::Data(rest));
                }
                Poll::Ready(Ok(()))
            }
        }
    }
}

impl AsyncWrite for Transport {
    fn poll_write(self: Pin<&mut Self>, cx: &mut Context<'_>, buf: &[u8]) -> Poll<io::Result<usize>> {
        let mut s = self.0.lock().unwrap();
        let n = match s.wq.pop_front() {
            None => buf.len(),
            Some(Wev::Accept(n)) => n.min(buf.len()),
            Some(Wev::Zero) => 0,
            Some(Wev::Err(k)) => return Poll::Ready(Err(io::Error::new(k, "scripted write error"))),
            Some(Wev::Pend) => {
                if s.self_wake {
                    cx.waker().wake_by_ref();
                }
                return Poll::Pending;
            }
        };
        s.accepted.extend_from_slice(&buf[..n]);
        if n > 0 {
            if let Some(Log::Wrote(v)) = s.log.last_mut() {
                v.extend_from_slice(&buf[..n]);
            } else {
                s.log.push(Log::Wrote(buf[..n].to_vec()));
            }
        }
        Poll::Ready(Ok(n))
    }

    fn poll_flush(self: Pin<&mut Self>, cx: &mut Context<'_>) -> Poll<io::Result<()>> {
        let mut s = self.0.lock().unwrap();
        match s.fq.pop_front() {
            None | Some(Fev::Ok) => Poll::Ready(Ok(())),
            Some(Fev::Err(k)) => Poll::Ready(Err(io::Error::new(k, "scripted flush error"))),
            Some(Fev::Pend) => {
                if s.self_wake {
                    cx.waker().wake_by_ref();
                }
                Poll::Pending
            }
        }
    }

    fn poll_shutdown(self: Pin<&mut Self>, cx: &mut Context<'_>) -> Poll<io::Result<()>> {
        let mut s = self.0.lock().unwrap();
        match s.sq.pop_front() {
            None if s.eof_seen => {
                s.shutdowns += 1;
                Poll::Ready(Err(io::Error::new(io::ErrorKind::NotConnected, "peer already gone")))
            }
            None | Some(Fev::Ok) => {
                s.shutdowns += 1;
                Poll::Ready(Ok(()))
            }
            Some(Fev::Err(k)) => {
                s.shutdowns += 1;
                Poll::Ready(Err(io::Error::new(k, "scripted shutdown error")))
            }
            Some(Fev::Pend) => {
                if s.self_wake {
                    cx.waker().wake_by_ref();
                }
                Poll::Pending
            }
        }
    }
}
