//! Correspondence harness: drives tokio-modbus (built from /repo's working tree) through its
//! public API on the case lines read from stdin and prints one canonical result line per case.
mod live;
mod text;
mod transport;

use std::future::Future;
use std::io::{self, BufRead, Write};
use std::panic::{catch_unwind, AssertUnwindSafe};
use std::pin::Pin;
use std::str::FromStr;
use std::sync::atomic::{AtomicBool, AtomicUsize, Ordering};
use std::sync::{Arc, Mutex};
use std::task::{Context, Poll, Waker};
use std::time::Duration;

use tokio_modbus::bytes::Bytes;
use tokio_modbus::client::{Client as _, Context as ClientContext, Reader as _, Writer as _};
use tokio_modbus::prelude::SlaveContext as _;
use tokio_modbus::{ExceptionCode, ExceptionResponse, FunctionCode, Request, Response, Slave, SlaveRequest};

use text::*;
use transport::*;

static PANICKED: AtomicBool = AtomicBool::new(false);
/// consecutive server cases that hit the watchdog; after a few, the watchdog is shortened so that a change which
/// makes every connection hang cannot stall a whole check for hours
static HUNG_STREAK: AtomicUsize = AtomicUsize::new(0);

pub(crate) fn watchdog() -> Duration {
    if HUNG_STREAK.load(Ordering::SeqCst) >= 3 {
        Duration::from_millis(300)
    } else {
        Duration::from_secs(20)
    }
}
/// read chunks actually delivered in the last case, if some scripted chunk had to be split
static LAST_CLIP: Mutex<Option<String>> = Mutex::new(None);

fn note_clip(shared: &Arc<Mutex<Shared>>) {
    let s = shared.lock().unwrap();
    if s.clipped {
        *LAST_CLIP.lock().unwrap() = Some(s.delivered.iter().map(|d| hex(d)).collect::<Vec<_>>().join(","));
    }
}

// ---- counting allocator (peak live heap, for the "never bloats" clause) ----
struct Counting;
static LIVE: AtomicUsize = AtomicUsize::new(0);
static PEAK: AtomicUsize = AtomicUsize::new(0);
unsafe impl std::alloc::GlobalAlloc for Counting {
    unsafe fn alloc(&self, l: std::alloc::Layout) -> *mut u8 {
        let p = std::alloc::System.alloc(l);
        if !p.is_null() {
            let v = LIVE.fetch_add(l.size(), Ordering::Relaxed) + l.size();
            PEAK.fetch_max(v, Ordering::Relaxed);
        }
        p
    }
    unsafe fn dealloc(&self, p: *mut u8, l: std::alloc::Layout) {
        LIVE.fetch_sub(l.size(), Ordering::Relaxed);
        std::alloc::System.dealloc(p, l)
    }
    unsafe fn realloc(&self, p: *mut u8, l: std::alloc::Layout, n: usize) -> *mut u8 {
        let q = std::alloc::System.realloc(p, l, n);
        if !q.is_null() {
            if n >= l.size() {
                let v = LIVE.fetch_add(n - l.size(), Ordering::Relaxed) + (n - l.size());
                PEAK.fetch_max(v, Ordering::Relaxed);
            } else {
                LIVE.fetch_sub(l.size() - n, Ordering::Relaxed);
            }
        }
        q
    }
}
#[global_allocator]
static ALLOC: Counting = Counting;

extern "C" {
    fn __errno_location() -> *mut i32;
}
fn set_errno(v: i32) {
    unsafe { *__errno_location() = v }
}

fn show_io<T>(r: &io::Result<T>, f: impl Fn(&T) -> String) -> String {
    match r {
        Ok(v) => format!("V {}", f(v)),
        Err(e) => format!("E {}", show_kind(e.kind())),
    }
}

// ---------------------------------------------------------------------------------------------
// client scenarios (manual polling, no runtime)
// ---------------------------------------------------------------------------------------------
enum Polled<T> {
    Done(T),
    Wait,
    Abandoned,
}

fn drive<T>(fut: Pin<&mut dyn Future<Output = T>>, shared: &Arc<Mutex<Shared>>, budget: Option<usize>, errno: Option<i32>) -> Polled<T> {
    let mut fut = fut;
    let waker = Waker::noop();
    let mut cx = Context::from_waker(waker);
    let mut pendings = 0usize;
    let mut spins = 0usize;
    loop {
        if let Some(e) = errno {
            set_errno(e);
        }
        match fut.as_mut().poll(&mut cx) {
            Poll::Ready(v) => return Polled::Done(v),
            Poll::Pending => {
                if shared.lock().unwrap().starved {
                    return Polled::Wait;
                }
                if let Some(b) = budget {
                    if pendings >= b {
                        return Polled::Abandoned;
                    }
                }
                pendings += 1;
                spins += 1;
                if spins > 1_000_000 {
                    return Polled::Wait;
                }
            }
        }
    }
}

fn run_cli(tokens: &[&str], errno: Option<i32>) -> String {
    let proto = tokens[0];
    let slave: u8 = match tokens[1].parse() {
        Ok(s) => s,
        Err(_) => return "ERR slave".into(),
    };
    let tr = Transport::new();
    let shared = tr.0.clone();
    let mut ctx: ClientContext = match proto {
        "tcp" => tokio_modbus::client::tcp::attach_slave(tr, Slave(slave)),
        "rtu" => tokio_modbus::client::rtu::attach_slave(tr, Slave(slave)),
        _ => return "ERR proto".into(),
    };
    let mut outs: Vec<String> = vec![];
    for op in tokens[2..].split(|t| *t == ";") {
        let out = match op {
            [h @ ("call" | "typed"), rq, w, f, r, d] => {
                let (Some(req), Some(ws), Some(fs), Some(rs)) = (parse_req(rq), parse_wevs(w), parse_fevs(f), parse_revs(r)) else {
                    outs.push("ERR callargs".into());
                    continue;
                };
                let budget: Option<usize> = if *d == "-" { None } else { d.parse().ok() };
                {
                    let mut s = shared.lock().unwrap();
                    s.wq.extend(ws);
                    s.fq.extend(fs);
                    s.rq.extend(rs);
                    s.accepted.clear();
                    s.starved = false;
                }
                let res: String = if *h == "call" {
                    let mut fut = Box::pin(ctx.call(req));
                    match drive(fut.as_mut(), &shared, budget, errno) {
                        Polled::Done(r) => show_call(&r),
                        Polled::Wait => "WAIT".into(),
                        Polled::Abandoned => "ABANDONED".into(),
                    }
                } else {
                    typed_call(&mut ctx, &req, &shared, budget, errno)
                };
                let (acc, q) = {
                    let sh = shared.lock().unwrap();
                    (hex(&sh.accepted), sh.rq.len())
                };
                format!("{res} w={acc} q={q}")
            }
            ["slave", n] => match n.parse::<u8>() {
                Ok(n) => {
                    ctx.set_slave(Slave(n));
                    "ok".into()
                }
                Err(_) => "ERR slave".into(),
            },
            ["disc", s] | ["disc", s, _] => {
                let Some(ss) = parse_fevs(s) else {
                    outs.push("ERR disc".into());
                    continue;
                };
                // optional third token: the disconnect future is dropped after that many Pending polls
                let dbudget: Option<usize> = match op {
                    [_, _, d] if *d != "-" => d.parse().ok(),
                    _ => None,
                };
                let before = {
                    let mut sh = shared.lock().unwrap();
                    sh.sq.extend(ss);
                    sh.shutdowns
                };
                let mut fut = Box::pin(ctx.disconnect());
                let res = match drive(fut.as_mut(), &shared, dbudget, errno) {
                    Polled::Done(Ok(())) => "OK".to_string(),
                    Polled::Done(Err(e)) => format!("T:{}", show_kind(e.kind())),
                    _ => "WAIT".into(),
                };
                drop(fut);
                let after = shared.lock().unwrap().shutdowns;
                format!("{res} sd={}", after - before)
            }
            _ => "ERR oplen".into(),
        };
        outs.push(out);
    }
    note_clip(&shared);
    outs.join(" ; ")
}

// ---------------------------------------------------------------------------------------------
// TIDS <n> <order>   n TCP client contexts in this process, each on its own scripted transport; `order` is a
// ','-list of context indices: one call (ReadHoldingRegisters, left waiting for a reply that never comes) on that
// context per entry.  output: per context the transaction ids it transmitted, `.`-joined, contexts joined by `|`.
// ---------------------------------------------------------------------------------------------
fn run_tids(tokens: &[&str]) -> String {
    let [n, order] = tokens else {
        return "ERR tids".into();
    };
    let n: usize = n.parse().unwrap_or(1);
    let mut ctxs = vec![];
    for _ in 0..n {
        let tr = Transport::new();
        let shared = tr.0.clone();
        ctxs.push((tokio_modbus::client::tcp::attach_slave(tr, Slave(1)), shared, Vec::<String>::new()));
    }
    for e in order.split(',') {
        let Ok(i) = e.parse::<usize>() else {
            return "ERR tidsorder".into();
        };
        let Some((ctx, shared, ids)) = ctxs.get_mut(i) else {
            return "ERR tidsindex".into();
        };
        shared.lock().unwrap().accepted.clear();
        {
            let mut fut = Box::pin(ctx.call(Request::ReadHoldingRegisters(1, 1)));
            let _ = drive(fut.as_mut(), shared, None, None);
        }
        let acc = shared.lock().unwrap().accepted.clone();
        ids.push(if acc.len() >= 2 { format!("{}", u16::from(acc[0]) << 8 | u16::from(acc[1])) } else { "-".into() });
    }
    ctxs.iter().map(|(_, _, ids)| if ids.is_empty() { "-".to_string() } else { ids.join(".") }).collect::<Vec<_>>().join("|")
}

fn show_typed<T>(r: Polled<tokio_modbus::Result<T>>, f: impl Fn(&T) -> String) -> String {
    match r {
        Polled::Done(Ok(Ok(v))) => f(&v),
        Polled::Done(Ok(Err(c))) => format!("EX:{}", u8::from(c)),
        Polled::Done(Err(e)) => show_error(&e),
        Polled::Wait => "WAIT".into(),
        Polled::Abandoned => "ABANDONED".into(),
    }
}

fn typed_call(ctx: &mut ClientContext, req: &Request<'static>, shared: &Arc<Mutex<Shared>>, budget: Option<usize>, errno: Option<i32>) -> String {
    use Request::*;
    macro_rules! go {
        ($fut:expr, $f:expr) => {{
            let mut fut = Box::pin($fut);
            let r = drive(fut.as_mut(), shared, budget, errno);
            show_typed(r, $f)
        }};
    }
    let b = |v: &Vec<bool>| format!("B:{}", bits(v));
    let w = |v: &Vec<u16>| format!("W:{}", words(v));
    let u = |_: &()| "U".to_string();
    match req {
        ReadCoils(a, q) => go!(ctx.read_coils(*a, *q), b),
        ReadDiscreteInputs(a, q) => go!(ctx.read_discrete_inputs(*a, *q), b),
        ReadInputRegisters(a, q) => go!(ctx.read_input_registers(*a, *q), w),
        ReadHoldingRegisters(a, q) => go!(ctx.read_holding_registers(*a, *q), w),
        ReadWriteMultipleRegisters(ra, rq, wa, ws) => go!(ctx.read_write_multiple_registers(*ra, *rq, *wa, ws), w),
        WriteSingleCoil(a, c) => go!(ctx.write_single_coil(*a, *c), u),
        WriteMultipleCoils(a, cs) => go!(ctx.write_multiple_coils(*a, cs), u),
        WriteSingleRegister(a, v) => go!(ctx.write_single_register(*a, *v), u),
        WriteMultipleRegisters(a, vs) => go!(ctx.write_multiple_registers(*a, vs), u),
        MaskWriteRegister(a, x, y) => go!(ctx.masked_write_register(*a, *x, *y), u),
        _ => "ERR typedreq".into(),
    }
}

// ---------------------------------------------------------------------------------------------
// server scenarios (real listener, injected scripted transport, current-thread runtime)
// ---------------------------------------------------------------------------------------------
#[derive(Clone, Debug)]
pub(crate) enum SvcReply {
    Reply(Response),
    Decline,
    Exc(ExceptionCode),
}

pub(crate) fn parse_svc(s: &str) -> Option<Vec<SvcReply>> {
    if s == "-" {
        return Some(vec![]);
    }
    s.split(',')
        .map(|e| {
            if e == "n" {
                Some(SvcReply::Decline)
            } else if let Some(r) = e.strip_prefix("r=") {
                parse_rsp(r).map(SvcReply::Reply)
            } else if let Some(c) = e.strip_prefix("x=") {
                c.parse::<u8>().ok().map(|c| SvcReply::Exc(ExceptionCode::new(c)))
            } else if let Some(c) = e.strip_prefix("y=") {
                c.parse::<u8>().ok().map(|c| SvcReply::Exc(ExceptionCode::Custom(c)))
            } else {
                None
            }
        })
        .collect()
}

struct TableService {
    table: Vec<SvcReply>,
    idx: AtomicUsize,
    shared: Arc<Mutex<Shared>>,
}

impl tokio_modbus::server::Service for TableService {
    type Request = SlaveRequest<'static>;
    type Response = Option<Response>;
    type Exception = ExceptionCode;
    type Future = std::future::Ready<Result<Option<Response>, ExceptionCode>>;

    fn call(&self, req: Self::Request) -> Self::Future {
        let i = self.idx.fetch_add(1, Ordering::SeqCst);
        self.shared.lock().unwrap().log.push(Log::Call(format!("C:{}:{}", req.slave, show_req(&req.request))));
        std::future::ready(match self.table.get(i) {
            None | Some(SvcReply::Decline) => Ok(None),
            Some(SvcReply::Reply(r)) => Ok(Some(r.clone())),
            Some(SvcReply::Exc(c)) => Err(*c),
        })
    }
}

/// Per-process server context: one runtime and one listener per server flavour, reused by all
/// cases (binding a fresh port per case exhausts the ephemeral port range).
pub struct SrvCtx {
    rt: tokio::runtime::Runtime,
    tcp: Option<(tokio_modbus::server::tcp::Server, std::net::SocketAddr)>,
    rtu: Option<(tokio_modbus::server::rtu_over_tcp::Server, std::net::SocketAddr)>,
}

impl SrvCtx {
    fn new() -> Self {
        let rt = tokio::runtime::Builder::new_current_thread().enable_all().build().unwrap();
        SrvCtx { rt, tcp: None, rtu: None }
    }
    fn ensure(&mut self) {
        if self.tcp.is_none() {
            let (a, b) = self.rt.block_on(async {
                let l1 = tokio::net::TcpListener::bind("127.0.0.1:0").await.unwrap();
                let a1 = l1.local_addr().unwrap();
                let l2 = tokio::net::TcpListener::bind("127.0.0.1:0").await.unwrap();
                let a2 = l2.local_addr().unwrap();
                ((tokio_modbus::server::tcp::Server::new(l1), a1), (tokio_modbus::server::rtu_over_tcp::Server::new(l2), a2))
            });
            self.tcp = Some(a);
            self.rtu = Some(b);
        }
    }
}

fn finish_trace(shared: &Arc<Mutex<Shared>>, timed_out: bool) -> String {
    let s = shared.lock().unwrap();
    let mut out: Vec<String> = vec![];
    let mut reported = false;
    let mut dropped = false;
    for e in &s.log {
        match e {
            Log::Wrote(b) => out.push(format!("W:{}", hex(b))),
            Log::Call(c) => out.push(c.clone()),
            Log::Report(k) => {
                out.push(format!("R:{k}"));
                reported = true;
            }
            Log::Dropped => dropped = true,
        }
    }
    if PANICKED.load(Ordering::SeqCst) {
        out.push("PANIC".into());
    } else if reported {
    } else if dropped {
        out.push("CLOSED".into());
    } else if timed_out {
        out.push("HUNG".into());
    } else {
        out.push("WAIT".into());
    }
    out.join(",")
}

fn run_srv(ctx: &mut SrvCtx, tokens: &[&str]) -> String {
    let [proto, r, w, f, sv] = tokens else {
        return "ERR srv".into();
    };
    let (Some(rs), Some(ws), Some(fs), Some(table)) = (parse_revs(r), parse_wevs(w), parse_fevs(f), parse_svc(sv)) else {
        return "ERR srvargs".into();
    };
    let tr = Transport::new();
    let shared = tr.0.clone();
    let notify = Arc::new(tokio::sync::Notify::new());
    {
        let mut s = shared.lock().unwrap();
        s.rq.extend(rs);
        s.wq.extend(ws);
        s.fq.extend(fs);
        s.self_wake = true;
        s.notify = Some(notify.clone());
    }
    ctx.ensure();
    let slot = Arc::new(Mutex::new(Some(tr)));
    let addr = if *proto == "tcp" { ctx.tcp.as_ref().unwrap().1 } else { ctx.rtu.as_ref().unwrap().1 };
    let (tcp_server, rtu_server) = (&ctx.tcp.as_ref().unwrap().0, &ctx.rtu.as_ref().unwrap().0);
    let trace = ctx.rt.block_on(async {
        let sh2 = shared.clone();
        let on_err = move |e: io::Error| {
            let mut s = sh2.lock().unwrap();
            s.log.push(Log::Report(show_kind(e.kind())));
            if let Some(n) = &s.notify {
                n.notify_one();
            }
        };
        let sh3 = shared.clone();
        let table2 = table.clone();
        let slot2 = slot.clone();
        let on_connected = move |_stream: tokio::net::TcpStream, _addr: std::net::SocketAddr| {
            let t = slot2.lock().unwrap().take();
            let svc = TableService { table: table2.clone(), idx: AtomicUsize::new(0), shared: sh3.clone() };
            async move { Ok::<_, io::Error>(t.map(|t| (svc, t))) }
        };
        let driver = async {
            let _c = tokio::net::TcpStream::connect(addr).await.unwrap();
            // wait until the connection task has ended or is starved of input
            let r = tokio::time::timeout(watchdog(), async {
                loop {
                    notify.notified().await;
                    let s = shared.lock().unwrap();
                    let done = s.starved || s.log.iter().any(|e| matches!(e, Log::Dropped | Log::Report(_)));
                    if done {
                        break;
                    }
                }
            })
            .await;
            if r.is_err() {
                HUNG_STREAK.fetch_add(1, Ordering::SeqCst);
            } else {
                HUNG_STREAK.store(0, Ordering::SeqCst);
            }
            r.is_err()
        };
        let timed_out = match *proto {
            "tcp" => {
                tokio::select! {
                    _ = tcp_server.serve(&on_connected, on_err) => false,
                    t = driver => t,
                }
            }
            "rtu" => {
                tokio::select! {
                    _ = rtu_server.serve(&on_connected, on_err) => false,
                    t = driver => t,
                }
            }
            _ => false,
        };
        // snapshot while a still-waiting connection task is alive (it stays parked in the runtime)
        note_clip(&shared);
        finish_trace(&shared, timed_out)
    });
    trace
}


// ---------------------------------------------------------------------------------------------
// accept loop: ACCEPT <proto> <goodhex> <badhex> <events>   events: s | b | r | e:<Kind> | a
// ---------------------------------------------------------------------------------------------
fn run_accept(tokens: &[&str]) -> String {
    let [proto, good, bad, evs] = tokens else {
        return "ERR accept".into();
    };
    let (Some(good), Some(bad)) = (unhex(good), unhex(bad)) else {
        return "ERR accepthex".into();
    };
    let events: Vec<String> = evs.split(',').map(|s| s.to_string()).collect();
    let rt = tokio::runtime::Builder::new_current_thread().enable_all().build().unwrap();
    let notify = Arc::new(tokio::sync::Notify::new());
    let conns: Arc<Mutex<Vec<Arc<Mutex<Shared>>>>> = Arc::new(Mutex::new(vec![]));
    let setups = Arc::new(AtomicUsize::new(0));
    let reports = Arc::new(AtomicUsize::new(0));
    let out = rt.block_on(async {
        let listener = tokio::net::TcpListener::bind("127.0.0.1:0").await.unwrap();
        let addr = listener.local_addr().unwrap();
        let rep2 = reports.clone();
        let n2 = notify.clone();
        let on_err = move |_e: io::Error| {
            rep2.fetch_add(1, Ordering::SeqCst);
            n2.notify_one();
        };
        let (evs2, conns2, setups2, n3) = (events.clone(), conns.clone(), setups.clone(), notify.clone());
        let on_connected = move |_stream: tokio::net::TcpStream, _addr: std::net::SocketAddr| {
            let i = setups2.fetch_add(1, Ordering::SeqCst);
            let ev = evs2.get(i).cloned().unwrap_or_else(|| "r".into());
            let hang = ev == "h";
            let res: io::Result<Option<(TableService, Transport)>> = if ev == "s" || ev == "b" || ev == "k" {
                let tr = Transport::new();
                let sh = tr.0.clone();
                {
                    let mut g = sh.lock().unwrap();
                    g.rq.push_back(Rev::Data(if ev != "b" { good.clone() } else { bad.clone() }));
                    if ev != "b" {
                        g.rq.push_back(Rev::Eof);
                    }
                    g.self_wake = true;
                    g.notify = Some(n3.clone());
                }
                conns2.lock().unwrap().push(sh.clone());
                Ok(Some((TableService { table: vec![], idx: AtomicUsize::new(0), shared: sh }, tr)))
            } else if ev == "r" {
                Ok(None)
            } else if let Some(k) = ev.strip_prefix("e:") {
                Err(io::Error::new(parse_kind(k).unwrap_or(io::ErrorKind::Other), "scripted setup failure"))
            } else {
                Ok(None)
            };
            n3.notify_one();
            async move {
                if hang {
                    // a connection setup that never completes (e.g. a TLS handshake with a silent peer)
                    std::future::pending::<()>().await;
                }
                res
            }
        };
        let (tx, rx) = tokio::sync::oneshot::channel::<()>();
        let abort = Box::pin(async move {
            let _ = rx.await;
        });
        let driver = async {
            let mut keep = vec![];
            let mut tx = Some(tx);
            for (i, ev) in events.iter().enumerate() {
                if ev == "a" {
                    if let Some(t) = tx.take() {
                        let _ = t.send(());
                    }
                    // serve_until should now return; wait (bounded) for the select to finish
                    tokio::time::sleep(watchdog()).await;
                    HUNG_STREAK.fetch_add(1, Ordering::SeqCst);
                    return "HUNG".to_string();
                }
                let c = tokio::net::TcpStream::connect(addr).await.unwrap();
                if ev == "k" {
                    // the peer resets the connection while it is still in the listen backlog: no await between the
                    // completed handshake and the reset, so the accept loop (same thread) cannot have accepted it yet
                    let _ = c.set_linger(Some(Duration::ZERO));
                    drop(c);
                } else {
                    keep.push(c);
                }
                let ok = tokio::time::timeout(watchdog(), async {
                    loop {
                        let done = if ev == "s" || ev == "b" || ev == "k" {
                            let cs = conns.lock().unwrap();
                            setups.load(Ordering::SeqCst) > i
                                && cs.last().map_or(false, |s| {
                                    let g = s.lock().unwrap();
                                    g.log.iter().any(|e| matches!(e, Log::Dropped)) || g.starved
                                })
                        } else {
                            setups.load(Ordering::SeqCst) > i
                        };
                        if done {
                            break;
                        }
                        notify.notified().await;
                    }
                })
                .await;
                if ok.is_err() {
                    HUNG_STREAK.fetch_add(1, Ordering::SeqCst);
                    return "HUNG".to_string();
                }
                if ev.starts_with("e:") {
                    tokio::time::sleep(watchdog()).await;
                    HUNG_STREAK.fetch_add(1, Ordering::SeqCst);
                    return "HUNG".to_string();
                }
            }
            "LISTENING".to_string()
        };
        let end = match *proto {
            "tcp" => {
                let server = tokio_modbus::server::tcp::Server::new(listener);
                tokio::select! {
                    r = server.serve_until(&on_connected, on_err, abort) => match r {
                        Ok(tokio_modbus::server::Terminated::Aborted) => "ABORTED".to_string(),
                        Ok(tokio_modbus::server::Terminated::Finished) => "FINISHED".to_string(),
                        Err(e) => format!("E:{}", show_kind(e.kind())),
                    },
                    d = driver => d,
                }
            }
            _ => {
                let server = tokio_modbus::server::rtu_over_tcp::Server::new(listener);
                tokio::select! {
                    r = server.serve_until(&on_connected, on_err, abort) => match r {
                        Ok(tokio_modbus::server::Terminated::Aborted) => "ABORTED".to_string(),
                        Ok(tokio_modbus::server::Terminated::Finished) => "FINISHED".to_string(),
                        Err(e) => format!("E:{}", show_kind(e.kind())),
                    },
                    d = driver => d,
                }
            }
        };
        let served = conns.lock().unwrap().iter().filter(|s| s.lock().unwrap().log.iter().any(|e| matches!(e, Log::Dropped))).count();
        format!("served={} reports={} {}", served, reports.load(Ordering::SeqCst), end)
    });
    drop(rt);
    if PANICKED.load(Ordering::SeqCst) {
        return format!("{out} PANIC");
    }
    out
}

// ---------------------------------------------------------------------------------------------
fn run_line(ctx: &mut SrvCtx, line: &str, errno: Option<i32>) -> String {
    let t: Vec<&str> = line.split(' ').collect();
    match t[0] {
        "DREQ" => unhex(t[1]).map_or("ERR hex".into(), |b| show_io(&Request::try_from(Bytes::from(b)), |r| show_req(r))),
        "DRSP" => unhex(t[1]).map_or("ERR hex".into(), |b| show_io(&Response::try_from(Bytes::from(b)), |r| show_rsp(r))),
        "DEXC" => unhex(t[1]).map_or("ERR hex".into(), |b| show_io(&ExceptionResponse::try_from(Bytes::from(b)), |r| show_exr(r))),
        "FC" => t[1].parse::<u8>().map_or("ERR dec".into(), |n| {
            let f = FunctionCode::new(n);
            format!("{} {:?}", f.value(), f)
        }),
        "EX" => t[1].parse::<u8>().map_or("ERR dec".into(), |n| {
            let e = ExceptionCode::new(n);
            format!("{} {:?}", u8::from(e), e)
        }),
        // Request::into_owned / SlaveRequest::into_owned on a request that borrows its payload: the owned value is equal
        "OWN" => match (t.get(1).and_then(|s| s.parse::<u8>().ok()), t.get(2).and_then(|r| parse_req(r))) {
            (Some(slave), Some(r)) => {
                use std::borrow::Cow;
                let borrowed: Request<'_> = match &r {
                    Request::WriteMultipleCoils(a, c) => Request::WriteMultipleCoils(*a, Cow::Borrowed(&c[..])),
                    Request::WriteMultipleRegisters(a, w) => Request::WriteMultipleRegisters(*a, Cow::Borrowed(&w[..])),
                    Request::ReadWriteMultipleRegisters(a, q, b, w) => Request::ReadWriteMultipleRegisters(*a, *q, *b, Cow::Borrowed(&w[..])),
                    Request::Custom(f, d) => Request::Custom(*f, Cow::Borrowed(&d[..])),
                    other => other.clone(),
                };
                let o1 = borrowed.clone().into_owned();
                let o2 = SlaveRequest { slave, request: borrowed }.into_owned();
                format!("{} {}:{}", show_req(&o1), o2.slave, show_req(&o2.request))
            }
            _ => "ERR own".into(),
        },
        "RFC" => parse_req(t[1]).map_or("ERR req".into(), |r| r.function_code().value().to_string()),
        "PFC" => parse_rsp(t[1]).map_or("ERR rsp".into(), |r| r.function_code().value().to_string()),
        "SLP" => unhex(t[1]).map_or("ERR hex".into(), |b| match String::from_utf8(b) {
            Ok(s) => match Slave::from_str(&s) {
                Ok(Slave(n)) => format!("S {n}"),
                Err(_) => "E".into(),
            },
            Err(_) => "ERR utf8".into(),
        }),
        "SLD" => t[1].parse::<u8>().map_or("ERR dec".into(), |n| {
            let s = Slave(n);
            let b = |x: bool| if x { "1" } else { "0" };
            format!("{} {} {} {}", hex(format!("{s}").as_bytes()), b(s.is_broadcast()), b(s.is_single_device()), b(s.is_reserved()))
        }),
        "CLI" => run_cli(&t[1..], errno),
        "SRV" => run_srv(ctx, &t[1..]),
        "ACCEPT" => run_accept(&t[1..]),
        "SYNC" => live::run_live(true, &t[1..]),
        "ASYNC" => live::run_live(false, &t[1..]),
        "CONC" => live::run_conc(&t[1..]),
        "SERSRV" => live::run_sersrv(&t[1..]),
        "E2E" => live::run_e2e(&t[1..]),
        "ACCADDR" => live::run_accaddr(&t[1..]),
        "TIDS" => run_tids(&t[1..]),
        "SURVIVE" => live::run_survive(&t[1..]),
        _ => "ERR cmd".into(),
    }
}

fn main() {
    let args: Vec<String> = std::env::args().collect();
    // optional: --errno N  (ambient errno forced before every poll of a client future)
    let mut errno: Option<i32> = None;
    let mut i = 1;
    while i < args.len() {
        if args[i] == "--errno" {
            errno = args.get(i + 1).and_then(|v| v.parse().ok());
            i += 1;
        }
        i += 1;
    }
    let verbose = std::env::var_os("VERIF_DEBUG").is_some();
    std::panic::set_hook(Box::new(move |info| {
        PANICKED.store(true, Ordering::SeqCst);
        if verbose {
            eprintln!("panic: {info}");
        }
    }));
    let mut ctx = SrvCtx::new();
    let stdin = io::stdin();
    let stdout = io::stdout();
    let mut out = io::BufWriter::new(stdout.lock());
    for line in stdin.lock().lines() {
        let line = line.unwrap();
        PANICKED.store(false, Ordering::SeqCst);
        *LAST_CLIP.lock().unwrap() = None;
        let base = LIVE.load(Ordering::Relaxed);
        PEAK.store(base, Ordering::Relaxed);
        let res = catch_unwind(AssertUnwindSafe(|| run_line(&mut ctx, &line, errno)));
        let peak = PEAK.load(Ordering::Relaxed).saturating_sub(base);
        let txt = match res {
            Ok(s) if !PANICKED.load(Ordering::SeqCst) || s.contains("PANIC") => s,
            _ => "PANIC".to_string(),
        };
        let clip = LAST_CLIP.lock().unwrap().take().unwrap_or_else(|| "-".into());
        writeln!(out, "{txt}\t{peak}\t{clip}").unwrap();
    }
    out.flush().unwrap();
}
