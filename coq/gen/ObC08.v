(* ObC08.v -- the coil constants (0xFF00 / 0x0000 in both directions) and the packed size formula (n + 7) / 8 as written
   in src/codec/mod.rs are the ones the model's bool_to_coil / coil_to_bool / packed_size use. *)
From TM Require Import Base Frame Pdu Generated.

Theorem gen_coil_constants_are_model : gen_COIL = (0xFF00, 0x0000, 0xFF00, 0x0000, 7, 8).
Proof. reflexivity. Qed.
Theorem model_coil_conversions_use_them :
  bool_to_coil true = fst (fst (fst (fst (fst gen_COIL)))) /\ bool_to_coil false = snd (fst (fst (fst (fst gen_COIL))))
  /\ coil_to_bool (snd (fst (fst (fst gen_COIL)))) = Val true /\ coil_to_bool (snd (fst (fst gen_COIL))) = Val false
  /\ forall (bs : list bool), packed_size bs = (len bs + snd (fst gen_COIL)) / snd gen_COIL.
Proof. repeat split; reflexivity. Qed.

(* ---- the two PDU decoders (decode_request_pdu_bytes / decode_response_pdu_bytes) regenerated from the source as read programs:
   per function code the same cursor reads, checks, loops and variant as the model's programs; no arm for any other code; the
   Custom limit and the error kinds of the two size checks.  Hence, for EVERY byte string, interpreting the code's program is
   dec_req / dec_rsp -- the decoders all C08 theorems are about. ---- *)
From TM Require Import Text Tables DecProg DecProgProofs.

Theorem gen_req_dec_prog_is_model : expand_arms gen_req_dec_prog = expand_arms req_dec_prog_model.
Proof. vm_compute. reflexivity. Qed.
Theorem gen_rsp_dec_prog_is_model : expand_arms gen_rsp_dec_prog = expand_arms rsp_dec_prog_model.
Proof. vm_compute. reflexivity. Qed.
Theorem gen_dec_keys_are_bytes : keys_small gen_req_dec_prog = true /\ keys_small gen_rsp_dec_prog = true.
Proof. split; vm_compute; reflexivity. Qed.
Theorem gen_req_custom_below_is_model : gen_req_custom_below = 0x80.
Proof. reflexivity. Qed.
(* check_request_pdu_size fails with InvalidData, check_response_pdu_size with InvalidInput (sic): as chk_req_pdu_size / chk_rsp_pdu_size *)
Theorem gen_chk_kinds_are_model : gen_chk_kinds = (show_kind KInvalidData, show_kind KInvalidInput).
Proof. vm_compute. reflexivity. Qed.

Theorem code_request_decoder_is_dec_req : forall bs, run_req_dec gen_req_dec_prog gen_req_custom_below bs = dec_req bs.
Proof.
  intros bs. apply run_req_dec_is_dec_req; [exact gen_req_dec_prog_is_model|apply gen_dec_keys_are_bytes|exact gen_req_custom_below_is_model].
Qed.
Theorem code_response_decoder_is_dec_rsp : forall bs, run_rsp_dec gen_rsp_dec_prog bs = dec_rsp bs.
Proof. intros bs. apply run_rsp_dec_is_dec_rsp; [exact gen_rsp_dec_prog_is_model|apply gen_dec_keys_are_bytes]. Qed.

(* ---- the exception-response helpers (ExceptionResponse::try_from, ResponsePdu::try_from, encode_exception_response_pdu,
   response_result_pdu_size, encode_response_result_pdu) have the shapes the model's dec_exc / dec_rsp_pdu / enc_exc / rr_size_chk /
   enc_rr state, with these constants: exception function codes start at 0x80 (decode guard, decode offset, dispatch limit, encode
   assertion, encode offset) and an exception PDU has 2 bytes ---- *)
Theorem gen_exception_constants_are_model : gen_EXC = (0x80, 0x80, 0x80, 0x80, 0x80, 2).
Proof. reflexivity. Qed.
Theorem model_exception_decoding_uses_them : forall f c rest,
  dec_exc (f :: c :: rest) = (if f <? fst (fst (fst (fst (fst gen_EXC)))) then Fail KInvalidData
                              else Val {| exr_function := fc_new (f - snd (fst (fst (fst (fst gen_EXC))))); exr_exception := ex_new c |})
  /\ dec_rsp_pdu (f :: c :: rest) = (if f <? snd (fst (fst (fst gen_EXC))) then r <- dec_rsp (f :: c :: rest) ;; Val (RROk r)
                                     else e <- dec_exc (f :: c :: rest) ;; Val (RRExc e)).
Proof. intros. split; reflexivity. Qed.
Theorem model_exception_encoding_uses_them : forall m e,
  rr_size_chk (RRExc e) = Val (snd gen_EXC)
  /\ enc_rr m (RRExc e) = enc_exc m e
  /\ (fc_value (exr_function e) < snd (fst (fst gen_EXC)) ->
      enc_exc m e = Val [fc_value (exr_function e) + snd (fst gen_EXC); ex_value (exr_exception e)]).
Proof.
  intros m e. repeat split. intros H. unfold enc_exc. cbn in H.
  destruct (N.leb_spec 128 (fc_value (exr_function e))) as [Hge|_]; [exfalso; apply (N.lt_irrefl 128); eapply N.le_lt_trans; eassumption|reflexivity].
Qed.
