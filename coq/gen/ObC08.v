(* ObC08.v -- the coil constants (0xFF00 / 0x0000 in both directions) and the packed size formula (n + 7) / 8 as written
   in src/codec/mod.rs are the ones the model's bool_to_coil / coil_to_bool / packed_size use. *)
From TM Require Import Base Frame Pdu Generated.

Theorem gen_coil_constants_are_model : gen_COIL = (0xFF00, 0x0000, 0xFF00, 0x0000, 7, 8).
Proof. reflexivity. Qed.
Theorem model_coil_conversions_use_them :
  bool_to_coil true = fst (fst (fst (fst (fst gen_COIL)))) /\ bool_to_coil false = snd (fst (fst (fst (fst gen_COIL))))
  /\ coil_to_bool (snd (fst (fst (fst gen_COIL)))) = Val true /\ coil_to_bool (snd (fst (fst gen_COIL))) = Val false
  /\ forall (bs : list bool), packed_size bs = (len bs + snd (fst gen_COIL)) / snd gen_COIL.
Proof. repeat split; reflexivity. Qed.
