(* ObC10.v -- TransactionIdGenerator (src/service/tcp.rs) regenerated from the source: starts at INITIAL_TRANSACTION_ID = 0, `next`
   returns the current id and advances it with `wrapping_add(1)`; and Client::call takes the id (next_request_adu) BEFORE the connection
   check, once per call -- the model's [next_tid] arithmetic ((n + 1) mod 65536 per call, C10_call_advances_by_one). *)
From TM Require Import Base Frame Pdu Framed Client ClientProofs Tables TypedTab Generated.
Theorem gen_tid_generator_is_model : gen_TID = (0, 1).
Proof. reflexivity. Qed.
Theorem gen_tcp_call_is_model : call_shape_ok gen_tcp_call = true.
Proof. vm_compute. reflexivity. Qed.
Theorem model_uses_them : forall m st req bg slave,
  next_tid (client_new TCP slave) = fst gen_TID
  /\ next_tid (snd (call TCP m st req bg)) = (next_tid st + snd gen_TID) mod 65536.
Proof. intros. split; [reflexivity|apply call_tid_advances]. Qed.
