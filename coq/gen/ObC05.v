(* ObC05.v -- the two Modbus TCP frame encoders regenerated from the Rust source have the model's normal form: size check first
   (a refused PDU leaves no part of an MBAP header behind), then transaction id, protocol id, length = PDU size + 1, unit id, PDU;
   and the header constants are the model's. *)
From TM Require Import Base Frame Pdu TcpCodec Tables TablesProofs Generated.

Theorem gen_header_constants_are_model : gen_HEADER_LEN = HEADER_LEN /\ gen_PROTOCOL_ID = 0.
Proof. split; reflexivity. Qed.
Theorem gen_tcp_client_frame_is_model : compile_frame gen_tcp_client_frame false false false = Some tcp_frame_toks.
Proof. vm_compute. reflexivity. Qed.
Theorem gen_tcp_server_frame_is_model : compile_frame gen_tcp_server_frame false false false = Some tcp_frame_toks.
Proof. vm_compute. reflexivity. Qed.
Theorem code_tcp_client_encoder_agrees : forall m h r,
  exists run, run_frame gen_tcp_client_frame m h gen_PROTOCOL_ID (req_size_chk r) (enc_req m r) = Some run /\ enc_agrees run (tcp_client_enc m h r).
Proof. intros. apply tcp_client_frame_agrees. exact gen_tcp_client_frame_is_model. Qed.
Theorem code_tcp_server_encoder_agrees : forall m h rr,
  exists run, run_frame gen_tcp_server_frame m h gen_PROTOCOL_ID (rr_size_chk rr) (enc_rr m rr) = Some run /\ enc_agrees run (tcp_server_enc m h rr).
Proof. intros. apply tcp_server_frame_agrees. exact gen_tcp_server_frame_is_model. Qed.
