(* ObC15.v -- service::disconnect (src/service/mod.rs) regenerated from the source: one `shutdown()` of the bare transport whose
   NotConnected / BrokenPipe errors count as success (the model's [first_shutdown]); and a client without a transport answers
   NotConnected (Client::framed) before anything else is done with the transport (ObC12.v: the connection check precedes clear / send). *)
From TM Require Import Base Tables TypedTab Text Generated.
Theorem gen_disconnect_tolerates_model_kinds : gen_disc_tolerated = (show_kind KBrokenPipe, show_kind KNotConnected).
Proof. vm_compute. reflexivity. Qed.
Theorem gen_calls_check_connection_first : call_shape_ok gen_tcp_call = true /\ call_shape_ok gen_rtu_call = true.
Proof. split; vm_compute; reflexivity. Qed.
