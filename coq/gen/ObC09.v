(* ObC09.v -- the PDU size tables and the size limit regenerated from the Rust source are the ones req_size / rsp_size /
   MAX_PDU_SIZE (the subject of the C09 theorems) state. *)
From TM Require Import Base Frame Pdu Tables TablesProofs Generated.

Theorem gen_req_size_table_is_model : expand_size gen_req_size_table = expand_size req_size_table_model.
Proof. vm_compute. reflexivity. Qed.
Theorem gen_rsp_size_table_is_model : expand_size gen_rsp_size_table = expand_size rsp_size_table_model.
Proof. vm_compute. reflexivity. Qed.
Theorem gen_max_pdu_size_is_model : gen_MAX_PDU_SIZE = MAX_PDU_SIZE.
Proof. reflexivity. Qed.

Theorem code_request_size_is_req_size : forall r, size_by gen_req_size_table (req_variant r) (req_items r) = Some (req_size r).
Proof. intros r. apply size_by_req. exact gen_req_size_table_is_model. Qed.
Theorem code_response_size_is_rsp_size : forall r, size_by gen_rsp_size_table (rsp_variant r) (rsp_items r) = Some (rsp_size r).
Proof. intros r. apply size_by_rsp. exact gen_rsp_size_table_is_model. Qed.

(* the four frame encoders (impl Encoder for ClientCodec / ServerCodec in codec/rtu.rs and codec/tcp.rs) regenerated from the source,
   in normal form: the size check comes BEFORE every buffer write -- a refused PDU leaves nothing behind -- and a PDU within the limit
   goes out as exactly the frame the model's encoder builds *)
Theorem gen_rtu_client_frame_is_model : compile_frame gen_rtu_client_frame false false false = Some rtu_frame_toks.
Proof. vm_compute. reflexivity. Qed.
Theorem gen_rtu_server_frame_is_model : compile_frame gen_rtu_server_frame false false false = Some rtu_frame_toks.
Proof. vm_compute. reflexivity. Qed.
Theorem gen_tcp_client_frame_is_model : compile_frame gen_tcp_client_frame false false false = Some tcp_frame_toks.
Proof. vm_compute. reflexivity. Qed.
Theorem gen_tcp_server_frame_is_model : compile_frame gen_tcp_server_frame false false false = Some tcp_frame_toks.
Proof. vm_compute. reflexivity. Qed.

Theorem code_rtu_client_encoder_agrees : forall m h r,
  exists run, run_frame gen_rtu_client_frame m h gen_PROTOCOL_ID (req_size_chk r) (enc_req m r) = Some run /\ enc_agrees run (RtuCodec.rtu_client_enc m h r).
Proof. intros. apply rtu_client_frame_agrees. exact gen_rtu_client_frame_is_model. Qed.
Theorem code_rtu_server_encoder_agrees : forall m h rr,
  exists run, run_frame gen_rtu_server_frame m h gen_PROTOCOL_ID (rr_size_chk rr) (enc_rr m rr) = Some run /\ enc_agrees run (RtuCodec.rtu_server_enc m h rr).
Proof. intros. apply rtu_server_frame_agrees. exact gen_rtu_server_frame_is_model. Qed.
Theorem code_tcp_client_encoder_agrees : forall m h r,
  exists run, run_frame gen_tcp_client_frame m h gen_PROTOCOL_ID (req_size_chk r) (enc_req m r) = Some run /\ enc_agrees run (TcpCodec.tcp_client_enc m h r).
Proof. intros. apply tcp_client_frame_agrees. exact gen_tcp_client_frame_is_model. Qed.
Theorem code_tcp_server_encoder_agrees : forall m h rr,
  exists run, run_frame gen_tcp_server_frame m h gen_PROTOCOL_ID (rr_size_chk rr) (enc_rr m rr) = Some run /\ enc_agrees run (TcpCodec.tcp_server_enc m h rr).
Proof. intros. apply tcp_server_frame_agrees. exact gen_tcp_server_frame_is_model. Qed.
