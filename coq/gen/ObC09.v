(* ObC09.v -- the PDU size tables and the size limit regenerated from the Rust source are the ones req_size / rsp_size /
   MAX_PDU_SIZE (the subject of the C09 theorems) state. *)
From TM Require Import Base Frame Pdu Tables TablesProofs Generated.

Theorem gen_req_size_table_is_model : expand_size gen_req_size_table = expand_size req_size_table_model.
Proof. vm_compute. reflexivity. Qed.
Theorem gen_rsp_size_table_is_model : expand_size gen_rsp_size_table = expand_size rsp_size_table_model.
Proof. vm_compute. reflexivity. Qed.
Theorem gen_max_pdu_size_is_model : gen_MAX_PDU_SIZE = MAX_PDU_SIZE.
Proof. reflexivity. Qed.

Theorem code_request_size_is_req_size : forall r, size_by gen_req_size_table (req_variant r) (req_items r) = Some (req_size r).
Proof. intros r. apply size_by_req. exact gen_req_size_table_is_model. Qed.
Theorem code_response_size_is_rsp_size : forall r, size_by gen_rsp_size_table (rsp_variant r) (rsp_items r) = Some (rsp_size r).
Proof. intros r. apply size_by_rsp. exact gen_rsp_size_table_is_model. Qed.
