(* ObC19.v -- obligations re-checked on every run: the function-code and exception-code tables REGENERATED FROM THE RUST
   SOURCE (gen/Generated.v, by tools/translate.py) are the tables the C19 theorems are about. *)
From Coq Require Import String.
From TM Require Import Base Frame Text Tables TablesProofs Generated.

Definition by_name (t : name_table) (ref : name_table) : list (option N) := map (fun r => lookup_byte t (snd r)) ref.

Theorem gen_fc_new_table_is_model : expand_names gen_fc_new_table = expand_names fc_table_model.
Proof. vm_compute. reflexivity. Qed.
Theorem gen_fc_value_table_is_model :
  expand_names gen_fc_value_table = expand_names fc_table_model /\ by_name gen_fc_value_table fc_table_model = by_name fc_table_model fc_table_model
  /\ length gen_fc_value_table = length fc_table_model.
Proof. vm_compute. repeat split; reflexivity. Qed.
Theorem gen_ex_new_table_is_model : expand_names gen_ex_new_table = expand_names ex_table_model.
Proof. vm_compute. reflexivity. Qed.
Theorem gen_ex_value_table_is_model :
  expand_names gen_ex_value_table = expand_names ex_table_model /\ by_name gen_ex_value_table ex_table_model = by_name ex_table_model ex_table_model
  /\ length gen_ex_value_table = length ex_table_model.
Proof. vm_compute. repeat split; reflexivity. Qed.

(* hence: what the CODE's table calls a byte is what the model's fc_new / ex_new (the subject of the C19 theorems) call it *)
Theorem code_fc_table_agrees_with_fc_new : forall b, b < 256 -> fc_name_ok gen_fc_new_table b = true.
Proof.
  intros b Hb. unfold fc_name_ok. rewrite (expand_names_eq _ _ b gen_fc_new_table_is_model Hb). exact (fc_table_model_ok b Hb).
Qed.
Theorem code_ex_table_agrees_with_ex_new : forall b, b < 256 -> ex_name_ok gen_ex_new_table b = true.
Proof.
  intros b Hb. unfold ex_name_ok. rewrite (expand_names_eq _ _ b gen_ex_new_table_is_model Hb). exact (ex_table_model_ok b Hb).
Qed.

(* slave ids: the four named constants and the three classification predicates as written in src/slave.rs
   (the translator accepts the predicates only in the shape  == broadcast / >= min && <= max / > max) *)
Theorem gen_slave_constants_are_model : gen_SLAVE = (0, 1, 247, 255).
Proof. reflexivity. Qed.
Theorem model_slave_classes_use_them : forall s,
  slave_is_broadcast s = (s =? fst (fst (fst gen_SLAVE)))
  /\ slave_is_single_device s = ((snd (fst (fst gen_SLAVE)) <=? s) && (s <=? snd (fst gen_SLAVE)))
  /\ slave_is_reserved s = (snd (fst gen_SLAVE) <? s).
Proof. intros s. repeat split; reflexivity. Qed.

(* Request::function_code / Response::function_code as written in the source name, for every variant, the function code the
   model's req_fc / rsp_fc compute (Custom passing its own code on is part of the accepted shape) *)
Theorem gen_req_fc_table_is_model : expand_pairs gen_req_fc_table = expand_pairs req_fc_table_model /\ length gen_req_fc_table = length req_fc_table_model.
Proof. vm_compute. split; reflexivity. Qed.
Theorem gen_rsp_fc_table_is_model : expand_pairs gen_rsp_fc_table = expand_pairs rsp_fc_table_model /\ length gen_rsp_fc_table = length rsp_fc_table_model.
Proof. vm_compute. split; reflexivity. Qed.
(* and the model's table is what req_fc / rsp_fc do, for every request and response *)
Theorem model_req_fc_table_is_req_fc : forall r, lookup_pair req_fc_table_model (req_variant r) = Some (fc_short_name (req_fc r)).
Proof. destruct r; vm_compute; reflexivity. Qed.
Theorem model_rsp_fc_table_is_rsp_fc : forall r, lookup_pair rsp_fc_table_model (rsp_variant r) = Some (fc_short_name (rsp_fc r)).
Proof. destruct r; vm_compute; reflexivity. Qed.
