(* ObC11.v -- the RTU length-inference tables regenerated from the Rust source are the tables req_pdu_len / rsp_pdu_len
   (the subject of the C04 / C11 / C03 theorems) interpret. *)
From TM Require Import Base Frame Pdu Crc RtuCodec Tables TablesProofs Generated.

Theorem gen_req_len_table_is_model : expand_len gen_req_len_table = expand_len req_len_table_model.
Proof. vm_compute. reflexivity. Qed.
Theorem gen_rsp_len_table_is_model : expand_len gen_rsp_len_table = expand_len rsp_len_table_model.
Proof. vm_compute. reflexivity. Qed.

Theorem code_request_table_is_req_pdu_len : forall buf, bytes_ok buf = true -> interp_len gen_req_len_table buf = req_pdu_len buf.
Proof. intros buf. apply interp_req_len. exact gen_req_len_table_is_model. Qed.
Theorem code_response_table_is_rsp_pdu_len : forall buf, bytes_ok buf = true -> interp_len gen_rsp_len_table buf = rsp_pdu_len buf.
Proof. intros buf. apply interp_rsp_len. exact gen_rsp_len_table_is_model. Qed.
