(* The per-connection loop `process` of the three servers (src/server/tcp.rs, rtu_over_tcp.rs, rtu.rs), regenerated from the source
   (log statements and the logging `inspect_err` closures removed), is literally:
     loop { receive one request (a decoding / transport error ends the task with that error via `?`; end of stream => BREAK: the
            silent end);  copy the header, take the function code;  call the service ONCE (its error becomes an exception reply under
            the request's function code);  no reply (`None`) => CONTINUE: the request is skipped silently;  send the ONE reply under
            the request's own header (`?`: a failed send ends the task with that error) }  Ok(())
   -- the loop of the model's [process] (Server.v).  A structural obligation: order, presence and the two `break` / `continue`
   decisions; what each statement does is tied by the correspondence check. *)
From Coq Require Import String.
From TM Require Import Base Text Generated.
Local Open Scope string_scope.
Theorem gen_process_loops_are_model :
  gen_tcp_process = (s2l "break", s2l "continue") /\ gen_rtu_over_tcp_process = (s2l "break", s2l "continue")
  /\ gen_rtu_process = (s2l "break", s2l "continue").
Proof. repeat split; vm_compute; reflexivity. Qed.
