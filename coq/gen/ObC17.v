(* ObC17.v -- every method of the blocking client (impl Client / Reader / Writer for client::sync::Context), regenerated from
   src/client/sync/mod.rs, is `block_on_with_timeout(&self.runtime, self.timeout, self.async_ctx.<the method of the same name>(<its own
   parameters, in order>))`: the eleven operations are the async ones under the context's timeout, as the model's sync layer says. *)
From TM Require Import Base Tables TypedTab Generated.

Theorem gen_sync_table_is_model : sync_ok gen_sync_table sync_methods = true.
Proof. vm_compute. reflexivity. Qed.
