(* ObC20.v -- the typed client methods regenerated from src/client/mod.rs (per method: the request it builds from its parameters in
   order, the response variant it accepts, and expect_coils / expect_words / expect_echo with the fields it passes) post-process
   EVERY reply exactly as typed_post, the function the C20 theorems are about. *)
From TM Require Import Base Frame Pdu Framed Client Tables TypedTab TypedTabProofs Generated.

Theorem gen_typed_table_is_model : expand_typed gen_typed_table = expand_typed typed_table_model.
Proof. vm_compute. reflexivity. Qed.
Theorem code_typed_methods_are_typed_post : forall req r, typed_post_by gen_typed_table req r = typed_post req r.
Proof. intros. apply typed_post_by_table. exact gen_typed_table_is_model. Qed.
