(* ObC03.v -- the bounds the termination / bounded-buffering theorems depend on, as written in the Rust source. *)
From TM Require Import Base RtuCodec TcpCodec Generated.

Theorem gen_max_retries_is_model : gen_MAX_RETRIES = N.of_nat MAX_RETRIES.
Proof. reflexivity. Qed.
Theorem gen_max_frame_len_is_model : gen_MAX_FRAME_LEN = MAX_FRAME_LEN.
Proof. reflexivity. Qed.
Theorem gen_header_len_is_model : gen_HEADER_LEN = HEADER_LEN /\ gen_PROTOCOL_ID = 0.
Proof. split; reflexivity. Qed.
