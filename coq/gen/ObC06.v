(* ObC06.v -- in Client::call of both clients the reply's HEADER is verified before its function code, both after the one receive and
   before the result is mapped (see ObC12.v for the whole order), as [classify] in the model does. *)
From TM Require Import Base Tables TypedTab Generated.
Theorem gen_tcp_call_is_model : call_shape_ok gen_tcp_call = true.
Proof. vm_compute. reflexivity. Qed.
Theorem gen_rtu_call_is_model : call_shape_ok gen_rtu_call = true.
Proof. vm_compute. reflexivity. Qed.
