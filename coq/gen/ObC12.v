(* ObC12.v -- Client::call of BOTH clients (src/service/tcp.rs, src/service/rtu.rs), regenerated from the source as the sequence of its
   statements, has the order the model's [call] has: the connection check, then `framed.read_buffer_mut().clear()`, then ONE send, then
   ONE receive whose error arm consumes the framing layer's end-of-stream marker (`let _ = framed.next().now_or_never()`) and whose
   `None` arm is BrokenPipe; the header is verified before the function code; the exception is mapped last.  (A structural obligation:
   it ties the ORDER of the statements, each recognised literally, to the model; what each statement does is tied by the
   correspondence check.) *)
From TM Require Import Base Tables TypedTab Generated.

Theorem gen_tcp_call_is_model : call_shape_ok gen_tcp_call = true.
Proof. vm_compute. reflexivity. Qed.
Theorem gen_rtu_call_is_model : call_shape_ok gen_rtu_call = true.
Proof. vm_compute. reflexivity. Qed.
