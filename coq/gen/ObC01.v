(* ObC01.v -- the request encoder regenerated from the Rust source (encode_request_pdu: per variant, the sequence of buffer
   writes over the variant's fields) encodes every request exactly as enc_req, the encoder the C01 theorems are about. *)
From TM Require Import Base Frame Pdu Tables TablesProofs Generated.

Theorem gen_req_enc_prog_is_model : expand_progs gen_req_enc_prog = expand_progs req_enc_prog_model.
Proof. vm_compute. reflexivity. Qed.
(* u16_len / u8_len are the checked narrowings eval_pexp assumes (debug assertion against the type's MAX, truncating cast) *)
Theorem gen_len_helpers_are_model : gen_LEN_MAX = (65535, 255).
Proof. reflexivity. Qed.

Theorem code_request_encoder_is_enc_req : forall m r,
  run_enc gen_req_enc_prog m (req_variant r) (fc_value (req_fc r)) (req_fields r) = Some (enc_req m r).
Proof. intros m r. apply run_enc_req. exact gen_req_enc_prog_is_model. Qed.
