(* ObC02.v -- the response encoder regenerated from the Rust source (encode_response_pdu) encodes every response exactly as
   enc_rsp, the encoder the C02 theorems are about. *)
From TM Require Import Base Frame Pdu Tables TablesProofs Generated.

Theorem gen_rsp_enc_prog_is_model : expand_progs gen_rsp_enc_prog = expand_progs rsp_enc_prog_model.
Proof. vm_compute. reflexivity. Qed.

Theorem code_response_encoder_is_enc_rsp : forall m r,
  run_enc gen_rsp_enc_prog m (rsp_variant r) (fc_value (rsp_fc r)) (rsp_fields r) = Some (enc_rsp m r).
Proof. intros m r. apply run_enc_rsp. exact gen_rsp_enc_prog_is_model. Qed.
