(* ObC04.v -- the constants of calc_crc as written in the Rust source (initial register 0xFFFF, 8 shifts per byte,
   reflected polynomial 0xA001, final rotation by 8 bits = byte swap) are the ones model/Crc.v uses. *)
From TM Require Import Base Crc Generated.

Theorem gen_crc_constants_are_model : gen_CRC = (0xFFFF, 8, 0xA001, 8).
Proof. reflexivity. Qed.
(* the model with exactly these constants: register initialised to the first, [step1] xors the third after a right shift,
   [step8] is eight steps, [calc_crc] swaps the two bytes *)
Theorem model_crc_uses_them : forall d, crc_reg d = crc_fold (fst (fst (fst gen_CRC))) d.
Proof. reflexivity. Qed.
Theorem model_step_uses_poly : forall c, step1 c = if N.odd c then N.lxor (N.shiftr c 1) (snd (fst gen_CRC)) else N.shiftr c 1.
Proof. reflexivity. Qed.

(* every RTU frame the code transmits is `slave, PDU, CRC(slave, PDU)`: the two RTU frame encoders regenerated from the source
   have the model's normal form (the CRC is computed from the frame's own first byte, after slave id and PDU have been written) *)
From TM Require Import Frame Pdu RtuCodec Tables TablesProofs.
Theorem gen_rtu_client_frame_is_model : compile_frame gen_rtu_client_frame false false false = Some rtu_frame_toks.
Proof. vm_compute. reflexivity. Qed.
Theorem gen_rtu_server_frame_is_model : compile_frame gen_rtu_server_frame false false false = Some rtu_frame_toks.
Proof. vm_compute. reflexivity. Qed.
