(* ObC04.v -- the constants of calc_crc as written in the Rust source (initial register 0xFFFF, 8 shifts per byte,
   reflected polynomial 0xA001, final rotation by 8 bits = byte swap) are the ones model/Crc.v uses. *)
From TM Require Import Base Crc Generated.

Theorem gen_crc_constants_are_model : gen_CRC = (0xFFFF, 8, 0xA001, 8).
Proof. reflexivity. Qed.
(* the model with exactly these constants: register initialised to the first, [step1] xors the third after a right shift,
   [step8] is eight steps, [calc_crc] swaps the two bytes *)
Theorem model_crc_uses_them : forall d, crc_reg d = crc_fold (fst (fst (fst gen_CRC))) d.
Proof. reflexivity. Qed.
Theorem model_step_uses_poly : forall c, step1 c = if N.odd c then N.lxor (N.shiftr c 1) (snd (fst gen_CRC)) else N.shiftr c 1.
Proof. reflexivity. Qed.
