(* Extract.v -- extraction of the executable model to OCaml.
   Directives: those shipped in ExtrOcamlBasic only (bool, option, unit, list, prod, sumbool and
   its inlined constants).  N, positive, nat, ascii and string stay the extracted inductives. *)
From Coq Require Import Extraction ExtrOcamlBasic.
From TM Require Import Base Run.
Extraction "model.ml" run_line debug_mode release_mode.
