(* C20 -- typed reads return exactly the requested number of items or an error. *)
From TM Require Import Base Frame Pdu Framed Client ClientProofs TypedProofs Totality.

Theorem C20_exact_count_bits : forall req r bs,
  typed_post req r = TRBits bs ->
  exists a q rb, (req = ReqReadCoils a q /\ r = RspReadCoils rb \/ req = ReqReadDiscreteInputs a q /\ r = RspReadDiscreteInputs rb)
                 /\ len bs = q /\ bs = firstn (N.to_nat q) rb.
Proof. exact typed_read_exact_bits. Qed.

Theorem C20_exact_count_words : forall req r ws,
  typed_post req r = TRWords ws ->
  exists q, ((exists a, req = ReqReadInputRegisters a q /\ r = RspReadInputRegisters ws
                        \/ req = ReqReadHoldingRegisters a q /\ r = RspReadHoldingRegisters ws)
             \/ (exists ra wa wws, req = ReqReadWriteMultipleRegisters ra q wa wws /\ r = RspReadWriteMultipleRegisters ws))
            /\ len ws = q.
Proof. exact typed_read_exact_words. Qed.

Theorem C20_write_own_kind : forall req r,
  typed_post req r = TRUnit ->
  match req, r with
  | ReqWriteSingleCoil a b, RspWriteSingleCoil a' b' => a = a' /\ b = b'
  | ReqWriteMultipleCoils a bs, RspWriteMultipleCoils a' q => a = a' /\ len bs = q
  | ReqWriteSingleRegister a w, RspWriteSingleRegister a' w' => a = a' /\ w = w'
  | ReqWriteMultipleRegisters a ws, RspWriteMultipleRegisters a' q => a = a' /\ len ws = q
  | ReqMaskWriteRegister a x y, RspMaskWriteRegister a' x' y' => a = a' /\ x = x' /\ y = y'
  | _, _ => False
  end.
Proof. exact typed_write_own_kind. Qed.

(* for every reply a server can send (anything the decoder accepts) that the call lets through
   (numerically the request's function code), the typed method returns a result: no panic *)
Theorem C20_no_panic : forall req r bs,
  is_typed_req req = true -> dec_rsp bs = Val r -> fc_value (rsp_fc r) = fc_value (req_fc req) ->
  typed_post req r <> TRErr CRPanic.
Proof. exact typed_post_no_panic. Qed.

Theorem C20_typed_is_call_then_post : forall p m st req bg,
  fst (typed p m st req bg) =
  match fst (call p m st req bg) with
  | CROk r => typed_post req r
  | CRExc e => TRExc e
  | c => TRErr c
  end.
Proof. exact typed_result_shape. Qed.

(* the whole typed method, for EVERY client state and EVERY behaviour of the transport (any reply bytes in any chunking, cut short,
   followed by end of stream or a read error, any write behaviour): a result, never a panic *)
Theorem C20_typed_never_panics_on_any_transport : forall p m st req bg,
  is_typed_req req = true -> fst (typed p m st req bg) <> TRErr CRPanic.
Proof. exact typed_no_panic. Qed.

Example C20_ex : typed_post (ReqReadHoldingRegisters 0 3) (RspReadHoldingRegisters [7]) = TRErr (CRTransport KInvalidData)
  /\ typed_post (ReqReadCoils 0 3) (RspReadCoils [true; false; true; false; false; false; false; false]) = TRBits [true; false; true].
Proof. split; reflexivity. Qed.
