(* C16 -- abandoned and timed-out calls leave a usable, uncorrupted client.
   A call run with budget [Some k] is dropped at its (k+1)-th Pending poll (CRAbandoned); a call whose
   scripts run dry is left pending (CRWait) -- the state it leaves is what dropping the future leaves. *)
From TM Require Import Base Frame Pdu RtuCodec Framed Client Sync FramedProofs FramedMore ClientProofs Histories Abandon.

(* over the client's lifetime -- any history of completed, failed and abandoned calls -- the bytes that
   reached the transport followed by the bytes still buffered are a concatenation of whole request
   frames *)
Theorem C16_whole_frames : forall p m ops st, whole_frames p (sent_and_buffered st) ->
  whole_frames p (sent_and_buffered (run_ops p m st ops)).
Proof. exact history_whole_frames. Qed.

(* a later call that gets as far as a reply has flushed everything: the transport then holds whole frames *)
Theorem C16_next_call_flushes : forall p m st req bg i,
  call_reply p m st req bg = Some i -> wbuf (wio_ (snd (call p m st req bg))) = []
  /\ exists fr, client_enc p m (req_hdr p st) req = Val fr
                /\ accepted (wio_ (snd (call p m st req bg))) = accepted (wio_ st) ++ wbuf (wio_ st) ++ fr.
Proof. exact call_completed_flushes. Qed.

(* the call after an abandoned one performs a normal exchange (C12_exchange applies: abandonment
   never latches an error) *)
Theorem C16_abandonment_keeps_clean : forall p m st req bg, clean st -> clean (snd (call p m st req bg)).
Proof. exact call_preserves_clean. Qed.

(* over TCP a late reply to an abandoned request carries an older transaction id (C10) and is
   therefore reported as a header mismatch, never as success *)
Theorem C16_late_reply_is_mismatch : forall m st req bg rh rr,
  call_reply TCP m st req bg = Some (rh, rr) -> fst rh <> next_tid st ->
  fst (call TCP m st req bg) = CRHeaderMismatch rr.
Proof.
  intros m st req bg rh rr Hr Hne. apply (call_header_mismatch TCP m st req bg rh rr Hr).
  intros ->. apply Hne. reflexivity.
Qed.

(* the synchronous wrapper: a call still pending when the timer fires returns TimedOut, one that
   completes first returns its own result *)
Theorem C16_timeout_wrapper : forall r,
  with_timeout true r = match r with CRWait | CRAbandoned => CRTransport KTimedOut | _ => r end
  /\ with_timeout false r = r.
Proof. intros r. destruct r; split; reflexivity. Qed.

(* THE NEXT CALL PERFORMS A NORMAL EXCHANGE, whatever came before ([Abandon.v]).  [usable]: connected, no latched
   framing error, framing layer not at end of stream, transport script without end-of-stream events.  A history is any
   list of calls -- each with its own budget of Pending polls after which its future is dropped (None = never), its own
   write / flush scripts and its own read script (fragments of replies, pendings, read errors) -- and slave changes. *)
Theorem C16_history_keeps_usable : forall p m ops st, usable st -> Forall op_no_eof ops -> usable (run_ops p m st ops).
Proof. exact history_usable. Qed.
Theorem C16_exchange_after_any_history : forall p m ops st0 req bg f rr cs rest w bg1 ws fs,
  usable st0 -> Forall op_no_eof ops ->
  let st := push (run_ops p m st0 ops) ws fs (datas cs) in
  send (client_enc p m (req_hdr p st) req) (wio_ st) bg = (SOk, w, bg1, false) ->
  rq (run_ops p m st0 ops) = [] ->
  Forall nonempty cs -> concat cs = f ++ rest -> client_valid p f (req_hdr p st, rr) ->
  fc_value (rr_fc rr) = fc_value (req_fc req) ->
  fst (call p m st req bg) = match rr with RROk r => CROk r | RRExc e => CRExc (exr_exception e) end.
Proof. exact exchange_after_any_history. Qed.
(* non-vacuity: an RTU call dropped at its first Pending poll in the receive phase, after two bytes of its reply have
   been read, is such a history: it is abandoned, its script is used up, the fragment is in the receive buffer *)
Example C16_abandoned_after_fragment :
  let ops := [OCall false (ReqReadHoldingRegisters 1 1) (Some O) [] [] [RData [5; 3]; RPend]] in
  let st := run_ops RTU debug_mode (client_new RTU 5) ops in
  usable (client_new RTU 5) /\ Forall op_no_eof ops /\ rq st = [] /\ rbuf (rst st) = [5; 3]
  /\ fst (call RTU debug_mode (push (client_new RTU 5) [] [] [RData [5; 3]; RPend]) (ReqReadHoldingRegisters 1 1) (Some O)) = CRAbandoned.
Proof.
  cbv zeta. split; [repeat split; intros e []|]. split; [constructor; [|constructor]; intros e [<-|[<-|[]]]; reflexivity|].
  vm_compute. repeat split.
Qed.
