(* C02 -- responses and exceptions reach the caller exactly as the service produced them. *)
From TM Require Import Base Frame Pdu Crc RtuCodec TcpCodec Framed Client Server Spec PduEncode
  FramedProofs TcpProofs RtuProofs RtuCarried StreamProofs ClientProofs Histories ServerProofs TypedProofs EndToEnd Text Run Exchange.

(* 1. response / exception encoders are the spec encoders *)
Theorem C02_rsp_pdu_is_spec : forall m r, rsp_ok r = true -> rsp_size r <= 253 ->
  enc_rsp m r = Val (spec_rsp_pdu r) /\ len (spec_rsp_pdu r) = rsp_size r.
Proof. exact enc_rsp_spec. Qed.
Theorem C02_exc_pdu_is_spec : forall m f e, fc_value f < 0x80 ->
  enc_exc m {| exr_function := f; exr_exception := e |} = Val (spec_exc_pdu (fc_value f) (ex_value e)).
Proof. exact enc_exc_spec. Qed.

(* 2. the client-side decoder inverts them: register data unchanged, bit data in order and padded with
   false to a whole byte ([pad_rsp]); exceptions with the same numeric code *)
Theorem C02_decode_encode_rsp : forall r, rsp_size r <= 253 -> canonical_rsp r = true -> fc_value (rsp_fc r) < 0x80 ->
  dec_rsp_pdu (spec_rsp_pdu r) = Val (RROk (pad_rsp r)).
Proof. exact dec_rsp_pdu_spec. Qed.
Theorem C02_decode_encode_exc : forall fc code, fc < 0x80 ->
  dec_rsp_pdu (spec_exc_pdu fc code) = Val (RRExc {| exr_function := fc_new fc; exr_exception := ex_new code |}).
Proof. exact dec_rsp_pdu_exc. Qed.

(* 3. the server writes exactly one frame under the request's header (C07) which is a valid frame for
   the client *)
Theorem C02_response_frame_valid_tcp : forall tid uid r,
  rsp_size r <= 253 -> canonical_rsp r = true -> fc_value (rsp_fc r) < 0x80 -> tid < 65536 -> uid < 256 ->
  valid_rsp_frame (tcp_frame tid uid (spec_rsp_pdu r)) ((tid, uid), RROk (pad_rsp r)).
Proof. exact response_frame_valid_tcp. Qed.
Theorem C02_response_frame_valid_rtu : forall s r,
  rsp_size r <= 253 -> canonical_rsp r = true -> fc_value (rsp_fc r) < 0x80 -> rtu_rsp_supported r = true ->
  valid_rtu_rsp (rtu_frame s (spec_rsp_pdu r)) ((0, s), RROk (pad_rsp r)).
Proof. exact response_frame_valid_rtu. Qed.
Theorem C02_exception_frame_valid_tcp : forall tid uid fc code, fc < 0x80 -> tid < 65536 -> uid < 256 ->
  valid_rsp_frame (tcp_frame tid uid (spec_exc_pdu fc code))
                  ((tid, uid), RRExc {| exr_function := fc_new fc; exr_exception := ex_new code |}).
Proof. exact exception_frame_valid_tcp. Qed.
Theorem C02_exception_frame_valid_rtu : forall s fc code, 1 <= fc -> fc <= 0x2B ->
  valid_rtu_rsp (rtu_frame s (spec_exc_pdu fc code))
                ((0, s), RRExc {| exr_function := fc_new fc; exr_exception := ex_new code |}).
Proof. exact exception_frame_valid_rtu. Qed.

(* 4. the call that issued the request returns that value, for any chunking of the reply frame, when the
   reply carries the request's header and numerically the request's function code -- incl. raw custom
   requests whose code has a named FunctionCode variant (finding F5, repaired) *)
Theorem C02_client_returns : forall p m st req bg f rr cs rest w bg1,
  framed st = true -> clean st -> reof (rst st) = false ->
  send (client_enc p m (req_hdr p st) req) (wio_ st) bg = (SOk, w, bg1, false) ->
  rq st = datas cs -> Forall nonempty cs -> concat cs = f ++ rest -> client_valid p f (req_hdr p st, rr) ->
  fc_value (rr_fc rr) = fc_value (req_fc req) ->
  fst (call p m st req bg) = match rr with RROk r => CROk r | RRExc e => CRExc (exr_exception e) end.
Proof. exact exchange_returns_reply. Qed.

(* 5. the typed bit reads return exactly the requested count, taken in order from the reply *)
Theorem C02_typed_bits_exact : forall req r bs,
  typed_post req r = TRBits bs ->
  exists a q rb, (req = ReqReadCoils a q /\ r = RspReadCoils rb \/ req = ReqReadDiscreteInputs a q /\ r = RspReadDiscreteInputs rb)
                 /\ len bs = q /\ bs = firstn (N.to_nat q) rb.
Proof. exact typed_read_exact_bits. Qed.

(* 6. THE COMPOSED STATEMENT (see C01.6): under every fragmentation in both directions the caller gets exactly what
   the service produced -- the response value (bit data padded to whole bytes), or the exception with the same
   numeric code -- and the client is idle again with the next transaction id *)
Theorem C02_exchange_response : forall p m st r rsp k1 k2,
  good_chunker k1 -> good_chunker k2 ->
  idle st -> req_ok r = true -> req_size r <= 253 -> canonical_req r = true -> req_carried_by p r = true ->
  rsp_ok rsp = true -> rsp_size rsp <= 253 -> canonical_rsp rsp = true -> rsp_carried_by p rsp = true ->
  fc_value (rsp_fc rsp) = fc_value (req_fc r) ->
  e2e_chunked p m st r [SReply rsp] k1 k2 = (CROk (pad_rsp rsp), [TCall (unit_id st) r], after p st r).
Proof. exact exchange_response_any_fragmentation. Qed.
Theorem C02_exchange_exception : forall p m st r c k1 k2,
  good_chunker k1 -> good_chunker k2 ->
  idle st -> req_ok r = true -> req_size r <= 253 -> canonical_req r = true -> req_carried_by p r = true ->
  exc_carried_by p (fc_value (req_fc r)) -> ex_value c < 256 ->
  e2e_chunked p m st r [SExc c] k1 k2 = (CRExc (ex_new (ex_value c)), [TCall (unit_id st) r], after p st r).
Proof. exact exchange_exception_any_fragmentation. Qed.
Theorem C02_exception_code_preserved : forall p m st r c,
  idle st -> req_ok r = true -> req_size r <= 253 -> canonical_req r = true -> req_carried_by p r = true ->
  exc_carried_by p (fc_value (req_fc r)) -> ex_value c < 256 ->
  e2e_exchange p m st false r [SExc c] = (inl (CRExc (ex_new (ex_value c))), [TCall (unit_id st) r], after p st r)
  /\ ex_value (ex_new (ex_value c)) = ex_value c.
Proof. exact exchange_exception. Qed.
Theorem C02_exchange_sequences : forall p m xs st, idle st -> Forall (ok_exchange p) xs ->
  exchanges p m st xs = map (fun x => (inl (expected (snd x)), [TCall (unit_id st) (fst x)])) xs.
Proof. exact exchanges_correct. Qed.
Theorem C02_idle_again : forall p st r, idle st -> idle (after p st r).
Proof. exact after_idle. Qed.
