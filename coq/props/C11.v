(* C11 -- RTU framing delivers every clean frame and resynchronises after line noise.
   [carried tbl s pdu]: the length table infers |pdu| from every long-enough prefix of the frame
   slave :: pdu ++ crc and nothing before; proofs/RtuCarried.v shows this for every typed request /
   response that fits 253 bytes, the serial-line custom codes, and exception responses. *)
From Coq Require Import Lia.
From TM Require Import Base Frame Pdu Crc RtuCodec Framed Spec FramedProofs RtuProofs RtuCarried StreamProofs NoiseFrag.

(* a stream consisting only of valid carried frames is delivered completely and in order under
   EVERY composition into read chunks, server and client side *)
Theorem C11_clean_stream_server : forall fs is cs,
  Forall2 valid_rtu_req fs is -> Forall nonempty cs -> concat cs = concat fs ->
  exists st' cs', take_items rtu_server_dec (length fs) rstate0 (datas cs) = Some (is, st', datas cs') /\ rbuf st' ++ concat cs' = [].
Proof. exact rtu_server_stream. Qed.
Theorem C11_clean_stream_client : forall fs is cs,
  Forall2 valid_rtu_rsp fs is -> Forall nonempty cs -> concat cs = concat fs ->
  exists st' cs', take_items rtu_client_dec (length fs) rstate0 (datas cs) = Some (is, st', datas cs') /\ rbuf st' ++ concat cs' = [].
Proof. exact rtu_client_stream. Qed.

(* which frames are carried *)
Theorem C11_requests_carried : forall s r, req_size r <= 253 -> rtu_req_supported r = true -> carried req_pdu_len s (spec_req_pdu r).
Proof. exact req_carried. Qed.
Theorem C11_responses_carried : forall s r, rsp_size r <= 253 -> rtu_rsp_supported r = true -> carried rsp_pdu_len s (spec_rsp_pdu r).
Proof. exact rsp_carried. Qed.
Theorem C11_exceptions_carried : forall s fc code, 1 <= fc -> fc <= 0x2B -> carried rsp_pdu_len s (spec_exc_pdu fc code).
Proof. exact exc_carried. Qed.

(* an incomplete candidate leaves the buffer untouched *)
Theorem C11_incomplete_untouched : forall f i p, valid_rtu_req f i -> proper_prefix p f -> rtu_server_dec p = (p, DNone).
Proof. exact rtu_server_H2. Qed.

(* noise: byte values that are never function codes (0x00, 0x80, 0x41-0x48, 0x64-0x6E) *)
Theorem C11_noise_never_function_code_req : forall a b tl, is_noise b = true -> exists k, req_pdu_len (a :: b :: tl) = Fail k.
Proof. exact req_noise_invalid. Qed.
Theorem C11_noise_never_function_code_rsp : forall a b tl, is_noise b = true -> exists k, rsp_pdu_len (a :: b :: tl) = Fail k.
Proof. exact rsp_noise_invalid. Qed.

(* up to 19 noise bytes followed by a carried frame whose slave id is noise-valued, arriving in one
   read: exactly the noise is dropped and the frame is delivered (this covers "up to 16 noise bytes"
   with room for a lone byte left over from the previous read) *)
Theorem C11_noise_then_frame_server : forall ns s p x,
  ns <> [] -> (length ns <= 19)%nat -> forallb is_noise (ns ++ [s]) = true -> carried req_pdu_len s p ->
  decode_loop req_pdu_len MAX_RETRIES (ns ++ rtu_frame s p ++ x) [] = (x, ns, DSome (s, p)).
Proof. exact (noise_then_frame req_pdu_len req_pdu_len_no_panic is_noise req_noise_invalid). Qed.
Theorem C11_noise_then_frame_client : forall ns s p x,
  ns <> [] -> (length ns <= 19)%nat -> forallb is_noise (ns ++ [s]) = true -> carried rsp_pdu_len s p ->
  decode_loop rsp_pdu_len MAX_RETRIES (ns ++ rtu_frame s p ++ x) [] = (x, ns, DSome (s, p)).
Proof. exact (noise_then_frame rsp_pdu_len rsp_pdu_len_no_panic is_noise rsp_noise_invalid). Qed.

(* non-vacuity: a concrete noisy stream *)
Example C11_ex : fst (rtu_frame_dec req_pdu_len ([0x00; 0x80; 0x41] ++ rtu_frame 0x64 [0x11] ++ [0x99])) = [0x99].
Proof. vm_compute. reflexivity. Qed.

(* ---- noise under EVERY fragmentation (the property's own wording) ----
   a carried frame whose slave id is noise-valued too, preceded by noise bytes ns and followed by anything x, the
   stream cut into read chunks in ANY way: exactly the noise is discarded, the frame is delivered, x is left --
   provided there are at most 18 noise bytes ("up to 16 noise bytes under every fragmentation") OR no read is longer
   than 18 bytes ("any amount of noise that arrives byte by byte", and more) *)
Theorem C11_noise_any_fragmentation_server : forall cs ns f i x,
  noisy_rtu_req f i -> forallb is_noise ns = true -> Forall nonempty cs -> concat cs = ns ++ f ++ x ->
  ((length ns <= 18)%nat \/ short_chunks cs) ->
  exists b' cs', next rtu_server_dec rstate0 (datas cs) None = (NItem i, mkR b' false true false, datas cs', None)
                 /\ b' ++ concat cs' = x /\ Forall nonempty cs'.
Proof. exact rtu_server_noise_any_fragmentation. Qed.
Theorem C11_noise_any_fragmentation_client : forall cs ns f i x,
  noisy_rtu_rsp f i -> forallb is_noise ns = true -> Forall nonempty cs -> concat cs = ns ++ f ++ x ->
  ((length ns <= 18)%nat \/ short_chunks cs) ->
  exists b' cs', next rtu_client_dec rstate0 (datas cs) None = (NItem i, mkR b' false true false, datas cs', None)
                 /\ b' ++ concat cs' = x /\ Forall nonempty cs'.
Proof. exact rtu_client_noise_any_fragmentation. Qed.

(* non-vacuity: 300 noise bytes arriving byte by byte, then a frame in two pieces *)
Example C11_bytewise_noise_example :
  let f := rtu_frame 0x64 [0x03; 0x00; 0x01; 0x00; 0x01] in
  fst (fst (fst (next rtu_server_dec rstate0
     (datas (map (fun b => [b]) (flat_map (fun _ => [0x00; 0x80; 0x41]) (seq 0 100)) ++ [firstn 3 f; skipn 3 f])) None)))
  = NItem ((0, 0x64), ReqReadHoldingRegisters 1 1).
Proof. vm_compute. reflexivity. Qed.
