(* C18 -- concurrent connections are served independently.
   PARTIAL by nature: the quantifier over interleavings is discharged in the model, where a server is a
   family of per-connection machines; that the Rust tasks share no state is supported by inspection
   and by the concurrent exploration of the harness, not by this proof. *)
From TM Require Import Base Frame Pdu RtuCodec Framed Client Server AcceptProofs ServerTrace.

(* after any schedule (global arrival order of per-connection events) a connection has received
   exactly its own events in its own order *)
Theorem C18_projection : forall s c, grun s c = events_of c s.
Proof. exact grun_projection. Qed.
(* a step of another connection does not touch this one *)
Theorem C18_frame : forall g e c, fst e <> c -> gstep g e c = g c.
Proof. exact step_frame. Qed.
(* non-interference: two schedules that agree on c's own events give c the same trace (replies on its
   own connection, in its own request order -- C07), whatever the other connections do *)
Theorem C18_noninterference : forall p m svc s1 s2 c,
  events_of c s1 = events_of c s2 -> conn_trace p m svc s1 c = conn_trace p m svc s2 c.
Proof. exact noninterference. Qed.
(* one service instance per accepted connection, in accept order *)
Theorem C18_factory_once : forall evs,
  forallb (fun x => negb (stops x)) evs = true ->
  length (fst (serve evs)) = length (filter (fun e => match e with AConn (SetupService _) => true | _ => false end) evs).
Proof. exact factory_once_per_connection. Qed.

(* the same with every connection on a transport of its own that may accept the replies in pieces, stay pending or fail
   (write script [wqs c], flush script [fqs c]): the other connections' traffic, however interleaved, does not change c's trace ... *)
Theorem C18_noninterference_any_transport : forall p m svc wqs fqs s1 s2 c,
  events_of c s1 = events_of c s2 -> conn_trace_w p m svc wqs fqs s1 c = conn_trace_w p m svc wqs fqs s2 c.
Proof. exact noninterference_w. Qed.
(* ... and that trace has the C07 shape for ARBITRARY bytes on every connection: each invocation of c's own service instance is
   followed at once by exactly one reply frame encoded under that request's header (or by nothing when the service declines), the
   last one possibly cut short by a failing write -- so what c receives is its own replies in its own request order *)
Theorem C18_every_connection_trace : forall p m svc wqs fqs s c, Trace p m (svc c) (conn_trace_w p m svc wqs fqs s c).
Proof. exact every_connection_trace. Qed.
Theorem C18_every_connection_receives_reply_frames : forall p m svc wqs fqs s c,
  exists fs last, is_prefix (written (conn_trace_w p m svc wqs fqs s c)) (concat fs ++ last)
    /\ (forall f, In f (fs ++ [last]) -> f = [] \/ exists h rr, server_enc p m h rr = Val f).
Proof. exact every_connection_written. Qed.
Theorem C18_default_transport : forall p m svc s c, conn_trace_w p m svc (fun _ => []) (fun _ => []) s c = conn_trace p m svc s c.
Proof. exact conn_trace_w_default. Qed.
