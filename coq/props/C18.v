(* C18 -- concurrent connections are served independently.
   PARTIAL by nature: the quantifier over interleavings is discharged in the model, where a server is a
   family of per-connection machines; that the Rust tasks share no state is supported by inspection
   and by the concurrent exploration of the harness, not by this proof. *)
From TM Require Import Base Frame Pdu RtuCodec Framed Client Server AcceptProofs.

(* after any schedule (global arrival order of per-connection events) a connection has received
   exactly its own events in its own order *)
Theorem C18_projection : forall s c, grun s c = events_of c s.
Proof. exact grun_projection. Qed.
(* a step of another connection does not touch this one *)
Theorem C18_frame : forall g e c, fst e <> c -> gstep g e c = g c.
Proof. exact step_frame. Qed.
(* non-interference: two schedules that agree on c's own events give c the same trace (replies on its
   own connection, in its own request order -- C07), whatever the other connections do *)
Theorem C18_noninterference : forall p m svc s1 s2 c,
  events_of c s1 = events_of c s2 -> conn_trace p m svc s1 c = conn_trace p m svc s2 c.
Proof. exact noninterference. Qed.
(* one service instance per accepted connection, in accept order *)
Theorem C18_factory_once : forall evs,
  forallb (fun x => negb (stops x)) evs = true ->
  length (fst (serve evs)) = length (filter (fun e => match e with AConn (SetupService _) => true | _ => false end) evs).
Proof. exact factory_once_per_connection. Qed.
