(* C07 -- the server answers every request once, in order, under the request's own header.
   [served] (proofs/ServerProofs.v) is the loop body over the LIST of decoded requests: per request one
   service invocation, then at most one send of the reply framed under that request's own header,
   completed before the next request is looked at.  The theorem says the loop over the BYTE STREAM,
   under every chunking and every write/flush behaviour, does exactly that. *)
From TM Require Import Base Frame Pdu RtuCodec TcpCodec Framed Client Server FramedProofs ServerProofs EndToEnd.

Theorem C07_stream_is_served_request_by_request : forall p m fs is cs b rd tl svc w fuel,
  Forall2 (server_valid p) fs is -> Forall nonempty cs ->
  b ++ concat cs = concat fs -> (rd = false -> b = []) ->
  process (length fs + fuel) p m (mkR b false rd false) w (datas cs ++ tl) svc =
  served p m is svc w (fun svc' w' =>
    process fuel p m (mkR [] false (match fs with [] => rd | _ => true end) false) w' tl svc').
Proof. exact process_serves. Qed.

(* on a transport that accepts everything: the trace is, per request in arrival order, the invocation
   followed by exactly one Wrote of the reply frame (nothing when the service declines; the request's
   function code with the high bit set plus the service's exception code when it fails) *)
Theorem C07_trace : forall p m fin is svc w,
  w_default w ->
  (forall h req rr f, In (h, req) is -> server_enc p m h rr = Val f -> f <> []) ->
  served p m is svc w (fun _ _ => fin) = trace_default p m is svc fin.
Proof. exact served_default. Qed.

(* the reply frames are the spec frames under the request's header *)
Theorem C07_reply_frame_tcp : forall m tid uid r, rsp_ok r = true -> rsp_size r <= 253 -> tid < 65536 ->
  tcp_server_enc m (tid, uid) (RROk r) = Val (TcpProofs.tcp_frame tid uid (Spec.spec_rsp_pdu r)).
Proof. exact server_frame_tcp. Qed.
Theorem C07_reply_frame_rtu : forall m tid uid r, rsp_ok r = true -> rsp_size r <= 253 ->
  rtu_server_enc m (tid, uid) (RROk r) = Val (rtu_frame uid (Spec.spec_rsp_pdu r)).
Proof. exact server_frame_rtu. Qed.
Theorem C07_exception_frame_tcp : forall m tid uid f e, fc_value f < 0x80 -> tid < 65536 ->
  tcp_server_enc m (tid, uid) (RRExc {| exr_function := f; exr_exception := e |})
  = Val (TcpProofs.tcp_frame tid uid (Spec.spec_exc_pdu (fc_value f) (ex_value e))).
Proof. exact server_exception_frame_tcp. Qed.
Theorem C07_exception_frame_rtu : forall m tid uid f e, fc_value f < 0x80 ->
  rtu_server_enc m (tid, uid) (RRExc {| exr_function := f; exr_exception := e |})
  = Val (rtu_frame uid (Spec.spec_exc_pdu (fc_value f) (ex_value e))).
Proof. exact server_exception_frame_rtu. Qed.
