(* C07 -- the server answers every request once, in order, under the request's own header.
   [served] (proofs/ServerProofs.v) is the loop body over the LIST of decoded requests: per request one
   service invocation, then at most one send of the reply framed under that request's own header,
   completed before the next request is looked at.  The theorem says the loop over the BYTE STREAM,
   under every chunking and every write/flush behaviour, does exactly that. *)
From TM Require Import Base Frame Pdu RtuCodec TcpCodec Framed Client Server FramedProofs ServerProofs EndToEnd Text Run Exchange ClientProofs PduEncode Totality ServerTrace.

Theorem C07_stream_is_served_request_by_request : forall p m fs is cs b rd tl svc w fuel,
  Forall2 (server_valid p) fs is -> Forall nonempty cs ->
  b ++ concat cs = concat fs -> (rd = false -> b = []) ->
  process (length fs + fuel) p m (mkR b false rd false) w (datas cs ++ tl) svc =
  served p m is svc w (fun svc' w' =>
    process fuel p m (mkR [] false (match fs with [] => rd | _ => true end) false) w' tl svc').
Proof. exact process_serves. Qed.

(* on a transport that accepts everything: the trace is, per request in arrival order, the invocation
   followed by exactly one Wrote of the reply frame (nothing when the service declines; the request's
   function code with the high bit set plus the service's exception code when it fails) *)
Theorem C07_trace : forall p m fin is svc w,
  w_default w ->
  (forall h req rr f, In (h, req) is -> server_enc p m h rr = Val f -> f <> []) ->
  served p m is svc w (fun _ _ => fin) = trace_default p m is svc fin.
Proof. exact served_default. Qed.

(* the reply frames are the spec frames under the request's header *)
Theorem C07_reply_frame_tcp : forall m tid uid r, rsp_ok r = true -> rsp_size r <= 253 -> tid < 65536 ->
  tcp_server_enc m (tid, uid) (RROk r) = Val (TcpProofs.tcp_frame tid uid (Spec.spec_rsp_pdu r)).
Proof. exact server_frame_tcp. Qed.
Theorem C07_reply_frame_rtu : forall m tid uid r, rsp_ok r = true -> rsp_size r <= 253 ->
  rtu_server_enc m (tid, uid) (RROk r) = Val (rtu_frame uid (Spec.spec_rsp_pdu r)).
Proof. exact server_frame_rtu. Qed.
Theorem C07_exception_frame_tcp : forall m tid uid f e, fc_value f < 0x80 -> tid < 65536 ->
  tcp_server_enc m (tid, uid) (RRExc {| exr_function := f; exr_exception := e |})
  = Val (TcpProofs.tcp_frame tid uid (Spec.spec_exc_pdu (fc_value f) (ex_value e))).
Proof. exact server_exception_frame_tcp. Qed.
Theorem C07_exception_frame_rtu : forall m tid uid f e, fc_value f < 0x80 ->
  rtu_server_enc m (tid, uid) (RRExc {| exr_function := f; exr_exception := e |})
  = Val (rtu_frame uid (Spec.spec_exc_pdu (fc_value f) (ex_value e))).
Proof. exact server_exception_frame_rtu. Qed.

(* every frame the server encoders produce is non-empty: the side condition of [C07_default_trace] always holds *)
Theorem C07_reply_frames_nonempty : forall p m h rr f, server_enc p m h rr = Val f -> f <> [].
Proof. exact server_enc_nonempty. Qed.
(* one request, cut into read chunks in any way, on a fresh connection with default transport: exactly the
   invocation and (unless declined) exactly one reply frame under the request's header, then the connection waits *)
Theorem C07_one_request_any_fragmentation : forall p m st r rep cs,
  req_size r <= 253 -> canonical_req r = true -> req_carried_by p r = true ->
  next_tid st < 65536 -> unit_id st < 256 ->
  concat cs = req_frame p (req_hdr p st) r -> Forall nonempty cs ->
  serve_conn p m (datas cs) [] [] [rep] = one_trace p m (req_hdr p st) r rep.
Proof. exact serve_one_chunked. Qed.

(* ---- ARBITRARY input: any bytes, fragmentation and faults on the read side, any service, any write / flush
   behaviour of the transport ----
   [Trace p m svc t] (proofs/ServerTrace.v): t is a sequence of blocks, each a service invocation [TCall slave req]
   followed -- before anything else happens on the connection -- by the bytes of exactly ONE frame
   [server_enc p m h rr] with [snd h = slave] and rr the service's answer to THIS request (the response, or the
   exception under the request's function code), or by nothing when the service declined; the trace ends with one
   terminal event, a reply that could not be encoded or written having put at most a prefix of that one frame on the
   line.  So no reply is ever reordered, duplicated, merged with another or attributed to another request, whatever
   else is on the line. *)
Theorem C07_every_trace_has_the_reply_shape : forall p m q wq fq svc, Trace p m svc (serve_conn p m q wq fq svc).
Proof. exact serve_conn_trace. Qed.
(* the bytes written over the life of the connection are the reply frames of the answered invocations, in invocation
   order, the last one possibly cut short: nothing else, nothing twice *)
Theorem C07_written_bytes_are_reply_frames_in_order : forall p m svc t, Trace p m svc t ->
  exists fs last, is_prefix (written t) (concat fs ++ last)
    /\ (forall f, In f (fs ++ [last]) -> f = [] \/ exists h rr, server_enc p m h rr = Val f).
Proof. exact trace_written. Qed.
(* and the only terminal events of a real connection are report / closed / waiting *)
Theorem C07_trace_ends_properly : forall p m q wq fq svc,
  ~ In TOutOfFuel (serve_conn p m q wq fq svc) /\ ~ In TPanic (serve_conn p m q wq fq svc).
Proof. exact Totality.serve_conn_terminates. Qed.

(* non-vacuity of the arbitrary-input shape: junk that the TCP framing rejects only AFTER a good request -- the request is
   answered (one frame under its own header), then the junk ends the connection with one report *)
Example C07_trace_example :
  serve_conn TCP debug_mode [RData ([0x00; 0x07; 0x00; 0x00; 0x00; 0x02; 0x2A; 0x11] ++ [0x00; 0x08; 0x00; 0x01; 0x00; 0x02; 0x2A; 0x11])] [] []
             [SExc ExIllegalFunction]
  = [TCall 0x2A ReqReportServerId; TWrote [0x00; 0x07; 0x00; 0x00; 0x00; 0x03; 0x2A; 0x91; 0x01]; TReport KInvalidData].
Proof. vm_compute. reflexivity. Qed.
