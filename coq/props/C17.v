From TM Require Import Base Frame.
Theorem C17_placeholder : fc_value (fc_new 1) = 1.
Proof. reflexivity. Qed.
