(* C17 -- the blocking client does exactly what the async client does.
   THIN by nature: the synchronous client is defined as delegation, so these theorems only pin the
   delegation table and the connect defaults; the assurance comes from the three-way differential
   execution (real sync client, real async client, model) in the check. *)
From TM Require Import Base Frame Framed Client Sync.

(* with no timeout every synchronous operation is the asynchronous operation of the same name: same
   state transition (hence same bytes written), same result *)
Theorem C17_call_refines : forall p m st req, sync_call p m false st req = call p m st req None.
Proof. intros. unfold sync_call. destruct (call p m st req None) as [r st']. destruct r; reflexivity. Qed.
Theorem C17_typed_refines : forall p m st req, sync_typed p m false st req = typed p m st req None.
Proof.
  intros. unfold sync_typed. destruct (typed p m st req None) as [r st']. destruct r as [| | | |c]; try reflexivity. destruct c; reflexivity.
Qed.
Theorem C17_set_slave_refines : forall st s, sync_set_slave st s = set_slave st s.
Proof. reflexivity. Qed.
(* a timeout changes the result only of a call that was still pending (C16) *)
Theorem C17_timeout_only_affects_pending : forall p m st req,
  snd (sync_call p m true st req) = snd (call p m st req None)
  /\ (fst (call p m st req None) <> CRWait -> fst (call p m st req None) <> CRAbandoned ->
      fst (sync_call p m true st req) = fst (call p m st req None)).
Proof.
  intros. unfold sync_call. destruct (call p m st req None) as [r st']. split; [reflexivity|].
  destruct r; cbn; intros; try reflexivity; congruence.
Qed.
(* connect without an explicit slave: TCP 255 (Slave::tcp_device), RTU 0 (Slave::broadcast) *)
Theorem C17_connect_defaults : sync_connect TCP None = sync_connect TCP (Some 255) /\ sync_connect RTU None = sync_connect RTU (Some 0).
Proof. split; reflexivity. Qed.

(* the blocking context = async context + the timeout applied to every subsequent operation: given at connect time,
   replaced by set_timeout, cleared by reset_timeout, never changed by an operation; an operation runs under exactly
   the timeout in force when it is issued, and set_timeout / reset_timeout / timeout() do not touch the connection *)
Theorem C17_timeout_in_force : forall p m c req t,
  fst (sctx_call p m (sync_set_timeout c t) req) = fst (sync_call p m (match t with Some _ => true | None => false end) (s_client c) req)
  /\ s_timeout (snd (sctx_call p m c req)) = s_timeout c
  /\ s_timeout (snd (sctx_typed p m c req)) = s_timeout c
  /\ s_client (sync_set_timeout c t) = s_client c /\ s_client (sync_reset_timeout c) = s_client c
  /\ s_timeout (sync_reset_timeout c) = None /\ s_timeout (sctx_set_slave c 7) = s_timeout c.
Proof.
  intros. unfold sctx_call, sctx_typed, sync_set_timeout, timed; cbn [s_client s_timeout].
  destruct (sync_call p m _ (s_client c) req) as [r st'] eqn:E1.
  destruct (sync_call p m (match s_timeout c with Some _ => true | None => false end) (s_client c) req) as [r2 st2].
  destruct (sync_typed p m _ (s_client c) req) as [r3 st3]. repeat split.
Qed.
Theorem C17_connect_variants : forall p slave tmo,
  s_client (sync_connect_ctx p slave tmo) = sync_connect p slave /\ s_timeout (sync_connect_ctx p slave tmo) = tmo.
Proof. split; reflexivity. Qed.
