(* C04 -- RTU delivers only CRC-valid frames and emits only CRC-correct frames. *)
From Coq Require Import Lia.
From TM Require Import Base Frame Pdu Crc RtuCodec Framed FramedProofs RtuProofs CrcProofs.

(* one call of the resynchronising decoder: the buffer is split into the bytes dropped by this call,
   then (if a frame is handed up) exactly slave :: pdu ++ CRC-16/MODBUS(slave :: pdu) low byte first,
   then the remaining buffer -- contiguous, in order, nothing lost, nothing invented; never a panic *)
Theorem C04_delivered_is_valid_slice_req : forall fuel buf dr b' dr' r, bytes_ok buf = true ->
  decode_loop req_pdu_len fuel buf dr = (b', dr', r) ->
  exists d, dr' = dr ++ d /\ r <> DPanic /\
    match r with DSome (s, p) => buf = d ++ rtu_frame s p ++ b' | _ => buf = d ++ b' end.
Proof. exact (decode_loop_segments req_pdu_len req_pdu_len_nil req_pdu_len_no_panic). Qed.
Theorem C04_delivered_is_valid_slice_rsp : forall fuel buf dr b' dr' r, bytes_ok buf = true ->
  decode_loop rsp_pdu_len fuel buf dr = (b', dr', r) ->
  exists d, dr' = dr ++ d /\ r <> DPanic /\
    match r with DSome (s, p) => buf = d ++ rtu_frame s p ++ b' | _ => buf = d ++ b' end.
Proof. exact (decode_loop_segments rsp_pdu_len rsp_pdu_len_nil rsp_pdu_len_no_panic). Qed.

(* a candidate whose CRC field is not the CRC of the bytes before it is never handed up, and the
   buffer is restored unchanged *)
Theorem C04_crc_mismatch_not_delivered : forall buf n b' r,
  frame_decode buf n = (b', r) -> (forall s p, r <> FSome s p) -> b' = buf.
Proof. exact frame_decode_other. Qed.
Theorem C04_check_is_crc : forall d c1 c2, c1 < 256 -> c2 < 256 -> check_crc d c1 c2 = true -> [c1; c2] = crc2 d.
Proof. exact check_crc_true. Qed.
Theorem C04_wrong_crc_rejected : forall d c1 c2, [c1; c2] <> crc2 d -> c1 < 256 -> c2 < 256 -> check_crc d c1 c2 = false.
Proof. exact check_crc_false. Qed.

(* every emitted frame is slave :: pdu ++ crc2 (slave :: pdu) and the decoder accepts it *)
Theorem C04_emitted_frame_accepted : forall s p x, frame_decode (rtu_frame s p ++ x) (len p) = (x, FSome s p).
Proof. exact frame_decode_frame. Qed.

(* ---- why "a frame damaged in transit is never delivered as data": algebra of the CRC register ---- *)
(* GF(2)-linearity of the register, for data of any length *)
Theorem C04_crc_linear : forall d1 d2 a b, length d1 = length d2 ->
  crc_fold (N.lxor a b) (xor_bytes d1 d2) = N.lxor (crc_fold a d1) (crc_fold b d2).
Proof. exact crc_fold_xor. Qed.
(* a slice passes the check iff the register run over the WHOLE slice (CRC bytes included) ends at 0 *)
Theorem C04_residue : forall adu c1 c2, bytes_ok adu = true -> c1 < 256 -> c2 < 256 ->
  (check_crc adu c1 c2 = true <-> crc_fold 0xFFFF (adu ++ [c1; c2]) = 0).
Proof. exact check_crc_iff_residue. Qed.
(* every error pattern whose set bits lie within 16 consecutive transmitted bits (pattern p shifted to
   bit s of byte k), anywhere in a valid frame of ANY length, makes the residue non-zero: the corrupted
   slice fails the CRC check; single-bit errors are the case p = 1 *)
Theorem C04_detects_bursts : forall F k p s m,
  crc_fold 0xFFFF F = 0 -> 1 <= p -> p < 65536 -> s < 8 -> length F = (k + 3 + m)%nat ->
  crc_fold 0xFFFF (xor_bytes F (repeat 0 k ++ burst_bytes p s ++ repeat 0 m)) <> 0.
Proof. exact burst_detected. Qed.
Theorem C04_detects_single_bit : forall F k b m,
  crc_fold 0xFFFF F = 0 -> b < 8 -> length F = (k + 3 + m)%nat ->
  crc_fold 0xFFFF (xor_bytes F (repeat 0 k ++ burst_bytes 1 b ++ repeat 0 m)) <> 0.
Proof. exact single_bit_detected. Qed.

(* known-answer vectors of CRC-16/MODBUS (Modbus over serial line V1.02 and the suite's vectors) *)
Example C04_kat1 : crc2 [0x01; 0x03; 0x00; 0x00; 0x00; 0x01] = [0x84; 0x0A].
Proof. vm_compute. reflexivity. Qed.
Example C04_kat2 : calc_crc [0x12; 0x34; 0x23; 0x45; 0x34; 0x56; 0x45; 0x67] = 0xE2DB.
Proof. vm_compute. reflexivity. Qed.
Example C04_kat3 : crc_reg [0x31; 0x32; 0x33; 0x34; 0x35; 0x36; 0x37; 0x38; 0x39] = 0x4B37.
Proof. vm_compute. reflexivity. Qed.
