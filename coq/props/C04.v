(* C04 -- RTU delivers only CRC-valid frames and emits only CRC-correct frames. *)
From Coq Require Import Lia.
From TM Require Import Base Frame Pdu Crc RtuCodec Framed Client Server FramedProofs RtuProofs CrcProofs Histories Slices SlicesClient.

(* one call of the resynchronising decoder: the buffer is split into the bytes dropped by this call,
   then (if a frame is handed up) exactly slave :: pdu ++ CRC-16/MODBUS(slave :: pdu) low byte first,
   then the remaining buffer -- contiguous, in order, nothing lost, nothing invented; never a panic *)
Theorem C04_delivered_is_valid_slice_req : forall fuel buf dr b' dr' r, bytes_ok buf = true ->
  decode_loop req_pdu_len fuel buf dr = (b', dr', r) ->
  exists d, dr' = dr ++ d /\ r <> DPanic /\
    match r with DSome (s, p) => buf = d ++ rtu_frame s p ++ b' | _ => buf = d ++ b' end.
Proof. exact (decode_loop_segments req_pdu_len req_pdu_len_nil req_pdu_len_no_panic). Qed.
Theorem C04_delivered_is_valid_slice_rsp : forall fuel buf dr b' dr' r, bytes_ok buf = true ->
  decode_loop rsp_pdu_len fuel buf dr = (b', dr', r) ->
  exists d, dr' = dr ++ d /\ r <> DPanic /\
    match r with DSome (s, p) => buf = d ++ rtu_frame s p ++ b' | _ => buf = d ++ b' end.
Proof. exact (decode_loop_segments rsp_pdu_len rsp_pdu_len_nil rsp_pdu_len_no_panic). Qed.

(* a candidate whose CRC field is not the CRC of the bytes before it is never handed up, and the
   buffer is restored unchanged *)
Theorem C04_crc_mismatch_not_delivered : forall buf n b' r,
  frame_decode buf n = (b', r) -> (forall s p, r <> FSome s p) -> b' = buf.
Proof. exact frame_decode_other. Qed.
Theorem C04_check_is_crc : forall d c1 c2, c1 < 256 -> c2 < 256 -> check_crc d c1 c2 = true -> [c1; c2] = crc2 d.
Proof. exact check_crc_true. Qed.
Theorem C04_wrong_crc_rejected : forall d c1 c2, [c1; c2] <> crc2 d -> c1 < 256 -> c2 < 256 -> check_crc d c1 c2 = false.
Proof. exact check_crc_false. Qed.

(* every emitted frame is slave :: pdu ++ crc2 (slave :: pdu) and the decoder accepts it *)
Theorem C04_emitted_frame_accepted : forall s p x, frame_decode (rtu_frame s p ++ x) (len p) = (x, FSome s p).
Proof. exact frame_decode_frame. Qed.

(* ---- why "a frame damaged in transit is never delivered as data": algebra of the CRC register ---- *)
(* GF(2)-linearity of the register, for data of any length *)
Theorem C04_crc_linear : forall d1 d2 a b, length d1 = length d2 ->
  crc_fold (N.lxor a b) (xor_bytes d1 d2) = N.lxor (crc_fold a d1) (crc_fold b d2).
Proof. exact crc_fold_xor. Qed.
(* a slice passes the check iff the register run over the WHOLE slice (CRC bytes included) ends at 0 *)
Theorem C04_residue : forall adu c1 c2, bytes_ok adu = true -> c1 < 256 -> c2 < 256 ->
  (check_crc adu c1 c2 = true <-> crc_fold 0xFFFF (adu ++ [c1; c2]) = 0).
Proof. exact check_crc_iff_residue. Qed.
(* every error pattern whose set bits lie within 16 consecutive transmitted bits (pattern p shifted to
   bit s of byte k), anywhere in a valid frame of ANY length, makes the residue non-zero: the corrupted
   slice fails the CRC check; single-bit errors are the case p = 1 *)
Theorem C04_detects_bursts : forall F k p s m,
  crc_fold 0xFFFF F = 0 -> 1 <= p -> p < 65536 -> s < 8 -> length F = (k + 3 + m)%nat ->
  crc_fold 0xFFFF (xor_bytes F (repeat 0 k ++ burst_bytes p s ++ repeat 0 m)) <> 0.
Proof. exact burst_detected. Qed.
Theorem C04_detects_single_bit : forall F k b m,
  crc_fold 0xFFFF F = 0 -> b < 8 -> length F = (k + 3 + m)%nat ->
  crc_fold 0xFFFF (xor_bytes F (repeat 0 k ++ burst_bytes 1 b ++ repeat 0 m)) <> 0.
Proof. exact single_bit_detected. Qed.

(* known-answer vectors of CRC-16/MODBUS (Modbus over serial line V1.02 and the suite's vectors) *)
Example C04_kat1 : crc2 [0x01; 0x03; 0x00; 0x00; 0x00; 0x01] = [0x84; 0x0A].
Proof. vm_compute. reflexivity. Qed.
Example C04_kat2 : calc_crc [0x12; 0x34; 0x23; 0x45; 0x34; 0x56; 0x45; 0x67] = 0xE2DB.
Proof. vm_compute. reflexivity. Qed.
Example C04_kat3 : crc_reg [0x31; 0x32; 0x33; 0x34; 0x35; 0x36; 0x37; 0x38; 0x39] = 0x4B37.
Proof. vm_compute. reflexivity. Qed.

(* ---- the whole stream, not just one decoder call ----
   [Slices R s is rest]: s = d0 ++ f1 ++ d1 ++ f2 ++ ... ++ fn ++ dn ++ rest with R fk ik for every k: the
   items are carried by pairwise disjoint contiguous slices of s, in order; the d's are what was dropped.
   [sdata q]: the bytes a read script delivers (chunk boundaries, pending polls, errors and end-of-stream
   events of the script are arbitrary). *)
(* frame layer: ANY bytes, ANY fragmentation, ANY number of calls however each of them ends *)
Theorem C04_frames_are_disjoint_slices_req : forall n st evs is s e, bytes_ok (rbuf st ++ sdata evs) = true ->
  n_calls (rtu_frame_dec req_pdu_len) n st evs = (is, s, e) ->
  Slices rtu_slice (rbuf st ++ sdata evs) is (rbuf s ++ sdata e).
Proof. exact (n_calls_slices _ _ (rtu_frame_dec_seg req_pdu_len req_pdu_len_nil req_pdu_len_no_panic)). Qed.
Theorem C04_frames_are_disjoint_slices_rsp : forall n st evs is s e, bytes_ok (rbuf st ++ sdata evs) = true ->
  n_calls (rtu_frame_dec rsp_pdu_len) n st evs = (is, s, e) ->
  Slices rtu_slice (rbuf st ++ sdata evs) is (rbuf s ++ sdata e).
Proof. exact (n_calls_slices _ _ (rtu_frame_dec_seg rsp_pdu_len rsp_pdu_len_nil rsp_pdu_len_no_panic)). Qed.
(* server: the requests handed to the service over the life of a connection -- any bytes, fragmentation,
   service behaviour, write behaviour -- are carried by disjoint slices of the received stream, in order *)
Theorem C04_served_requests_are_disjoint_slices : forall m q wq fq svc, bytes_ok (sdata q) = true ->
  exists rest, Slices (call_slice RTU) (sdata q) (calls (serve_conn RTU m q wq fq svc)) rest.
Proof. exact (serve_conn_slices RTU). Qed.
Theorem C04_served_slice_is_crc_valid : forall f c, call_slice RTU f c ->
  exists pdu, f = fst c :: pdu ++ crc2 (fst c :: pdu) /\ dec_req pdu = Val (snd c).
Proof. exact rtu_call_slice. Qed.
(* client: the replies consumed by the calls of ANY history (completed, failed, mismatching, abandoned calls;
   slave changes; disconnects) are carried by disjoint slices of the bytes the transport delivered, in order:
   the per-call clearing of the receive buffer and the drain after an error only drop bytes *)
Theorem C04_consumed_replies_are_disjoint_slices : forall m ops st, bytes_ok (stream st ++ delivered ops) = true ->
  Slices (client_slice RTU) (stream st ++ delivered ops) (replies RTU m st ops) (stream (run_ops RTU m st ops)).
Proof. exact (history_slices RTU). Qed.
Theorem C04_reply_slice_is_crc_valid : forall f i, client_slice RTU f i ->
  exists pdu, f = (snd (fst i) :: pdu) ++ crc2 (snd (fst i) :: pdu) /\ dec_rsp_pdu pdu = Val (snd i).
Proof. exact rtu_reply_is_crc_valid_slice. Qed.

(* non-vacuity: noise, a frame, a damaged copy of it, another frame -- two requests reach the service *)
Example C04_slices_example :
  let f1 := rtu_frame 0x11 [0x03; 0x00; 0x6B; 0x00; 0x03] in
  let f2 := rtu_frame 0x11 [0x06; 0x00; 0x01; 0x00; 0x03] in
  let damaged := 0x11 :: 0x03 :: 0x00 :: 0x6B :: 0x00 :: 0x02 :: crc2 (0x11 :: [0x03; 0x00; 0x6B; 0x00; 0x03]) in
  calls (serve_conn RTU debug_mode [RData ([0xFE; 0xFD] ++ f1 ++ damaged); RPend; RData f2] [] [] [SDecline; SDecline])
  = [(0x11, ReqReadHoldingRegisters 0x6B 3); (0x11, ReqWriteSingleRegister 1 3)].
Proof. vm_compute. reflexivity. Qed.
