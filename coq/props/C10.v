(* C10 -- TCP transaction identifiers are fresh for every transmitted request.
   [run_ops] executes any history of calls (completed, failing at any point, abandoned, rejected
   before transmission), set_slave and disconnect on a client with a scripted transport. *)
From Coq Require Import Lia.
From TM Require Import Base Frame Framed Client ClientProofs Histories C10More.

(* every call advances the id by exactly one mod 65536, whatever its outcome *)
Theorem C10_call_advances_by_one : forall m st req bg,
  next_tid (snd (call TCP m st req bg)) = (next_tid st + 1) mod 65536.
Proof. exact call_tid_advances. Qed.

(* after any history the counter is the number of calls so far, mod 65536 *)
Theorem C10_tid_counts_calls : forall m ops st, next_tid st < 65536 ->
  next_tid (run_ops TCP m st ops) = (next_tid st + ncalls ops) mod 65536.
Proof. exact tid_after_history. Qed.
Theorem C10_tid_of_kth_call : forall m ops slave,
  fst (req_hdr TCP (run_ops TCP m (client_new TCP slave) ops)) = ncalls ops mod 65536.
Proof. exact tid_of_call. Qed.

(* any two calls fewer than 65536 calls apart carry different ids; the id never sticks *)
Theorem C10_distinct_in_window : forall i j, i < j -> j < i + 65536 -> i mod 65536 <> j mod 65536.
Proof. exact tids_distinct_in_window. Qed.
Theorem C10_never_sticks : forall k, (k + 1) mod 65536 <> k mod 65536.
Proof. exact tid_never_sticks. Qed.

(* ---- over whole histories of one client ---- *)

(* the ids stamped after history h1 and after the longer history h1 ++ h2 differ whenever h2 holds between
   1 and 65535 calls -- whatever else h2 contains (slave changes, disconnects) and however its calls ended *)
Theorem C10_ids_of_two_calls_in_a_history_differ : forall m h1 h2 slave,
  0 < ncalls h2 -> ncalls h2 < 65536 ->
  fst (req_hdr TCP (run_ops TCP m (client_new TCP slave) h1))
  <> fst (req_hdr TCP (run_ops TCP m (client_new TCP slave) (h1 ++ h2))).
Proof. exact tids_of_histories_distinct. Qed.

(* the id comes round again exactly when 65536 further calls have been made, never earlier *)
Theorem C10_id_repeats_exactly_after_65536_calls : forall m h1 h2 slave,
  ncalls h2 <= 65536 ->
  (fst (req_hdr TCP (run_ops TCP m (client_new TCP slave) h1))
   = fst (req_hdr TCP (run_ops TCP m (client_new TCP slave) (h1 ++ h2)))
   <-> ncalls h2 = 0 \/ ncalls h2 = 65536).
Proof. exact tid_repeats_exactly_after_65536. Qed.

(* changing the slave or disconnecting neither uses up nor resets an id *)
Theorem C10_other_operations_keep_the_id : forall m h1 h2 slave,
  ncalls h2 = 0 ->
  fst (req_hdr TCP (run_ops TCP m (client_new TCP slave) (h1 ++ h2)))
  = fst (req_hdr TCP (run_ops TCP m (client_new TCP slave) h1)).
Proof. exact non_calls_keep_tid. Qed.
