(* C10 -- TCP transaction identifiers are fresh for every transmitted request.
   [run_ops] executes any history of calls (completed, failing at any point, abandoned, rejected
   before transmission), set_slave and disconnect on a client with a scripted transport. *)
From Coq Require Import Lia.
From TM Require Import Base Frame Framed Client ClientProofs Histories.

(* every call advances the id by exactly one mod 65536, whatever its outcome *)
Theorem C10_call_advances_by_one : forall m st req bg,
  next_tid (snd (call TCP m st req bg)) = (next_tid st + 1) mod 65536.
Proof. exact call_tid_advances. Qed.

(* after any history the counter is the number of calls so far, mod 65536 *)
Theorem C10_tid_counts_calls : forall m ops st, next_tid st < 65536 ->
  next_tid (run_ops TCP m st ops) = (next_tid st + ncalls ops) mod 65536.
Proof. exact tid_after_history. Qed.
Theorem C10_tid_of_kth_call : forall m ops slave,
  fst (req_hdr TCP (run_ops TCP m (client_new TCP slave) ops)) = ncalls ops mod 65536.
Proof. exact tid_of_call. Qed.

(* any two calls fewer than 65536 calls apart carry different ids; the id never sticks *)
Theorem C10_distinct_in_window : forall i j, i < j -> j < i + 65536 -> i mod 65536 <> j mod 65536.
Proof. exact tids_distinct_in_window. Qed.
Theorem C10_never_sticks : forall k, (k + 1) mod 65536 <> k mod 65536.
Proof. exact tid_never_sticks. Qed.
