(* C12 -- a failed call never desynchronises the calls that follow it. *)
From TM Require Import Base Frame Pdu RtuCodec Framed Client FramedProofs ClientProofs Histories Abandon.

(* invariant: whatever happened in earlier calls (success, exception, mismatch, decoding error, read
   error, abandonment), a call starts with no latched framing error *)
Theorem C12_clean_start : forall p m ops st, clean st -> clean (run_ops p m st ops).
Proof. exact history_clean. Qed.
Theorem C12_call_preserves_clean : forall p m st req bg, clean st -> clean (snd (call p m st req bg)).
Proof. exact call_preserves_clean. Qed.

(* on a clean client whose transport is not at end of stream: once the request has been written and
   the transport delivers the matching reply (any chunking, any surplus after it, any stale bytes in
   the receive buffer -- they are cleared), the call consumes exactly that reply and returns it *)
Theorem C12_exchange : forall p m st req bg f rr cs rest w bg1,
  framed st = true -> clean st -> reof (rst st) = false ->
  send (client_enc p m (req_hdr p st) req) (wio_ st) bg = (SOk, w, bg1, false) ->
  rq st = datas cs -> Forall nonempty cs -> concat cs = f ++ rest -> client_valid p f (req_hdr p st, rr) ->
  fc_value (rr_fc rr) = fc_value (req_fc req) ->
  fst (call p m st req bg) = match rr with RROk r => CROk r | RRExc e => CRExc (exr_exception e) end.
Proof. exact exchange_returns_reply. Qed.

(* the hypotheses of [C12_exchange] hold after ANY history of calls on a transport that stays open -- completed,
   failed (decoding error, read error, mismatch), abandoned; any surplus or fragment left in the receive buffer *)
Theorem C12_history_keeps_usable : forall p m ops st, usable st -> Forall op_no_eof ops -> usable (run_ops p m st ops).
Proof. exact history_usable. Qed.
Theorem C12_exchange_after_any_history : forall p m ops st0 req bg f rr cs rest w bg1 ws fs,
  usable st0 -> Forall op_no_eof ops ->
  let st := push (run_ops p m st0 ops) ws fs (datas cs) in
  send (client_enc p m (req_hdr p st) req) (wio_ st) bg = (SOk, w, bg1, false) ->
  rq (run_ops p m st0 ops) = [] ->
  Forall nonempty cs -> concat cs = f ++ rest -> client_valid p f (req_hdr p st, rr) ->
  fc_value (rr_fc rr) = fc_value (req_fc req) ->
  fst (call p m st req bg) = match rr with RROk r => CROk r | RRExc e => CRExc (exr_exception e) end.
Proof. exact exchange_after_any_history. Qed.
