(* C08 -- only well-formed PDUs are accepted, and each decodes to its unique meaning.
   Property theorems only; proofs are in proofs/PduDecode.v, PduEncode.v, PduReencode.v.
   [wf_req] / [wf_rsp] (proofs/Spec.v) are the independent classifiers written by shape:
   Some v = well-formed with meaning v, None = ill-formed.  [verdict spec got] says: if the spec
   accepts with v the decoder returns exactly Val v, otherwise it returns an error Fail k --
   in particular never Panic. *)
From Coq Require Import Lia.
From TM Require Import Base Frame Pdu Spec PduDecode PduEncode PduReencode.

Theorem C08_request_accept_exactly_wf : forall bs, verdict (wf_req bs) (dec_req bs).
Proof. exact req_wf_dec. Qed.
Theorem C08_response_accept_exactly_wf : forall bs, verdict (wf_rsp bs) (dec_rsp bs).
Proof. exact rsp_wf_dec. Qed.
Theorem C08_request_accept_iff : forall bs, (exists v, dec_req bs = Val v) <-> (exists v, wf_req bs = Some v).
Proof. exact req_accept_iff_wf. Qed.
Theorem C08_response_accept_iff : forall bs, (exists v, dec_rsp bs = Val v) <-> (exists v, wf_rsp bs = Some v).
Proof. exact rsp_accept_iff_wf. Qed.

(* exception PDUs: first byte >= 0x80 and a code byte; the meaning is (first - 0x80, code) *)
Theorem C08_exception_shape : forall bs,
  dec_exc bs = match bs with
               | [] => Fail KUnexpectedEof
               | f :: r => if f <? 0x80 then Fail KInvalidData else
                           match r with
                           | [] => Fail KUnexpectedEof
                           | c :: _ => Val {| exr_function := fc_new (f - 0x80); exr_exception := ex_new c |}
                           end
               end.
Proof. exact dec_exc_char. Qed.

(* no accepted PDU of a modelled function code is a proper prefix of another accepted PDU *)
Theorem C08_request_prefix_free : forall bs v x,
  wf_req bs = Some v -> modelled_fc (hd 0 bs) = true -> x <> [] -> wf_req (bs ++ x) = None.
Proof. exact wf_req_prefix_free. Qed.
Theorem C08_response_prefix_free : forall bs v x,
  wf_rsp bs = Some v -> modelled_fc (hd 0 bs) = true -> x <> [] -> wf_rsp (bs ++ x) = None.
Proof. exact wf_rsp_prefix_free. Qed.

(* function codes the library does not model are accepted as raw custom data, unchanged *)
Theorem C08_custom_request_unchanged : forall fc d,
  fc < 0x80 -> modelled_fc fc = false -> dec_req (fc :: d) = Val (ReqCustom fc d).
Proof. exact custom_request_unchanged. Qed.
Theorem C08_custom_response_unchanged : forall fc d,
  modelled_fc fc = false -> dec_rsp (fc :: d) = Val (RspCustom fc d).
Proof. exact custom_response_unchanged. Qed.
Theorem C08_request_codes_below_0x80 : forall fc d v, 0x80 <= fc -> dec_req (fc :: d) <> Val v.
Proof. exact request_codes_below_0x80. Qed.

(* whatever is accepted (within the 253-byte PDU limit) re-encodes to a PDU that decodes to the same value *)
Theorem C08_request_reencode : forall bs v, dec_req bs = Val v -> len bs <= 253 ->
  dec_req (spec_req_pdu v) = Val v.
Proof. exact req_reencode. Qed.
Theorem C08_response_reencode : forall bs v, dec_rsp bs = Val v -> len bs <= 253 ->
  dec_rsp (spec_rsp_pdu v) = Val v.
Proof. exact rsp_reencode. Qed.

(* non-vacuity: concrete PDUs on both sides of the classifier, incl. the repaired findings F1/F2 *)
Example C08_ex_accept : dec_req [0x0F; 0; 5; 0; 10; 2; 0xFF; 0x03] =
  Val (ReqWriteMultipleCoils 5 [true; true; true; true; true; true; true; true; true; true]).
Proof. reflexivity. Qed.
Example C08_ex_reject_F1 : dec_req [0x0F; 0; 0; 0xFF; 0xFF; 1; 0xAA] = Fail KInvalidData.
Proof. reflexivity. Qed.
Example C08_ex_reject_F2 : dec_req [0x10; 0; 0; 0x80; 0; 0] = Fail KInvalidData.
Proof. reflexivity. Qed.
Example C08_ex_rsp : dec_rsp [0x11; 3; 9; 0xFF; 7] = Val (RspReportServerId 9 true [7]).
Proof. reflexivity. Qed.
