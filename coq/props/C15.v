(* C15 -- disconnect shuts the transport down once and makes the client inert. *)
From TM Require Import Base Frame Framed Client ClientProofs Histories.

(* the first disconnect performs the shutdown; its result is the shutdown's, with NotConnected and
   BrokenPipe counted as success ([first_shutdown] skips Pending polls) *)
Theorem C15_first_disconnect : forall st, framed st = true ->
  fst (disconnect st) = first_shutdown (sq st) /\ framed (snd (disconnect st)) = false
  /\ shutdowns (snd (disconnect st)) = shutdowns st + 1.
Proof. exact disconnect_first. Qed.

(* disconnecting again succeeds without touching the transport *)
Theorem C15_disconnect_again : forall st, framed st = false -> disconnect st = (DROk, st).
Proof. exact disconnect_again. Qed.

(* afterwards every call fails with NotConnected, writes nothing, reads nothing *)
Theorem C15_inert : forall p m st req bg, framed st = false ->
  fst (call p m st req bg) = CRTransport KNotConnected
  /\ wio_ (snd (call p m st req bg)) = wio_ st /\ rq (snd (call p m st req bg)) = rq st
  /\ framed (snd (call p m st req bg)) = false /\ shutdowns (snd (call p m st req bg)) = shutdowns st.
Proof. exact call_when_disconnected. Qed.

(* over every interleaving of calls, set_slave and disconnects: shutdown happens at most once, and
   exactly once as soon as the client is disconnected *)
Theorem C15_shutdown_exactly_once : forall p m ops st s0, conn_inv st s0 -> conn_inv (run_ops p m st ops) s0.
Proof. exact shutdown_at_most_once. Qed.

Example C15_ex : first_shutdown [SdPend; SdErr KBrokenPipe] = DROk /\ first_shutdown [SdErr (KOther 1)] = DRErr (KOther 1).
Proof. split; reflexivity. Qed.

(* a disconnect whose future is DROPPED while the transport's shutdown is still pending (a timeout around disconnect()): the
   transport had been taken out before the first suspension point, so the client is inert all the same -- later calls fail with
   NotConnected without writing (C15_inert), later disconnects do not touch the transport (C15_disconnect_again) -- and no
   completed shutdown is counted for it.  With an unlimited budget this is the plain disconnect. *)
Theorem C15_abandoned_disconnect_leaves_client_inert : forall st bg,
  framed (snd (disconnect_bg st bg)) = false
  /\ wio_ (snd (disconnect_bg st bg)) = wio_ st /\ rq (snd (disconnect_bg st bg)) = rq st
  /\ (shutdowns (snd (disconnect_bg st bg)) = shutdowns st \/ shutdowns (snd (disconnect_bg st bg)) = shutdowns st + 1).
Proof. exact disconnect_bg_inert. Qed.
Theorem C15_disconnect_bg_is_disconnect : forall st, disconnect_bg st None = disconnect st.
Proof. exact disconnect_bg_none. Qed.
