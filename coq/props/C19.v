(* C19 -- function codes, exception codes and slave ids convert to numbers without loss.
   Property theorems only: each is closed by [exact] of a lemma of proofs/C19_proofs.v. *)
From Coq Require Import Lia.
From TM Require Import Base Frame Pdu Slave Text Sweep C19_proofs.

(* any byte -> code -> byte is the identity *)
Theorem C19_fc_roundtrip : forall b, b < 256 -> fc_value (fc_new b) = b.
Proof. exact fc_roundtrip. Qed.
Theorem C19_ex_roundtrip : forall b, b < 256 -> ex_value (ex_new b) = b.
Proof. exact ex_roundtrip. Qed.

(* every code of the specification's table maps to its named variant, every other byte to the
   custom variant carrying that byte *)
Theorem C19_fc_named : forall b, b < 256 -> fc_new b = spec_fc b.
Proof. exact fc_named. Qed.
Theorem C19_ex_named : forall b, b < 256 -> ex_new b = spec_ex b.
Proof. exact ex_named. Qed.
Theorem C19_fc_table_rows : forall b f, In (b, f) spec_fc_table -> fc_new b = f /\ fc_value f = b.
Proof. exact fc_table_rows. Qed.
Theorem C19_ex_table_rows : forall b e, In (b, e) spec_ex_table -> ex_new b = e /\ ex_value e = b.
Proof. exact ex_table_rows. Qed.

(* the function code reported for a request / response is the first byte of its encoding
   (all variants, unbounded payloads, both build profiles) *)
Theorem C19_req_fc_is_first_byte : forall m r bs, enc_req m r = Val bs -> hd_error bs = Some (fc_value (req_fc r)).
Proof. exact req_first_byte. Qed.
Theorem C19_rsp_fc_is_first_byte : forall m r bs, enc_rsp m r = Val bs -> hd_error bs = Some (fc_value (rsp_fc r)).
Proof. exact rsp_first_byte. Qed.

(* decimal and 0x-hexadecimal (either case) spellings of n < 65536, with up to two leading zeros,
   parse to n exactly when n <= 255 and are rejected otherwise *)
Theorem C19_slave_parse : forall n z, n < 65536 -> z <= 2 ->
  slave_parse (dec_form z n) = expected n /\
  slave_parse (hex_form hex_lower_digit z n) = expected n /\
  slave_parse (hex_form hex_digit_upper z n) = expected n.
Proof. exact slave_parse_spellings. Qed.

(* Display shows "<dec> (0x<HH>)" and both parts parse back to the id *)
Theorem C19_slave_display : forall n, n < 256 -> display_check n = true.
Proof. exact slave_display_all. Qed.

(* every id is exactly one of broadcast / single device / reserved *)
Theorem C19_slave_partition : forall n, n < 256 -> partition_check n = true.
Proof. exact slave_partition_all. Qed.

(* non-vacuity / sanity instances *)
Example C19_ex1 : fc_new 0x2B = FcEncapsulatedInterfaceTransport /\ fc_new 0x41 = FcCustom 0x41 /\ ex_new 0x0B = ExGatewayTargetDevice.
Proof. repeat split. Qed.
Example C19_ex2 : slave_parse (hex_form hex_digit_upper 1 255) = Some 255 /\ slave_parse (dec_form 0 256) = None.
Proof. split; vm_compute; reflexivity. Qed.
