(* C03 -- no byte sequence can crash, hang or bloat a decoder, client or server.
   In the model an out-of-range index, a checked arithmetic overflow, a failed debug assertion and
   unreachable!() are all the outcome [Panic] (DPanic / NPanic / CRPanic / TPanic at the higher
   layers), so "never Panic" is "never reads outside the supplied data, never overflows, never
   asserts".  All theorems quantify over ALL byte strings / event scripts / service behaviours. *)
From Coq Require Import Lia.
From TM Require Import Base Frame Pdu RtuCodec TcpCodec Framed Client Server PduDecode FramedProofs
  ClientProofs TypedProofs EndToEnd Totality Histories Slices Bounds BufferBound.

(* the three PDU decoding entry points and the response dispatcher: a value or an error, never a panic *)
Theorem C03_request_pdu_total : forall bs, dec_req bs <> Panic.
Proof. exact dec_req_no_panic. Qed.
Theorem C03_response_pdu_total : forall bs, dec_rsp bs <> Panic.
Proof. exact dec_rsp_no_panic. Qed.
Theorem C03_exception_pdu_total : forall bs, dec_exc bs <> Panic.
Proof. exact dec_exc_no_panic. Qed.
Theorem C03_response_result_pdu_total : forall bs, dec_rsp_pdu bs <> Panic.
Proof. exact dec_rsp_pdu_no_panic. Qed.

(* the four stream decoders: never a panic, the buffer never grows, and an item strictly shrinks it *)
Theorem C03_client_stream_decoder_total : forall p, dec_total (client_dec p).
Proof. exact client_dec_total. Qed.
Theorem C03_server_stream_decoder_total : forall p, dec_total (server_dec p).
Proof. exact server_dec_total. Qed.

(* progress of the framing layer: every return is no panic, never increases
   (buffered bytes + bytes still in the transport script + number of script events), and every
   delivered item strictly decreases it -- so no input makes it loop *)
Theorem C03_framed_progress : forall p evs st bg r st' evs' bg',
  next (server_dec p) st evs bg = (r, st', evs', bg') ->
  r <> NPanic /\ (mu st' evs' <= mu st evs)%nat /\ (forall i, r = NItem i -> (mu st' evs' < mu st evs)%nat).
Proof. intros p. exact (next_total (server_dec p) (server_dec_total p)). Qed.

(* a client call fed arbitrary reply bytes returns a result or keeps waiting: never a panic; the typed
   methods likewise *)
Theorem C03_client_call_never_panics : forall p m st req bg, fst (call p m st req bg) <> CRPanic.
Proof. exact call_no_panic. Qed.
Theorem C03_typed_methods_never_panic : forall p m st req bg,
  is_typed_req req = true -> fst (typed p m st req bg) <> TRErr CRPanic.
Proof. exact typed_no_panic. Qed.
Theorem C03_client_encoder_never_panics : forall p m h r, client_enc p m h r <> Panic.
Proof. exact client_enc_no_panic. Qed.

(* a server connection fed arbitrary bytes, with an arbitrary service and arbitrary write behaviour:
   the loop never panics and terminates within fuel = bytes + events + 2 (it serves, reports or waits) *)
Theorem C03_server_connection_total : forall p m q wq fq svc,
  ~ In TOutOfFuel (serve_conn p m q wq fq svc) /\ ~ In TPanic (serve_conn p m q wq fq svc).
Proof. exact serve_conn_terminates. Qed.

(* bounded buffering of the MBAP layer: once the 7-byte header is there, a frame is taken (or refused)
   as soon as 7 + (length field - 1) <= 65541 bytes are buffered; the layer never asks for more *)
Theorem C03_mbap_frame_bound : forall t1 t2 p1 p2 l1 l2 uid rest b r,
  l1 < 256 -> l2 < 256 -> 65535 <= len rest ->
  adu_decode (t1 :: t2 :: p1 :: p2 :: l1 :: l2 :: uid :: rest) = (b, r) -> r <> DNone.
Proof.
  intros t1 t2 p1 p2 l1 l2 uid rest b r H1 H2 Hl H. unfold adu_decode in H.
  destruct (of_be16 l1 l2 =? 0); [injection H as <- <-; discriminate|].
  assert (Hlt : of_be16 l1 l2 < 65536) by (apply BaseLemmas.of_be16_lt; assumption).
  match type of H with context [?a <? ?b] => destruct (N.ltb_spec a b) as [Hs|Hs] end.
  - exfalso. unfold HEADER_LEN in Hs. rewrite !BaseLemmas.len_cons in Hs. lia.
  - destruct (negb _); injection H as <- <-; discriminate.
Qed.

(* ---- bounded buffering, all decoders, whole connections ----
   the RTU decoders ask for more input only below the longest frame their length tables can announce plus the
   19 bytes one call may drop: 268 + 19 bytes for requests, 65541 + 19 for responses (function 0x18 announces
   a 16-bit byte count) *)
Theorem C03_rtu_request_buffer_bound : forall buf b r, bytes_ok buf = true -> 287 <= len buf ->
  rtu_server_dec buf = (b, r) -> r <> DNone.
Proof. exact rtu_server_dec_buffer_bound. Qed.
Theorem C03_rtu_response_buffer_bound : forall buf b r, bytes_ok buf = true -> 65560 <= len buf ->
  rtu_client_dec buf = (b, r) -> r <> DNone.
Proof. exact rtu_client_dec_buffer_bound. Qed.
(* the framing layer over such a decoder: one [next], any script whose read chunks are at most M bytes *)
Theorem C03_framing_layer_buffer_bounded : forall p M evs st bg r st' evs' bg',
  bytes_ok (rbuf st) = true -> sok evs -> chunks_le M evs ->
  rerrored st = false -> rinv (server_bound p) st -> len (rbuf st) < server_bound p + M ->
  next (server_dec p) st evs bg = (r, st', evs', bg') ->
  len (rbuf st') < server_bound p + M /\ (rerrored st' = false -> rinv (server_bound p) st') /\ bytes_ok (rbuf st') = true
  /\ sok evs' /\ chunks_le M evs'.
Proof.
  intros p M. exact (next_bounded (server_dec p) (server_bound p) M (server_bound_pos p) (server_dec_total p)
                       (seg_suf _ _ (server_dec_seg p)) (server_dec_bound p)).
Qed.
(* a server connection, however many requests it serves: the receive buffer stays below one maximal frame
   (65542 bytes TCP, 287 bytes RTU) plus one read chunk *)
Theorem C03_server_connection_buffer_bounded : forall p M n q is st' q',
  sok q -> chunks_le M q -> take_items (server_dec p) n rstate0 q = Some (is, st', q') ->
  len (rbuf st') < server_bound p + M.
Proof. exact server_buffer_bounded. Qed.
(* a client, after ANY history of calls (completed, failed, abandoned), slave changes and disconnects *)
Theorem C03_client_buffer_bounded : forall p m M slave ops, Forall (op_ok M) ops ->
  len (rbuf (rst (run_ops p m (client_new p slave) ops))) < client_bound p + M.
Proof. exact client_buffer_never_exceeds. Qed.

(* the decoder's record of skipped bytes (written on every resynchronisation step, kept for the life of the connection):
   at most 256 entries after ANY sequence of decoder calls, whatever each dropped and however it ended.  Nothing a decoder
   returns depends on the record -- [decode_loop] does not take it.  (Tied to the code only through the heap meter: sustained
   noise must not make live memory grow.) *)
Theorem C03_skip_record_bounded : forall (calls : list (list N * dres (N * list N))) rec, len rec <= MAX_FRAME_LEN ->
  len (fold_left (fun rc c => record_after rc (fst c) (snd c)) calls rec) <= MAX_FRAME_LEN.
Proof. exact record_always_bounded. Qed.

(* non-vacuity of the buffer-bound hypotheses: a fresh connection satisfies them, and so does a script of short reads *)
Example C03_bound_hypotheses_hold : rinv (server_bound RTU) rstate0 /\ len (rbuf rstate0) < server_bound RTU + 16
  /\ sok [RData [1; 2; 3]; RPend; RData [4]] /\ chunks_le 16 [RData [1; 2; 3]; RPend; RData [4]]
  /\ Forall (op_ok 16) [OCall false (ReqReadCoils 1 1) None [] [] [RData [1; 2]]; OSlave 3].
Proof.
  split; [intros _; vm_compute; reflexivity|]. split; [vm_compute; reflexivity|]. split; [vm_compute; reflexivity|].
  split; [cbn; lia|].
  constructor; [split; [vm_compute; reflexivity|cbn; lia]|]. constructor; [exact I|constructor].
Qed.
