(* C09 -- oversized PDUs are refused before sending; PDUs up to 253 bytes go out intact. *)
From TM Require Import Base Frame Pdu RtuCodec TcpCodec Framed Client Server Spec PduEncode ClientProofs EndToEnd.

(* a request whose PDU would exceed 253 bytes: InvalidInput transport error, nothing written, nothing
   read, the write buffer unchanged, the client still connected (usable) -- TCP and RTU *)
Theorem C09_oversized_request_refused : forall p m st req bg,
  framed st = true -> 253 < req_size req -> len (wbuf (wio_ st)) < BACKPRESSURE ->
  fst (call p m st req bg) = CRTransport KInvalidInput
  /\ wio_ (snd (call p m st req bg)) = wio_ st /\ rq (snd (call p m st req bg)) = rq st
  /\ framed (snd (call p m st req bg)) = true.
Proof. exact oversized_request_refused. Qed.

(* a response that would exceed 253 bytes is refused by the server encoder (the connection then ends
   with one InvalidInput report, C14) *)
Theorem C09_oversized_response_refused : forall p m h r, 253 < rsp_size r -> server_enc p m h (RROk r) = Fail KInvalidInput.
Proof. exact oversized_response_refused. Qed.

(* up to 253 bytes: the encoder produces the spec encoding -- count and length fields are the true
   counts (no truncation, no debug assertion) -- and its length is the computed size, in both profiles *)
Theorem C09_request_intact : forall m r, req_ok r = true -> req_size r <= 253 ->
  enc_req m r = Val (spec_req_pdu r) /\ len (spec_req_pdu r) = req_size r.
Proof. exact enc_req_spec. Qed.
Theorem C09_response_intact : forall m r, rsp_ok r = true -> rsp_size r <= 253 ->
  enc_rsp m r = Val (spec_rsp_pdu r) /\ len (spec_rsp_pdu r) = rsp_size r.
Proof. exact enc_rsp_spec. Qed.
Theorem C09_mbap_length_not_truncated : forall m tid uid r, req_ok r = true -> req_size r <= 253 -> tid < 65536 ->
  tcp_client_enc m (tid, uid) r = Val (TcpProofs.tcp_frame tid uid (spec_req_pdu r)).
Proof. exact client_frame_tcp. Qed.

(* boundary instances *)
Example C09_boundary_coils : req_size (ReqWriteMultipleCoils 0 (repeat true 1976)) = 253 /\ req_size (ReqWriteMultipleCoils 0 (repeat true 1977)) = 254.
Proof. split; vm_compute; reflexivity. Qed.
Example C09_boundary_registers : req_size (ReqWriteMultipleRegisters 0 (repeat 7 123)) = 252 /\ req_size (ReqWriteMultipleRegisters 0 (repeat 7 124)) = 254.
Proof. split; vm_compute; reflexivity. Qed.
Example C09_boundary_rw : req_size (ReqReadWriteMultipleRegisters 0 1 0 (repeat 7 121)) = 252 /\ req_size (ReqReadWriteMultipleRegisters 0 1 0 (repeat 7 122)) = 254.
Proof. split; vm_compute; reflexivity. Qed.
Example C09_boundary_server_id : rsp_size (RspReportServerId 1 true (repeat 0 249)) = 253 /\ rsp_size (RspReportServerId 1 true (repeat 0 250)) = 254.
Proof. split; vm_compute; reflexivity. Qed.

(* the same for the other three framings: what goes out is the header, the untruncated spec PDU and
   (RTU) its CRC, for every request / response of at most 253 bytes *)
Theorem C09_rtu_request_frame_intact : forall m tid uid r, req_ok r = true -> req_size r <= 253 ->
  rtu_client_enc m (tid, uid) r = Val (rtu_frame uid (spec_req_pdu r)).
Proof. exact client_frame_rtu. Qed.
Theorem C09_tcp_response_frame_intact : forall m tid uid r, rsp_ok r = true -> rsp_size r <= 253 -> tid < 65536 ->
  tcp_server_enc m (tid, uid) (RROk r) = Val (TcpProofs.tcp_frame tid uid (spec_rsp_pdu r)).
Proof. exact server_frame_tcp. Qed.
Theorem C09_rtu_response_frame_intact : forall m tid uid r, rsp_ok r = true -> rsp_size r <= 253 ->
  rtu_server_enc m (tid, uid) (RROk r) = Val (rtu_frame uid (spec_rsp_pdu r)).
Proof. exact server_frame_rtu. Qed.
