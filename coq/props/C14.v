(* C14 -- a server connection ends cleanly or with one error report; the server lives on.
   Combine with C07_stream_is_served_request_by_request: all complete requests before the point where
   the stream ends or breaks are served ([served ...]) and then the continuation below decides how the
   connection ends -- nothing after that point is served. *)
From TM Require Import Base Frame Pdu RtuCodec TcpCodec Framed Client Server FramedProofs ServerProofs AcceptProofs EndToEnd PartialFrame.

(* peer closes on a frame boundary: silent end *)
Theorem C14_clean_close : forall p m fuel rd w svc tl,
  process (S fuel) p m (mkR [] false rd false) w (REof :: tl) svc = [TClosed].
Proof. exact end_clean_close. Qed.
(* stream ends inside a frame: exactly one report *)
Theorem C14_eof_inside_frame : forall p m fuel rd w svc f i cs tl,
  server_valid p f i -> Forall nonempty cs -> concat cs <> [] -> proper_prefix (concat cs) f ->
  process (S fuel) p m (mkR [] false rd false) w (datas cs ++ REof :: tl) svc = [TReport (KOther 0)].
Proof. exact end_inside_frame. Qed.
(* read error on a boundary or inside a frame: exactly one report *)
Theorem C14_read_error : forall p m fuel rd w svc k tl,
  process (S fuel) p m (mkR [] false rd false) w (RErr k :: tl) svc = [TReport k].
Proof. exact end_read_error. Qed.
Theorem C14_read_error_inside_frame : forall p m fuel rd w svc f i cs tl k,
  server_valid p f i -> Forall nonempty cs -> proper_prefix (concat cs) f ->
  process (S fuel) p m (mkR [] false rd false) w (datas cs ++ RErr k :: tl) svc = [TReport k].
Proof. exact end_error_inside_frame. Qed.
(* nothing more arrives: the task waits (no report, no end) *)
Theorem C14_idle_waits : forall p m fuel rd w svc, process (S fuel) p m (mkR [] false rd false) w [] svc = [TWaiting].
Proof. exact end_waiting. Qed.
(* a reply that cannot be encoded (oversized): one InvalidInput report, nothing after ([trace_default]
   stops at the first Fail) *)
Theorem C14_oversized_reply_reports : forall p m h r, 253 < rsp_size r -> server_enc p m h (RROk r) = Fail KInvalidInput.
Proof. exact oversized_response_refused. Qed.

(* accept loop: everything before the first stopping event is handled (a task per service, nothing
   for a rejected connection); a failing setup / accept stops with that error, the abort signal with
   Aborted; nothing after it is accepted *)
Theorem C14_accept_loop : forall pre e post,
  forallb (fun x => negb (stops x)) pre = true -> stops e = true ->
  serve (pre ++ e :: post) = (flat_map script_of pre, result_of e post).
Proof. exact serve_split. Qed.
Theorem C14_accept_loop_keeps_listening : forall evs,
  forallb (fun x => negb (stops x)) evs = true -> serve evs = (flat_map script_of evs, SrvListening).
Proof. exact serve_keeps_listening. Qed.
(* error reports of the connections add up: a misbehaving connection does not affect the others *)
Theorem C14_reports_are_per_connection : forall p m a b, serve_reports p m (a ++ b) = serve_reports p m a + serve_reports p m b.
Proof. exact serve_reports_app. Qed.

(* the abort signal is honoured even while the accept loop is suspended inside a connection setup (on_connected) that
   never completes: serve_until reports Aborted, with the connections accepted before still handed to their tasks *)
Theorem C14_abort_during_hanging_setup : forall pre post1 post2,
  forallb (fun x => negb (stops x)) pre = true ->
  serve (pre ++ AConn SetupHang :: post1 ++ AAbort :: post2) = (flat_map script_of pre, SrvAborted).
Proof. exact abort_during_hanging_setup. Qed.

(* "the stream ends inside a frame" for ARBITRARY bytes: the bytes received since the last frame boundary form a PARTIAL frame -- the
   decoder has accepted their beginning as the start of a frame announcing more bytes than have arrived (RTU: the request length
   table; TCP: a non-zero MBAP length field, or fewer than 7 bytes) -- whatever those bytes are, also when they contain a complete
   well-formed frame of their own: exactly one report, no service invocation, nothing written *)
Theorem C14_end_inside_partial_frame : forall p m fuel rd w svc cs tl,
  Forall nonempty cs -> concat cs <> [] -> partial_srv p (concat cs) ->
  process (S fuel) p m (mkR [] false rd false) w (datas cs ++ REof :: tl) svc = [TReport (KOther 0)].
Proof. exact end_inside_partial_frame. Qed.
Theorem C14_error_inside_partial_frame : forall p m fuel rd w svc cs tl k,
  Forall nonempty cs -> partial_srv p (concat cs) ->
  process (S fuel) p m (mkR [] false rd false) w (datas cs ++ RErr k :: tl) svc = [TReport k].
Proof. exact error_inside_partial_frame. Qed.
