(* C06 -- a client call succeeds only for the response that answers its request.
   [call_reply] is the reply item (header, decoded result) the call consumed, if it got that far;
   [req_hdr] the header it stamped on its request (transaction id and unit id for TCP, slave id for
   RTU).  Quantified over every client state (= every history), request, scripted transport. *)
From TM Require Import Base Frame Pdu RtuCodec Framed Client ClientProofs C06More.

Theorem C06_every_outcome_is_classified : forall p m st req bg,
  match call_reply p m st req bg with
  | Some i => fst (call p m st req bg) = classify p st req i
  | None => match fst (call p m st req bg) with
            | CROk _ | CRExc _ | CRHeaderMismatch _ | CRFcMismatch _ _ => False
            | _ => True
            end
  end.
Proof. exact call_classify. Qed.

(* success (response or inner exception) => same header and numerically the same function code *)
Theorem C06_success_only_if : forall p m st req bg,
  is_success (fst (call p m st req bg)) = true ->
  exists rr, call_reply p m st req bg = Some (req_hdr p st, rr)
             /\ fc_value (rr_fc rr) = fc_value (req_fc req)
             /\ fst (call p m st req bg) = match rr with RROk r => CROk r | RRExc e => CRExc (exr_exception e) end.
Proof. exact call_success_only_if. Qed.

(* another header => header-mismatch protocol error carrying the decoded reply *)
Theorem C06_header_mismatch : forall p m st req bg rh rr,
  call_reply p m st req bg = Some (rh, rr) -> rh <> req_hdr p st ->
  fst (call p m st req bg) = CRHeaderMismatch rr.
Proof. exact call_header_mismatch. Qed.

(* right header, another function code => function-code-mismatch protocol error carrying it *)
Theorem C06_function_code_mismatch : forall p m st req bg rr,
  call_reply p m st req bg = Some (req_hdr p st, rr) -> fc_value (rr_fc rr) <> fc_value (req_fc req) ->
  fst (call p m st req bg) = CRFcMismatch (req_fc req) rr.
Proof. exact call_fc_mismatch. Qed.

(* ---- the converse directions: exactly which replies produce which outcome ---- *)

(* success <=> the consumed reply carries the request's header and numerically its function code *)
Theorem C06_success_iff : forall p m st req bg,
  is_success (fst (call p m st req bg)) = true <->
  exists rr, call_reply p m st req bg = Some (req_hdr p st, rr)
             /\ fc_value (rr_fc rr) = fc_value (req_fc req).
Proof. exact call_success_iff. Qed.

(* a header-mismatch error is reported exactly for a consumed reply with another header, and carries it *)
Theorem C06_header_mismatch_iff : forall p m st req bg rr,
  fst (call p m st req bg) = CRHeaderMismatch rr <->
  exists rh, call_reply p m st req bg = Some (rh, rr) /\ rh <> req_hdr p st.
Proof. exact call_header_mismatch_iff. Qed.

(* a function-code-mismatch error is reported exactly for a consumed reply with the right header and
   another code; it carries the request's function code and that reply *)
Theorem C06_function_code_mismatch_iff : forall p m st req bg f rr,
  fst (call p m st req bg) = CRFcMismatch f rr <->
  (f = req_fc req /\ call_reply p m st req bg = Some (req_hdr p st, rr)
   /\ fc_value (rr_fc rr) <> fc_value (req_fc req)).
Proof. exact call_fc_mismatch_iff. Qed.

(* the three reply-driven outcomes exclude one another and exhaust the calls that consumed a reply *)
Theorem C06_reply_outcome_cases : forall p m st req bg rh rr,
  call_reply p m st req bg = Some (rh, rr) ->
  let c := fst (call p m st req bg) in
  (rh <> req_hdr p st /\ c = CRHeaderMismatch rr) \/
  (rh = req_hdr p st /\ fc_value (rr_fc rr) <> fc_value (req_fc req) /\ c = CRFcMismatch (req_fc req) rr) \/
  (rh = req_hdr p st /\ fc_value (rr_fc rr) = fc_value (req_fc req)
   /\ c = match rr with RROk r => CROk r | RRExc e => CRExc (exr_exception e) end).
Proof. exact call_reply_outcome_cases. Qed.
