(* C05 -- Modbus TCP framing reassembles exact frames and rejects invalid MBAP headers.
   [valid_req_frame f i]: f = MBAP header (tid, protocol 0, length = |pdu|+1, unit) ++ pdu with
   1 <= |pdu| <= 65534 and the PDU decodes to the item's request ([valid_rsp_frame] likewise).
   [take_items dec n st evs] performs n successive [next]s and returns the n items. *)
From Coq Require Import Lia.
From TM Require Import Base Frame Pdu RtuCodec TcpCodec Framed Client Server FramedProofs TcpProofs StreamProofs Histories Slices SlicesClient.

(* any concatenation of well-formed frames, under EVERY composition into non-empty read chunks, is
   delivered frame by frame, each once, in order, header and PDU intact; nothing is left over *)
Theorem C05_server_reassembly : forall fs is cs,
  Forall2 valid_req_frame fs is -> Forall nonempty cs -> concat cs = concat fs ->
  exists st' cs', take_items tcp_server_dec (length fs) rstate0 (datas cs) = Some (is, st', datas cs')
                  /\ rbuf st' ++ concat cs' = [].
Proof. exact tcp_server_stream. Qed.
Theorem C05_client_reassembly : forall fs is cs,
  Forall2 valid_rsp_frame fs is -> Forall nonempty cs -> concat cs = concat fs ->
  exists st' cs', take_items tcp_client_dec (length fs) rstate0 (datas cs) = Some (is, st', datas cs')
                  /\ rbuf st' ++ concat cs' = [].
Proof. exact tcp_client_stream. Qed.

(* the item of a frame followed by ANY bytes is delivered leaving exactly those bytes: nothing is
   taken from the next frame *)
Theorem C05_nothing_from_next_frame : forall f i x, valid_req_frame f i -> tcp_server_dec (f ++ x) = (x, DSome i).
Proof. exact tcp_server_H1. Qed.

(* while a frame is incomplete nothing is delivered and the bytes stay buffered *)
Theorem C05_nothing_early_server : forall cs b rd f i,
  valid_req_frame f i -> Forall nonempty cs -> proper_prefix (b ++ concat cs) f ->
  exists st', next tcp_server_dec (mkR b false rd false) (datas cs) None = (NWait, st', [], None) /\ rbuf st' = b ++ concat cs.
Proof. exact tcp_server_nothing_early. Qed.
Theorem C05_nothing_early_client : forall cs b rd f i,
  valid_rsp_frame f i -> Forall nonempty cs -> proper_prefix (b ++ concat cs) f ->
  exists st', next tcp_client_dec (mkR b false rd false) (datas cs) None = (NWait, st', [], None) /\ rbuf st' = b ++ concat cs.
Proof. exact tcp_client_nothing_early. Qed.

(* invalid headers: a zero length field is an error as soon as the header is there; a non-zero
   protocol identifier never yields an item and is an error once the announced frame is complete *)
Theorem C05_zero_length : forall t1 t2 p1 p2 uid rest,
  adu_decode (t1 :: t2 :: p1 :: p2 :: 0 :: 0 :: uid :: rest) = (t1 :: t2 :: p1 :: p2 :: 0 :: 0 :: uid :: rest, DErr KInvalidData).
Proof. exact adu_decode_len0. Qed.
Theorem C05_bad_protocol_never_item : forall t1 t2 p1 p2 l1 l2 uid rest,
  of_be16 p1 p2 <> 0 ->
  forall b r, adu_decode (t1 :: t2 :: p1 :: p2 :: l1 :: l2 :: uid :: rest) = (b, r) -> forall i, r <> DSome i.
Proof. exact adu_decode_bad_protocol. Qed.
Theorem C05_bad_protocol_error : forall t1 t2 p1 p2 l1 l2 uid rest,
  of_be16 p1 p2 <> 0 -> of_be16 l1 l2 <> 0 -> 7 + (of_be16 l1 l2 - 1) <= 7 + len rest ->
  adu_decode (t1 :: t2 :: p1 :: p2 :: l1 :: l2 :: uid :: rest) = (rest, DErr KInvalidData).
Proof. exact adu_decode_bad_protocol_complete. Qed.

(* every frame the client transmits: protocol identifier 0, length field = PDU length + 1 (never
   truncated: PDU <= 253), unit id, PDU *)
Theorem C05_emitted_request_frame : forall m h r bs, fst h < 65536 -> tcp_client_enc m h r = Val bs ->
  exists pdu, enc_req m r = Val pdu /\ len pdu <= 253 /\ bs = tcp_frame (fst h) (snd h) pdu.
Proof. exact tcp_client_enc_shape. Qed.
Theorem C05_frame_layout : forall tid uid pdu,
  tcp_frame tid uid pdu = hi8 tid :: lo8 tid :: 0 :: 0 :: hi8 (len pdu + 1) :: lo8 (len pdu + 1) :: uid :: pdu.
Proof. exact tcp_frame_shape. Qed.

(* non-vacuity *)
Example C05_ex : valid_req_frame [0x12; 0x34; 0; 0; 0; 2; 0x56; 0x11] ((0x1234, 0x56), ReqReportServerId).
Proof. exists 0x1234, 0x56, [0x11]. unfold hdr_ok. repeat split; cbn; lia. Qed.

(* ---- arbitrary streams (not only concatenations of well-formed frames) ----
   whatever bytes arrive, in whatever fragmentation, and however the connection ends: every request handed to
   the service is carried by its own contiguous slice  tid(2) 00 00 len(2) unit pdu  with len = |pdu| + 1 of the
   received stream, the slices are pairwise disjoint and in stream order -- so nothing is ever taken from the
   bytes of the next frame, no frame is delivered twice, and a header with a non-zero protocol identifier is
   never the header of a delivered frame *)
Theorem C05_served_requests_are_disjoint_slices : forall m q wq fq svc, bytes_ok (sdata q) = true ->
  exists rest, Slices (call_slice TCP) (sdata q) (calls (serve_conn TCP m q wq fq svc)) rest.
Proof. exact (serve_conn_slices TCP). Qed.
Theorem C05_served_slice_shape : forall f c, call_slice TCP f c ->
  exists t1 t2 l1 l2 pdu, f = t1 :: t2 :: 0 :: 0 :: l1 :: l2 :: fst c :: pdu
    /\ of_be16 l1 l2 = len pdu + 1 /\ dec_req pdu = Val (snd c).
Proof. exact tcp_call_slice. Qed.
(* the same for the replies consumed by the calls of any client history *)
Theorem C05_consumed_replies_are_disjoint_slices : forall m ops st, bytes_ok (stream st ++ delivered ops) = true ->
  Slices (client_slice TCP) (stream st ++ delivered ops) (replies TCP m st ops) (stream (run_ops TCP m st ops)).
Proof. exact (history_slices TCP). Qed.
Theorem C05_reply_slice_shape : forall f i, client_slice TCP f i ->
  exists t1 t2 l1 l2 pdu, f = t1 :: t2 :: 0 :: 0 :: l1 :: l2 :: snd (fst i) :: pdu
    /\ fst (fst i) = of_be16 t1 t2 /\ of_be16 l1 l2 = len pdu + 1 /\ dec_rsp_pdu pdu = Val (snd i).
Proof. exact tcp_client_slice. Qed.
