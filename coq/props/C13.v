(* C13 -- transport faults surface as transport errors, never as data. *)
From TM Require Import Base Frame Pdu RtuCodec TcpCodec Framed Client FramedProofs FramedMore ClientProofs Histories PartialFrame.

(* end of stream or a read error after ANY proper prefix of the reply (any chunking) *)
Theorem C13_read_fault : forall p m st req bg f i cs tl w bg1 (e : revt),
  framed st = true -> clean st -> reof (rst st) = false -> rreadable (rst st) = false ->
  send (client_enc p m (req_hdr p st) req) (wio_ st) bg = (SOk, w, bg1, false) ->
  client_valid p f i -> Forall nonempty cs -> proper_prefix (concat cs) f ->
  rq st = datas cs ++ e :: tl -> (e = REof \/ exists k, e = RErr k) ->
  exists k, fst (call p m st req bg) = CRTransport k.
Proof. exact read_fault_is_transport_error. Qed.

(* an orderly end of stream before any reply byte denotes a closed connection *)
Theorem C13_eof_is_broken_pipe : forall p m st req bg tl w bg1,
  framed st = true -> clean st -> reof (rst st) = false -> rreadable (rst st) = false ->
  send (client_enc p m (req_hdr p st) req) (wio_ st) bg = (SOk, w, bg1, false) ->
  rq st = REof :: tl -> client_dec p [] = ([], DNone) ->
  fst (call p m st req bg) = CRTransport KBrokenPipe.
Proof. exact eof_is_broken_pipe. Qed.

(* a write error / zero-length write at any offset: transport error, and what the transport accepted
   plus what is still buffered is exactly what was offered (so the accepted bytes are a prefix) *)
Theorem C13_write_fault : forall p m st req bg k w bg1,
  framed st = true ->
  send (client_enc p m (req_hdr p st) req) (wio_ st) bg = (SErr k, w, bg1, false) ->
  fst (call p m st req bg) = CRTransport k
  /\ exists fr, (fr = [] \/ client_enc p m (req_hdr p st) req = Val fr)
                /\ accepted w ++ wbuf w = accepted (wio_ st) ++ wbuf (wio_ st) ++ fr.
Proof. exact write_fault_is_transport_error. Qed.

(* piecewise / intermittent writes: for EVERY write script (any granularity, any pending pattern) the
   bytes handed to the transport plus the bytes still buffered are conserved, and a successful send
   has handed over everything, once and in order *)
Theorem C13_write_pieces : forall frame w bg r w' bg' pn,
  send frame w bg = (r, w', bg', pn) ->
  exists fr, (fr = [] \/ frame = Val fr) /\ accepted w' ++ wbuf w' = accepted w ++ wbuf w ++ fr
             /\ (r = SOk -> pn = false -> frame = Val fr /\ wbuf w' = []) /\ r <> SWait.
Proof. exact send_conserve. Qed.

(* "never success built from a partial frame", for ARBITRARY bytes: what has arrived when the stream ends or fails is a PARTIAL frame --
   the decoder has accepted its beginning as the start of a reply announcing more bytes than have arrived (RTU: the response length
   table; TCP: a non-zero MBAP length field, or fewer than 7 bytes).  Whatever those bytes are -- in particular when the payload received
   so far contains a complete, CRC-correct reply of its own ([C13_ex_embedded]) -- and however they were chunked: a transport error *)
Theorem C13_partial_frame_then_fault : forall p m st req bg cs tl w bg1 (e : revt),
  framed st = true -> clean st -> reof (rst st) = false -> rreadable (rst st) = false ->
  send (client_enc p m (req_hdr p st) req) (wio_ st) bg = (SOk, w, bg1, false) ->
  Forall nonempty cs -> partial_cli p (concat cs) ->
  rq st = datas cs ++ e :: tl -> (e = REof \/ exists k, e = RErr k) ->
  exists k, fst (call p m st req bg) = CRTransport k.
Proof. exact partial_then_fault_is_transport_error. Qed.
(* being partial is inherited by every prefix (so every intermediate buffer was partial too), and a partial buffer yields nothing *)
Theorem C13_partial_prefix_closed : forall p q y, partial_cli p (q ++ y) -> partial_cli p q.
Proof. exact partial_cli_prefix. Qed.
Theorem C13_partial_yields_nothing : forall p d, partial_cli p d -> client_dec p d = (d, DNone).
Proof. exact partial_cli_undecided. Qed.
Example C13_ex_embedded :
  partial_cli RTU [0x59; 0x01; 0x0c; 0x00; 0x59; 0x01; 0x01; 0xc9; 0x82; 0xbe; 0x58]
  /\ rtu_client_dec [0x59; 0x01; 0x01; 0xc9; 0x82; 0xbe] = ([], DSome ((0, 0x59), RROk (RspReadCoils [true; false; false; true; false; false; true; true]))).
Proof. exact embedded_reply_is_partial. Qed.
