(* C01 -- requests reach the server exactly as issued, in Modbus wire format. *)
From Coq Require Import Lia NArith.
From TM Require Import Base Frame Pdu Crc RtuCodec TcpCodec Framed Client Server Spec PduEncode
  FramedProofs TcpProofs RtuProofs RtuCarried StreamProofs ClientProofs Histories ServerProofs TypedProofs EndToEnd Text Run Exchange.

(* 1. the PDU encoder is the independent spec encoder (big-endian fields, coils LSB first in byte i/8) *)
Theorem C01_pdu_is_spec : forall m r, req_ok r = true -> req_size r <= 253 ->
  enc_req m r = Val (spec_req_pdu r) /\ len (spec_req_pdu r) = req_size r.
Proof. exact enc_req_spec. Qed.
Theorem C01_packed_coils_by_index : forall bs, spec_pack bs = pack_coils bs.
Proof. exact spec_pack_eq. Qed.

(* 2. the server-side decoder inverts it: every typed request and every raw custom request whose code
   is < 0x80 and not one of the modelled codes *)
Theorem C01_decode_encode : forall r, req_size r <= 253 -> canonical_req r = true -> dec_req (spec_req_pdu r) = Val r.
Proof. exact dec_req_spec_pdu. Qed.

(* 3. a typed method issues exactly the request it names (read_coils(a,q) = call(ReadCoils(a,q)), ...) *)
Theorem C01_method_map : forall p m st req bg, snd (typed p m st req bg) = snd (call p m st req bg).
Proof. exact typed_state. Qed.

(* 4. the frame the client writes: MBAP header (transaction id, protocol 0, length = PDU+1, unit id) or
   slave id, then the spec PDU, (then the CRC) -- with the currently selected slave / unit id *)
Theorem C01_client_frame_tcp : forall m tid uid r, req_ok r = true -> req_size r <= 253 -> tid < 65536 ->
  tcp_client_enc m (tid, uid) r = Val (tcp_frame tid uid (spec_req_pdu r)).
Proof. exact client_frame_tcp. Qed.
Theorem C01_client_frame_rtu : forall m tid uid r, req_ok r = true -> req_size r <= 253 ->
  rtu_client_enc m (tid, uid) r = Val (rtu_frame uid (spec_req_pdu r)).
Proof. exact client_frame_rtu. Qed.
(* ... written exactly once by a call that gets as far as a reply, for every write script *)
Theorem C01_frame_written_once : forall p m st req bg i,
  call_reply p m st req bg = Some i -> wbuf (wio_ (snd (call p m st req bg))) = []
  /\ exists fr, client_enc p m (req_hdr p st) req = Val fr
                /\ accepted (wio_ (snd (call p m st req bg))) = accepted (wio_ st) ++ wbuf (wio_ st) ++ fr.
Proof. exact call_completed_flushes. Qed.
(* ... stamped with the slave selected by the last set_slave *)
Theorem C01_set_slave_selects_unit : forall p st s, snd (req_hdr p (set_slave st s)) = s.
Proof. reflexivity. Qed.

(* 5. that frame is a valid frame for the server with exactly the issued request and slave id ... *)
Theorem C01_frame_valid_for_server_tcp : forall tid uid r,
  req_size r <= 253 -> canonical_req r = true -> tid < 65536 -> uid < 256 ->
  valid_req_frame (tcp_frame tid uid (spec_req_pdu r)) ((tid, uid), r).
Proof. exact request_frame_valid_tcp. Qed.
Theorem C01_frame_valid_for_server_rtu : forall s r,
  req_size r <= 253 -> canonical_req r = true -> rtu_req_supported r = true ->
  valid_rtu_req (rtu_frame s (spec_req_pdu r)) ((0, s), r).
Proof. exact request_frame_valid_rtu. Qed.
(* ... and a stream of valid frames, however fragmented, is served request by request: the service is
   handed each request exactly once, tagged with its slave id ([served] starts each step with
   TCall (snd h) req) *)
Theorem C01_server_delivers : forall p m fs is cs b rd tl svc w fuel,
  Forall2 (server_valid p) fs is -> Forall nonempty cs ->
  b ++ concat cs = concat fs -> (rd = false -> b = []) ->
  process (length fs + fuel) p m (mkR b false rd false) w (datas cs ++ tl) svc =
  served p m is svc w (fun svc' w' =>
    process fuel p m (mkR [] false (match fs with [] => rd | _ => true end) false) w' tl svc').
Proof. exact process_serves. Qed.

(* 6. THE COMPOSED STATEMENT ([Exchange.v]; [e2e_chunked] = the client's call, the bytes it transmits cut into
   read chunks by ANY chunker [k1] and handed to a server connection, the bytes that connection writes cut by ANY
   chunker [k2] and handed back to the same call; `E2E` case lines run the single-chunk instance [e2e_exchange] on
   the model and, over loopback sockets and a pty, on the implementation).  Whatever the service then does with the
   request -- answer, fail, decline -- it has been invoked exactly once, with the client's slave id and an equal request. *)
Theorem C01_exchange_delivers_request_answered : forall p m st r rsp k1 k2,
  good_chunker k1 -> good_chunker k2 ->
  idle st -> req_ok r = true -> req_size r <= 253 -> canonical_req r = true -> req_carried_by p r = true ->
  rsp_ok rsp = true -> rsp_size rsp <= 253 -> canonical_rsp rsp = true -> rsp_carried_by p rsp = true ->
  fc_value (rsp_fc rsp) = fc_value (req_fc r) ->
  e2e_chunked p m st r [SReply rsp] k1 k2 = (CROk (pad_rsp rsp), [TCall (unit_id st) r], after p st r).
Proof. exact exchange_response_any_fragmentation. Qed.
Theorem C01_exchange_delivers_request_declined : forall p m st r,
  idle st -> req_ok r = true -> req_size r <= 253 -> canonical_req r = true -> req_carried_by p r = true ->
  exists st', e2e_exchange p m st false r [SDecline] = (inl CRWait, [TCall (unit_id st) r], st').
Proof. exact exchange_declined. Qed.
(* ... and so for every sequence of exchanges on one client context *)
Theorem C01_exchange_sequences : forall p m xs st, idle st -> Forall (ok_exchange p) xs ->
  exchanges p m st xs = map (fun x => (inl (expected (snd x)), [TCall (unit_id st) (fst x)])) xs.
Proof. exact exchanges_correct. Qed.
Example C01_exchange_ex : idle (client_new TCP 17) /\ good_chunker bytewise /\ good_chunker whole /\
  ok_exchange TCP (ReqReadHoldingRegisters 7 2, AResp (RspReadHoldingRegisters [1; 2])) /\
  ok_exchange RTU (ReqWriteSingleRegister 1 2, AExc (ex_new 3)).
Proof.
  split; [apply client_new_idle; lia|]. split; [exact bytewise_good|]. split; [exact whole_good|].
  split; cbv; repeat split; congruence || lia.
Qed.
