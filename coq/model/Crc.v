(* Crc.v -- mirrors calc_crc / check_crc of src/codec/rtu.rs. *)
From TM Require Import Base.

(* one iteration of the inner loop: crc_odd = crc & 1; crc >>= 1; if crc_odd { crc ^= 0xA001 } *)
Definition step1 (c : N) : N :=
  if N.odd c then N.lxor (N.shiftr c 1) 0xA001 else N.shiftr c 1.

Definition step8 (c : N) : N := step1 (step1 (step1 (step1 (step1 (step1 (step1 (step1 c))))))).

(* crc ^= x; eight steps *)
Definition byte_step (c b : N) : N := step8 (N.lxor c b).

Definition crc_fold (init : N) (data : list N) : N := fold_left byte_step data init.

(* the 16-bit register after the whole slice *)
Definition crc_reg (data : list N) : N := crc_fold 0xFFFF data.

(* calc_crc: register.rotate_right(8), i.e. byte-swapped *)
Definition calc_crc (data : list N) : N :=
  let c := crc_reg data in lo8 c * 256 + hi8 c.

(* the two bytes put on the wire by put_u16(calc_crc(..)): register low byte first *)
Definition crc2 (data : list N) : list N := be16 (calc_crc data).

(* check_crc(adu, expected) with expected read big-endian from the two trailing bytes *)
Definition check_crc (adu : list N) (c1 c2 : N) : bool := of_be16 c1 c2 =? calc_crc adu.
