(* Client.v -- mirrors src/service/{mod,tcp,rtu}.rs (Client::call, disconnect, set_slave)
   and the typed Reader/Writer methods of src/client/mod.rs. *)
From TM Require Import Base Frame Pdu RtuCodec TcpCodec Framed.

Inductive proto := TCP | RTU.

Inductive sdev := SdOk | SdErr (k : kind) | SdPend.

(* The client together with its scripted transport. [framed = false] after disconnect. *)
Record cstate := mkC {
  framed : bool;
  rst : rstate;
  wio_ : wio;
  rq : list revt;          (* read events not yet consumed *)
  sq : list sdev;         (* shutdown events not yet consumed *)
  next_tid : N;           (* TCP only *)
  unit_id : N;
  shutdowns : N           (* completed shutdown() calls *)
}.

Definition client_new (p : proto) (slave : N) : cstate :=
  mkC true rstate0 (mkW [] [] [] []) [] [] 0 slave 0.

Definition set_slave (st : cstate) (slave : N) : cstate :=
  mkC (framed st) (rst st) (wio_ st) (rq st) (sq st) (next_tid st) slave (shutdowns st).

Inductive call_result :=
| CROk (r : response)
| CRExc (e : exception_code)
| CRTransport (k : kind)
| CRHeaderMismatch (rr : rsp_result)
| CRFcMismatch (f : function_code) (rr : rsp_result)
| CRPanic | CRWait | CRAbandoned.

Definition client_dec (p : proto) := match p with TCP => tcp_client_dec | RTU => rtu_client_dec end.
Definition client_enc (p : proto) := match p with TCP => tcp_client_enc | RTU => rtu_client_enc end.

Definition hdr_eqb (a b : hdr) : bool := (fst a =? fst b) && (snd a =? snd b).

Definition rr_fc (rr : rsp_result) : function_code :=
  match rr with RROk r => rsp_fc r | RRExc e => exr_function e end.

Definition upd (st : cstate) (r : rstate) (w : wio) (q : list revt) (tid : N) : cstate :=
  mkC (framed st) r w q (sq st) tid (unit_id st) (shutdowns st).

(* Client::call.  The transaction id is taken before the connected check. *)
Definition call (p : proto) (m : mode) (st : cstate) (req : request) (bg : budget)
  : call_result * cstate :=
  let tid := match p with TCP => next_tid st | RTU => 0 end in
  let tid' := match p with TCP => (next_tid st + 1) mod 65536 | RTU => next_tid st end in
  let h : hdr := (tid, unit_id st) in
  if negb (framed st) then (CRTransport KNotConnected, upd st (rst st) (wio_ st) (rq st) tid') else
  (* framed.read_buffer_mut().clear() *)
  let r0 := mkR [] (reof (rst st)) (rreadable (rst st)) (rerrored (rst st)) in
  match send (client_enc p m h req) (wio_ st) bg with
  | (_, w, _, true) => (CRPanic, upd st r0 w (rq st) tid')
  | (SErr k, w, _, _) => (CRTransport k, upd st r0 w (rq st) tid')
  | (SWait, w, _, _) => (CRWait, upd st r0 w (rq st) tid')
  | (SAbandon, w, _, _) => (CRAbandoned, upd st r0 w (rq st) tid')
  | (SOk, w, bg1, _) =>
      match next (client_dec p) r0 (rq st) bg1 with
      | (NItem (rh, rr), r1, q1, _) =>
          let st1 := upd st r1 w q1 tid' in
          if negb (hdr_eqb h rh) then (CRHeaderMismatch rr, st1)
          else if negb (fc_value (req_fc req) =? fc_value (rr_fc rr)) then (CRFcMismatch (req_fc req) rr, st1)
          else match rr with
               | RROk r => (CROk r, st1)
               | RRExc e => (CRExc (exr_exception e), st1)
               end
      | (NErr k, r1, q1, bg2) =>
          (* let _ = framed.next().now_or_never();  -- consumes the framing layer's
             end-of-stream marker that follows every error *)
          let '(_, r2, q2, _) := next (client_dec p) r1 q1 (Some O) in
          (CRTransport k, upd st r2 w q2 tid')
      | (NEnd, r1, q1, _) => (CRTransport KBrokenPipe, upd st r1 w q1 tid')
      | (NWait, r1, q1, _) => (CRWait, upd st r1 w q1 tid')
      | (NAbandon, r1, q1, _) => (CRAbandoned, upd st r1 w q1 tid')
      | (NPanic, r1, q1, _) => (CRPanic, upd st r1 w q1 tid')
      end
  end.

Inductive disc_result := DROk | DRErr (k : kind) | DRWait.

(* AsyncWriteExt::shutdown on the bare transport *)
Fixpoint shutdown (q : list sdev) : disc_result * list sdev * bool :=
  match q with
  | [] => (DROk, [], true)
  | SdOk :: q' => (DROk, q', true)
  | SdErr k :: q' =>
      match k with
      | KNotConnected | KBrokenPipe => (DROk, q', true)
      | _ => (DRErr k, q', true)
      end
  | SdPend :: q' => shutdown q'
  end.

(* Client::disconnect: framed.take(), shutdown once; later disconnects are no-ops *)
Definition disconnect (st : cstate) : disc_result * cstate :=
  if negb (framed st) then (DROk, st) else
  let '(r, q, done) := shutdown (sq st) in
  (r, mkC false (rst st) (wio_ st) (rq st) q (next_tid st) (unit_id st)
          (if done then shutdowns st + 1 else shutdowns st)).

(* disconnect whose future may be dropped while the shutdown is pending ([bg] = Pending polls it still gets):
   the transport was taken out BEFORE the first suspension point, so the client is inert either way; a shutdown
   that never completed is not counted *)
Fixpoint shutdown_bg (q : list sdev) (bg : budget) : disc_result * list sdev * bool :=
  match q with
  | [] => (DROk, [], true)
  | SdOk :: q' => (DROk, q', true)
  | SdErr k :: q' =>
      match k with
      | KNotConnected | KBrokenPipe => (DROk, q', true)
      | _ => (DRErr k, q', true)
      end
  | SdPend :: q' =>
      match spend bg with
      | None => (DRWait, q', false)
      | Some bg' => shutdown_bg q' bg'
      end
  end.

Definition disconnect_bg (st : cstate) (bg : budget) : disc_result * cstate :=
  if negb (framed st) then (DROk, st) else
  let '(r, q, done) := shutdown_bg (sq st) bg in
  (r, mkC false (rst st) (wio_ st) (rq st) q (next_tid st) (unit_id st)
          (if done then shutdowns st + 1 else shutdowns st)).

(* ---- typed methods (src/client/mod.rs) ---- *)
Inductive typed_result :=
| TRBits (bs : list bool) | TRWords (ws : list N) | TRUnit
| TRExc (e : exception_code) | TRErr (c : call_result).   (* TRErr: call's own error / panic *)

(* The request each typed method issues is the request value itself (read_coils(a, q) issues
   ReqReadCoils a q, ...); [typed] post-processes the reply the way the method does. *)
(* expect_echo: a write reply must echo the request *)
Definition echo (same : bool) : typed_result :=
  if same then TRUnit else TRErr (CRTransport KInvalidData).

Definition typed_post (req : request) (r : response) : typed_result :=
  match req, r with
  | ReqReadCoils _ q, RspReadCoils bs
  | ReqReadDiscreteInputs _ q, RspReadDiscreteInputs bs =>
      if len bs <? q then TRErr (CRTransport KInvalidData) else TRBits (firstn (N.to_nat q) bs)
  | ReqReadInputRegisters _ q, RspReadInputRegisters ws
  | ReqReadHoldingRegisters _ q, RspReadHoldingRegisters ws
  | ReqReadWriteMultipleRegisters _ q _ _, RspReadWriteMultipleRegisters ws =>
      if len ws =? q then TRWords ws else TRErr (CRTransport KInvalidData)
  | ReqWriteSingleCoil a b, RspWriteSingleCoil a' b' => echo ((a =? a') && Bool.eqb b b')
  | ReqWriteMultipleCoils a bs, RspWriteMultipleCoils a' q => echo ((a =? a') && (len bs =? q))
  | ReqWriteSingleRegister a w, RspWriteSingleRegister a' w' => echo ((a =? a') && (w =? w'))
  | ReqWriteMultipleRegisters a ws, RspWriteMultipleRegisters a' q => echo ((a =? a') && (len ws =? q))
  | ReqMaskWriteRegister a x y, RspMaskWriteRegister a' x' y' => echo ((a =? a') && (x =? x') && (y =? y'))
  | _, _ => TRErr CRPanic      (* unreachable!("call() should reject mismatching responses") *)
  end.

Definition typed (p : proto) (m : mode) (st : cstate) (req : request) (bg : budget)
  : typed_result * cstate :=
  match call p m st req bg with
  | (CROk r, st') => (typed_post req r, st')
  | (CRExc e, st') => (TRExc e, st')
  | (c, st') => (TRErr c, st')
  end.
