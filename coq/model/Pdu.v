(* Pdu.v -- mirrors src/codec/mod.rs: PDU encoders, size checks, PDU decoders.
   Every check is performed in the order the Rust code performs it; an out-of-range index,
   a failed debug assertion or a checked overflow is [Panic]. *)
From TM Require Import Base Frame.

Definition MAX_PDU_SIZE : N := 253.

(* ---- coils ---- *)
Definition bool_to_coil (b : bool) : N := if b then 0xFF00 else 0x0000.
Definition coil_to_bool (w : N) : outcome bool :=
  if w =? 0xFF00 then Val true else if w =? 0x0000 then Val false else Fail KInvalidData.

(* packed_coils_size *)
Definition packed_size {A} (bs : list A) : N := (len bs + 7) / 8.

(* value of up to 8 bits, least significant first *)
Fixpoint bits_val (bs : list bool) : N :=
  match bs with [] => 0 | b :: r => N.b2n b + 2 * bits_val r end.

(* encode_packed_coils: byte i/8, bit i mod 8 *)
Fixpoint pack_coils (bs : list bool) : list N :=
  match bs with
  | [] => []
  | b0 :: b1 :: b2 :: b3 :: b4 :: b5 :: b6 :: b7 :: r =>
      bits_val [b0; b1; b2; b3; b4; b5; b6; b7] :: pack_coils r
  | _ => [bits_val bs]
  end.

Definition byte_bits (b : N) : list bool :=
  [N.testbit b 0; N.testbit b 1; N.testbit b 2; N.testbit b 3;
   N.testbit b 4; N.testbit b 5; N.testbit b 6; N.testbit b 7].
Definition all_bits (bytes : list N) : list bool := flat_map byte_bits bytes.

(* decode_packed_coils(bytes, count): indexes bytes[i / 8] for i < count *)
Definition unpack_coils (bytes : list N) (count : N) : outcome (list bool) :=
  if 8 * len bytes <? count then Panic
  else Val (firstn (N.to_nat count) (all_bits bytes)).

(* ---- sizes ---- *)
Definition req_size (r : request) : N :=
  match r with
  | ReqReadCoils _ _ | ReqReadDiscreteInputs _ _ | ReqReadInputRegisters _ _
  | ReqReadHoldingRegisters _ _ | ReqWriteSingleRegister _ _ | ReqWriteSingleCoil _ _ => 5
  | ReqWriteMultipleCoils _ bs => 6 + packed_size bs
  | ReqWriteMultipleRegisters _ ws => 6 + len ws * 2
  | ReqReportServerId => 1
  | ReqMaskWriteRegister _ _ _ => 7
  | ReqReadWriteMultipleRegisters _ _ _ ws => 10 + len ws * 2
  | ReqCustom _ d => 1 + len d
  end.

(* request_pdu_size *)
Definition req_size_chk (r : request) : outcome N :=
  if MAX_PDU_SIZE <? req_size r then Fail KInvalidInput else Val (req_size r).

Definition rsp_size (r : response) : N :=
  match r with
  | RspReadCoils bs | RspReadDiscreteInputs bs => 2 + packed_size bs
  | RspWriteSingleCoil _ _ | RspWriteMultipleCoils _ _ | RspWriteMultipleRegisters _ _
  | RspWriteSingleRegister _ _ => 5
  | RspReadInputRegisters ws | RspReadHoldingRegisters ws | RspReadWriteMultipleRegisters ws =>
      2 + len ws * 2
  | RspReportServerId _ _ d => 4 + len d
  | RspMaskWriteRegister _ _ _ => 7
  | RspCustom _ d => 1 + len d
  end.

(* response_pdu_size *)
Definition rsp_size_chk (r : response) : outcome N :=
  if MAX_PDU_SIZE <? rsp_size r then Fail KInvalidInput else Val (rsp_size r).

(* Result<Response, ExceptionResponse> *)
Inductive rsp_result := RROk (r : response) | RRExc (e : exception_response).

(* response_result_pdu_size *)
Definition rr_size_chk (rr : rsp_result) : outcome N :=
  match rr with RROk r => rsp_size_chk r | RRExc _ => Val 2 end.

(* ---- encoders ---- *)
(* encode_request_pdu *)
Definition enc_req (m : mode) (r : request) : outcome (list N) :=
  match r with
  | ReqReadCoils a q => Val (0x01 :: be16 a ++ be16 q)
  | ReqReadDiscreteInputs a q => Val (0x02 :: be16 a ++ be16 q)
  | ReqReadInputRegisters a q => Val (0x04 :: be16 a ++ be16 q)
  | ReqReadHoldingRegisters a q => Val (0x03 :: be16 a ++ be16 q)
  | ReqWriteSingleCoil a b => Val (0x05 :: be16 a ++ be16 (bool_to_coil b))
  | ReqWriteMultipleCoils a bs =>
      n <- u16_len m (len bs) ;;
      c <- u8_len m (packed_size bs) ;;
      Val (0x0F :: be16 a ++ be16 n ++ c :: pack_coils bs)
  | ReqWriteSingleRegister a w => Val (0x06 :: be16 a ++ be16 w)
  | ReqWriteMultipleRegisters a ws =>
      n <- u16_len m (len ws) ;;
      c <- u8_len m (len ws * 2) ;;
      Val (0x10 :: be16 a ++ be16 n ++ c :: be16s ws)
  | ReqReportServerId => Val [0x11]
  | ReqMaskWriteRegister a am om => Val (0x16 :: be16 a ++ be16 am ++ be16 om)
  | ReqReadWriteMultipleRegisters ra rq wa ws =>
      n <- u16_len m (len ws) ;;
      c <- u8_len m (len ws * 2) ;;
      Val (0x17 :: be16 ra ++ be16 rq ++ be16 wa ++ be16 n ++ c :: be16s ws)
  | ReqCustom fc d => Val (fc :: d)
  end.

(* encode_response_pdu *)
Definition enc_rsp (m : mode) (r : response) : outcome (list N) :=
  match r with
  | RspReadCoils bs => c <- u8_len m (packed_size bs) ;; Val (0x01 :: c :: pack_coils bs)
  | RspReadDiscreteInputs bs => c <- u8_len m (packed_size bs) ;; Val (0x02 :: c :: pack_coils bs)
  | RspReadInputRegisters ws => c <- u8_len m (len ws * 2) ;; Val (0x04 :: c :: be16s ws)
  | RspReadHoldingRegisters ws => c <- u8_len m (len ws * 2) ;; Val (0x03 :: c :: be16s ws)
  | RspReadWriteMultipleRegisters ws => c <- u8_len m (len ws * 2) ;; Val (0x17 :: c :: be16s ws)
  | RspWriteSingleCoil a b => Val (0x05 :: be16 a ++ be16 (bool_to_coil b))
  | RspWriteMultipleCoils a q => Val (0x0F :: be16 a ++ be16 q)
  | RspWriteMultipleRegisters a q => Val (0x10 :: be16 a ++ be16 q)
  | RspReportServerId id run d =>
      c <- u8_len m (len d) ;;
      (* `2 + u8_len(..)` is u8 arithmetic *)
      c2 <- (if 255 <? 2 + c then (if dbg m then Panic else Val ((2 + c) mod 256)) else Val (2 + c)) ;;
      Val (0x11 :: c2 :: id :: (if run then 0xFF else 0x00) :: d)
  | RspWriteSingleRegister a w => Val (0x06 :: be16 a ++ be16 w)
  | RspMaskWriteRegister a am om => Val (0x16 :: be16 a ++ be16 am ++ be16 om)
  | RspCustom fc d => Val (fc :: d)
  end.

(* encode_exception_response_pdu: debug_assert!(value < 0x80); value + 0x80 in u8 *)
Definition enc_exc (m : mode) (e : exception_response) : outcome (list N) :=
  let v := fc_value (exr_function e) in
  if 0x80 <=? v then (if dbg m then Panic else Val [(v + 0x80) mod 256; ex_value (exr_exception e)])
  else Val [v + 0x80; ex_value (exr_exception e)].

(* encode_response_result_pdu *)
Definition enc_rr (m : mode) (rr : rsp_result) : outcome (list N) :=
  match rr with RROk r => enc_rsp m r | RRExc e => enc_exc m e end.

(* ---- decoders ---- *)
(* `if rdr.has_remaining() { return Err(InvalidData) }` *)
Definition finish {A} (r : list N) (v : A) : outcome A :=
  match r with [] => Val v | _ => Fail KInvalidData end.

(* check_request_pdu_size: InvalidData *)
Definition chk_req_pdu_size (bs : list N) : outcome unit :=
  if MAX_PDU_SIZE <? len bs then Fail KInvalidData else Val tt.
(* check_response_pdu_size: InvalidInput (sic) *)
Definition chk_rsp_pdu_size (bs : list N) : outcome unit :=
  if MAX_PDU_SIZE <? len bs then Fail KInvalidInput else Val tt.

(* decode_request_pdu_bytes *)
Definition dec_req (bs : list N) : outcome request :=
  '(fc, r) <- rd8 bs ;;
  if fc =? 0x01 then '(a, r) <- rd16 r ;; '(q, r) <- rd16 r ;; finish r (ReqReadCoils a q)
  else if fc =? 0x02 then '(a, r) <- rd16 r ;; '(q, r) <- rd16 r ;; finish r (ReqReadDiscreteInputs a q)
  else if fc =? 0x05 then
    '(a, r) <- rd16 r ;; '(v, r) <- rd16 r ;; b <- coil_to_bool v ;; finish r (ReqWriteSingleCoil a b)
  else if fc =? 0x0F then
    _ <- chk_req_pdu_size bs ;;
    '(a, r) <- rd16 r ;; '(q, r) <- rd16 r ;; '(bc, r) <- rd8 r ;;
    if len bs <? 6 + bc then Fail KInvalidData else
    if bc * 8 <? q then Fail KInvalidData else
    coils <- unpack_coils (firstn (N.to_nat bc) r) q ;;
    finish (skipn (N.to_nat bc) r) (ReqWriteMultipleCoils a coils)
  else if fc =? 0x04 then '(a, r) <- rd16 r ;; '(q, r) <- rd16 r ;; finish r (ReqReadInputRegisters a q)
  else if fc =? 0x03 then '(a, r) <- rd16 r ;; '(q, r) <- rd16 r ;; finish r (ReqReadHoldingRegisters a q)
  else if fc =? 0x06 then '(a, r) <- rd16 r ;; '(w, r) <- rd16 r ;; finish r (ReqWriteSingleRegister a w)
  else if fc =? 0x10 then
    _ <- chk_req_pdu_size bs ;;
    '(a, r) <- rd16 r ;; '(q, r) <- rd16 r ;; '(bc, r) <- rd8 r ;;
    if negb (bc =? q * 2) then Fail KInvalidData else
    '(ws, r) <- rd16s (N.to_nat q) r ;;
    finish r (ReqWriteMultipleRegisters a ws)
  else if fc =? 0x11 then finish r ReqReportServerId
  else if fc =? 0x16 then
    '(a, r) <- rd16 r ;; '(am, r) <- rd16 r ;; '(om, r) <- rd16 r ;; finish r (ReqMaskWriteRegister a am om)
  else if fc =? 0x17 then
    _ <- chk_req_pdu_size bs ;;
    '(ra, r) <- rd16 r ;; '(rq, r) <- rd16 r ;; '(wa, r) <- rd16 r ;; '(wq, r) <- rd16 r ;;
    '(wc, r) <- rd8 r ;;
    if negb (wc =? wq * 2) then Fail KInvalidData else
    '(ws, r) <- rd16s (N.to_nat wq) r ;;
    finish r (ReqReadWriteMultipleRegisters ra rq wa ws)
  else if fc <? 0x80 then Val (ReqCustom fc r)
  else Fail KInvalidData.

Definition dec_rsp_bits (bs r : list N) (mk : list bool -> response) : outcome response :=
  _ <- chk_rsp_pdu_size bs ;;
  '(bc, r) <- rd8 r ;;
  if len bs <? 2 + bc then Fail KInvalidData else
  coils <- unpack_coils (firstn (N.to_nat bc) r) (bc * 8) ;;
  finish (skipn (N.to_nat bc) r) (mk coils).

Definition dec_rsp_words (bs r : list N) (mk : list N -> response) : outcome response :=
  _ <- chk_rsp_pdu_size bs ;;
  '(bc, r) <- rd8 r ;;
  if negb (bc mod 2 =? 0) then Fail KInvalidData else
  '(ws, r) <- rd16s (N.to_nat (bc / 2)) r ;;
  finish r (mk ws).

(* decode_response_pdu_bytes *)
Definition dec_rsp (bs : list N) : outcome response :=
  '(fc, r) <- rd8 bs ;;
  if fc =? 0x01 then dec_rsp_bits bs r RspReadCoils
  else if fc =? 0x02 then dec_rsp_bits bs r RspReadDiscreteInputs
  else if fc =? 0x05 then
    '(a, r) <- rd16 r ;; '(v, r) <- rd16 r ;; b <- coil_to_bool v ;; finish r (RspWriteSingleCoil a b)
  else if fc =? 0x0F then '(a, r) <- rd16 r ;; '(q, r) <- rd16 r ;; finish r (RspWriteMultipleCoils a q)
  else if fc =? 0x04 then dec_rsp_words bs r RspReadInputRegisters
  else if fc =? 0x03 then dec_rsp_words bs r RspReadHoldingRegisters
  else if fc =? 0x06 then '(a, r) <- rd16 r ;; '(w, r) <- rd16 r ;; finish r (RspWriteSingleRegister a w)
  else if fc =? 0x10 then '(a, r) <- rd16 r ;; '(q, r) <- rd16 r ;; finish r (RspWriteMultipleRegisters a q)
  else if fc =? 0x11 then
    _ <- chk_rsp_pdu_size bs ;;
    '(bc, r) <- rd8 r ;;
    if bc <? 2 then Fail KInvalidData else
    '(id, r) <- rd8 r ;;
    '(st, r) <- rd8 r ;;
    run <- (if st =? 0x00 then Val false else if st =? 0xFF then Val true else Fail KInvalidData) ;;
    '(d, r) <- rd8s (N.to_nat (bc - 2)) r ;;
    finish r (RspReportServerId id run d)
  else if fc =? 0x16 then
    '(a, r) <- rd16 r ;; '(am, r) <- rd16 r ;; '(om, r) <- rd16 r ;; finish r (RspMaskWriteRegister a am om)
  else if fc =? 0x17 then dec_rsp_words bs r RspReadWriteMultipleRegisters
  else Val (RspCustom fc r).

(* impl TryFrom<Bytes> for ExceptionResponse *)
Definition dec_exc (bs : list N) : outcome exception_response :=
  '(f, r) <- rd8 bs ;;
  if f <? 0x80 then Fail KInvalidData else
  '(c, _) <- rd8 r ;;
  Val {| exr_function := fc_new (f - 0x80); exr_exception := ex_new c |}.

(* impl TryFrom<Bytes> for ResponsePdu *)
Definition dec_rsp_pdu (bs : list N) : outcome rsp_result :=
  '(f, _) <- rd8 bs ;;
  if f <? 0x80 then r <- dec_rsp bs ;; Val (RROk r)
  else e <- dec_exc bs ;; Val (RRExc e).
