(* Text.v -- the line-oriented interchange language shared with the Rust harness and the
   Python orchestrator: parsers and printers, written in Gallina so that the same code runs
   extracted (bulk correspondence) and inside the kernel (vm_compute cross-check).
   Text is a list of byte codes (list N). *)
From Coq Require Import String Ascii.
From TM Require Import Base Frame Pdu RtuCodec Framed Client Server.

Definition s2l (s : string) : list N := map N_of_ascii (list_ascii_of_string s).
Definition l2s (l : list N) : string := string_of_list_ascii (map ascii_of_N l).

(* ---- generic helpers ---- *)
Fixpoint split_go (sep : N) (l cur : list N) : list (list N) :=
  match l with
  | [] => [rev_append cur []]
  | c :: r => if c =? sep then rev_append cur [] :: split_go sep r [] else split_go sep r (c :: cur)
  end.
Definition split (sep : N) (l : list N) : list (list N) := split_go sep l [].

Fixpoint join (sep : list N) (ls : list (list N)) : list N :=
  match ls with
  | [] => []
  | [x] => x
  | x :: r => x ++ sep ++ join sep r
  end.

Definition ch_colon : N := 58. Definition ch_dot : N := 46. Definition ch_comma : N := 44.
Definition ch_space : N := 32. Definition ch_dash : N := 45. Definition ch_eq : N := 61.

Fixpoint parse_dec_go (acc : N) (l : list N) : option N :=
  match l with
  | [] => Some acc
  | c :: r => if (48 <=? c) && (c <=? 57) then parse_dec_go (acc * 10 + (c - 48)) r else None
  end.
Definition parse_dec (l : list N) : option N :=
  match l with [] => None | _ => parse_dec_go 0 l end.

(* decimal printer; 20 digits are enough for anything the model prints *)
Fixpoint show_dec_go (fuel : nat) (n : N) (acc : list N) : list N :=
  match fuel with
  | O => acc
  | S f => let acc' := (48 + n mod 10) :: acc in
           if n / 10 =? 0 then acc' else show_dec_go f (n / 10) acc'
  end.
Definition show_dec (n : N) : list N := show_dec_go 40 n [].

Definition hexval (c : N) : option N :=
  if (48 <=? c) && (c <=? 57) then Some (c - 48)
  else if (97 <=? c) && (c <=? 102) then Some (c - 87)
  else None.
Fixpoint parse_hex_go (l : list N) : option (list N) :=
  match l with
  | [] => Some []
  | a :: b :: r =>
      match hexval a, hexval b, parse_hex_go r with
      | Some x, Some y, Some t => Some (x * 16 + y :: t)
      | _, _, _ => None
      end
  | _ => None
  end.
Definition is_dash (l : list N) : bool := match l with [45] => true | _ => false end.
Definition parse_hex (l : list N) : option (list N) := if is_dash l then Some [] else parse_hex_go l.

Definition hexdig (d : N) : N := if d <? 10 then 48 + d else 87 + d.
Definition show_hex (l : list N) : list N :=
  match l with
  | [] => [ch_dash]
  | _ => flat_map (fun b => [hexdig ((b / 16) mod 16); hexdig (b mod 16)]) l
  end.

Fixpoint parse_bits_go (l : list N) : option (list bool) :=
  match l with
  | [] => Some []
  | c :: r =>
      match parse_bits_go r with
      | Some t => if c =? 48 then Some (false :: t) else if c =? 49 then Some (true :: t) else None
      | None => None
      end
  end.
Definition parse_bits (l : list N) : option (list bool) := if is_dash l then Some [] else parse_bits_go l.
Definition show_bits (bs : list bool) : list N :=
  match bs with [] => [ch_dash] | _ => map (fun b : bool => if b then 49 else 48) bs end.

Fixpoint opt_all {A} (l : list (option A)) : option (list A) :=
  match l with
  | [] => Some []
  | Some x :: r => match opt_all r with Some t => Some (x :: t) | None => None end
  | None :: _ => None
  end.
Definition parse_words (l : list N) : option (list N) :=
  if is_dash l then Some [] else opt_all (map parse_dec (split ch_dot l)).
Definition show_words (ws : list N) : list N :=
  match ws with [] => [ch_dash] | _ => join [ch_dot] (map show_dec ws) end.

Definition parse_bool (l : list N) : option bool :=
  match l with [48] => Some false | [49] => Some true | _ => None end.
Definition show_bool (b : bool) : list N := [if b then 49 else 48].

Definition leqb (a b : list N) : bool := list_eqb N.eqb a b.
Definition is (l : list N) (s : string) : bool := leqb l (s2l s).

(* ---- kinds ---- *)
Definition other_names : list string :=
  ["Other"; "ConnectionReset"; "ConnectionAborted"; "ConnectionRefused"; "PermissionDenied";
   "AddrInUse"; "AlreadyExists"; "NotFound"; "Unsupported"; "OutOfMemory"; "HostUnreachable";
   "AddrNotAvailable"; "Uncategorized"; "Interrupted"; "WouldBlock"]%string.

Definition show_kind (k : kind) : list N :=
  match k with
  | KUnexpectedEof => s2l "UnexpectedEof"
  | KInvalidData => s2l "InvalidData"
  | KInvalidInput => s2l "InvalidInput"
  | KBrokenPipe => s2l "BrokenPipe"
  | KNotConnected => s2l "NotConnected"
  | KWriteZero => s2l "WriteZero"
  | KTimedOut => s2l "TimedOut"
  | KOther n => s2l (nth (N.to_nat n) other_names "Unknown"%string)
  end.

Fixpoint find_name (l : list N) (names : list string) (i : N) : option N :=
  match names with
  | [] => None
  | s :: r => if is l s then Some i else find_name l r (i + 1)
  end.
Definition parse_kind (l : list N) : option kind :=
  if is l "UnexpectedEof" then Some KUnexpectedEof
  else if is l "InvalidData" then Some KInvalidData
  else if is l "InvalidInput" then Some KInvalidInput
  else if is l "BrokenPipe" then Some KBrokenPipe
  else if is l "NotConnected" then Some KNotConnected
  else if is l "WriteZero" then Some KWriteZero
  else if is l "TimedOut" then Some KTimedOut
  else option_map KOther (find_name l other_names 0).

(* ---- requests / responses ---- *)
Definition tok (fields : list (list N)) : list N := join [ch_colon] fields.

Definition show_req (r : request) : list N :=
  match r with
  | ReqReadCoils a q => tok [s2l "RC"; show_dec a; show_dec q]
  | ReqReadDiscreteInputs a q => tok [s2l "RDI"; show_dec a; show_dec q]
  | ReqWriteSingleCoil a b => tok [s2l "WSC"; show_dec a; show_bool b]
  | ReqWriteMultipleCoils a bs => tok [s2l "WMC"; show_dec a; show_bits bs]
  | ReqReadInputRegisters a q => tok [s2l "RIR"; show_dec a; show_dec q]
  | ReqReadHoldingRegisters a q => tok [s2l "RHR"; show_dec a; show_dec q]
  | ReqWriteSingleRegister a w => tok [s2l "WSR"; show_dec a; show_dec w]
  | ReqWriteMultipleRegisters a ws => tok [s2l "WMR"; show_dec a; show_words ws]
  | ReqReportServerId => s2l "RSI"
  | ReqMaskWriteRegister a am om => tok [s2l "MWR"; show_dec a; show_dec am; show_dec om]
  | ReqReadWriteMultipleRegisters ra rq wa ws =>
      tok [s2l "RWMR"; show_dec ra; show_dec rq; show_dec wa; show_words ws]
  | ReqCustom fc d => tok [s2l "CU"; show_dec fc; show_hex d]
  end.

Definition ap2 {A B C} (f : A -> B -> C) (a : option A) (b : option B) : option C :=
  match a, b with Some x, Some y => Some (f x y) | _, _ => None end.
Definition ap3 {A B C D} (f : A -> B -> C -> D) (a : option A) (b : option B) (c : option C) : option D :=
  match a, b, c with Some x, Some y, Some z => Some (f x y z) | _, _, _ => None end.

Definition parse_req (l : list N) : option request :=
  match split ch_colon l with
  | [h; a; q] =>
      if is h "RC" then ap2 ReqReadCoils (parse_dec a) (parse_dec q)
      else if is h "RDI" then ap2 ReqReadDiscreteInputs (parse_dec a) (parse_dec q)
      else if is h "WSC" then ap2 ReqWriteSingleCoil (parse_dec a) (parse_bool q)
      else if is h "WMC" then ap2 ReqWriteMultipleCoils (parse_dec a) (parse_bits q)
      else if is h "RIR" then ap2 ReqReadInputRegisters (parse_dec a) (parse_dec q)
      else if is h "RHR" then ap2 ReqReadHoldingRegisters (parse_dec a) (parse_dec q)
      else if is h "WSR" then ap2 ReqWriteSingleRegister (parse_dec a) (parse_dec q)
      else if is h "WMR" then ap2 ReqWriteMultipleRegisters (parse_dec a) (parse_words q)
      else if is h "CU" then ap2 ReqCustom (parse_dec a) (parse_hex q)
      else None
  | [h] => if is h "RSI" then Some ReqReportServerId else None
  | [h; a; x; y] =>
      if is h "MWR" then ap3 ReqMaskWriteRegister (parse_dec a) (parse_dec x) (parse_dec y) else None
  | [h; a; b; c; d] =>
      if is h "RWMR" then
        match parse_dec a, parse_dec b, parse_dec c, parse_words d with
        | Some ra, Some rq, Some wa, Some ws => Some (ReqReadWriteMultipleRegisters ra rq wa ws)
        | _, _, _, _ => None
        end
      else None
  | _ => None
  end.

Definition show_rsp (r : response) : list N :=
  match r with
  | RspReadCoils bs => tok [s2l "RC"; show_bits bs]
  | RspReadDiscreteInputs bs => tok [s2l "RDI"; show_bits bs]
  | RspWriteSingleCoil a b => tok [s2l "WSC"; show_dec a; show_bool b]
  | RspWriteMultipleCoils a q => tok [s2l "WMC"; show_dec a; show_dec q]
  | RspReadInputRegisters ws => tok [s2l "RIR"; show_words ws]
  | RspReadHoldingRegisters ws => tok [s2l "RHR"; show_words ws]
  | RspWriteSingleRegister a w => tok [s2l "WSR"; show_dec a; show_dec w]
  | RspWriteMultipleRegisters a q => tok [s2l "WMR"; show_dec a; show_dec q]
  | RspReportServerId id run d => tok [s2l "RSI"; show_dec id; show_bool run; show_hex d]
  | RspMaskWriteRegister a am om => tok [s2l "MWR"; show_dec a; show_dec am; show_dec om]
  | RspReadWriteMultipleRegisters ws => tok [s2l "RWMR"; show_words ws]
  | RspCustom fc d => tok [s2l "CU"; show_dec fc; show_hex d]
  end.

Definition parse_rsp (l : list N) : option response :=
  match split ch_colon l with
  | [h; a] =>
      if is h "RC" then option_map RspReadCoils (parse_bits a)
      else if is h "RDI" then option_map RspReadDiscreteInputs (parse_bits a)
      else if is h "RIR" then option_map RspReadInputRegisters (parse_words a)
      else if is h "RHR" then option_map RspReadHoldingRegisters (parse_words a)
      else if is h "RWMR" then option_map RspReadWriteMultipleRegisters (parse_words a)
      else None
  | [h; a; q] =>
      if is h "WSC" then ap2 RspWriteSingleCoil (parse_dec a) (parse_bool q)
      else if is h "WMC" then ap2 RspWriteMultipleCoils (parse_dec a) (parse_dec q)
      else if is h "WSR" then ap2 RspWriteSingleRegister (parse_dec a) (parse_dec q)
      else if is h "WMR" then ap2 RspWriteMultipleRegisters (parse_dec a) (parse_dec q)
      else if is h "CU" then ap2 RspCustom (parse_dec a) (parse_hex q)
      else None
  | [h; a; x; y] =>
      if is h "MWR" then ap3 RspMaskWriteRegister (parse_dec a) (parse_dec x) (parse_dec y)
      else if is h "RSI" then ap3 RspReportServerId (parse_dec a) (parse_bool x) (parse_hex y)
      else None
  | _ => None
  end.

Definition show_exr (e : exception_response) : list N :=
  tok [s2l "X"; show_dec (fc_value (exr_function e)); show_dec (ex_value (exr_exception e))].
Definition show_rr (rr : rsp_result) : list N :=
  match rr with RROk r => s2l "R:" ++ show_rsp r | RRExc e => show_exr e end.

Definition show_outcome {A} (sh : A -> list N) (o : outcome A) : list N :=
  match o with
  | Val a => s2l "V " ++ sh a
  | Fail k => s2l "E " ++ show_kind k
  | Panic => s2l "P"
  end.

(* Debug rendering of FunctionCode / ExceptionCode *)
Definition show_fc_name (f : function_code) : list N :=
  match f with
  | FcReadCoils => s2l "ReadCoils" | FcReadDiscreteInputs => s2l "ReadDiscreteInputs"
  | FcReadHoldingRegisters => s2l "ReadHoldingRegisters" | FcReadInputRegisters => s2l "ReadInputRegisters"
  | FcWriteSingleCoil => s2l "WriteSingleCoil" | FcWriteSingleRegister => s2l "WriteSingleRegister"
  | FcReadExceptionStatus => s2l "ReadExceptionStatus" | FcDiagnostics => s2l "Diagnostics"
  | FcGetCommEventCounter => s2l "GetCommEventCounter" | FcGetCommEventLog => s2l "GetCommEventLog"
  | FcWriteMultipleCoils => s2l "WriteMultipleCoils" | FcWriteMultipleRegisters => s2l "WriteMultipleRegisters"
  | FcReportServerId => s2l "ReportServerId" | FcReadFileRecord => s2l "ReadFileRecord"
  | FcWriteFileRecord => s2l "WriteFileRecord" | FcMaskWriteRegister => s2l "MaskWriteRegister"
  | FcReadWriteMultipleRegisters => s2l "ReadWriteMultipleRegisters" | FcReadFifoQueue => s2l "ReadFifoQueue"
  | FcEncapsulatedInterfaceTransport => s2l "EncapsulatedInterfaceTransport"
  | FcCustom c => s2l "Custom(" ++ show_dec c ++ s2l ")"
  end.
Definition show_ex_name (e : exception_code) : list N :=
  match e with
  | ExIllegalFunction => s2l "IllegalFunction" | ExIllegalDataAddress => s2l "IllegalDataAddress"
  | ExIllegalDataValue => s2l "IllegalDataValue" | ExServerDeviceFailure => s2l "ServerDeviceFailure"
  | ExAcknowledge => s2l "Acknowledge" | ExServerDeviceBusy => s2l "ServerDeviceBusy"
  | ExMemoryParityError => s2l "MemoryParityError" | ExGatewayPathUnavailable => s2l "GatewayPathUnavailable"
  | ExGatewayTargetDevice => s2l "GatewayTargetDevice"
  | ExCustom c => s2l "Custom(" ++ show_dec c ++ s2l ")"
  end.

(* ---- scripts ---- *)
Definition parse_list {A} (f : list N -> option A) (l : list N) : option (list A) :=
  if is_dash l then Some [] else opt_all (map f (split ch_comma l)).

Definition parse_rev (l : list N) : option revt :=
  match l with
  | 100 :: h => option_map RData (parse_hex_go h)             (* d<hex> *)
  | [112] => Some RPend                                      (* p *)
  | 101 :: 58 :: k => option_map RErr (parse_kind k)          (* e:<Kind> *)
  | _ => if is l "eof" then Some REof else None
  end.
Definition parse_wev (l : list N) : option wev :=
  match l with
  | 97 :: n => option_map WAccept (parse_dec n)               (* a<n> *)
  | [122] => Some WZero                                      (* z *)
  | [112] => Some WPend
  | 101 :: 58 :: k => option_map WErr (parse_kind k)
  | _ => None
  end.
Definition parse_fev (l : list N) : option fev :=
  match l with
  | [112] => Some FPend
  | 101 :: 58 :: k => option_map FErr (parse_kind k)
  | _ => if is l "ok" then Some FOk else None
  end.
Definition parse_sdev (l : list N) : option sdev :=
  match l with
  | [112] => Some SdPend
  | 101 :: 58 :: k => option_map SdErr (parse_kind k)
  | _ => if is l "ok" then Some SdOk else None
  end.
Definition parse_budget (l : list N) : option budget :=
  if is_dash l then Some None else option_map (fun n => Some (N.to_nat n)) (parse_dec l).

Definition parse_svc (l : list N) : option svc_reply :=
  match l with
  | [110] => Some SDecline                                   (* n *)
  | 114 :: 61 :: r => option_map SReply (parse_rsp r)         (* r=<rsp> *)
  | 120 :: 61 :: c => option_map (fun c => SExc (ex_new c)) (parse_dec c)   (* x=<code> *)
  | 121 :: 61 :: c => option_map (fun c => SExc (ExCustom c)) (parse_dec c) (* y=<code>: raw Custom *)
  | _ => None
  end.

Definition parse_proto (l : list N) : option proto :=
  if is l "tcp" then Some TCP else if is l "rtu" then Some RTU else None.

(* ---- results ---- *)
Definition show_call_result (c : call_result) : list N :=
  match c with
  | CROk r => s2l "OK:" ++ show_rsp r
  | CRExc e => s2l "EX:" ++ show_dec (ex_value e)
  | CRTransport k => s2l "T:" ++ show_kind k
  | CRHeaderMismatch rr => s2l "HM:" ++ show_rr rr
  | CRFcMismatch f rr => s2l "FM:" ++ show_dec (fc_value f) ++ [ch_colon] ++ show_rr rr
  | CRPanic => s2l "PANIC"
  | CRWait => s2l "WAIT"
  | CRAbandoned => s2l "ABANDONED"
  end.
Definition show_typed_result (t : typed_result) : list N :=
  match t with
  | TRBits bs => s2l "B:" ++ show_bits bs
  | TRWords ws => s2l "W:" ++ show_words ws
  | TRUnit => s2l "U"
  | TRExc e => s2l "EX:" ++ show_dec (ex_value e)
  | TRErr c => show_call_result c
  end.
Definition show_disc_result (d : disc_result) : list N :=
  match d with DROk => s2l "OK" | DRErr k => s2l "T:" ++ show_kind k | DRWait => s2l "WAIT" end.

Definition show_tev (t : tev) : list N :=
  match t with
  | TCall s r => s2l "C:" ++ show_dec s ++ [ch_colon] ++ show_req r
  | TWrote bs => s2l "W:" ++ show_hex bs
  | TReport k => s2l "R:" ++ show_kind k
  | TClosed => s2l "CLOSED"
  | TWaiting => s2l "WAIT"
  | TPanic => s2l "PANIC"
  | TOutOfFuel => s2l "FUEL"
  end.
