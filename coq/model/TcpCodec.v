(* TcpCodec.v -- mirrors src/codec/tcp.rs: MBAP header handling, client/server codecs. *)
From TM Require Import Base Frame Pdu RtuCodec.

Definition HEADER_LEN : N := 7.

(* impl Decoder for AduDecoder *)
Definition adu_decode (buf : list N) : list N * dres (hdr * list N) :=
  match buf with
  | t1 :: t2 :: p1 :: p2 :: l1 :: l2 :: uid :: rest =>
      let ln := of_be16 l1 l2 in
      if ln =? 0 then (buf, DErr KInvalidData)                 (* nothing consumed *)
      else
        let pdu_len := ln - 1 in
        if len buf <? HEADER_LEN + pdu_len then (buf, DNone)
        else if negb (of_be16 p1 p2 =? 0) then (rest, DErr KInvalidData)   (* header consumed *)
        else (skipn (N.to_nat pdu_len) rest,
              DSome ((of_be16 t1 t2, uid), firstn (N.to_nat pdu_len) rest))
  | _ => (buf, DNone)
  end.

Definition tcp_client_dec (buf : list N) : list N * dres (hdr * rsp_result) :=
  match adu_decode buf with
  | (b, DSome (h, pdu)) =>
      match dec_rsp_pdu pdu with
      | Val rr => (b, DSome (h, rr))
      | Fail k => (b, DErr k)
      | Panic => (b, DPanic)
      end
  | (b, DNone) => (b, DNone)
  | (b, DErr k) => (b, DErr k)
  | (b, DPanic) => (b, DPanic)
  end.

Definition tcp_server_dec (buf : list N) : list N * dres (hdr * request) :=
  match adu_decode buf with
  | (b, DSome (h, pdu)) =>
      match dec_req pdu with
      | Val r => (b, DSome (h, r))
      | Fail k => (b, DErr k)
      | Panic => (b, DPanic)
      end
  | (b, DNone) => (b, DNone)
  | (b, DErr k) => (b, DErr k)
  | (b, DPanic) => (b, DPanic)
  end.

Definition mbap (h : hdr) (pdu_size_plus_1 : N) : list N :=
  be16 (fst h) ++ [0; 0] ++ be16 pdu_size_plus_1 ++ [snd h].

Definition tcp_client_enc (m : mode) (h : hdr) (r : request) : outcome (list N) :=
  sz <- req_size_chk r ;; l <- u16_len m (sz + 1) ;; pdu <- enc_req m r ;; Val (mbap h l ++ pdu).

Definition tcp_server_enc (m : mode) (h : hdr) (rr : rsp_result) : outcome (list N) :=
  sz <- rr_size_chk rr ;; l <- u16_len m (sz + 1) ;; pdu <- enc_rr m rr ;; Val (mbap h l ++ pdu).
