(* TypedTab.v -- the typed client methods (impl Reader / Writer for Context in src/client/mod.rs) as a TABLE: per method the
   request variant it issues (its parameters in order), the response variant it accepts, and how it post-processes the reply
   (expect_coils / expect_words with the requested count, expect_echo of request fields against reply fields).  Regenerated from
   the source by tools/translate.py; proofs/TypedTabProofs.v ties the model's table to typed_post. *)
From Coq Require Import String.
From TM Require Import Base Frame Pdu Framed Client Text Tables.

Inductive efield := EF (i : nat) | EFLen (i : nat).   (* request field i / the length of request field i (`let cnt = x.len()`) *)
Inductive post_rule :=
| PRCoils (cnt : nat)                 (* expect_coils(reply field 0, request field cnt)  *)
| PRWords (cnt : nat)                 (* expect_words(reply field 0, request field cnt)  *)
| PREcho (pairs : list (efield * nat)).    (* expect_echo((request fields ..), (reply fields ..)) *)
Definition typed_row := (list N * (list N * post_rule))%type.      (* request variant, response variant, rule *)
Definition typed_table := list typed_row.

Fixpoint lookup_typed (t : typed_table) (n : list N) : option (list N * post_rule) :=
  match t with
  | [] => None
  | (n', r) :: t' => if leqb n n' then Some r else lookup_typed t' n
  end.
Definition expand_typed (t : typed_table) : list (option (list N * post_rule)) := map (lookup_typed t) variant_names.

Definition ef_val (fs : list fval) (e : efield) : option fval :=
  match e with
  | EF i => nth_error fs i
  | EFLen i => match nth_error fs i with
               | Some (FvBits l) => Some (FvN (len l)) | Some (FvWords l) => Some (FvN (len l)) | Some (FvBytes l) => Some (FvN (len l))
               | _ => None
               end
  end.
Definition fv_same (a b : option fval) : bool :=
  match a, b with
  | Some (FvN x), Some (FvN y) => x =? y
  | Some (FvB x), Some (FvB y) => Bool.eqb x y
  | _, _ => false
  end.

Definition apply_post (rule : post_rule) (qf rf : list fval) : typed_result :=
  match rule with
  | PRCoils c =>
      match nth_error qf c, nth_error rf 0 with
      | Some (FvN q), Some (FvBits bs) => if len bs <? q then TRErr (CRTransport KInvalidData) else TRBits (firstn (N.to_nat q) bs)
      | _, _ => TRErr CRPanic
      end
  | PRWords c =>
      match nth_error qf c, nth_error rf 0 with
      | Some (FvN q), Some (FvWords ws) => if len ws =? q then TRWords ws else TRErr (CRTransport KInvalidData)
      | _, _ => TRErr CRPanic
      end
  | PREcho pairs => echo (forallb (fun p => fv_same (ef_val qf (fst p)) (nth_error rf (snd p))) pairs)
  end.

(* the reply of another variant than the method expects: unreachable!() *)
Definition typed_post_by (t : typed_table) (req : request) (r : response) : typed_result :=
  match lookup_typed t (req_variant req) with
  | Some (rv, rule) => if leqb (rsp_variant r) rv then apply_post rule (req_fields req) (rsp_fields r) else TRErr CRPanic
  | None => TRErr CRPanic
  end.

Local Open Scope string_scope.
Definition typed_table_model : typed_table :=
  [(s2l "ReadCoils", (s2l "ReadCoils", PRCoils 1)); (s2l "ReadDiscreteInputs", (s2l "ReadDiscreteInputs", PRCoils 1));
   (s2l "ReadInputRegisters", (s2l "ReadInputRegisters", PRWords 1)); (s2l "ReadHoldingRegisters", (s2l "ReadHoldingRegisters", PRWords 1));
   (s2l "ReadWriteMultipleRegisters", (s2l "ReadWriteMultipleRegisters", PRWords 1));
   (s2l "WriteSingleCoil", (s2l "WriteSingleCoil", PREcho [(EF 0, 0); (EF 1, 1)]%nat));
   (s2l "WriteMultipleCoils", (s2l "WriteMultipleCoils", PREcho [(EF 0, 0); (EFLen 1, 1)]%nat));
   (s2l "WriteSingleRegister", (s2l "WriteSingleRegister", PREcho [(EF 0, 0); (EF 1, 1)]%nat));
   (s2l "WriteMultipleRegisters", (s2l "WriteMultipleRegisters", PREcho [(EF 0, 0); (EFLen 1, 1)]%nat));
   (s2l "MaskWriteRegister", (s2l "MaskWriteRegister", PREcho [(EF 0, 0); (EF 1, 1); (EF 2, 2)]%nat))].

(* the blocking client: each method drives the async method of the same name with its own parameters in order, under the
   context's timeout *)
Definition sync_row := (list N * (list N * bool))%type.          (* blocking method, async method called, parameters passed on in order *)
Definition sync_ok (t : list sync_row) (names : list (list N)) : bool :=
  list_eqb leqb (map fst t) names && forallb (fun r => leqb (fst r) (fst (snd r)) && snd (snd r)) t.
Definition sync_methods : list (list N) :=
  map s2l ["call"; "read_coils"; "read_discrete_inputs"; "read_input_registers"; "read_holding_registers"; "read_write_multiple_registers";
           "write_single_register"; "write_multiple_registers"; "write_single_coil"; "write_multiple_coils"; "masked_write_register"].

(* ---- Client::call (service/tcp.rs and service/rtu.rs have the same one) as the sequence of its statements ---- *)
Inductive ctok := KFc | KAdu | KHdr | KFramed | KClear | KSend | KNext | KSplit | KSplit2 | KVerifyHdr | KFcOf | KVerifyFc | KMapExc.
Definition ctok_eqb (a b : ctok) : bool :=
  match a, b with
  | KFc, KFc | KAdu, KAdu | KHdr, KHdr | KFramed, KFramed | KClear, KClear | KSend, KSend | KNext, KNext | KSplit, KSplit
  | KSplit2, KSplit2 | KVerifyHdr, KVerifyHdr | KFcOf, KFcOf | KVerifyFc, KVerifyFc | KMapExc, KMapExc => true
  | _, _ => false
  end.
(* the statements that do something (take the id, check the connection, clear, send, receive, verify, map) in order; the pure `let`s
   between them may move *)
Definition effectful (t : ctok) : bool := match t with KFc | KHdr | KSplit | KSplit2 | KFcOf => false | _ => true end.
Definition call_order (p : list ctok) : list ctok := filter effectful p.
Definition call_prog_model : list ctok :=
  [KFc; KAdu; KHdr; KFramed; KClear; KSend; KNext; KSplit; KSplit2; KVerifyHdr; KFcOf; KVerifyFc; KMapExc].
(* what the model's [call] does, in this vocabulary: the transaction id is taken BEFORE the connection check (KAdu before KFramed), the
   receive buffer is cleared after the connection check and before the send, one send, one receive (an error consumes the framing
   layer's end-of-stream marker; no item = BrokenPipe; not connected = NotConnected), the header is verified before the function code,
   the exception is mapped last *)
Definition call_order_model : list ctok := [KAdu; KFramed; KClear; KSend; KNext; KVerifyHdr; KVerifyFc; KMapExc].
Definition call_shape_ok (g : list ctok * (list N * list N)) : bool :=
  list_eqb ctok_eqb (call_order (fst g)) call_order_model
  && forallb (fun t => Nat.eqb (length (filter (ctok_eqb t) (fst g))) 1) [KFc; KHdr; KSplit; KSplit2; KFcOf]
  && leqb (fst (snd g)) (s2l "BrokenPipe") && leqb (snd (snd g)) (s2l "NotConnected").
