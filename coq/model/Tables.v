(* Tables.v -- the table-like parts of the code as DATA plus small interpreters, so that a translator
   (tools/translate.py) can regenerate the data from the Rust source on every run (coq/gen/Generated.v) and the
   obligation "the code's table = the table the proofs are about" is a computation (coq/gen/Ob*.v).
   Hand-written: the types, the interpreters, and the MODEL's tables (what Frame.v / Pdu.v / RtuCodec.v say,
   restated as data; proofs/TablesProofs.v proves the restatement equal to those definitions). *)
From Coq Require Import String.
From TM Require Import Base Frame Pdu Crc RtuCodec TcpCodec Text.

(* ---- byte -> named variant tables (FunctionCode::new / value, ExceptionCode::new / From<..> for u8) ---- *)
Definition name_table := list (N * list N).          (* (byte, variant name in ASCII); a byte not listed is Custom *)

Fixpoint lookup_name (t : name_table) (b : N) : option (list N) :=
  match t with
  | [] => None
  | (k, n) :: t' => if k =? b then Some n else lookup_name t' b
  end.
Fixpoint lookup_byte (t : name_table) (n : list N) : option N :=
  match t with
  | [] => None
  | (k, n') :: t' => if leqb n n' then Some k else lookup_byte t' n
  end.

(* the table expanded over all 256 bytes: what each byte is called (None = Custom(byte)) *)
Definition bytes256 : list N := map N.of_nat (seq 0 256).
Definition expand_names (t : name_table) : list (option (list N)) := map (lookup_name t) bytes256.

Definition fc_table_model : name_table :=
  map (fun b => (b, show_fc_name (fc_new b)))
      [0x01; 0x02; 0x03; 0x04; 0x05; 0x06; 0x07; 0x08; 0x0B; 0x0C; 0x0F; 0x10; 0x11; 0x14; 0x15; 0x16; 0x17; 0x18; 0x2B].
Definition ex_table_model : name_table :=
  map (fun b => (b, show_ex_name (ex_new b))) [0x01; 0x02; 0x03; 0x04; 0x05; 0x06; 0x08; 0x0A; 0x0B].

(* ---- RTU length tables (get_request_pdu_len / get_response_pdu_len) ---- *)
Inductive len_rule :=
| LConst (n : N)              (* fixed PDU length *)
| LCount (k : N)              (* one-byte count at ADU index k: PDU length = k + count *)
| LCount16 (k : N)            (* big-endian 16-bit count at ADU indices k-1, k (needs more than k bytes): PDU length = k + count *)
| LInvalid.                   (* "Invalid function code" *)
Definition len_table := list (N * N * len_rule).      (* lo, hi (inclusive), rule; first matching row; none = LInvalid *)

Fixpoint lookup_len (t : len_table) (fc : N) : len_rule :=
  match t with
  | [] => LInvalid
  | (lo, hi, r) :: t' => if (lo <=? fc) && (fc <=? hi) then r else lookup_len t' fc
  end.

Definition apply_rule (r : len_rule) (buf : list N) : outcome (option N) :=
  match r with
  | LConst n => Val (Some n)
  | LCount k => Val (option_map (fun bc => k + bc) (nth_error buf (N.to_nat k)))
  | LCount16 k =>
      match nth_error buf (N.to_nat k - 1), nth_error buf (N.to_nat k) with
      | Some h, Some l => Val (Some (k + of_be16 h l))
      | _, _ => Val None
      end
  | LInvalid => Fail KInvalidData
  end.

Definition interp_len (t : len_table) (buf : list N) : outcome (option N) :=
  match nth_error buf 1 with
  | None => Val None
  | Some fc => apply_rule (lookup_len t fc) buf
  end.

Definition expand_len (t : len_table) : list len_rule := map (lookup_len t) bytes256.

Definition req_len_table_model : len_table :=
  [(0x01, 0x06, LConst 5); (0x07, 0x07, LConst 1); (0x0B, 0x0B, LConst 1); (0x0C, 0x0C, LConst 1); (0x11, 0x11, LConst 1);
   (0x0F, 0x0F, LCount 6); (0x10, 0x10, LCount 6); (0x16, 0x16, LConst 7); (0x18, 0x18, LConst 3); (0x17, 0x17, LCount 10)].
Definition rsp_len_table_model : len_table :=
  [(0x01, 0x04, LCount 2); (0x0C, 0x0C, LCount 2); (0x11, 0x11, LCount 2); (0x17, 0x17, LCount 2);
   (0x05, 0x05, LConst 5); (0x06, 0x06, LConst 5); (0x0B, 0x0B, LConst 5); (0x0F, 0x0F, LConst 5); (0x10, 0x10, LConst 5);
   (0x07, 0x07, LConst 2); (0x16, 0x16, LConst 7); (0x18, 0x18, LCount16 3); (0x81, 0xAB, LConst 2)].

(* ---- PDU sizes (request_pdu_size / response_pdu_size) ---- *)
Inductive size_rule :=
| SConst (n : N)              (* n *)
| SPacked (a : N)             (* a + packed_coils_size(payload) *)
| SWords (a : N)              (* a + payload.len() * 2 *)
| SBytes (a : N).             (* a + payload.len() *)
Definition size_table := list (list N * size_rule).   (* (variant name, rule) *)

Fixpoint lookup_size (t : size_table) (n : list N) : option size_rule :=
  match t with
  | [] => None
  | (n', r) :: t' => if leqb n n' then Some r else lookup_size t' n
  end.

Definition eval_size (r : size_rule) (items : N) : N :=
  match r with
  | SConst n => n
  | SPacked a => a + (items + 7) / 8
  | SWords a => a + items * 2
  | SBytes a => a + items
  end.

(* the Rust variant name of a request / response and the number of items in its variable part *)
Definition req_variant (r : request) : list N :=
  match r with
  | ReqReadCoils _ _ => s2l "ReadCoils" | ReqReadDiscreteInputs _ _ => s2l "ReadDiscreteInputs"
  | ReqWriteSingleCoil _ _ => s2l "WriteSingleCoil" | ReqWriteMultipleCoils _ _ => s2l "WriteMultipleCoils"
  | ReqReadInputRegisters _ _ => s2l "ReadInputRegisters" | ReqReadHoldingRegisters _ _ => s2l "ReadHoldingRegisters"
  | ReqWriteSingleRegister _ _ => s2l "WriteSingleRegister" | ReqWriteMultipleRegisters _ _ => s2l "WriteMultipleRegisters"
  | ReqReportServerId => s2l "ReportServerId" | ReqMaskWriteRegister _ _ _ => s2l "MaskWriteRegister"
  | ReqReadWriteMultipleRegisters _ _ _ _ => s2l "ReadWriteMultipleRegisters" | ReqCustom _ _ => s2l "Custom"
  end.
Definition req_items (r : request) : N :=
  match r with
  | ReqWriteMultipleCoils _ bs => len bs
  | ReqWriteMultipleRegisters _ ws => len ws
  | ReqReadWriteMultipleRegisters _ _ _ ws => len ws
  | ReqCustom _ d => len d
  | _ => 0
  end.
Definition rsp_variant (r : response) : list N :=
  match r with
  | RspReadCoils _ => s2l "ReadCoils" | RspReadDiscreteInputs _ => s2l "ReadDiscreteInputs"
  | RspWriteSingleCoil _ _ => s2l "WriteSingleCoil" | RspWriteMultipleCoils _ _ => s2l "WriteMultipleCoils"
  | RspReadInputRegisters _ => s2l "ReadInputRegisters" | RspReadHoldingRegisters _ => s2l "ReadHoldingRegisters"
  | RspWriteSingleRegister _ _ => s2l "WriteSingleRegister" | RspWriteMultipleRegisters _ _ => s2l "WriteMultipleRegisters"
  | RspReportServerId _ _ _ => s2l "ReportServerId" | RspMaskWriteRegister _ _ _ => s2l "MaskWriteRegister"
  | RspReadWriteMultipleRegisters _ => s2l "ReadWriteMultipleRegisters" | RspCustom _ _ => s2l "Custom"
  end.
Definition rsp_items (r : response) : N :=
  match r with
  | RspReadCoils bs | RspReadDiscreteInputs bs => len bs
  | RspReadInputRegisters ws | RspReadHoldingRegisters ws | RspReadWriteMultipleRegisters ws => len ws
  | RspReportServerId _ _ d => len d
  | RspCustom _ d => len d
  | _ => 0
  end.

Definition variant_names : list (list N) :=
  map s2l ["ReadCoils"; "ReadDiscreteInputs"; "WriteSingleCoil"; "WriteMultipleCoils"; "ReadInputRegisters";
           "ReadHoldingRegisters"; "WriteSingleRegister"; "WriteMultipleRegisters"; "ReportServerId";
           "MaskWriteRegister"; "ReadWriteMultipleRegisters"; "Custom"]%string.

Definition req_size_table_model : size_table :=
  [(s2l "ReadCoils", SConst 5); (s2l "ReadDiscreteInputs", SConst 5); (s2l "ReadInputRegisters", SConst 5);
   (s2l "ReadHoldingRegisters", SConst 5); (s2l "WriteSingleRegister", SConst 5); (s2l "WriteSingleCoil", SConst 5);
   (s2l "WriteMultipleCoils", SPacked 6); (s2l "WriteMultipleRegisters", SWords 6); (s2l "ReportServerId", SConst 1);
   (s2l "MaskWriteRegister", SConst 7); (s2l "ReadWriteMultipleRegisters", SWords 10); (s2l "Custom", SBytes 1)].
Definition rsp_size_table_model : size_table :=
  [(s2l "ReadCoils", SPacked 2); (s2l "ReadDiscreteInputs", SPacked 2); (s2l "WriteSingleCoil", SConst 5);
   (s2l "WriteMultipleCoils", SConst 5); (s2l "WriteMultipleRegisters", SConst 5); (s2l "WriteSingleRegister", SConst 5);
   (s2l "ReadInputRegisters", SWords 2); (s2l "ReadHoldingRegisters", SWords 2); (s2l "ReadWriteMultipleRegisters", SWords 2);
   (s2l "ReportServerId", SBytes 4); (s2l "MaskWriteRegister", SConst 7); (s2l "Custom", SBytes 1)].

Definition expand_size (t : size_table) : list (option size_rule) := map (lookup_size t) variant_names.

(* a size function given by a table *)
Definition size_by (t : size_table) (name : list N) (items : N) : option N :=
  option_map (fun r => eval_size r items) (lookup_size t name).

(* ---- Request::function_code / Response::function_code: variant name -> name of the function code ("Custom" -> "Custom",
   which carries the request's own code) ---- *)
Definition fc_variant_table := list (list N * list N).
Fixpoint lookup_pair (t : fc_variant_table) (n : list N) : option (list N) :=
  match t with
  | [] => None
  | (a, b) :: t' => if leqb n a then Some b else lookup_pair t' n
  end.
Definition expand_pairs (t : fc_variant_table) : list (option (list N)) := map (lookup_pair t) variant_names.

(* the name of the function code of a request / response as the model computes it *)
Definition fc_short_name (f : function_code) : list N :=
  match f with FcCustom _ => s2l "Custom" | _ => show_fc_name f end.
Definition req_fc_table_model : fc_variant_table :=
  map (fun r => (req_variant r, fc_short_name (req_fc r)))
      [ReqReadCoils 0 0; ReqReadDiscreteInputs 0 0; ReqWriteSingleCoil 0 false; ReqWriteMultipleCoils 0 []; ReqReadInputRegisters 0 0;
       ReqReadHoldingRegisters 0 0; ReqWriteSingleRegister 0 0; ReqWriteMultipleRegisters 0 []; ReqReportServerId;
       ReqMaskWriteRegister 0 0 0; ReqReadWriteMultipleRegisters 0 0 0 []; ReqCustom 0 []].
Definition rsp_fc_table_model : fc_variant_table :=
  map (fun r => (rsp_variant r, fc_short_name (rsp_fc r)))
      [RspReadCoils []; RspReadDiscreteInputs []; RspWriteSingleCoil 0 false; RspWriteMultipleCoils 0 0; RspReadInputRegisters [];
       RspReadHoldingRegisters []; RspWriteSingleRegister 0 0; RspWriteMultipleRegisters 0 0; RspReportServerId 0 false [];
       RspMaskWriteRegister 0 0 0; RspReadWriteMultipleRegisters []; RspCustom 0 []].
