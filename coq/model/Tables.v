(* Tables.v -- the table-like parts of the code as DATA plus small interpreters, so that a translator
   (tools/translate.py) can regenerate the data from the Rust source on every run (coq/gen/Generated.v) and the
   obligation "the code's table = the table the proofs are about" is a computation (coq/gen/Ob*.v).
   Hand-written: the types, the interpreters, and the MODEL's tables (what Frame.v / Pdu.v / RtuCodec.v say,
   restated as data; proofs/TablesProofs.v proves the restatement equal to those definitions). *)
From Coq Require Import String.
From TM Require Import Base Frame Pdu Crc RtuCodec TcpCodec Text.

(* ---- byte -> named variant tables (FunctionCode::new / value, ExceptionCode::new / From<..> for u8) ---- *)
Definition name_table := list (N * list N).          (* (byte, variant name in ASCII); a byte not listed is Custom *)

Fixpoint lookup_name (t : name_table) (b : N) : option (list N) :=
  match t with
  | [] => None
  | (k, n) :: t' => if k =? b then Some n else lookup_name t' b
  end.
Fixpoint lookup_byte (t : name_table) (n : list N) : option N :=
  match t with
  | [] => None
  | (k, n') :: t' => if leqb n n' then Some k else lookup_byte t' n
  end.

(* the table expanded over all 256 bytes: what each byte is called (None = Custom(byte)) *)
Definition bytes256 : list N := map N.of_nat (seq 0 256).
Definition expand_names (t : name_table) : list (option (list N)) := map (lookup_name t) bytes256.

Definition fc_table_model : name_table :=
  map (fun b => (b, show_fc_name (fc_new b)))
      [0x01; 0x02; 0x03; 0x04; 0x05; 0x06; 0x07; 0x08; 0x0B; 0x0C; 0x0F; 0x10; 0x11; 0x14; 0x15; 0x16; 0x17; 0x18; 0x2B].
Definition ex_table_model : name_table :=
  map (fun b => (b, show_ex_name (ex_new b))) [0x01; 0x02; 0x03; 0x04; 0x05; 0x06; 0x08; 0x0A; 0x0B].

(* ---- RTU length tables (get_request_pdu_len / get_response_pdu_len) ---- *)
Inductive len_rule :=
| LConst (n : N)              (* fixed PDU length *)
| LCount (k : N)              (* one-byte count at ADU index k: PDU length = k + count *)
| LCount16 (k : N)            (* big-endian 16-bit count at ADU indices k-1, k (needs more than k bytes): PDU length = k + count *)
| LInvalid.                   (* "Invalid function code" *)
Definition len_table := list (N * N * len_rule).      (* lo, hi (inclusive), rule; first matching row; none = LInvalid *)

Fixpoint lookup_len (t : len_table) (fc : N) : len_rule :=
  match t with
  | [] => LInvalid
  | (lo, hi, r) :: t' => if (lo <=? fc) && (fc <=? hi) then r else lookup_len t' fc
  end.

Definition apply_rule (r : len_rule) (buf : list N) : outcome (option N) :=
  match r with
  | LConst n => Val (Some n)
  | LCount k => Val (option_map (fun bc => k + bc) (nth_error buf (N.to_nat k)))
  | LCount16 k =>
      match nth_error buf (N.to_nat k - 1), nth_error buf (N.to_nat k) with
      | Some h, Some l => Val (Some (k + of_be16 h l))
      | _, _ => Val None
      end
  | LInvalid => Fail KInvalidData
  end.

Definition interp_len (t : len_table) (buf : list N) : outcome (option N) :=
  match nth_error buf 1 with
  | None => Val None
  | Some fc => apply_rule (lookup_len t fc) buf
  end.

Definition expand_len (t : len_table) : list len_rule := map (lookup_len t) bytes256.

Definition req_len_table_model : len_table :=
  [(0x01, 0x06, LConst 5); (0x07, 0x07, LConst 1); (0x0B, 0x0B, LConst 1); (0x0C, 0x0C, LConst 1); (0x11, 0x11, LConst 1);
   (0x0F, 0x0F, LCount 6); (0x10, 0x10, LCount 6); (0x16, 0x16, LConst 7); (0x18, 0x18, LConst 3); (0x17, 0x17, LCount 10)].
Definition rsp_len_table_model : len_table :=
  [(0x01, 0x04, LCount 2); (0x0C, 0x0C, LCount 2); (0x11, 0x11, LCount 2); (0x17, 0x17, LCount 2);
   (0x05, 0x05, LConst 5); (0x06, 0x06, LConst 5); (0x0B, 0x0B, LConst 5); (0x0F, 0x0F, LConst 5); (0x10, 0x10, LConst 5);
   (0x07, 0x07, LConst 2); (0x16, 0x16, LConst 7); (0x18, 0x18, LCount16 3); (0x81, 0xAB, LConst 2)].

(* ---- PDU sizes (request_pdu_size / response_pdu_size) ---- *)
Inductive size_rule :=
| SConst (n : N)              (* n *)
| SPacked (a : N)             (* a + packed_coils_size(payload) *)
| SWords (a : N)              (* a + payload.len() * 2 *)
| SBytes (a : N).             (* a + payload.len() *)
Definition size_table := list (list N * size_rule).   (* (variant name, rule) *)

Fixpoint lookup_size (t : size_table) (n : list N) : option size_rule :=
  match t with
  | [] => None
  | (n', r) :: t' => if leqb n n' then Some r else lookup_size t' n
  end.

Definition eval_size (r : size_rule) (items : N) : N :=
  match r with
  | SConst n => n
  | SPacked a => a + (items + 7) / 8
  | SWords a => a + items * 2
  | SBytes a => a + items
  end.

(* the Rust variant name of a request / response and the number of items in its variable part *)
Definition req_variant (r : request) : list N :=
  match r with
  | ReqReadCoils _ _ => s2l "ReadCoils" | ReqReadDiscreteInputs _ _ => s2l "ReadDiscreteInputs"
  | ReqWriteSingleCoil _ _ => s2l "WriteSingleCoil" | ReqWriteMultipleCoils _ _ => s2l "WriteMultipleCoils"
  | ReqReadInputRegisters _ _ => s2l "ReadInputRegisters" | ReqReadHoldingRegisters _ _ => s2l "ReadHoldingRegisters"
  | ReqWriteSingleRegister _ _ => s2l "WriteSingleRegister" | ReqWriteMultipleRegisters _ _ => s2l "WriteMultipleRegisters"
  | ReqReportServerId => s2l "ReportServerId" | ReqMaskWriteRegister _ _ _ => s2l "MaskWriteRegister"
  | ReqReadWriteMultipleRegisters _ _ _ _ => s2l "ReadWriteMultipleRegisters" | ReqCustom _ _ => s2l "Custom"
  end.
Definition req_items (r : request) : N :=
  match r with
  | ReqWriteMultipleCoils _ bs => len bs
  | ReqWriteMultipleRegisters _ ws => len ws
  | ReqReadWriteMultipleRegisters _ _ _ ws => len ws
  | ReqCustom _ d => len d
  | _ => 0
  end.
Definition rsp_variant (r : response) : list N :=
  match r with
  | RspReadCoils _ => s2l "ReadCoils" | RspReadDiscreteInputs _ => s2l "ReadDiscreteInputs"
  | RspWriteSingleCoil _ _ => s2l "WriteSingleCoil" | RspWriteMultipleCoils _ _ => s2l "WriteMultipleCoils"
  | RspReadInputRegisters _ => s2l "ReadInputRegisters" | RspReadHoldingRegisters _ => s2l "ReadHoldingRegisters"
  | RspWriteSingleRegister _ _ => s2l "WriteSingleRegister" | RspWriteMultipleRegisters _ _ => s2l "WriteMultipleRegisters"
  | RspReportServerId _ _ _ => s2l "ReportServerId" | RspMaskWriteRegister _ _ _ => s2l "MaskWriteRegister"
  | RspReadWriteMultipleRegisters _ => s2l "ReadWriteMultipleRegisters" | RspCustom _ _ => s2l "Custom"
  end.
Definition rsp_items (r : response) : N :=
  match r with
  | RspReadCoils bs | RspReadDiscreteInputs bs => len bs
  | RspReadInputRegisters ws | RspReadHoldingRegisters ws | RspReadWriteMultipleRegisters ws => len ws
  | RspReportServerId _ _ d => len d
  | RspCustom _ d => len d
  | _ => 0
  end.

Definition variant_names : list (list N) :=
  map s2l ["ReadCoils"; "ReadDiscreteInputs"; "WriteSingleCoil"; "WriteMultipleCoils"; "ReadInputRegisters";
           "ReadHoldingRegisters"; "WriteSingleRegister"; "WriteMultipleRegisters"; "ReportServerId";
           "MaskWriteRegister"; "ReadWriteMultipleRegisters"; "Custom"]%string.

Definition req_size_table_model : size_table :=
  [(s2l "ReadCoils", SConst 5); (s2l "ReadDiscreteInputs", SConst 5); (s2l "ReadInputRegisters", SConst 5);
   (s2l "ReadHoldingRegisters", SConst 5); (s2l "WriteSingleRegister", SConst 5); (s2l "WriteSingleCoil", SConst 5);
   (s2l "WriteMultipleCoils", SPacked 6); (s2l "WriteMultipleRegisters", SWords 6); (s2l "ReportServerId", SConst 1);
   (s2l "MaskWriteRegister", SConst 7); (s2l "ReadWriteMultipleRegisters", SWords 10); (s2l "Custom", SBytes 1)].
Definition rsp_size_table_model : size_table :=
  [(s2l "ReadCoils", SPacked 2); (s2l "ReadDiscreteInputs", SPacked 2); (s2l "WriteSingleCoil", SConst 5);
   (s2l "WriteMultipleCoils", SConst 5); (s2l "WriteMultipleRegisters", SConst 5); (s2l "WriteSingleRegister", SConst 5);
   (s2l "ReadInputRegisters", SWords 2); (s2l "ReadHoldingRegisters", SWords 2); (s2l "ReadWriteMultipleRegisters", SWords 2);
   (s2l "ReportServerId", SBytes 4); (s2l "MaskWriteRegister", SConst 7); (s2l "Custom", SBytes 1)].

Definition expand_size (t : size_table) : list (option size_rule) := map (lookup_size t) variant_names.

(* a size function given by a table *)
Definition size_by (t : size_table) (name : list N) (items : N) : option N :=
  option_map (fun r => eval_size r items) (lookup_size t name).

(* ---- Request::function_code / Response::function_code: variant name -> name of the function code ("Custom" -> "Custom",
   which carries the request's own code) ---- *)
Definition fc_variant_table := list (list N * list N).
Fixpoint lookup_pair (t : fc_variant_table) (n : list N) : option (list N) :=
  match t with
  | [] => None
  | (a, b) :: t' => if leqb n a then Some b else lookup_pair t' n
  end.
Definition expand_pairs (t : fc_variant_table) : list (option (list N)) := map (lookup_pair t) variant_names.

(* the name of the function code of a request / response as the model computes it *)
Definition fc_short_name (f : function_code) : list N :=
  match f with FcCustom _ => s2l "Custom" | _ => show_fc_name f end.
Definition req_fc_table_model : fc_variant_table :=
  map (fun r => (req_variant r, fc_short_name (req_fc r)))
      [ReqReadCoils 0 0; ReqReadDiscreteInputs 0 0; ReqWriteSingleCoil 0 false; ReqWriteMultipleCoils 0 []; ReqReadInputRegisters 0 0;
       ReqReadHoldingRegisters 0 0; ReqWriteSingleRegister 0 0; ReqWriteMultipleRegisters 0 []; ReqReportServerId;
       ReqMaskWriteRegister 0 0 0; ReqReadWriteMultipleRegisters 0 0 0 []; ReqCustom 0 []].
Definition rsp_fc_table_model : fc_variant_table :=
  map (fun r => (rsp_variant r, fc_short_name (rsp_fc r)))
      [RspReadCoils []; RspReadDiscreteInputs []; RspWriteSingleCoil 0 false; RspWriteMultipleCoils 0 0; RspReadInputRegisters [];
       RspReadHoldingRegisters []; RspWriteSingleRegister 0 0; RspWriteMultipleRegisters 0 0; RspReportServerId 0 false [];
       RspMaskWriteRegister 0 0 0; RspReadWriteMultipleRegisters []; RspCustom 0 []].

(* ---- the PDU encoders (encode_request_pdu / encode_response_pdu) as PUT PROGRAMS: per variant, the sequence of
   buffer writes the Rust arm performs, over the variant's positional fields ---- *)
Inductive fval := FvN (n : N) | FvB (b : bool) | FvBits (l : list bool) | FvWords (l : list N) | FvBytes (l : list N).
Inductive pexp :=
| EArg (i : nat)               (* field (dereferenced)                   *)
| ECoil (i : nat)              (* bool_to_coil of the field              *)
| ERun (i : nat)               (* if field { 0xFF } else { 0x00 }        *)
| ELen16 (i : nat)             (* u16_len(field.len())                    *)
| EPacked8 (i : nat)           (* u8_len(packed_coils_size(field))        *)
| ELen2x8 (i : nat)            (* u8_len(field.len() * 2)                 *)
| E2PlusLen8 (i : nat).        (* 2 + u8_len(field.len())   (u8 addition) *)
Inductive put :=
| PFc                          (* buf.put_u8(self.function_code().value()) *)
| PU8 (e : pexp) | PU16 (e : pexp)
| PCoils (i : nat)             (* encode_packed_coils(buf, field)          *)
| PWords (i : nat)             (* for w in field: buf.put_u16 of w        *)
| PSlice (i : nat).            (* buf.put_slice(field)                     *)
Definition enc_table := list (list N * list put).     (* (variant name, program) *)

Fixpoint lookup_prog (t : enc_table) (n : list N) : option (list put) :=
  match t with
  | [] => None
  | (n', p) :: t' => if leqb n n' then Some p else lookup_prog t' n
  end.
Definition expand_progs (t : enc_table) : list (option (list put)) := map (lookup_prog t) variant_names.

Definition fv_len (v : option fval) : outcome N :=
  match v with
  | Some (FvBits l) => Val (len l) | Some (FvWords l) => Val (len l) | Some (FvBytes l) => Val (len l)
  | _ => Fail KInvalidInput        (* an ill-typed program: no encoder of the code or the model answers this *)
  end.

Definition eval_pexp (m : mode) (fs : list fval) (e : pexp) : outcome N :=
  match e with
  | EArg i => match nth_error fs i with Some (FvN n) => Val n | _ => Fail KInvalidInput end
  | ECoil i => match nth_error fs i with Some (FvB b) => Val (bool_to_coil b) | _ => Fail KInvalidInput end
  | ERun i => match nth_error fs i with Some (FvB b) => Val (if b then 0xFF else 0x00) | _ => Fail KInvalidInput end
  | ELen16 i => n <- fv_len (nth_error fs i) ;; u16_len m n
  | EPacked8 i => n <- fv_len (nth_error fs i) ;; u8_len m ((n + 7) / 8)
  | ELen2x8 i => n <- fv_len (nth_error fs i) ;; u8_len m (n * 2)
  | E2PlusLen8 i =>
      n <- fv_len (nth_error fs i) ;; c <- u8_len m n ;;
      if 255 <? 2 + c then (if dbg m then Panic else Val ((2 + c) mod 256)) else Val (2 + c)
  end.

Definition run_put (m : mode) (fc : N) (fs : list fval) (p : put) : outcome (list N) :=
  match p with
  | PFc => Val [fc]
  | PU8 e => v <- eval_pexp m fs e ;; Val [v]
  | PU16 e => v <- eval_pexp m fs e ;; Val (be16 v)
  | PCoils i => match nth_error fs i with Some (FvBits l) => Val (pack_coils l) | _ => Fail KInvalidInput end
  | PWords i => match nth_error fs i with Some (FvWords l) => Val (be16s l) | _ => Fail KInvalidInput end
  | PSlice i => match nth_error fs i with Some (FvBytes l) => Val l | _ => Fail KInvalidInput end
  end.

Fixpoint run_puts (m : mode) (fc : N) (fs : list fval) (ps : list put) : outcome (list N) :=
  match ps with
  | [] => Val []
  | p :: ps' => a <- run_put m fc fs p ;; b <- run_puts m fc fs ps' ;; Val (a ++ b)
  end.

Definition run_enc (t : enc_table) (m : mode) (name : list N) (fc : N) (fs : list fval) : option (outcome (list N)) :=
  option_map (run_puts m fc fs) (lookup_prog t name).

Definition req_fields (r : request) : list fval :=
  match r with
  | ReqReadCoils a q | ReqReadDiscreteInputs a q | ReqReadInputRegisters a q | ReqReadHoldingRegisters a q => [FvN a; FvN q]
  | ReqWriteSingleCoil a b => [FvN a; FvB b]
  | ReqWriteMultipleCoils a bs => [FvN a; FvBits bs]
  | ReqWriteSingleRegister a w => [FvN a; FvN w]
  | ReqWriteMultipleRegisters a ws => [FvN a; FvWords ws]
  | ReqReportServerId => []
  | ReqMaskWriteRegister a x y => [FvN a; FvN x; FvN y]
  | ReqReadWriteMultipleRegisters ra rq wa ws => [FvN ra; FvN rq; FvN wa; FvWords ws]
  | ReqCustom fc d => [FvN fc; FvBytes d]
  end.
Definition rsp_fields (r : response) : list fval :=
  match r with
  | RspReadCoils bs | RspReadDiscreteInputs bs => [FvBits bs]
  | RspReadInputRegisters ws | RspReadHoldingRegisters ws | RspReadWriteMultipleRegisters ws => [FvWords ws]
  | RspWriteSingleCoil a b => [FvN a; FvB b]
  | RspWriteMultipleCoils a q | RspWriteMultipleRegisters a q => [FvN a; FvN q]
  | RspWriteSingleRegister a w => [FvN a; FvN w]
  | RspReportServerId id run d => [FvN id; FvB run; FvBytes d]
  | RspMaskWriteRegister a x y => [FvN a; FvN x; FvN y]
  | RspCustom fc d => [FvN fc; FvBytes d]
  end.

Definition req_enc_prog_model : enc_table :=
  [(s2l "ReadCoils", [PFc; PU16 (EArg 0); PU16 (EArg 1)]); (s2l "ReadDiscreteInputs", [PFc; PU16 (EArg 0); PU16 (EArg 1)]);
   (s2l "ReadInputRegisters", [PFc; PU16 (EArg 0); PU16 (EArg 1)]); (s2l "ReadHoldingRegisters", [PFc; PU16 (EArg 0); PU16 (EArg 1)]);
   (s2l "WriteSingleCoil", [PFc; PU16 (EArg 0); PU16 (ECoil 1)]);
   (s2l "WriteMultipleCoils", [PFc; PU16 (EArg 0); PU16 (ELen16 1); PU8 (EPacked8 1); PCoils 1]);
   (s2l "WriteSingleRegister", [PFc; PU16 (EArg 0); PU16 (EArg 1)]);
   (s2l "WriteMultipleRegisters", [PFc; PU16 (EArg 0); PU16 (ELen16 1); PU8 (ELen2x8 1); PWords 1]);
   (s2l "ReportServerId", [PFc]);
   (s2l "MaskWriteRegister", [PFc; PU16 (EArg 0); PU16 (EArg 1); PU16 (EArg 2)]);
   (s2l "ReadWriteMultipleRegisters", [PFc; PU16 (EArg 0); PU16 (EArg 1); PU16 (EArg 2); PU16 (ELen16 3); PU8 (ELen2x8 3); PWords 3]);
   (s2l "Custom", [PFc; PSlice 1])].
Definition rsp_enc_prog_model : enc_table :=
  [(s2l "ReadCoils", [PFc; PU8 (EPacked8 0); PCoils 0]); (s2l "ReadDiscreteInputs", [PFc; PU8 (EPacked8 0); PCoils 0]);
   (s2l "ReadInputRegisters", [PFc; PU8 (ELen2x8 0); PWords 0]); (s2l "ReadHoldingRegisters", [PFc; PU8 (ELen2x8 0); PWords 0]);
   (s2l "ReadWriteMultipleRegisters", [PFc; PU8 (ELen2x8 0); PWords 0]);
   (s2l "WriteSingleCoil", [PFc; PU16 (EArg 0); PU16 (ECoil 1)]);
   (s2l "WriteMultipleCoils", [PFc; PU16 (EArg 0); PU16 (EArg 1)]); (s2l "WriteMultipleRegisters", [PFc; PU16 (EArg 0); PU16 (EArg 1)]);
   (s2l "ReportServerId", [PFc; PU8 (E2PlusLen8 2); PU8 (EArg 0); PU8 (ERun 1); PSlice 2]);
   (s2l "WriteSingleRegister", [PFc; PU16 (EArg 0); PU16 (EArg 1)]);
   (s2l "MaskWriteRegister", [PFc; PU16 (EArg 0); PU16 (EArg 1); PU16 (EArg 2)]);
   (s2l "Custom", [PFc; PSlice 1])].

(* ---- the four frame encoders (impl Encoder for ClientCodec / ServerCodec, RTU and TCP) as programs: the ORDER of the size
   check and the buffer writes matters -- a refused PDU must leave nothing behind in the write buffer ---- *)
Inductive fop :=
| FOffset                      (* let buf_offset = buf.len()                               *)
| FSize                        (* let n = request_pdu_size / response_result_pdu_size ...? *)
| FReserve (k : N)             (* buf.reserve(n + k)                                       *)
| FSlave | FUid                (* buf.put_u8(hdr.slave_id) / buf.put_u8(hdr.unit_id)       *)
| FTid | FPid                  (* buf.put_u16(hdr.transaction_id) / put_u16(PROTOCOL_ID)   *)
| FLenField (k : N)            (* buf.put_u16(u16_len(n + k))                              *)
| FPdu                         (* encode_request_pdu / encode_response_result_pdu          *)
| FCrc.                        (* let crc = calc_crc of buf from buf_offset; put_u16(crc)  *)
Inductive ftok := KSize | KSlave | KUid | KTid | KPid | KLen (k : N) | KPdu | KCrc.

(* well-formedness and normal form: the tokens in execution order; FOffset must precede every write (then the CRC covers exactly this
   frame), FReserve / FLenField need the size; FOffset and FReserve write nothing *)
Fixpoint compile_frame (ps : list fop) (off size wrote : bool) : option (list ftok) :=
  match ps with
  | [] => Some []
  | FOffset :: r => if wrote then None else compile_frame r true size wrote
  | FSize :: r => option_map (cons KSize) (compile_frame r off true wrote)
  | FReserve _ :: r => if size then compile_frame r off size wrote else None
  | FSlave :: r => option_map (cons KSlave) (compile_frame r off size true)
  | FUid :: r => option_map (cons KUid) (compile_frame r off size true)
  | FTid :: r => option_map (cons KTid) (compile_frame r off size true)
  | FPid :: r => option_map (cons KPid) (compile_frame r off size true)
  | FLenField k :: r => if size then option_map (cons (KLen k)) (compile_frame r off size true) else None
  | FPdu :: r => option_map (cons KPdu) (compile_frame r off size true)
  | FCrc :: r => if off then option_map (cons KCrc) (compile_frame r off size true) else None
  end.

(* what the buffer has gained when encode returns (or unwinds), and its result *)
Fixpoint run_toks (m : mode) (h : hdr) (pid : N) (size : outcome N) (pdu : outcome (list N)) (ts : list ftok)
         (out : list N) (sz : N) : list N * outcome unit :=
  match ts with
  | [] => (out, Val tt)
  | KSize :: r => match size with Val n => run_toks m h pid size pdu r out n | Fail k => (out, Fail k) | Panic => (out, Panic) end
  | KSlave :: r | KUid :: r => run_toks m h pid size pdu r (out ++ [snd h]) sz
  | KTid :: r => run_toks m h pid size pdu r (out ++ be16 (fst h)) sz
  | KPid :: r => run_toks m h pid size pdu r (out ++ be16 pid) sz
  | KLen k :: r => match u16_len m (sz + k) with Val l => run_toks m h pid size pdu r (out ++ be16 l) sz | Fail e => (out, Fail e) | Panic => (out, Panic) end
  | KPdu :: r => match pdu with Val bs => run_toks m h pid size pdu r (out ++ bs) sz | Fail e => (out, Fail e) | Panic => (out, Panic) end
  | KCrc :: r => run_toks m h pid size pdu r (out ++ crc2 out) sz
  end.

Definition rtu_frame_toks : list ftok := [KSize; KSlave; KPdu; KCrc].
Definition tcp_frame_toks : list ftok := [KSize; KTid; KPid; KLen 1; KUid; KPdu].
Definition rtu_frame_prog_model : list fop := [FOffset; FSize; FReserve 3; FSlave; FPdu; FCrc].
Definition tcp_frame_prog_model : list fop := [FSize; FReserve 7; FTid; FPid; FLenField 1; FUid; FPdu].

(* a run agrees with an encoder of the model: same frame on success; on refusal the same error AND nothing written; same panic *)
Definition enc_agrees (run : list N * outcome unit) (model : outcome (list N)) : Prop :=
  match model with
  | Val f => run = (f, Val tt)
  | Fail k => run = ([], Fail k)
  | Panic => snd run = Panic
  end.
