(* Run.v -- executes one case line of the interchange language on the model. *)
From Coq Require Import String.
From TM Require Import Base Frame Pdu Crc RtuCodec TcpCodec Framed Client Server Slave Sync Text.

Definition words_of (l : list N) : list (list N) := split ch_space l.

Definition err (s : string) : list N := s2l "ERR " ++ s2l s.

(* split a token list at ";" tokens *)
Fixpoint split_ops (ts : list (list N)) (cur : list (list N)) : list (list (list N)) :=
  match ts with
  | [] => [rev_append cur []]
  | t :: r => if is t ";" then rev_append cur [] :: split_ops r [] else split_ops r (t :: cur)
  end.

Definition push_scripts (st : cstate) (w : list wev) (f : list fev) (r : list revt) : cstate :=
  let wi := wio_ st in
  mkC (framed st) (rst st) (mkW (wbuf wi) (wq wi ++ w) (fq wi ++ f) []) (rq st ++ r) (sq st)
      (next_tid st) (unit_id st) (shutdowns st).

Definition run_cli_op (p : proto) (m : mode) (st : cstate) (op : list (list N)) : list N * cstate :=
  match op with
  | [h; rq_; w; f; r; d] =>
      match parse_req rq_, parse_list parse_wev w, parse_list parse_fev f, parse_list parse_rev r, parse_budget d with
      | Some req, Some ws, Some fs, Some rs, Some bg =>
          let st0 := push_scripts st ws fs rs in
          if is h "call" then
            let '(res, st1) := call p m st0 req bg in
            (show_call_result res ++ s2l " w=" ++ show_hex (accepted (wio_ st1)) ++ s2l " q=" ++ show_dec (len (rq st1)), st1)
          else if is h "typed" then
            let '(res, st1) := typed p m st0 req bg in
            (show_typed_result res ++ s2l " w=" ++ show_hex (accepted (wio_ st1)) ++ s2l " q=" ++ show_dec (len (rq st1)), st1)
          else (err "op", st)
      | _, _, _, _, _ => (err "callargs", st)
      end
  | [h; a] =>
      if is h "slave" then
        match parse_dec a with
        | Some n => (s2l "ok", set_slave st n)
        | None => (err "slave", st)
        end
      else if is h "disc" then
        match parse_list parse_sdev a with
        | Some ss =>
            let st0 := mkC (framed st) (rst st) (wio_ st) (rq st) (sq st ++ ss) (next_tid st) (unit_id st) (shutdowns st) in
            let '(res, st1) := disconnect st0 in
            (show_disc_result res ++ s2l " sd=" ++ show_dec (shutdowns st1 - shutdowns st0), st1)
        | None => (err "disc", st)
        end
      else (err "op2", st)
  | [h; a; d] =>
      (* disc <shutdown script> <drop budget>: the disconnect future is dropped after that many Pending polls *)
      if is h "disc" then
        match parse_list parse_sdev a, parse_budget d with
        | Some ss, Some bg =>
            let st0 := mkC (framed st) (rst st) (wio_ st) (rq st) (sq st ++ ss) (next_tid st) (unit_id st) (shutdowns st) in
            let '(res, st1) := disconnect_bg st0 bg in
            (show_disc_result res ++ s2l " sd=" ++ show_dec (shutdowns st1 - shutdowns st0), st1)
        | _, _ => (err "disc", st)
        end
      else (err "op3", st)
  | _ => (err "oplen", st)
  end.

Fixpoint run_cli_ops (p : proto) (m : mode) (st : cstate) (ops : list (list (list N))) : list (list N) :=
  match ops with
  | [] => []
  | op :: r => let '(o, st') := run_cli_op p m st op in o :: run_cli_ops p m st' r
  end.


(* ---- SYNC / ASYNC lines: <proto> <timeout ms|-> <slave|-> ops; op = call|typed <req> <peer> | slave <n>
   peer: r<hex> reply | c close | s silent | w<ms>:<hex> reply after ms *)
Inductive peer := PReply (b : list N) | PClose | PSilent | PSlow (ms : N) (b : list N).
Definition parse_peer (l : list N) : option peer :=
  match l with
  | [99] => Some PClose
  | [115] => Some PSilent
  | 114 :: h => option_map PReply (parse_hex h)
  | 119 :: rest =>
      match split ch_colon rest with
      | [ms; h] => ap2 PSlow (parse_dec ms) (parse_hex h)
      | _ => None
      end
  | _ => None
  end.

Definition push_rq (st : cstate) (r : list revt) : cstate :=
  mkC (framed st) (rst st) (wio_ st) (rq st ++ r) (sq st) (next_tid st) (unit_id st) (shutdowns st).
Definition reset_acc (st : cstate) : cstate :=
  let wi := wio_ st in
  mkC (framed st) (rst st) (mkW (wbuf wi) (wq wi) (fq wi) []) (rq st) (sq st) (next_tid st) (unit_id st) (shutdowns st).

Definition show_tmo (t : option N) : list N := match t with Some n => show_dec n | None => s2l "-" end.

(* one operation on the blocking context [c]; `timeout <ms|->` is set_timeout / reset_timeout, answered with what
   timeout() then returns *)
Definition run_live_op (p : proto) (m : mode) (c : sctx) (op : list (list N)) : list N * sctx :=
  let tmo := s_timeout c in
  let st := s_client c in
  match op with
  | [h; rq_; pe] =>
      match parse_req rq_, parse_peer pe with
      | Some req, Some pr =>
          let '(now, later) :=
            match pr with
            | PReply b => ([RData b], [])
            | PClose => ([REof], [])
            | PSilent => ([], [])
            | PSlow ms b => match tmo with
                            | Some t => if ms <? t then ([RData b], []) else ([], [RData b])
                            | None => ([RData b], [])
                            end
            end in
          let c0 := mkS (push_rq (reset_acc st) now) tmo in
          if is h "call" then
            let '(res, c1) := sctx_call p m c0 req in
            (show_call_result res ++ s2l " rx=" ++ show_hex (accepted (wio_ (s_client c1))), mkS (push_rq (s_client c1) later) tmo)
          else if is h "typed" then
            let '(res, c1) := sctx_typed p m c0 req in
            (show_typed_result res ++ s2l " rx=" ++ show_hex (accepted (wio_ (s_client c1))), mkS (push_rq (s_client c1) later) tmo)
          else (err "liveop", c)
      | _, _ => (err "liveargs", c)
      end
  | [h; a] =>
      if is h "slave" then
        match parse_dec a with
        | Some n => (s2l "ok", sctx_set_slave c n)
        | None => (err "slave", c)
        end
      else if is h "timeout" then
        let c' := if is_dash a then sync_reset_timeout c else sync_set_timeout c (parse_dec a) in
        (s2l "ok t=" ++ show_tmo (s_timeout c'), c')
      else (err "liveop2", c)
  | _ => (err "liveoplen", c)
  end.

Fixpoint run_live_ops (p : proto) (m : mode) (c : sctx) (ops : list (list (list N))) : list (list N) :=
  match ops with
  | [] => []
  | op :: r => let '(o, c') := run_live_op p m c op in o :: run_live_ops p m c' r
  end.

(* ---- E2E lines: <proto> <slave> ops; op = call|typed <request> <service reply>
   The real client talking to the real server of the same transport.  In the model the exchange is the composition of the
   two machines: the bytes the client transmits for the request are what the server connection reads; the bytes the server
   writes are what the client's call then reads.  (Both machines are deterministic, so the transmitted bytes can be obtained
   from a run of the call that is given nothing to read.)  The server connection keeps its own state across operations. *)
Definition tev_wrote (t : tev) : list N := match t with TWrote b => b | _ => [] end.
Definition tev_is_call (t : tev) : bool := match t with TCall _ _ => true | _ => false end.

Definition e2e_exchange (p : proto) (m : mode) (st : cstate) (typed_ : bool) (req : request) (svc : list svc_reply)
  : (call_result + typed_result) * list tev * cstate :=
  let st0 := reset_acc st in
  let sent := accepted (wio_ (snd (call p m st0 req None))) in
  let tr := serve_conn p m (match sent with [] => [] | _ => [RData sent] end) [] [] svc in
  let reply := concat (map tev_wrote tr) in
  let st1 := push_rq st0 (match reply with [] => [] | _ => [RData reply] end) in
  let calls := filter tev_is_call tr in
  if typed_ then let '(res, st2) := typed p m st1 req None in (inr res, calls, st2)
  else let '(res, st2) := call p m st1 req None in (inl res, calls, st2).

Definition run_e2e_op (p : proto) (m : mode) (st : cstate) (op : list (list N)) : list N * cstate :=
  match op with
  | [h; rq_; sv] =>
      match parse_req rq_, parse_list parse_svc sv with
      | Some req, Some svc =>
          if is h "call" || is h "typed" then
            let '(res, calls, st2) := e2e_exchange p m st (is h "typed") req svc in
            ((match res with inl c => show_call_result c | inr t => show_typed_result t end) ++ s2l " seen=" ++
             (match calls with [] => s2l "-" | _ => join [43] (map show_tev calls) end), st2)
          else (err "e2eop", st)
      | _, _ => (err "e2eargs", st)
      end
  | _ => (err "e2eoplen", st)
  end.

Fixpoint run_e2e_ops (p : proto) (m : mode) (st : cstate) (ops : list (list (list N))) : list (list N) :=
  match ops with
  | [] => []
  | op :: r => let '(o, st') := run_e2e_op p m st op in o :: run_e2e_ops p m st' r
  end.

Definition run_line (m : mode) (line : list N) : list N :=
  match words_of line with
  | [h; a] =>
      if is h "DREQ" then
        match parse_hex a with Some bs => show_outcome show_req (dec_req bs) | None => err "hex" end
      else if is h "DRSP" then
        match parse_hex a with Some bs => show_outcome show_rsp (dec_rsp bs) | None => err "hex" end
      else if is h "DEXC" then
        match parse_hex a with Some bs => show_outcome show_exr (dec_exc bs) | None => err "hex" end
      else if is h "FC" then
        match parse_dec a with
        | Some n => show_dec (fc_value (fc_new n)) ++ [ch_space] ++ show_fc_name (fc_new n)
        | None => err "dec" end
      else if is h "EX" then
        match parse_dec a with
        | Some n => show_dec (ex_value (ex_new n)) ++ [ch_space] ++ show_ex_name (ex_new n)
        | None => err "dec" end
      else if is h "RFC" then
        match parse_req a with Some r => show_dec (fc_value (req_fc r)) | None => err "req" end
      else if is h "PFC" then
        match parse_rsp a with Some r => show_dec (fc_value (rsp_fc r)) | None => err "rsp" end
      else if is h "SLP" then
        match parse_hex a with
        | Some cs => match slave_parse cs with Some n => s2l "S " ++ show_dec n | None => s2l "E" end
        | None => err "hex" end
      else if is h "SLD" then
        match parse_dec a with
        | Some n => show_hex (slave_display n) ++ [ch_space] ++ show_bool (slave_is_broadcast n)
                    ++ [ch_space] ++ show_bool (slave_is_single_device n)
                    ++ [ch_space] ++ show_bool (slave_is_reserved n)
        | None => err "dec" end
      else err "cmd2"
  | h :: pr :: rest =>
      if is h "CLI" then
        match parse_proto pr, rest with
        | Some p, sl :: ops =>
            match parse_dec sl with
            | Some s => join (s2l " ; ") (run_cli_ops p m (client_new p s) (split_ops ops []))
            | None => err "slave"
            end
        | _, _ => err "cli"
        end
      else if is h "E2E" then
        match parse_proto pr, rest with
        | Some p, sl :: ops =>
            match parse_dec sl with
            | Some s => join (s2l " ; ") (run_e2e_ops p m (client_new p s) (split_ops ops []))
            | None => err "slave"
            end
        | _, _ => err "e2e"
        end
      else if is h "OWN" then
        (* Request::into_owned / SlaveRequest::into_owned: the same value, owning its payload *)
        match parse_dec pr, rest with
        | Some s, [rq_] => match parse_req rq_ with
                           | Some r => show_req r ++ [ch_space] ++ show_dec s ++ [ch_colon] ++ show_req r
                           | None => err "req" end
        | _, _ => err "own"
        end
      else if is h "ACCADDR" then
        (* accept_tcp_connection hands the peer address it was given to the service factory, once, unchanged *)
        match rest with
        | [a] => a ++ s2l " n=1 same=1"
        | _ => err "accaddr"
        end
      else if is h "SYNC" || is h "ASYNC" then
        match parse_proto pr, rest with
        | Some p, tm :: sl :: ops =>
            let tmo := if is_dash tm then None else parse_dec tm in
            let slave := if is_dash sl then None else parse_dec sl in
            join (s2l " ; ") (run_live_ops p m (sync_connect_ctx p slave tmo) (split_ops ops [])) ++ s2l " ; timing_ok=1"
        | _, _ => err "live"
        end
      else if is h "TIDS" then
        (* several TCP client contexts, calls interleaved in the given order: every context numbers its own requests,
           whatever the others do.  `pr` = number of contexts, rest = [order] *)
        match parse_dec pr, rest with
        | Some n, [order] =>
            match parse_list parse_dec order with
            | Some idx =>
                let one (i : N) : list N :=
                  let calls := filter (N.eqb i) idx in
                  let step (acc : list (list N) * cstate) (_ : N) :=
                    let st0 := mkC (framed (snd acc)) (rst (snd acc)) (mkW (wbuf (wio_ (snd acc))) (wq (wio_ (snd acc))) (fq (wio_ (snd acc))) [])
                                   (rq (snd acc)) (sq (snd acc)) (next_tid (snd acc)) (unit_id (snd acc)) (shutdowns (snd acc)) in
                    let '(_, st1) := call TCP m st0 (ReqReadHoldingRegisters 1 1) None in
                    (fst acc ++ [match accepted (wio_ st1) with a :: b :: _ => show_dec (of_be16 a b) | _ => [ch_dash] end], st1) in
                  match fst (fold_left step calls ([], client_new TCP 1)) with
                  | [] => [ch_dash]
                  | ids => join [ch_dot] ids
                  end in
                join [124] (map one (map N.of_nat (seq 0 (N.to_nat n))))
            | None => err "tidsorder"
            end
        | _, _ => err "tids"
        end
      else if is h "SURVIVE" then
        (* connections established before another connection's setup fails (serve returns the error) or is rejected:
           every connection is its own machine -- it goes on serving whatever the accept loop does afterwards.
           plan = conn|conn.., conn = first/second/svc1/svc2 *)
        match parse_proto pr, rest with
        | Some p, [e; plan] =>
            (* h: no further connection; instead every connection's setup awaits a hello byte of its peer, the setups overlapping
               in time: for the accept loop these are ordinary connections, set up one after the other *)
            let endev := match e with
                         | 101 :: 58 :: k => option_map (fun k => [AConn (SetupErr k)]) (parse_kind k)
                         | [114] => Some [AConn SetupReject]
                         | [104] => Some []
                         | _ => None end in
            let conns := opt_all (map (fun c : list N =>
                           match split 47 c with
                           | [f1; f2; s1; s2] =>
                               match parse_hex f1, parse_hex f2, parse_svc s1, parse_svc s2 with
                               | Some a, Some b, Some x, Some y => Some ([RData a; RData b], [x; y])
                               | _, _, _, _ => None end
                           | _ => None end) (split 124 plan)) in
            match endev, conns with
            | Some ev, Some cs =>
                let '(served, r) := serve (map (fun c => AConn (SetupService (fst c))) cs ++ ev) in
                let wr (t : list tev) := flat_map (fun x => match x with TWrote b => [b] | _ => [] end) t in
                s2l "serve=" ++
                match r with
                | SrvErr k => s2l "E:" ++ show_kind k
                | SrvAborted => s2l "ABORTED"
                | SrvListening => s2l "LISTENING"
                end ++
                flat_map (fun qc : list revt * (list revt * list svc_reply) =>
                            let ws := wr (serve_conn p m (fst qc) [] [] (snd (snd qc))) in
                            s2l " | first=" ++ show_hex (nth 0 ws []) ++ s2l " second=" ++ show_hex (nth 1 ws []))
                         (combine served cs)
            | _, _ => err "surviveargs"
            end
        | _, _ => err "survive"
        end
      else if is h "ACCEPT" then
        match parse_proto pr, rest with
        | Some p, [g; b; evs] =>
            match parse_hex g, parse_hex b with
            | Some good, Some bad =>
                match parse_list (fun e : list N =>
                         match e with
                         | [115] => Some (AConn (SetupService [RData good; REof]))   (* s *)
                         | [98] => Some (AConn (SetupService [RData bad]))           (* b *)
                         | [114] => Some (AConn SetupReject)                         (* r *)
                         | [104] => Some (AConn SetupHang)                           (* h *)
                         | [107] => Some (AConn (SetupService [RData good; REof]))   (* k: a peer that reset the connection while
                                                                                        it was still in the listen backlog: accepted and
                                                                                        set up like any other *)
                         | 101 :: 58 :: k => option_map (fun k => AConn (SetupErr k)) (parse_kind k)
                         | [97] => Some AAbort                                       (* a *)
                         | _ => None end) evs with
                | Some es =>
                    let '(conns, r) := serve es in
                    s2l "served=" ++ show_dec (len conns) ++ s2l " reports=" ++ show_dec (serve_reports p m conns) ++ [ch_space] ++
                    match r with
                    | SrvErr k => s2l "E:" ++ show_kind k
                    | SrvAborted => s2l "ABORTED"
                    | SrvListening => s2l "LISTENING"
                    end
                | None => err "acc"
                end
            | _, _ => err "acchex"
            end
        | _, _ => err "accept"
        end
      else if is h "SRV" then
        match parse_proto pr, rest with
        | Some p, [r; w; f; sv] =>
            match parse_list parse_rev r, parse_list parse_wev w, parse_list parse_fev f, parse_list parse_svc sv with
            | Some rs, Some ws, Some fs, Some svc =>
                join [ch_comma] (map show_tev (serve_conn p m rs ws fs svc))
            | _, _, _, _ => err "srvargs"
            end
        | _, _ => err "srv"
        end
      else err "cmd"
  | _ => err "empty"
  end.

Definition run_line_s (m : mode) (s : string) : string := l2s (run_line m (s2l s)).
