(* Base.v -- bytes, error kinds, the outcome monad, cursor-style readers.
   Mirrors: byteorder / std::io::Cursor reads, BufMut::put_u16, io::ErrorKind.
   No proofs in model files (so the model still runs when a proof breaks). *)
From Coq Require Export List NArith Bool Arith.
Export ListNotations.
Open Scope N_scope.

(* io::ErrorKind values that the crate itself produces are named; kinds injected by a
   scripted transport are KOther n (n indexes the harness' table of stable ErrorKinds). *)
Inductive kind :=
| KUnexpectedEof | KInvalidData | KInvalidInput | KBrokenPipe | KNotConnected
| KWriteZero | KTimedOut | KOther (n : N).

Definition kind_eqb (a b : kind) : bool :=
  match a, b with
  | KUnexpectedEof, KUnexpectedEof | KInvalidData, KInvalidData | KInvalidInput, KInvalidInput
  | KBrokenPipe, KBrokenPipe | KNotConnected, KNotConnected | KWriteZero, KWriteZero
  | KTimedOut, KTimedOut => true
  | KOther x, KOther y => x =? y
  | _, _ => false
  end.

(* Result of a piece of Rust code: a value, an io::Error of some kind, or a panic
   (index out of range, arithmetic overflow with checks on, failed debug assertion,
   unreachable!). *)
Inductive outcome (A : Type) := Val (a : A) | Fail (k : kind) | Panic.
Arguments Val {A}. Arguments Fail {A}. Arguments Panic {A}.

Definition bind {A B} (o : outcome A) (f : A -> outcome B) : outcome B :=
  match o with Val a => f a | Fail k => Fail k | Panic => Panic end.
Notation "x <- o ;; f" := (bind o (fun x => f))
  (at level 61, o at next level, right associativity).
Notation "' p <- o ;; f" := (bind o (fun p => f))
  (at level 61, p pattern, o at next level, right associativity).

(* Build profile: debug assertions on (cargo debug) or off (release).  Overflow checks go
   with the same switch in cargo's default profiles. *)
Record mode := { dbg : bool }.
Definition debug_mode := {| dbg := true |}.
Definition release_mode := {| dbg := false |}.

(* ---- bytes and words ---- *)
Definition byte_ok (b : N) : bool := b <? 256.
Definition word_ok (w : N) : bool := w <? 65536.
Definition bytes_ok (l : list N) : bool := forallb byte_ok l.
Definition words_ok (l : list N) : bool := forallb word_ok l.

Definition hi8 (w : N) : N := (w / 256) mod 256.
Definition lo8 (w : N) : N := w mod 256.
(* BufMut::put_u16 (big endian) *)
Definition be16 (w : N) : list N := [hi8 w; lo8 w].
Definition of_be16 (h l : N) : N := h * 256 + l.
Definition be16s (ws : list N) : list N := flat_map be16 ws.

(* Cursor reads: ReadBytesExt::read_u8 / read_u16::<BigEndian> fail with UnexpectedEof *)
Definition rd8 (l : list N) : outcome (N * list N) :=
  match l with b :: r => Val (b, r) | [] => Fail KUnexpectedEof end.
Definition rd16 (l : list N) : outcome (N * list N) :=
  match l with h :: lo :: r => Val (of_be16 h lo, r) | _ => Fail KUnexpectedEof end.
Fixpoint rd16s (n : nat) (l : list N) : outcome (list N * list N) :=
  match n with
  | O => Val ([], l)
  | S n => '(w, l1) <- rd16 l ;; '(ws, l2) <- rd16s n l1 ;; Val (w :: ws, l2)
  end.
Fixpoint rd8s (n : nat) (l : list N) : outcome (list N * list N) :=
  match n with
  | O => Val ([], l)
  | S n => '(b, l1) <- rd8 l ;; '(bs, l2) <- rd8s n l1 ;; Val (b :: bs, l2)
  end.

Definition len {A} (l : list A) : N := N.of_nat (length l).

(* `len as u16` / `len as u8` guarded by debug_assert!(len <= MAX) *)
Definition u16_len (m : mode) (n : N) : outcome N :=
  if 65535 <? n then (if dbg m then Panic else Val (n mod 65536)) else Val n.
Definition u8_len (m : mode) (n : N) : outcome N :=
  if 255 <? n then (if dbg m then Panic else Val (n mod 256)) else Val n.

Fixpoint list_eqb {A} (eqb : A -> A -> bool) (a b : list A) : bool :=
  match a, b with
  | [], [] => true
  | x :: a', y :: b' => eqb x y && list_eqb eqb a' b'
  | _, _ => false
  end.
