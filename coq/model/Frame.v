(* Frame.v -- mirrors src/frame/mod.rs (FunctionCode, ExceptionCode, Request, Response,
   ExceptionResponse) and the classification part of src/slave.rs. *)
From TM Require Import Base.

Inductive function_code :=
| FcReadCoils | FcReadDiscreteInputs | FcReadHoldingRegisters | FcReadInputRegisters
| FcWriteSingleCoil | FcWriteSingleRegister | FcReadExceptionStatus | FcDiagnostics
| FcGetCommEventCounter | FcGetCommEventLog | FcWriteMultipleCoils | FcWriteMultipleRegisters
| FcReportServerId | FcReadFileRecord | FcWriteFileRecord | FcMaskWriteRegister
| FcReadWriteMultipleRegisters | FcReadFifoQueue | FcEncapsulatedInterfaceTransport
| FcCustom (code : N).

(* FunctionCode::new *)
Definition fc_new (value : N) : function_code :=
  match value with
  | 0x01 => FcReadCoils
  | 0x02 => FcReadDiscreteInputs
  | 0x03 => FcReadHoldingRegisters
  | 0x04 => FcReadInputRegisters
  | 0x05 => FcWriteSingleCoil
  | 0x06 => FcWriteSingleRegister
  | 0x07 => FcReadExceptionStatus
  | 0x08 => FcDiagnostics
  | 0x0B => FcGetCommEventCounter
  | 0x0C => FcGetCommEventLog
  | 0x0F => FcWriteMultipleCoils
  | 0x10 => FcWriteMultipleRegisters
  | 0x11 => FcReportServerId
  | 0x14 => FcReadFileRecord
  | 0x15 => FcWriteFileRecord
  | 0x16 => FcMaskWriteRegister
  | 0x17 => FcReadWriteMultipleRegisters
  | 0x18 => FcReadFifoQueue
  | 0x2B => FcEncapsulatedInterfaceTransport
  | code => FcCustom code
  end.

(* FunctionCode::value *)
Definition fc_value (f : function_code) : N :=
  match f with
  | FcReadCoils => 0x01
  | FcReadDiscreteInputs => 0x02
  | FcReadHoldingRegisters => 0x03
  | FcReadInputRegisters => 0x04
  | FcWriteSingleCoil => 0x05
  | FcWriteSingleRegister => 0x06
  | FcReadExceptionStatus => 0x07
  | FcDiagnostics => 0x08
  | FcGetCommEventCounter => 0x0B
  | FcGetCommEventLog => 0x0C
  | FcWriteMultipleCoils => 0x0F
  | FcWriteMultipleRegisters => 0x10
  | FcReportServerId => 0x11
  | FcReadFileRecord => 0x14
  | FcWriteFileRecord => 0x15
  | FcMaskWriteRegister => 0x16
  | FcReadWriteMultipleRegisters => 0x17
  | FcReadFifoQueue => 0x18
  | FcEncapsulatedInterfaceTransport => 0x2B
  | FcCustom code => code
  end.

Inductive exception_code :=
| ExIllegalFunction | ExIllegalDataAddress | ExIllegalDataValue | ExServerDeviceFailure
| ExAcknowledge | ExServerDeviceBusy | ExMemoryParityError | ExGatewayPathUnavailable
| ExGatewayTargetDevice | ExCustom (code : N).

(* ExceptionCode::new *)
Definition ex_new (value : N) : exception_code :=
  match value with
  | 0x01 => ExIllegalFunction
  | 0x02 => ExIllegalDataAddress
  | 0x03 => ExIllegalDataValue
  | 0x04 => ExServerDeviceFailure
  | 0x05 => ExAcknowledge
  | 0x06 => ExServerDeviceBusy
  | 0x08 => ExMemoryParityError
  | 0x0A => ExGatewayPathUnavailable
  | 0x0B => ExGatewayTargetDevice
  | other => ExCustom other
  end.

(* impl From<ExceptionCode> for u8 *)
Definition ex_value (e : exception_code) : N :=
  match e with
  | ExIllegalFunction => 0x01
  | ExIllegalDataAddress => 0x02
  | ExIllegalDataValue => 0x03
  | ExServerDeviceFailure => 0x04
  | ExAcknowledge => 0x05
  | ExServerDeviceBusy => 0x06
  | ExMemoryParityError => 0x08
  | ExGatewayPathUnavailable => 0x0A
  | ExGatewayTargetDevice => 0x0B
  | ExCustom code => code
  end.

Inductive request :=
| ReqReadCoils (a q : N)
| ReqReadDiscreteInputs (a q : N)
| ReqWriteSingleCoil (a : N) (b : bool)
| ReqWriteMultipleCoils (a : N) (bs : list bool)
| ReqReadInputRegisters (a q : N)
| ReqReadHoldingRegisters (a q : N)
| ReqWriteSingleRegister (a w : N)
| ReqWriteMultipleRegisters (a : N) (ws : list N)
| ReqReportServerId
| ReqMaskWriteRegister (a am om : N)
| ReqReadWriteMultipleRegisters (ra rq wa : N) (ws : list N)
| ReqCustom (fc : N) (d : list N).

Inductive response :=
| RspReadCoils (bs : list bool)
| RspReadDiscreteInputs (bs : list bool)
| RspWriteSingleCoil (a : N) (b : bool)
| RspWriteMultipleCoils (a q : N)
| RspReadInputRegisters (ws : list N)
| RspReadHoldingRegisters (ws : list N)
| RspWriteSingleRegister (a w : N)
| RspWriteMultipleRegisters (a q : N)
| RspReportServerId (id : N) (run : bool) (d : list N)
| RspMaskWriteRegister (a am om : N)
| RspReadWriteMultipleRegisters (ws : list N)
| RspCustom (fc : N) (d : list N).

Record exception_response := { exr_function : function_code; exr_exception : exception_code }.

(* Request::function_code *)
Definition req_fc (r : request) : function_code :=
  match r with
  | ReqReadCoils _ _ => FcReadCoils
  | ReqReadDiscreteInputs _ _ => FcReadDiscreteInputs
  | ReqWriteSingleCoil _ _ => FcWriteSingleCoil
  | ReqWriteMultipleCoils _ _ => FcWriteMultipleCoils
  | ReqReadInputRegisters _ _ => FcReadInputRegisters
  | ReqReadHoldingRegisters _ _ => FcReadHoldingRegisters
  | ReqWriteSingleRegister _ _ => FcWriteSingleRegister
  | ReqWriteMultipleRegisters _ _ => FcWriteMultipleRegisters
  | ReqReportServerId => FcReportServerId
  | ReqMaskWriteRegister _ _ _ => FcMaskWriteRegister
  | ReqReadWriteMultipleRegisters _ _ _ _ => FcReadWriteMultipleRegisters
  | ReqCustom code _ => FcCustom code
  end.

(* Response::function_code *)
Definition rsp_fc (r : response) : function_code :=
  match r with
  | RspReadCoils _ => FcReadCoils
  | RspReadDiscreteInputs _ => FcReadDiscreteInputs
  | RspWriteSingleCoil _ _ => FcWriteSingleCoil
  | RspWriteMultipleCoils _ _ => FcWriteMultipleCoils
  | RspReadInputRegisters _ => FcReadInputRegisters
  | RspReadHoldingRegisters _ => FcReadHoldingRegisters
  | RspWriteSingleRegister _ _ => FcWriteSingleRegister
  | RspWriteMultipleRegisters _ _ => FcWriteMultipleRegisters
  | RspReportServerId _ _ _ => FcReportServerId
  | RspMaskWriteRegister _ _ _ => FcMaskWriteRegister
  | RspReadWriteMultipleRegisters _ => FcReadWriteMultipleRegisters
  | RspCustom code _ => FcCustom code
  end.

(* Well-formedness of values as Rust types constrain them (u16 fields, u8 payload bytes). *)
Definition req_ok (r : request) : bool :=
  match r with
  | ReqReadCoils a q | ReqReadDiscreteInputs a q | ReqReadInputRegisters a q
  | ReqReadHoldingRegisters a q | ReqWriteSingleRegister a q => word_ok a && word_ok q
  | ReqWriteSingleCoil a _ => word_ok a
  | ReqWriteMultipleCoils a _ => word_ok a
  | ReqWriteMultipleRegisters a ws => word_ok a && words_ok ws
  | ReqReportServerId => true
  | ReqMaskWriteRegister a am om => word_ok a && word_ok am && word_ok om
  | ReqReadWriteMultipleRegisters ra rq wa ws => word_ok ra && word_ok rq && word_ok wa && words_ok ws
  | ReqCustom fc d => byte_ok fc && bytes_ok d
  end.

Definition rsp_ok (r : response) : bool :=
  match r with
  | RspReadCoils _ | RspReadDiscreteInputs _ => true
  | RspWriteSingleCoil a _ => word_ok a
  | RspWriteMultipleCoils a q | RspWriteMultipleRegisters a q | RspWriteSingleRegister a q => word_ok a && word_ok q
  | RspReadInputRegisters ws | RspReadHoldingRegisters ws | RspReadWriteMultipleRegisters ws => words_ok ws
  | RspReportServerId id _ d => byte_ok id && bytes_ok d
  | RspMaskWriteRegister a am om => word_ok a && word_ok am && word_ok om
  | RspCustom fc d => byte_ok fc && bytes_ok d
  end.

(* src/slave.rs: classification of slave ids *)
Definition slave_is_broadcast (s : N) : bool := s =? 0.
Definition slave_is_single_device (s : N) : bool := (1 <=? s) && (s <=? 247).
Definition slave_is_reserved (s : N) : bool := 247 <? s.
