(* Slave.v -- mirrors Slave::from_str and Display of src/slave.rs, with a model of
   u8::from_str / u8::from_str_radix (std, modelled by hand).  Text is a list of byte codes. *)
From TM Require Import Base Frame.

(* char::to_digit(radix) for radix <= 36 *)
Definition digit_val (radix c : N) : option N :=
  let d := if (48 <=? c) && (c <=? 57) then Some (c - 48)
           else if (97 <=? c) && (c <=? 122) then Some (c - 97 + 10)
           else if (65 <=? c) && (c <=? 90) then Some (c - 65 + 10)
           else None in
  match d with Some v => if v <? radix then Some v else None | None => None end.

(* digits accumulate with checked arithmetic in u8 *)
Fixpoint parse_digits (radix acc : N) (cs : list N) : option N :=
  match cs with
  | [] => Some acc
  | c :: r =>
      match digit_val radix c with
      | None => None
      | Some d => let acc' := acc * radix + d in
                  if 255 <? acc' then None else parse_digits radix acc' r
      end
  end.

(* u8::from_str_radix: empty -> error; a lone sign -> error; leading '+' allowed;
   '-' is not a digit for an unsigned type *)
Definition parse_u8 (radix : N) (cs : list N) : option N :=
  match cs with
  | [] => None
  | [43] => None
  | [45] => None
  | 43 :: r => parse_digits radix 0 r
  | _ => parse_digits radix 0 cs
  end.

(* Slave::from_str: decimal first, then the "0x" fallback *)
Definition slave_parse (cs : list N) : option N :=
  match parse_u8 10 cs with
  | Some v => Some v
  | None =>
      match cs with
      | 48 :: 120 :: r => parse_u8 16 r
      | _ => None
      end
  end.

Definition dec_digit (d : N) : N := 48 + d.
Definition hex_digit_upper (d : N) : N := if d <? 10 then 48 + d else 55 + d.

(* decimal rendering of a value < 1000 (all that a u8 needs) without leading zeros *)
Definition show_dec_u8 (n : N) : list N :=
  if n <? 10 then [dec_digit n]
  else if n <? 100 then [dec_digit (n / 10); dec_digit (n mod 10)]
  else [dec_digit (n / 100); dec_digit ((n / 10) mod 10); dec_digit (n mod 10)].

(* write!(f, "{} (0x{:0>2X})", self.0, self.0) *)
Definition slave_display (n : N) : list N :=
  show_dec_u8 n ++ [32; 40; 48; 120] ++ [hex_digit_upper (n / 16); hex_digit_upper (n mod 16)] ++ [41].
