(* Framed.v -- model of tokio-util 0.7 FramedImpl (poll_next / poll_ready / start_send /
   poll_flush), Decoder::decode_eof's default, and futures-util `send` = feed + flush.
   Third-party behaviour: modelled by hand, tied end-to-end by the correspondence check.

   A transport is a script of events, consumed one per poll of the underlying I/O object.
   An exhausted read script means "Pending forever" (the caller is left waiting).
   [budget]: how many Pending results the enclosing future may still observe before it is
   dropped (None = it is never dropped); this is how abandoned / timed-out calls are modelled. *)
From TM Require Import Base RtuCodec.

Inductive revt := RData (c : list N) | REof | RErr (k : kind) | RPend.
Inductive wev := WAccept (n : N) | WZero | WErr (k : kind) | WPend.
Inductive fev := FOk | FErr (k : kind) | FPend.

Record rstate := mkR { rbuf : list N; reof : bool; rreadable : bool; rerrored : bool }.
Definition rstate0 := mkR [] false false false.

Inductive nres (I : Type) :=
| NItem (i : I) | NErr (k : kind) | NEnd | NWait | NAbandon | NPanic.
Arguments NItem {I}. Arguments NErr {I}. Arguments NEnd {I}. Arguments NWait {I}.
Arguments NAbandon {I}. Arguments NPanic {I}.

Definition budget := option nat.
(* observe one Pending: None = the future is dropped now *)
Definition spend (b : budget) : option budget :=
  match b with
  | None => Some None
  | Some O => None
  | Some (S n) => Some (Some n)
  end.

Section Read.
  Context {I : Type}.
  Variable dec : list N -> list N * dres I.

  (* Decoder::decode_eof (default): decode, and if nothing came out of a non-empty buffer,
     fail with "bytes remaining on stream" (io::ErrorKind::Other; shown as InvalidData class
     is NOT assumed: the kind is KOther 0). *)
  Definition decode_eof (b : list N) : list N * dres I :=
    match dec b with
    | (b', DNone) => match b' with [] => (b', DNone) | _ => (b', DErr (KOther 0)) end
    | r => r
    end.

  (* one pass over the buffered data: inl = return to the caller, inr = go and read *)
  Definition attempt (st : rstate) : (nres I * rstate) + rstate :=
    if rreadable st then
      if reof st then
        match decode_eof (rbuf st) with
        | (b', DSome i) => inl (NItem i, mkR b' true true false)
        | (b', DNone) => inl (NEnd, mkR b' true false false)
        | (b', DErr k) => inl (NErr k, mkR b' true true true)
        | (b', DPanic) => inl (NPanic, mkR b' true true false)
        end
      else
        match dec (rbuf st) with
        | (b', DSome i) => inl (NItem i, mkR b' false true false)
        | (b', DErr k) => inl (NErr k, mkR b' false true true)
        | (b', DNone) => inr (mkR b' false false false)
        | (b', DPanic) => inl (NPanic, mkR b' false true false)
        end
    else inr st.

  (* StreamExt::next on the framed transport *)
  Fixpoint next (st : rstate) (evs : list revt) (bg : budget) {struct evs}
    : nres I * rstate * list revt * budget :=
    if rerrored st then (NEnd, mkR (rbuf st) (reof st) false false, evs, bg) else
    match attempt st with
    | inl (r, st') => (r, st', evs, bg)
    | inr st' =>
        match evs with
        | [] => (NWait, st', [], bg)
        | RPend :: evs' =>
            match spend bg with
            | None => (NAbandon, st', evs', bg)
            | Some bg' => next st' evs' bg'
            end
        | RErr k :: evs' => (NErr k, mkR (rbuf st') (reof st') (rreadable st') true, evs', bg)
        | REof :: evs' | RData [] :: evs' =>
            if reof st' then (NEnd, st', evs', bg)
            else next (mkR (rbuf st') true true false) evs' bg
        | RData c :: evs' => next (mkR (rbuf st' ++ c) false true false) evs' bg
        end
    end.
End Read.

(* ---- write half ---- *)
Inductive sres := SOk | SErr (k : kind) | SWait | SAbandon.

(* the `while !buffer.is_empty()` loop of poll_flush; [acc] collects the bytes the transport
   accepted.  An exhausted write script accepts everything that is offered. *)
Fixpoint flush_w (wbuf acc : list N) (wq : list wev) (bg : budget) {struct wq}
  : sres * list N * list N * list wev * budget :=
  match wbuf with
  | [] => (SOk, wbuf, acc, wq, bg)
  | _ :: _ =>
      match wq with
      | [] => (SOk, [], acc ++ wbuf, [], bg)
      | WAccept n :: wq' =>
          if n =? 0 then (SErr KWriteZero, wbuf, acc, wq', bg)
          else flush_w (skipn (N.to_nat n) wbuf) (acc ++ firstn (N.to_nat n) wbuf) wq' bg
      | WZero :: wq' => (SErr KWriteZero, wbuf, acc, wq', bg)
      | WErr k :: wq' => (SErr k, wbuf, acc, wq', bg)
      | WPend :: wq' =>
          match spend bg with
          | None => (SAbandon, wbuf, acc, wq', bg)
          | Some bg' => flush_w wbuf acc wq' bg'
          end
      end
  end.

(* inner.poll_flush; an exhausted flush script succeeds *)
Fixpoint flush_f (fq : list fev) (bg : budget) {struct fq} : sres * list fev * budget :=
  match fq with
  | [] => (SOk, [], bg)
  | FOk :: fq' => (SOk, fq', bg)
  | FErr k :: fq' => (SErr k, fq', bg)
  | FPend :: fq' =>
      match spend bg with
      | None => (SAbandon, fq', bg)
      | Some bg' => flush_f fq' bg'
      end
  end.

Record wio := mkW { wbuf : list N; wq : list wev; fq : list fev; accepted : list N }.

(* Sink::poll_flush *)
Definition poll_flush (w : wio) (bg : budget) : sres * wio * budget :=
  match flush_w (wbuf w) (accepted w) (wq w) bg with
  | (SOk, b, acc, q, bg') =>
      let '(r, f, bg'') := flush_f (fq w) bg' in (r, mkW b q f acc, bg'')
  | (r, b, acc, q, bg') => (r, mkW b q (fq w) acc, bg')
  end.

Definition BACKPRESSURE : N := 8192.

(* SinkExt::send(item): poll_ready (flush if the buffer is at the back-pressure boundary),
   start_send (encode into the write buffer), poll_flush.  [frame] is the encoder's result. *)
Definition send (frame : outcome (list N)) (w : wio) (bg : budget) : sres * wio * budget * bool :=
  let ready :=
    if BACKPRESSURE <=? len (wbuf w) then poll_flush w bg else (SOk, w, bg) in
  match ready with
  | (SOk, w1, bg1) =>
      match frame with
      | Val f =>
          let '(r, w2, bg2) := poll_flush (mkW (wbuf w1 ++ f) (wq w1) (fq w1) (accepted w1)) bg1 in
          (r, w2, bg2, false)
      | Fail k => (SErr k, w1, bg1, false)
      | Panic => (SOk, w1, bg1, true)
      end
  | (r, w1, bg1) => (r, w1, bg1, false)
  end.
