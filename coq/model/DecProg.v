(* DecProg.v -- the PDU DECODERS of the code (decode_request_pdu_bytes / decode_response_pdu_bytes) as READ PROGRAMS:
   per function code, the sequence of cursor reads, checks and loops the Rust arm performs, and the variant it builds.
   tools/translate.py regenerates the programs from the source on every run (coq/gen/Generated.v); proofs/DecProgProofs.v
   proves that the MODEL's programs interpret to dec_req / dec_rsp for every byte string; coq/gen/ObC08.v proves the
   regenerated programs equal to the model's, arm by arm. *)
From Coq Require Import String.
From TM Require Import Base Frame Pdu Text Tables.

Inductive dval := VN (n : N) | VB (b : bool) | VBits (l : list bool) | VWords (l : list N) | VBytes (l : list N).

Inductive dexp :=
| DVar (i : nat)               (* the i-th value bound in this arm (reads and lets, in order) *)
| DConst (n : N)
| DLenAll                      (* bytes.len(): the length of the whole PDU *)
| DAdd (a b : dexp) | DMul (a b : dexp) | DSub (a b : dexp) | DDiv (a b : dexp).
Inductive dcond :=
| CLt (a b : dexp)             (* a < b            *)
| CLe (a b : dexp)             (* a <= b           *)
| CNe (a b : dexp)             (* a != b           *)
| CEq (a b : dexp)             (* a == b           *)
| COdd (a : dexp).             (* a % 2 != 0       *)
Inductive dstmt :=
| DChkSize                     (* check_request_pdu_size / check_response_pdu_size (pdu_size)?          *)
| DRead16                      (* bind read_u16_be(rdr)?                                              *)
| DRead8                       (* bind rdr.read_u8()?                                                 *)
| DReadCoil                    (* bind coil_to_bool(read_u16_be(rdr)?)?                               *)
| DReadRun                     (* bind match rdr.read_u8()? { 0x00 => false, 0xFF => true, _ => Err } *)
| DFailIf (c : dcond)          (* if c { return Err(InvalidData) }                                    *)
| DLet (e : dexp)              (* bind e  (the translator inlines pure lets instead, so that moving one does not matter) *)
| DBits (n q : dexp)           (* bind decode_packed_coils(next n bytes, q); the cursor skips n bytes *)
| DWords (n : dexp)            (* bind n times read_u16_be                                            *)
| DBytes (n : dexp).           (* bind n times read_u8                                                *)

(* an arm: its statements, the variant it builds and the bound values (by position) that become the variant's fields *)
Definition darm := (list dstmt * (list N * list nat))%type.
Definition dec_table := list (N * darm).             (* function code byte -> arm *)

Fixpoint lookup_arm (t : dec_table) (fc : N) : option darm :=
  match t with
  | [] => None
  | (k, a) :: t' => if k =? fc then Some a else lookup_arm t' fc
  end.
Definition expand_arms (t : dec_table) : list (option darm) := map (lookup_arm t) bytes256.

Definition getN (env : list dval) (i : nat) : N := match nth_error env i with Some (VN n) => n | _ => 0 end.

Fixpoint eval_dexp (bs : list N) (env : list dval) (e : dexp) : N :=
  match e with
  | DVar i => getN env i
  | DConst n => n
  | DLenAll => len bs
  | DAdd a b => eval_dexp bs env a + eval_dexp bs env b
  | DMul a b => eval_dexp bs env a * eval_dexp bs env b
  | DSub a b => eval_dexp bs env a - eval_dexp bs env b
  | DDiv a b => eval_dexp bs env a / eval_dexp bs env b
  end.
Definition eval_dcond (bs : list N) (env : list dval) (c : dcond) : bool :=
  match c with
  | CLt a b => eval_dexp bs env a <? eval_dexp bs env b
  | CLe a b => eval_dexp bs env a <=? eval_dexp bs env b
  | CNe a b => negb (eval_dexp bs env a =? eval_dexp bs env b)
  | CEq a b => eval_dexp bs env a =? eval_dexp bs env b
  | COdd a => negb (eval_dexp bs env a mod 2 =? 0)
  end.

Fixpoint run_dstmts (chk : list N -> outcome unit) (bs : list N) (ps : list dstmt) (env : list dval) (r : list N)
  : outcome (list dval * list N) :=
  match ps with
  | [] => Val (env, r)
  | DChkSize :: ps' => _ <- chk bs ;; run_dstmts chk bs ps' env r
  | DRead16 :: ps' => '(v, r') <- rd16 r ;; run_dstmts chk bs ps' (env ++ [VN v]) r'
  | DRead8 :: ps' => '(v, r') <- rd8 r ;; run_dstmts chk bs ps' (env ++ [VN v]) r'
  | DReadCoil :: ps' => '(v, r') <- rd16 r ;; b <- coil_to_bool v ;; run_dstmts chk bs ps' (env ++ [VB b]) r'
  | DReadRun :: ps' =>
      '(st, r') <- rd8 r ;;
      b <- (if st =? 0x00 then Val false else if st =? 0xFF then Val true else Fail KInvalidData) ;;
      run_dstmts chk bs ps' (env ++ [VB b]) r'
  | DFailIf c :: ps' => if eval_dcond bs env c then Fail KInvalidData else run_dstmts chk bs ps' env r
  | DLet e :: ps' => run_dstmts chk bs ps' (env ++ [VN (eval_dexp bs env e)]) r
  | DBits n q :: ps' =>
      coils <- unpack_coils (firstn (N.to_nat (eval_dexp bs env n)) r) (eval_dexp bs env q) ;;
      run_dstmts chk bs ps' (env ++ [VBits coils]) (skipn (N.to_nat (eval_dexp bs env n)) r)
  | DWords n :: ps' => '(ws, r') <- rd16s (N.to_nat (eval_dexp bs env n)) r ;; run_dstmts chk bs ps' (env ++ [VWords ws]) r'
  | DBytes n :: ps' => '(d, r') <- rd8s (N.to_nat (eval_dexp bs env n)) r ;; run_dstmts chk bs ps' (env ++ [VBytes d]) r'
  end.

Definition pick (env : list dval) (args : list nat) : list (option dval) := map (nth_error env) args.

Definition mk_req (name : list N) (vs : list (option dval)) : option request :=
  match vs with
  | [Some (VN a); Some (VN q)] =>
      if leqb name (s2l "ReadCoils") then Some (ReqReadCoils a q)
      else if leqb name (s2l "ReadDiscreteInputs") then Some (ReqReadDiscreteInputs a q)
      else if leqb name (s2l "ReadInputRegisters") then Some (ReqReadInputRegisters a q)
      else if leqb name (s2l "ReadHoldingRegisters") then Some (ReqReadHoldingRegisters a q)
      else if leqb name (s2l "WriteSingleRegister") then Some (ReqWriteSingleRegister a q)
      else None
  | [Some (VN a); Some (VB b)] => if leqb name (s2l "WriteSingleCoil") then Some (ReqWriteSingleCoil a b) else None
  | [Some (VN a); Some (VBits l)] => if leqb name (s2l "WriteMultipleCoils") then Some (ReqWriteMultipleCoils a l) else None
  | [Some (VN a); Some (VWords l)] => if leqb name (s2l "WriteMultipleRegisters") then Some (ReqWriteMultipleRegisters a l) else None
  | [] => if leqb name (s2l "ReportServerId") then Some ReqReportServerId else None
  | [Some (VN a); Some (VN x); Some (VN y)] => if leqb name (s2l "MaskWriteRegister") then Some (ReqMaskWriteRegister a x y) else None
  | [Some (VN ra); Some (VN rq); Some (VN wa); Some (VWords l)] =>
      if leqb name (s2l "ReadWriteMultipleRegisters") then Some (ReqReadWriteMultipleRegisters ra rq wa l) else None
  | _ => None
  end.

Definition mk_rsp (name : list N) (vs : list (option dval)) : option response :=
  match vs with
  | [Some (VBits l)] =>
      if leqb name (s2l "ReadCoils") then Some (RspReadCoils l)
      else if leqb name (s2l "ReadDiscreteInputs") then Some (RspReadDiscreteInputs l) else None
  | [Some (VWords l)] =>
      if leqb name (s2l "ReadInputRegisters") then Some (RspReadInputRegisters l)
      else if leqb name (s2l "ReadHoldingRegisters") then Some (RspReadHoldingRegisters l)
      else if leqb name (s2l "ReadWriteMultipleRegisters") then Some (RspReadWriteMultipleRegisters l) else None
  | [Some (VN a); Some (VB b)] => if leqb name (s2l "WriteSingleCoil") then Some (RspWriteSingleCoil a b) else None
  | [Some (VN a); Some (VN q)] =>
      if leqb name (s2l "WriteMultipleCoils") then Some (RspWriteMultipleCoils a q)
      else if leqb name (s2l "WriteMultipleRegisters") then Some (RspWriteMultipleRegisters a q)
      else if leqb name (s2l "WriteSingleRegister") then Some (RspWriteSingleRegister a q) else None
  | [Some (VN id); Some (VB run); Some (VBytes d)] => if leqb name (s2l "ReportServerId") then Some (RspReportServerId id run d) else None
  | [Some (VN a); Some (VN x); Some (VN y)] => if leqb name (s2l "MaskWriteRegister") then Some (RspMaskWriteRegister a x y) else None
  | _ => None
  end.

(* one arm: run the statements, build the variant, then "verify that all data has been consumed" *)
Definition run_arm {A} (chk : list N -> outcome unit) (mk : list N -> list (option dval) -> option A) (bs r : list N) (a : darm)
  : outcome A :=
  '(env, r') <- run_dstmts chk bs (fst a) [] r ;;
  match mk (fst (snd a)) (pick env (snd (snd a))) with
  | Some v => finish r' v
  | None => Panic                 (* an ill-formed arm: no decoder of the code or the model behaves like this *)
  end.

(* the whole decoder: read the function code, dispatch; codes without an arm are Custom below [custom_below], an error from there on *)
Definition run_req_dec (t : dec_table) (custom_below : N) (bs : list N) : outcome request :=
  '(fc, r) <- rd8 bs ;;
  match lookup_arm t fc with
  | Some a => run_arm chk_req_pdu_size mk_req bs r a
  | None => if fc <? custom_below then Val (ReqCustom fc r) else Fail KInvalidData
  end.
Definition run_rsp_dec (t : dec_table) (bs : list N) : outcome response :=
  '(fc, r) <- rd8 bs ;;
  match lookup_arm t fc with
  | Some a => run_arm chk_rsp_pdu_size mk_rsp bs r a
  | None => Val (RspCustom fc r)
  end.

Local Open Scope string_scope.
Definition two16 (name : string) : darm := ([DRead16; DRead16], (s2l name, [0; 1]%nat)).
Definition three16 (name : string) : darm := ([DRead16; DRead16; DRead16], (s2l name, [0; 1; 2]%nat)).
Definition req_dec_prog_model : dec_table :=
  [(0x01, two16 "ReadCoils"); (0x02, two16 "ReadDiscreteInputs");
   (0x05, ([DRead16; DReadCoil], (s2l "WriteSingleCoil", [0; 1]%nat)));
   (0x0F, ([DChkSize; DRead16; DRead16; DRead8; DFailIf (CLt DLenAll (DAdd (DConst 6) (DVar 2)));
            DFailIf (CLt (DMul (DVar 2) (DConst 8)) (DVar 1)); DBits (DVar 2) (DVar 1)], (s2l "WriteMultipleCoils", [0; 3]%nat)));
   (0x04, two16 "ReadInputRegisters"); (0x03, two16 "ReadHoldingRegisters"); (0x06, two16 "WriteSingleRegister");
   (0x10, ([DChkSize; DRead16; DRead16; DRead8; DFailIf (CNe (DVar 2) (DMul (DVar 1) (DConst 2))); DWords (DVar 1)],
           (s2l "WriteMultipleRegisters", [0; 3]%nat)));
   (0x11, ([], (s2l "ReportServerId", [])));
   (0x16, three16 "MaskWriteRegister");
   (0x17, ([DChkSize; DRead16; DRead16; DRead16; DRead16; DRead8; DFailIf (CNe (DVar 4) (DMul (DVar 3) (DConst 2))); DWords (DVar 3)],
           (s2l "ReadWriteMultipleRegisters", [0; 1; 2; 5]%nat)))].
Definition rsp_bits (name : string) : darm :=
  ([DChkSize; DRead8; DFailIf (CLt DLenAll (DAdd (DConst 2) (DVar 0))); DBits (DVar 0) (DMul (DVar 0) (DConst 8))],
   (s2l name, [1]%nat)).
Definition rsp_words (name : string) : darm :=
  ([DChkSize; DRead8; DFailIf (COdd (DVar 0)); DWords (DDiv (DVar 0) (DConst 2))], (s2l name, [1]%nat)).
Definition rsp_dec_prog_model : dec_table :=
  [(0x01, rsp_bits "ReadCoils"); (0x02, rsp_bits "ReadDiscreteInputs");
   (0x05, ([DRead16; DReadCoil], (s2l "WriteSingleCoil", [0; 1]%nat)));
   (0x0F, two16 "WriteMultipleCoils");
   (0x04, rsp_words "ReadInputRegisters"); (0x03, rsp_words "ReadHoldingRegisters");
   (0x06, two16 "WriteSingleRegister"); (0x10, two16 "WriteMultipleRegisters");
   (0x11, ([DChkSize; DRead8; DFailIf (CLt (DVar 0) (DConst 2)); DRead8; DReadRun; DBytes (DSub (DVar 0) (DConst 2))],
           (s2l "ReportServerId", [1; 2; 3]%nat)));
   (0x16, three16 "MaskWriteRegister");
   (0x17, rsp_words "ReadWriteMultipleRegisters")].
