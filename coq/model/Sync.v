(* Sync.v -- mirrors src/client/sync/{mod,tcp,rtu}.rs: every synchronous operation is the
   asynchronous operation of the same name run under block_on_with_timeout; the connect
   variants without an explicit slave use Slave::tcp_device() (255) / Slave::broadcast() (0). *)
From TM Require Import Base Frame Pdu Framed Client.

Definition default_slave (p : proto) : N := match p with TCP => 255 | RTU => 0 end.

(* connect / connect_with_timeout / connect_slave / connect_slave_with_timeout *)
Definition sync_connect (p : proto) (slave : option N) : cstate :=
  client_new p (match slave with Some s => s | None => default_slave p end).

(* block_on_with_timeout: a future that is still pending when the timer fires is dropped and
   the operation returns io::ErrorKind::TimedOut; one that completes first returns its result *)
Definition with_timeout (tmo : bool) (r : call_result) : call_result :=
  match r with
  | CRWait | CRAbandoned => if tmo then CRTransport KTimedOut else r
  | _ => r
  end.

Definition sync_call (p : proto) (m : mode) (tmo : bool) (st : cstate) (req : request)
  : call_result * cstate :=
  let '(r, st') := call p m st req None in (with_timeout tmo r, st').

Definition sync_typed (p : proto) (m : mode) (tmo : bool) (st : cstate) (req : request)
  : typed_result * cstate :=
  let '(r, st') := typed p m st req None in
  (match r with TRErr c => TRErr (with_timeout tmo c) | _ => r end, st').

Definition sync_set_slave := set_slave.

(* the blocking context: the async context plus the timeout applied to every subsequent operation
   (given at connect time, changed by set_timeout / reset_timeout, read back by timeout()) *)
Record sctx := mkS { s_client : cstate; s_timeout : option N }.
Definition sync_connect_ctx (p : proto) (slave : option N) (tmo : option N) : sctx := mkS (sync_connect p slave) tmo.
Definition sync_set_timeout (c : sctx) (t : option N) : sctx := mkS (s_client c) t.
Definition sync_reset_timeout (c : sctx) : sctx := mkS (s_client c) None.
Definition timed (c : sctx) : bool := match s_timeout c with Some _ => true | None => false end.
Definition sctx_call (p : proto) (m : mode) (c : sctx) (req : request) : call_result * sctx :=
  let '(r, st') := sync_call p m (timed c) (s_client c) req in (r, mkS st' (s_timeout c)).
Definition sctx_typed (p : proto) (m : mode) (c : sctx) (req : request) : typed_result * sctx :=
  let '(r, st') := sync_typed p m (timed c) (s_client c) req in (r, mkS st' (s_timeout c)).
Definition sctx_set_slave (c : sctx) (s : N) : sctx := mkS (sync_set_slave (s_client c) s) (s_timeout c).
