(* Server.v -- mirrors the `process` loop shared (textually triplicated) by
   src/server/{tcp,rtu_over_tcp,rtu}.rs, OptionalResponsePdu, and the accept loop's
   decision logic (serve / serve_until). *)
From TM Require Import Base Frame Pdu RtuCodec TcpCodec Framed Client.

(* What the service does with the i-th request it is given. *)
Inductive svc_reply := SReply (r : response) | SDecline | SExc (code : exception_code).

Inductive tev :=
| TCall (slave : N) (r : request)     (* service invoked *)
| TWrote (bs : list N)                (* bytes accepted by the transport while sending a reply *)
| TReport (k : kind)                  (* process returned Err -> on_process_error(err) *)
| TClosed                             (* process returned Ok(()) *)
| TWaiting                            (* pending forever on the transport *)
| TPanic
| TOutOfFuel.

Definition server_dec (p : proto) := match p with TCP => tcp_server_dec | RTU => rtu_server_dec end.
Definition server_enc (p : proto) := match p with TCP => tcp_server_enc | RTU => rtu_server_enc end.

Definition wrote (bs : list N) : list tev := match bs with [] => [] | _ => [TWrote bs] end.

Fixpoint process (fuel : nat) (p : proto) (m : mode) (r : rstate) (w : wio) (q : list revt)
         (svc : list svc_reply) {struct fuel} : list tev :=
  match fuel with
  | O => [TOutOfFuel]
  | S fuel' =>
      match next (server_dec p) r q None with
      | (NItem (h, req), r1, q1, _) =>
          let fc := req_fc req in
          let reply := match svc with [] => SDecline | x :: _ => x end in
          let svc' := tl svc in
          TCall (snd h) req ::
          match reply with
          | SDecline => process fuel' p m r1 w q1 svc'
          | _ =>
              let rr := match reply with
                        | SReply rsp => RROk rsp
                        | _ => RRExc {| exr_function := fc;
                                        exr_exception := match reply with SExc c => c | _ => ExIllegalFunction end |}
                        end in
              match send (server_enc p m h rr) (mkW (wbuf w) (wq w) (fq w) []) None with
              | (_, w1, _, true) => wrote (accepted w1) ++ [TPanic]
              | (SOk, w1, _, _) => wrote (accepted w1) ++ process fuel' p m r1 w1 q1 svc'
              | (SErr k, w1, _, _) => wrote (accepted w1) ++ [TReport k]
              | (_, w1, _, _) => wrote (accepted w1) ++ [TWaiting]
              end
          end
      | (NErr k, _, _, _) => [TReport k]
      | (NEnd, _, _, _) => [TClosed]
      | (NWait, _, _, _) => [TWaiting]
      | (NAbandon, _, _, _) => [TWaiting]
      | (NPanic, _, _, _) => [TPanic]
      end
  end.

Fixpoint rev_bytes (q : list revt) : nat :=
  match q with
  | [] => O
  | RData c :: q' => (length c + rev_bytes q')%nat
  | _ :: q' => rev_bytes q'
  end.

(* enough fuel: every iteration consumes a buffered byte or a read event *)
Definition process_fuel (q : list revt) : nat := (rev_bytes q + length q + 2)%nat.

Definition serve_conn (p : proto) (m : mode) (q : list revt) (wq : list wev) (fq : list fev)
           (svc : list svc_reply) : list tev :=
  process (process_fuel q) p m rstate0 (mkW [] wq fq []) q svc.

(* ---- accept loop (serve / serve_until), decision logic only ---- *)
(* a connection handed to a task is described by the read script its transport will deliver *)
(* SetupHang: the on_connected future of this connection never completes (a TLS handshake or hello byte that never
   arrives): the accept loop is suspended inside it; only the abort signal of serve_until can still end serving *)
Inductive setup := SetupService (script : list revt) | SetupReject | SetupErr (k : kind) | SetupHang.
Inductive accept_ev := AConn (s : setup) | AAcceptErr (k : kind) | AAbort.
Inductive serve_result := SrvErr (k : kind) | SrvAborted | SrvListening.

(* returns the scripts of the connections handed to a task (in accept order) and how serving ended *)
Fixpoint serve (evs : list accept_ev) : list (list revt) * serve_result :=
  match evs with
  | [] => ([], SrvListening)
  | AConn (SetupService q) :: evs' => let '(l, r) := serve evs' in (q :: l, r)
  | AConn SetupReject :: evs' => serve evs'
  | AConn (SetupErr k) :: _ => ([], SrvErr k)
  | AConn SetupHang :: evs' => ([], if existsb (fun e => match e with AAbort => true | _ => false end) evs' then SrvAborted else SrvListening)
  | AAcceptErr k :: _ => ([], SrvErr k)
  | AAbort :: _ => ([], SrvAborted)
  end.

Definition count_reports (t : list tev) : N :=
  len (filter (fun e => match e with TReport _ => true | _ => false end) t).

(* number of error-callback invocations caused by the served connections (no shared state:
   each connection is its own [serve_conn]) *)
Definition serve_reports (p : proto) (m : mode) (conns : list (list revt)) : N :=
  fold_left N.add (map (fun q => count_reports (serve_conn p m q [] [] [])) conns) 0.
