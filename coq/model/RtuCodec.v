(* RtuCodec.v -- mirrors src/codec/rtu.rs: length tables, FrameDecoder::decode,
   recover_on_error, the 20-iteration resynchronising decode loop, client/server codecs. *)
From TM Require Import Base Frame Pdu Crc.

Definition MAX_RETRIES : nat := 20.

(* get_request_pdu_len: Fail = invalid function code, Val None = need more bytes *)
Definition req_pdu_len (buf : list N) : outcome (option N) :=
  match nth_error buf 1 with
  | None => Val None
  | Some fc =>
      if (1 <=? fc) && (fc <=? 6) then Val (Some 5)
      else if (fc =? 0x07) || (fc =? 0x0B) || (fc =? 0x0C) || (fc =? 0x11) then Val (Some 1)
      else if (fc =? 0x0F) || (fc =? 0x10) then
        Val (option_map (fun bc => 6 + bc) (nth_error buf 6))
      else if fc =? 0x16 then Val (Some 7)
      else if fc =? 0x18 then Val (Some 3)
      else if fc =? 0x17 then Val (option_map (fun bc => 10 + bc) (nth_error buf 10))
      else Fail KInvalidData
  end.

(* get_response_pdu_len *)
Definition rsp_pdu_len (buf : list N) : outcome (option N) :=
  match nth_error buf 1 with
  | None => Val None
  | Some fc =>
      if ((1 <=? fc) && (fc <=? 4)) || (fc =? 0x0C) || (fc =? 0x11) || (fc =? 0x17) then
        Val (option_map (fun bc => 2 + bc) (nth_error buf 2))
      else if (fc =? 0x05) || (fc =? 0x06) || (fc =? 0x0B) || (fc =? 0x0F) || (fc =? 0x10) then Val (Some 5)
      else if fc =? 0x07 then Val (Some 2)
      else if fc =? 0x16 then Val (Some 7)
      else if fc =? 0x18 then
        match buf with
        | _ :: _ :: h :: l :: _ => Val (Some (3 + of_be16 h l))
        | _ => Val None
        end
      else if (0x81 <=? fc) && (fc <=? 0xAB) then Val (Some 2)
      else Fail KInvalidData
  end.

Inductive fres := FNone | FSome (slave : N) (pdu : list N) | FErr.

(* FrameDecoder::decode(buf, pdu_len); on a CRC failure the buffer is restored *)
Definition frame_decode (buf : list N) (pdu_len : N) : list N * fres :=
  let n := N.to_nat pdu_len in
  if len buf <? pdu_len + 3 then (buf, FNone) else
  let adu := firstn (S n) buf in
  match skipn (S n) buf with
  | c1 :: c2 :: rest =>
      if check_crc adu c1 c2 then (rest, FSome (hd 0 adu) (tl adu)) else (buf, FErr)
  | _ => (buf, FNone)
  end.

Inductive dres (I : Type) := DNone | DSome (i : I) | DErr (k : kind) | DPanic.
Arguments DNone {I}. Arguments DSome {I}. Arguments DErr {I}. Arguments DPanic {I}.

(* fn decode: up to MAX_RETRIES attempts, dropping one byte after each failed attempt.
   Returns the remaining buffer, the bytes dropped by this call, and the result. *)
Fixpoint decode_loop (pdu_len : list N -> outcome (option N)) (fuel : nat) (buf dropped : list N)
  : list N * list N * dres (N * list N) :=
  match fuel with
  | O => (buf, dropped, DErr KInvalidData)          (* "Too many retries" *)
  | S f =>
      let recover :=
        match buf with
        | x :: buf' => decode_loop pdu_len f buf' (dropped ++ [x])
        | [] => (buf, dropped, DPanic)             (* buf.first().unwrap() *)
        end in
      match pdu_len buf with
      | Panic => (buf, dropped, DPanic)
      | Fail _ => recover
      | Val None => (buf, dropped, DNone)
      | Val (Some n) =>
          match frame_decode buf n with
          | (b', FNone) => (b', dropped, DNone)
          | (b', FSome s p) => (b', dropped, DSome (s, p))
          | (_, FErr) => recover
          end
      end
  end.

Definition rtu_frame_dec (pdu_len : list N -> outcome (option N)) (buf : list N)
  : list N * dres (N * list N) :=
  let '(b, _, r) := decode_loop pdu_len MAX_RETRIES buf [] in (b, r).

(* Header: RTU carries only the slave id; the pair shape is shared with TCP (tid = 0). *)
Definition hdr := (N * N)%type.   (* (transaction id, unit/slave id) *)

(* impl Decoder for ClientCodec *)
Definition rtu_client_dec (buf : list N) : list N * dres (hdr * rsp_result) :=
  match rtu_frame_dec rsp_pdu_len buf with
  | (b, DSome (s, pdu)) =>
      match dec_rsp_pdu pdu with
      | Val rr => (b, DSome ((0, s), rr))
      | Fail k => (b, DErr k)
      | Panic => (b, DPanic)
      end
  | (b, DNone) => (b, DNone)
  | (b, DErr k) => (b, DErr k)
  | (b, DPanic) => (b, DPanic)
  end.

(* impl Decoder for ServerCodec *)
Definition rtu_server_dec (buf : list N) : list N * dres (hdr * request) :=
  match rtu_frame_dec req_pdu_len buf with
  | (b, DSome (s, pdu)) =>
      match dec_req pdu with
      | Val r => (b, DSome ((0, s), r))
      | Fail k => (b, DErr k)
      | Panic => (b, DPanic)
      end
  | (b, DNone) => (b, DNone)
  | (b, DErr k) => (b, DErr k)
  | (b, DPanic) => (b, DPanic)
  end.

(* Encoders: size check first (nothing appended on failure), then slave, PDU, CRC. *)
Definition rtu_frame (slave : N) (pdu : list N) : list N := slave :: pdu ++ crc2 (slave :: pdu).

Definition rtu_client_enc (m : mode) (h : hdr) (r : request) : outcome (list N) :=
  _ <- req_size_chk r ;; pdu <- enc_req m r ;; Val (rtu_frame (snd h) pdu).

Definition rtu_server_enc (m : mode) (h : hdr) (rr : rsp_result) : outcome (list N) :=
  _ <- rr_size_chk rr ;; pdu <- enc_rr m rr ;; Val (rtu_frame (snd h) pdu).

(* ---- the decoder's record of skipped bytes (FrameDecoder::dropped_bytes) ----
   It is written by recover_on_error (one byte per skipped byte; emptied first when it already holds
   MAX_FRAME_LEN = 256 entries) and emptied when a frame passes its CRC check.  It only feeds log messages:
   nothing the decoders return depends on it ([decode_loop] does not take it), but it is memory that lives
   as long as the connection, so its size matters for "never bloats" (C03). *)
Definition MAX_FRAME_LEN : N := 256.

Definition record_skip (rec : list N) (b : N) : list N :=
  (if MAX_FRAME_LEN <=? len rec then [] else rec) ++ [b].

(* one decoder call: the bytes it dropped are recorded in order; a delivered frame empties the record *)
Definition record_after {I} (rec : list N) (dropped : list N) (r : dres I) : list N :=
  match r with
  | DSome _ => []
  | _ => fold_left record_skip dropped rec
  end.
