(* PduDecode.v -- the decoders of Pdu.v accept exactly the well-formed PDUs of Spec.v, with
   the spec's value; everything else is an error (never a panic). *)
From Coq Require Import ZArith Lia ZifyBool ZifyNat ZifyN.
From TM Require Import Base Frame Pdu BaseLemmas Coils Spec.
Ltac Zify.zify_post_hook ::= Z.div_mod_to_equations.

(* reduce comparisons between closed numerals, and only those *)
Ltac red_cmp :=
  repeat match goal with
         | |- context [N.eqb ?a ?b] => is_ground a; is_ground b;
             let v := eval vm_compute in (N.eqb a b) in change (N.eqb a b) with v
         | |- context [N.ltb ?a ?b] => is_ground a; is_ground b;
             let v := eval vm_compute in (N.ltb a b) in change (N.ltb a b) with v
         end;
  repeat match goal with
         | |- context [if true then ?a else ?b] => change (if true then a else b) with a
         | |- context [if false then ?a else ?b] => change (if false then a else b) with b
         end.

Definition verdict {A} (spec : option A) (got : outcome A) : Prop :=
  match spec with Some v => got = Val v | None => exists k, got = Fail k end.

Lemma fixed4_req mk r :
  verdict (fixed4 mk r) ('(a, r1) <- rd16 r ;; '(q, r2) <- rd16 r1 ;; finish r2 (mk a q)).
Proof.
  destruct r as [|a1 [|a2 [|q1 [|q2 [|x r]]]]]; cbn; eauto.
Qed.
Lemma fixed4_rsp mk r :
  verdict (fixed4r mk r) ('(a, r1) <- rd16 r ;; '(q, r2) <- rd16 r1 ;; finish r2 (mk a q)).
Proof.
  destruct r as [|a1 [|a2 [|q1 [|q2 [|x r]]]]]; cbn; eauto.
Qed.

Lemma coil_case {A} (mk : N -> bool -> A) r :
  verdict
    (match r with
     | [a1; a2; v1; v2] =>
         if u16 v1 v2 =? 0xFF00 then Some (mk (u16 a1 a2) true)
         else if u16 v1 v2 =? 0x0000 then Some (mk (u16 a1 a2) false) else None
     | _ => None
     end)
    ('(a, r1) <- rd16 r ;; '(v, r2) <- rd16 r1 ;; b <- coil_to_bool v ;; finish r2 (mk a b)).
Proof.
  destruct r as [|a1 [|a2 [|v1 [|v2 [|x r]]]]]; cbn; eauto.
  - unfold coil_to_bool, u16, of_be16. destruct (_ =? 65280); cbn; eauto. destruct (_ =? 0); cbn; eauto.
  - unfold coil_to_bool, of_be16. destruct (_ =? 65280); cbn; eauto. destruct (_ =? 0); cbn; eauto.
Qed.

Lemma mask_case {A} (mk : N -> N -> N -> A) r :
  verdict
    (match r with
     | [a1; a2; x1; x2; y1; y2] => Some (mk (u16 a1 a2) (u16 x1 x2) (u16 y1 y2))
     | _ => None
     end)
    ('(a, r1) <- rd16 r ;; '(x, r2) <- rd16 r1 ;; '(y, r3) <- rd16 r2 ;; finish r3 (mk a x y)).
Proof.
  destruct r as [|a1 [|a2 [|x1 [|x2 [|y1 [|y2 [|z r]]]]]]]; cbn; eauto.
Qed.

Lemma len_firstn_le {A} (l : list A) n : n <= len l -> len (firstn (N.to_nat n) l) = n.
Proof. intros H. unfold len in *. rewrite firstn_length. lia. Qed.

Lemma skipn_nil_iff {A} (l : list A) n : skipn n l = [] <-> (length l <= n)%nat.
Proof.
  split.
  - intros H. pose proof (skipn_length n l) as Hl. rewrite H in Hl. cbn in Hl. lia.
  - apply skipn_all2.
Qed.

(* registers: q words announced, data bytes present *)
Lemma words_case {A} (mk : list N -> A) q data :
  ('(ws, r) <- rd16s (N.to_nat q) data ;; finish r (mk ws)) =
  if len data =? 2 * q then Val (mk (words_of data))
  else if len data <? 2 * q then Fail KUnexpectedEof else Fail KInvalidData.
Proof.
  destruct (N.eqb_spec (len data) (2 * q)) as [He|Hne].
  - rewrite rd16s_exact by (unfold len in He; lia). reflexivity.
  - destruct (N.ltb_spec (len data) (2 * q)) as [Hlt|Hge].
    + rewrite rd16s_short by (unfold len in Hlt; lia). reflexivity.
    + destruct (rd16s_long (N.to_nat q) data ltac:(unfold len in *; lia)) as (ws & x & r & Hw).
      rewrite Hw. reflexivity.
Qed.

Theorem req_wf_dec : forall bs, verdict (wf_req bs) (dec_req bs).
Proof.
  intros bs. destruct bs as [|fc r]; [cbn; eauto|].
  unfold wf_req, dec_req. cbn [rd8 bind].
  destruct (N.eqb_spec fc 0x01) as [->|N1]; [red_cmp; apply fixed4_req|].
  destruct (N.eqb_spec fc 0x02) as [->|N2]; [red_cmp; apply fixed4_req|].
  destruct (N.eqb_spec fc 0x03) as [->|N3]; [red_cmp; apply fixed4_req|].
  destruct (N.eqb_spec fc 0x04) as [->|N4]; [red_cmp; apply fixed4_req|].
  destruct (N.eqb_spec fc 0x06) as [->|N6]; [red_cmp; apply fixed4_req|].
  destruct (N.eqb_spec fc 0x05) as [->|N5]; [red_cmp; apply (coil_case ReqWriteSingleCoil)|].
  destruct (N.eqb_spec fc 0x0F) as [->|NF].
  { red_cmp. unfold chk_req_pdu_size, MAX_PDU_SIZE.
    set (L := len (15 :: r)).
    destruct (N.ltb_spec 253 L) as [Hbig|Hfit].
    - cbn [bind]. destruct r as [|a1 [|a2 [|q1 [|q2 [|bc data]]]]]; try (cbn; eauto; fail).
      replace (L <=? 253) with false by lia. cbn. eauto.
    - cbn [bind]. destruct r as [|a1 [|a2 [|q1 [|q2 [|bc data]]]]]; try (cbn; eauto; fail).
      replace (L <=? 253) with true by lia. cbn [rd16 rd8 bind andb].
      change (of_be16 a1 a2) with (u16 a1 a2). change (of_be16 q1 q2) with (u16 q1 q2).
      assert (HL : L = 6 + len data) by (subst L; unfold len; cbn [length]; lia).
      clearbody L.
      destruct (N.ltb_spec L (6 + bc)) as [Hs|Hl].
      + replace (len data =? bc) with false by lia. cbn. eauto.
      + destruct (N.ltb_spec (bc * 8) (u16 q1 q2)) as [Hq|Hq].
        * replace (u16 q1 q2 <=? 8 * bc) with false by lia. rewrite andb_false_r. cbn. eauto.
        * replace (u16 q1 q2 <=? 8 * bc) with true by lia. rewrite andb_true_r.
          unfold unpack_coils. rewrite len_firstn_le by lia.
          destruct (N.ltb_spec (8 * bc) (u16 q1 q2)); [lia|]. cbn [bind].
          destruct (N.eqb_spec (len data) bc) as [He|Hne].
          -- rewrite (firstn_all2 (n := N.to_nat bc) data) by (unfold len in He; lia).
             replace (skipn (N.to_nat bc) data) with (@nil N) by (symmetry; apply skipn_all2; unfold len in He; lia).
             reflexivity.
          -- destruct (skipn (N.to_nat bc) data) eqn:Hsk; [|cbn; eauto].
             apply skipn_nil_iff in Hsk. unfold len in *. lia. }
  destruct (N.eqb_spec fc 0x10) as [->|N10].
  { red_cmp. unfold chk_req_pdu_size, MAX_PDU_SIZE.
    set (L := len (16 :: r)).
    destruct (N.ltb_spec 253 L) as [Hbig|Hfit].
    - cbn [bind]. destruct r as [|a1 [|a2 [|q1 [|q2 [|bc data]]]]]; try (cbn; eauto; fail).
      replace (L <=? 253) with false by lia. cbn. eauto.
    - cbn [bind]. destruct r as [|a1 [|a2 [|q1 [|q2 [|bc data]]]]]; try (cbn; eauto; fail).
      replace (L <=? 253) with true by lia. cbn [rd16 rd8 bind andb].
      change (of_be16 a1 a2) with (u16 a1 a2). change (of_be16 q1 q2) with (u16 q1 q2).
      destruct (N.eqb_spec bc (u16 q1 q2 * 2)) as [Hb|Hb].
      + replace (bc =? 2 * u16 q1 q2) with true by lia. cbn [negb andb].
        rewrite words_case. replace (len data =? 2 * u16 q1 q2) with (len data =? bc) by lia.
        destruct (len data =? bc); [reflexivity|]. destruct (_ <? _); cbn; eauto.
      + replace (bc =? 2 * u16 q1 q2) with false by lia. cbn. eauto. }
  destruct (N.eqb_spec fc 0x11) as [->|N11]; [red_cmp; destruct r; cbn; eauto|].
  destruct (N.eqb_spec fc 0x16) as [->|N16]; [red_cmp; apply (mask_case ReqMaskWriteRegister)|].
  destruct (N.eqb_spec fc 0x17) as [->|N17].
  { red_cmp. unfold chk_req_pdu_size, MAX_PDU_SIZE.
    set (L := len (23 :: r)).
    destruct (N.ltb_spec 253 L) as [Hbig|Hfit].
    - cbn [bind]. destruct r as [|a1 [|a2 [|q1 [|q2 [|w1 [|w2 [|n1 [|n2 [|bc data]]]]]]]]]; try (cbn; eauto; fail).
      replace (L <=? 253) with false by lia. cbn. eauto.
    - cbn [bind]. destruct r as [|a1 [|a2 [|q1 [|q2 [|w1 [|w2 [|n1 [|n2 [|bc data]]]]]]]]]; try (cbn; eauto; fail).
      replace (L <=? 253) with true by lia. cbn [rd16 rd8 bind andb].
      change (of_be16 a1 a2) with (u16 a1 a2). change (of_be16 q1 q2) with (u16 q1 q2).
      change (of_be16 w1 w2) with (u16 w1 w2). change (of_be16 n1 n2) with (u16 n1 n2).
      destruct (N.eqb_spec bc (u16 n1 n2 * 2)) as [Hb|Hb].
      + replace (bc =? 2 * u16 n1 n2) with true by lia. cbn [negb andb].
        rewrite words_case. replace (len data =? 2 * u16 n1 n2) with (len data =? bc) by lia.
        destruct (len data =? bc); [reflexivity|]. destruct (_ <? _); cbn; eauto.
      + replace (bc =? 2 * u16 n1 n2) with false by lia. cbn. eauto. }
  destruct (fc <? 128); cbn; eauto.
Qed.

(* ---- responses ---- *)
Lemma bytes_case {A} (mk : list N -> A) n data :
  ('(bs, r) <- rd8s (N.to_nat n) data ;; finish r (mk bs)) =
  if len data =? n then Val (mk data)
  else if len data <? n then Fail KUnexpectedEof else Fail KInvalidData.
Proof.
  destruct (N.eqb_spec (len data) n) as [He|Hne].
  - rewrite rd8s_exact by (unfold len in He; lia). reflexivity.
  - destruct (N.ltb_spec (len data) n) as [Hlt|Hge].
    + rewrite rd8s_short by (unfold len in Hlt; lia). reflexivity.
    + destruct (rd8s_long (N.to_nat n) data ltac:(unfold len in *; lia)) as (ws & x & r & Hw).
      rewrite Hw. reflexivity.
Qed.

Lemma bits_case mk fc r : verdict (wf_bits mk (fc :: r) r) (dec_rsp_bits (fc :: r) r mk).
Proof.
  unfold wf_bits, dec_rsp_bits, chk_rsp_pdu_size, MAX_PDU_SIZE.
  set (L := len (fc :: r)).
  destruct (N.ltb_spec 253 L) as [Hbig|Hfit]; cbn [bind].
  - destruct r as [|bc data]; [cbn; eauto|]. replace (L <=? 253) with false by lia. cbn. eauto.
  - destruct r as [|bc data]; [cbn; eauto|]. replace (L <=? 253) with true by lia. cbn [rd8 bind andb].
    assert (HL : L = 2 + len data) by (subst L; unfold len; cbn [length]; lia). clearbody L.
    destruct (N.ltb_spec L (2 + bc)) as [Hs|Hl].
    + replace (len data =? bc) with false by lia. cbn. eauto.
    + unfold unpack_coils. rewrite len_firstn_le by lia.
      destruct (N.ltb_spec (8 * bc) (bc * 8)); [lia|]. cbn [bind].
      destruct (N.eqb_spec (len data) bc) as [He|Hne].
      * rewrite (firstn_all2 (n := N.to_nat bc) data) by (unfold len in He; lia).
        replace (skipn (N.to_nat bc) data) with (@nil N) by (symmetry; apply skipn_all2; unfold len in He; lia).
        rewrite firstn_all2 by (rewrite length_all_bits; unfold len in He; lia). reflexivity.
      * destruct (skipn (N.to_nat bc) data) eqn:Hsk; [|cbn; eauto].
        apply skipn_nil_iff in Hsk. unfold len in *. lia.
Qed.

Lemma wordsr_case mk fc r : verdict (wf_words mk (fc :: r) r) (dec_rsp_words (fc :: r) r mk).
Proof.
  unfold wf_words, dec_rsp_words, chk_rsp_pdu_size, MAX_PDU_SIZE.
  set (L := len (fc :: r)).
  destruct (N.ltb_spec 253 L) as [Hbig|Hfit]; cbn [bind].
  - destruct r as [|bc data]; [cbn; eauto|]. replace (L <=? 253) with false by lia. cbn. eauto.
  - destruct r as [|bc data]; [cbn; eauto|]. replace (L <=? 253) with true by lia. cbn [rd8 bind andb].
    destruct (N.eqb_spec (bc mod 2) 0) as [Hev|Hodd]; cbn [negb andb]; [|cbn; eauto].
    rewrite words_case. replace (len data =? 2 * (bc / 2)) with (len data =? bc) by lia.
    destruct (len data =? bc); [reflexivity|]. destruct (_ <? _); cbn; eauto.
Qed.

Theorem rsp_wf_dec : forall bs, verdict (wf_rsp bs) (dec_rsp bs).
Proof.
  intros bs. destruct bs as [|fc r]; [cbn; eauto|].
  unfold wf_rsp, dec_rsp. cbn [rd8 bind].
  destruct (N.eqb_spec fc 0x01) as [->|N1]; [red_cmp; apply bits_case|].
  destruct (N.eqb_spec fc 0x02) as [->|N2]; [red_cmp; apply bits_case|].
  destruct (N.eqb_spec fc 0x03) as [->|N3]; [red_cmp; apply wordsr_case|].
  destruct (N.eqb_spec fc 0x04) as [->|N4]; [red_cmp; apply wordsr_case|].
  destruct (N.eqb_spec fc 0x17) as [->|N17]; [red_cmp; apply wordsr_case|].
  destruct (N.eqb_spec fc 0x05) as [->|N5]; [red_cmp; apply (coil_case RspWriteSingleCoil)|].
  destruct (N.eqb_spec fc 0x06) as [->|N6]; [red_cmp; apply fixed4_rsp|].
  destruct (N.eqb_spec fc 0x0F) as [->|NF]; [red_cmp; apply fixed4_rsp|].
  destruct (N.eqb_spec fc 0x10) as [->|N10]; [red_cmp; apply fixed4_rsp|].
  destruct (N.eqb_spec fc 0x11) as [->|N11].
  { red_cmp. unfold chk_rsp_pdu_size, MAX_PDU_SIZE.
    set (L := len (17 :: r)).
    destruct (N.ltb_spec 253 L) as [Hbig|Hfit]; cbn [bind].
    - destruct r as [|bc [|id [|st d]]]; try (cbn; eauto; fail). replace (L <=? 253) with false by lia. cbn. eauto.
    - destruct r as [|bc r]; [cbn; eauto|]. cbn [rd8 bind].
      destruct (N.ltb_spec bc 2) as [Hb|Hb].
      + destruct r as [|id [|st d]]; try (cbn; eauto; fail). replace (2 <=? bc) with false by lia.
        rewrite andb_false_r. cbn. eauto.
      + destruct r as [|id [|st d]]; try (cbn; eauto; fail).
        replace (L <=? 253) with true by lia. replace (2 <=? bc) with true by lia. cbn [rd8 bind andb].
        destruct (N.eqb_spec st 0) as [->|Hs0].
        * change (0 =? 255) with false. cbn [bind orb]. rewrite andb_true_r. rewrite bytes_case.
          replace (len d + 2 =? bc) with (len d =? bc - 2) by lia.
          destruct (len d =? bc - 2); [cbn; reflexivity|]. destruct (_ <? _); cbn; eauto.
        * destruct (N.eqb_spec st 255) as [->|Hsf].
          -- change (255 =? 0) with false. change (255 =? 255) with true. cbn [bind orb]. rewrite andb_true_r. rewrite bytes_case.
             replace (len d + 2 =? bc) with (len d =? bc - 2) by lia.
             destruct (len d =? bc - 2); [cbn; reflexivity|]. destruct (_ <? _); cbn; eauto.
          -- cbn [bind orb]. rewrite andb_false_r. cbn. eauto. }
  destruct (N.eqb_spec fc 0x16) as [->|N16]; [red_cmp; apply (mask_case RspMaskWriteRegister)|].
  reflexivity.
Qed.

(* ---- exceptions and the response PDU dispatcher ---- *)
Lemma dec_exc_char bs :
  dec_exc bs = match bs with
               | [] => Fail KUnexpectedEof
               | f :: r => if f <? 0x80 then Fail KInvalidData else
                           match r with
                           | [] => Fail KUnexpectedEof
                           | c :: _ => Val {| exr_function := fc_new (f - 0x80); exr_exception := ex_new c |}
                           end
               end.
Proof. destruct bs as [|f [|c r]]; cbn; try reflexivity; destruct (f <? 128); reflexivity. Qed.

(* ---- totality: a decoder returns a value or an error, never a panic ---- *)
Lemma verdict_no_panic {A} (s : option A) (o : outcome A) : verdict s o -> o <> Panic.
Proof. destruct s; cbn; [intros ->; discriminate|intros [k ->]; discriminate]. Qed.

Theorem dec_req_no_panic bs : dec_req bs <> Panic.
Proof. exact (verdict_no_panic _ _ (req_wf_dec bs)). Qed.
Theorem dec_rsp_no_panic bs : dec_rsp bs <> Panic.
Proof. exact (verdict_no_panic _ _ (rsp_wf_dec bs)). Qed.
Theorem dec_exc_no_panic bs : dec_exc bs <> Panic.
Proof. rewrite dec_exc_char. destruct bs as [|f [|c r]]; try discriminate; destruct (f <? 128); discriminate. Qed.
Theorem dec_rsp_pdu_no_panic bs : dec_rsp_pdu bs <> Panic.
Proof.
  unfold dec_rsp_pdu. destruct bs as [|f r]; cbn [rd8 bind]; [discriminate|].
  destruct (f <? 128).
  - pose proof (dec_rsp_no_panic (f :: r)). destruct (dec_rsp (f :: r)); cbn; congruence.
  - pose proof (dec_exc_no_panic (f :: r)). destruct (dec_exc (f :: r)); cbn; congruence.
Qed.

(* accept <-> well-formed *)
Theorem req_accept_iff_wf bs : (exists v, dec_req bs = Val v) <-> (exists v, wf_req bs = Some v).
Proof.
  pose proof (req_wf_dec bs) as H. destruct (wf_req bs) as [v|]; cbn in H.
  - split; eauto.
  - destruct H as [k Hk]. split; intros [v Hv]; congruence.
Qed.
Theorem rsp_accept_iff_wf bs : (exists v, dec_rsp bs = Val v) <-> (exists v, wf_rsp bs = Some v).
Proof.
  pose proof (rsp_wf_dec bs) as H. destruct (wf_rsp bs) as [v|]; cbn in H.
  - split; eauto.
  - destruct H as [k Hk]. split; intros [v Hv]; congruence.
Qed.
