(* RtuProofs.v -- the resynchronising RTU decoder: segment invariant (C04), H1/H2 for frames
   the length table carries and noise skipping within the retry budget (C11). *)
From Coq Require Import ZArith Lia ZifyBool ZifyNat ZifyN.
From TM Require Import Base Frame Pdu Crc RtuCodec Framed BaseLemmas FramedProofs.
Ltac Zify.zify_post_hook ::= Z.div_mod_to_equations.

Lemma skipn_skipn {A} : forall (y x : nat) (l : list A), skipn x (skipn y l) = skipn (x + y) l.
Proof.
  induction y as [|y IH]; intros x l.
  - rewrite Nat.add_0_r. reflexivity.
  - destruct l as [|a l]; [rewrite !skipn_nil; reflexivity|].
    rewrite Nat.add_succ_r. cbn [skipn]. apply IH.
Qed.

(* ---- CRC bytes ---- *)
Lemma calc_crc_lt d : calc_crc d < 65536.
Proof. unfold calc_crc. pose proof (lo8_lt (crc_reg d)). pose proof (hi8_lt (crc_reg d)). lia. Qed.
Lemma crc2_length d : length (crc2 d) = 2%nat.
Proof. reflexivity. Qed.
Lemma len_crc2 d : len (crc2 d) = 2.
Proof. reflexivity. Qed.
Lemma crc2_shape d : crc2 d = [hi8 (calc_crc d); lo8 (calc_crc d)].
Proof. reflexivity. Qed.
Lemma check_crc_crc2 d : check_crc d (hi8 (calc_crc d)) (lo8 (calc_crc d)) = true.
Proof. unfold check_crc. rewrite of_be16_hi_lo by apply calc_crc_lt. lia. Qed.
Lemma check_crc_true d c1 c2 : c1 < 256 -> c2 < 256 -> check_crc d c1 c2 = true -> [c1; c2] = crc2 d.
Proof.
  intros H1 H2 H. unfold check_crc in H. apply N.eqb_eq in H. rewrite crc2_shape, <- H.
  destruct (hi_lo_of_be16 c1 c2 H1 H2) as [-> ->]. reflexivity.
Qed.
Lemma check_crc_false d c1 c2 : [c1; c2] <> crc2 d -> c1 < 256 -> c2 < 256 -> check_crc d c1 c2 = false.
Proof.
  intros Hne H1 H2. destruct (check_crc d c1 c2) eqn:H; [|reflexivity].
  exfalso. apply Hne. apply check_crc_true; assumption.
Qed.

Lemma bytes_ok_skipn n l : bytes_ok l = true -> bytes_ok (skipn n l) = true.
Proof.
  revert l. induction n as [|n IH]; intros l H; [exact H|]. destruct l as [|a l]; [reflexivity|].
  cbn [bytes_ok forallb] in H. apply andb_prop in H. apply IH. apply H.
Qed.
Lemma bytes_ok_cons a l : bytes_ok (a :: l) = true -> a < 256 /\ bytes_ok l = true.
Proof. cbn [bytes_ok forallb]. intros H. apply andb_prop in H. destruct H as [H1 H2]. apply byte_ok_lt in H1. auto. Qed.

(* ---- FrameDecoder::decode ---- *)
Lemma frame_decode_some buf n b' s p : bytes_ok buf = true ->
  frame_decode buf n = (b', FSome s p) -> buf = rtu_frame s p ++ b' /\ len p = n.
Proof.
  intros Hok. unfold frame_decode.
  destruct (N.ltb_spec (len buf) (n + 3)) as [Hl|Hl]; [discriminate|].
  remember (firstn (S (N.to_nat n)) buf) as adu eqn:Ha.
  destruct (skipn (S (N.to_nat n)) buf) as [|c1 [|c2 rest]] eqn:Hs; try discriminate.
  destruct (check_crc adu c1 c2) eqn:Hc; [|discriminate]. intros Hq. injection Hq as Hb Hs' Hp.
  assert (Hlen : length adu = S (N.to_nat n)) by (rewrite Ha; apply firstn_length_le; unfold len in Hl; lia).
  destruct adu as [|s0 p0]; [discriminate|]. cbn [hd tl] in Hs', Hp. subst s0 p0 b'.
  assert (Hcok : bytes_ok (c1 :: c2 :: rest) = true) by (rewrite <- Hs; apply bytes_ok_skipn; exact Hok).
  apply bytes_ok_cons in Hcok. destruct Hcok as [Hc1 Hcok]. apply bytes_ok_cons in Hcok. destruct Hcok as [Hc2 _].
  pose proof (check_crc_true _ _ _ Hc1 Hc2 Hc) as Hcrc.
  split; [|unfold len; cbn [length] in Hlen; lia].
  unfold rtu_frame. rewrite <- Hcrc.
  rewrite <- (firstn_skipn (S (N.to_nat n)) buf) at 1. rewrite <- Ha, Hs.
  cbn [app]. rewrite <- app_assoc. reflexivity.
Qed.

Lemma frame_decode_other buf n b' r : frame_decode buf n = (b', r) -> (forall s p, r <> FSome s p) -> b' = buf.
Proof.
  unfold frame_decode. destruct (_ <? _); [intros H; injection H; auto|].
  destruct (skipn _ buf) as [|c1 [|c2 rest]]; try (intros H; injection H; auto; fail).
  destruct (check_crc _ _ _); intros H; injection H as <- <-; [intros Hn; exfalso; eapply Hn; reflexivity|auto].
Qed.

(* a frame followed by anything is decoded, leaving exactly what follows *)
Lemma frame_decode_frame s p x : frame_decode (rtu_frame s p ++ x) (len p) = (x, FSome s p).
Proof.
  unfold frame_decode.
  assert (Hlen : len (rtu_frame s p ++ x) = len p + 3 + len x).
  { unfold rtu_frame. rewrite len_app, len_cons, len_app, len_crc2. lia. }
  destruct (N.ltb_spec (len (rtu_frame s p ++ x)) (len p + 3)); [lia|].
  rewrite len_length.
  assert (Hadu : firstn (S (length p)) (rtu_frame s p ++ x) = s :: p).
  { unfold rtu_frame. cbn [firstn app]. f_equal. rewrite <- app_assoc. rewrite firstn_app, firstn_all, Nat.sub_diag. cbn. apply app_nil_r. }
  assert (Hsk : skipn (S (length p)) (rtu_frame s p ++ x) = crc2 (s :: p) ++ x).
  { unfold rtu_frame. cbn [skipn app]. rewrite <- app_assoc. rewrite skipn_app, skipn_all, Nat.sub_diag. reflexivity. }
  rewrite Hadu, Hsk. rewrite crc2_shape. cbn [app]. rewrite check_crc_crc2. reflexivity.
Qed.

Section Loop.
  Variable pdu_len : list N -> outcome (option N).
  Hypothesis pdu_len_nil : pdu_len [] = Val None.
  Hypothesis pdu_len_no_panic : forall b, pdu_len b <> Panic.

  (* ---- C04: what comes out is a CRC-valid contiguous slice; nothing else is lost ---- *)
  Theorem decode_loop_segments : forall fuel buf dr b' dr' r, bytes_ok buf = true ->
      decode_loop pdu_len fuel buf dr = (b', dr', r) ->
      exists d, dr' = dr ++ d /\ r <> DPanic /\
        match r with
        | DSome (s, p) => buf = d ++ rtu_frame s p ++ b'
        | _ => buf = d ++ b'
        end.
  Proof.
    induction fuel as [|f IH]; intros buf dr b' dr' r Hok H; cbn [decode_loop] in H.
    - injection H as <- <- <-. exists []. rewrite app_nil_r. repeat split; auto. discriminate.
    - assert (Hdrop : forall x buf', buf = x :: buf' -> decode_loop pdu_len f buf' (dr ++ [x]) = (b', dr', r) ->
                exists d, dr' = dr ++ d /\ r <> DPanic /\
                  match r with DSome (s, p) => buf = d ++ rtu_frame s p ++ b' | _ => buf = d ++ b' end).
      { intros x buf' -> Hd. apply bytes_ok_cons in Hok. destruct Hok as [_ Hok'].
        destruct (IH _ _ _ _ _ Hok' Hd) as [d [-> [Hnp Hm]]]. exists (x :: d).
        rewrite <- app_assoc. split; [reflexivity|]. split; [exact Hnp|].
        destruct r as [|[s p]| |]; cbn [app]; rewrite Hm; reflexivity. }
      destruct (pdu_len buf) as [[n|]| |] eqn:Hp.
      + destruct (frame_decode buf n) as [b1 [| s p |]] eqn:Hf.
        * injection H as <- <- <-. exists []. rewrite app_nil_r. repeat split; auto; [discriminate|].
          cbn. symmetry. eapply frame_decode_other; [exact Hf|discriminate].
        * injection H as <- <- <-. exists []. rewrite app_nil_r. repeat split; auto; [discriminate|].
          apply frame_decode_some in Hf; [|exact Hok]. cbn. tauto.
        * destruct buf as [|x buf']; [rewrite pdu_len_nil in Hp; discriminate|]. eapply Hdrop; eauto.
      + injection H as <- <- <-. exists []. rewrite app_nil_r. repeat split; auto. discriminate.
      + destruct buf as [|x buf']; [rewrite pdu_len_nil in Hp; discriminate|]. eapply Hdrop; eauto.
      + exfalso. eapply pdu_len_no_panic. exact Hp.
  Qed.

  (* ---- C11: frames the table carries ---- *)
  Definition prefix (q l : list N) := exists y, l = q ++ y.
  Definition carried (s : N) (p : list N) :=
    forall q, prefix q (rtu_frame s p) \/ (exists x, q = rtu_frame s p ++ x) ->
      (pdu_len q = Val None /\ len q < len p + 3) \/ pdu_len q = Val (Some (len p)).

  Lemma len_rtu_frame s p : len (rtu_frame s p) = len p + 3.
  Proof. unfold rtu_frame. rewrite len_cons, len_app, len_crc2. lia. Qed.

  Lemma H1_loop s p x fuel dr : carried s p ->
    decode_loop pdu_len (S fuel) (rtu_frame s p ++ x) dr = (x, dr, DSome (s, p)).
  Proof.
    intros Hc. cbn [decode_loop].
    destruct (Hc (rtu_frame s p ++ x)) as [[_ Hl]|Hl]; [right; eauto| |].
    - exfalso. rewrite len_app, len_rtu_frame in Hl. lia.
    - rewrite Hl. rewrite frame_decode_frame. reflexivity.
  Qed.

  Lemma H2_loop s p q fuel dr : carried s p -> proper_prefix q (rtu_frame s p) ->
    decode_loop pdu_len (S fuel) q dr = (q, dr, DNone).
  Proof.
    intros Hc [y [Hy Hf]]. cbn [decode_loop].
    assert (Hlen : len q < len p + 3).
    { pose proof (len_rtu_frame s p) as Hl. rewrite Hf, len_app in Hl. destruct y; [congruence|]. rewrite len_cons in Hl. lia. }
    destruct (Hc q) as [[Hl _]|Hl]; [left; exists y; exact Hf| |]; rewrite Hl; [reflexivity|].
    unfold frame_decode. destruct (N.ltb_spec (len q) (len p + 3)); [reflexivity|lia].
  Qed.

  (* ---- noise: a byte followed by a noise-valued byte is dropped, one per iteration ---- *)
  Variable noise : N -> bool.
  Hypothesis noise_invalid : forall a b tl, noise b = true -> exists k, pdu_len (a :: b :: tl) = Fail k.

  Lemma drop_noise : forall ns a y tl fuel dr,
      forallb noise (ns ++ [y]) = true ->
      decode_loop pdu_len (S (length ns) + fuel) (a :: ns ++ y :: tl) dr = decode_loop pdu_len fuel (y :: tl) (dr ++ a :: ns).
  Proof.
    induction ns as [|n ns IH]; intros a y tl fuel dr Hn.
    - cbn [length Nat.add app decode_loop]. cbn in Hn. rewrite andb_true_r in Hn.
      destruct (noise_invalid a y tl Hn) as [k ->]. reflexivity.
    - cbn [app forallb] in Hn. apply andb_prop in Hn. destruct Hn as [Hn Hns].
      replace (S (length (n :: ns)) + fuel)%nat with (S (S (length ns) + fuel))%nat by (cbn [length]; lia).
      cbn [app]. cbn [decode_loop]. destruct (noise_invalid a n (ns ++ y :: tl) Hn) as [k ->].
      rewrite IH by exact Hns. rewrite <- app_assoc. reflexivity.
  Qed.

  (* up to 19 noise bytes in front of a carried frame whose slave id is noise-valued: the noise is
     dropped and the frame delivered within one call of the 20-iteration loop *)
  Theorem noise_then_frame : forall ns s p x,
      ns <> [] -> (length ns <= 19)%nat -> forallb noise (ns ++ [s]) = true -> carried s p ->
      decode_loop pdu_len MAX_RETRIES (ns ++ rtu_frame s p ++ x) [] = (x, ns, DSome (s, p)).
  Proof.
    intros ns s p x Hne Hlen Hn Hc. destruct ns as [|a ns]; [congruence|].
    cbn [length] in Hlen. cbn [forallb app] in Hn. apply andb_prop in Hn. destruct Hn as [_ Hn].
    unfold MAX_RETRIES. replace 20%nat with (S (length ns) + (S (18 - length ns)))%nat by lia.
    change ((a :: ns) ++ rtu_frame s p ++ x) with (a :: ns ++ s :: (p ++ crc2 (s :: p)) ++ x).
    rewrite (drop_noise ns a s _ _ [] Hn).
    change (s :: (p ++ crc2 (s :: p)) ++ x) with (rtu_frame s p ++ x).
    rewrite H1_loop by exact Hc. reflexivity.
  Qed.

End Loop.

(* ---- the two concrete tables ---- *)
Lemma req_pdu_len_nil : req_pdu_len [] = Val None. Proof. reflexivity. Qed.
Lemma rsp_pdu_len_nil : rsp_pdu_len [] = Val None. Proof. reflexivity. Qed.
Lemma req_pdu_len_no_panic b : req_pdu_len b <> Panic.
Proof.
  unfold req_pdu_len. destruct (nth_error b 1); [|discriminate].
  repeat match goal with |- context [if ?c then _ else _] => destruct c; try discriminate end.
Qed.
Lemma rsp_pdu_len_no_panic b : rsp_pdu_len b <> Panic.
Proof.
  unfold rsp_pdu_len. destruct (nth_error b 1); [|discriminate].
  repeat match goal with |- context [if ?c then _ else _] => destruct c; try discriminate end.
  destruct b as [|? [|? [|? [|? ?]]]]; discriminate.
Qed.

(* byte values that are never function codes in either table: 0x00, 0x80, the user-defined
   ranges 0x41-0x48 and 0x64-0x6E *)
Definition is_noise (b : N) : bool :=
  (b =? 0x00) || (b =? 0x80) || ((0x41 <=? b) && (b <=? 0x48)) || ((0x64 <=? b) && (b <=? 0x6E)).

Lemma req_noise_invalid a b tl : is_noise b = true -> exists k, req_pdu_len (a :: b :: tl) = Fail k.
Proof.
  intros H. unfold is_noise in H. unfold req_pdu_len. cbn [nth_error].
  repeat match goal with |- context [if ?c then _ else _] => replace c with false by lia end. eauto.
Qed.
Lemma rsp_noise_invalid a b tl : is_noise b = true -> exists k, rsp_pdu_len (a :: b :: tl) = Fail k.
Proof.
  intros H. unfold is_noise in H. unfold rsp_pdu_len. cbn [nth_error].
  repeat match goal with |- context [if ?c then _ else _] => replace c with false by lia end. eauto.
Qed.
