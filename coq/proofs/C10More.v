(* C10 over whole histories: the ids of two calls of one client, separated by any operations (calls that
   succeed, fail, are refused; slave changes; disconnects), as functions of the histories themselves. *)
From Coq Require Import List ZArith Lia ZifyBool ZifyNat ZifyN.
From TM Require Import Base Frame Pdu RtuCodec TcpCodec Framed Client BaseLemmas FramedProofs FramedMore ClientProofs Histories.
Ltac Zify.zify_post_hook ::= Z.div_mod_to_equations.

Lemma ncalls_app a b : ncalls (a ++ b) = ncalls a + ncalls b.
Proof. unfold ncalls. rewrite filter_app, len_app. reflexivity. Qed.

(* the id stamped after history [h1] and the id stamped after the longer history [h1 ++ h2] differ whenever
   [h2] holds at least one and fewer than 65536 calls -- whatever else [h2] contains and however its calls ended *)
Theorem tids_of_histories_distinct m h1 h2 slave :
  0 < ncalls h2 -> ncalls h2 < 65536 ->
  fst (req_hdr TCP (run_ops TCP m (client_new TCP slave) h1))
  <> fst (req_hdr TCP (run_ops TCP m (client_new TCP slave) (h1 ++ h2))).
Proof.
  intros H0 H1. rewrite !tid_of_call, ncalls_app.
  apply tids_distinct_in_window; lia.
Qed.

(* ... and the id comes round again exactly when 65536 further calls have been made, never earlier *)
Theorem tid_repeats_exactly_after_65536 m h1 h2 slave :
  ncalls h2 <= 65536 ->
  (fst (req_hdr TCP (run_ops TCP m (client_new TCP slave) h1))
   = fst (req_hdr TCP (run_ops TCP m (client_new TCP slave) (h1 ++ h2)))
   <-> ncalls h2 = 0 \/ ncalls h2 = 65536).
Proof.
  intros H1. rewrite !tid_of_call, ncalls_app. split; intros H; lia.
Qed.

(* operations that are not calls (changing the slave, disconnecting) neither use up nor reset an id *)
Theorem non_calls_keep_tid m h1 h2 slave :
  ncalls h2 = 0 ->
  fst (req_hdr TCP (run_ops TCP m (client_new TCP slave) (h1 ++ h2)))
  = fst (req_hdr TCP (run_ops TCP m (client_new TCP slave) h1)).
Proof. intros H. rewrite !tid_of_call, ncalls_app, H. f_equal. lia. Qed.
