(* Histories.v -- theorems about whole client histories and about one exchange on a transport
   that stays open. *)
From Coq Require Import ZArith Lia ZifyBool ZifyNat ZifyN.
From TM Require Import Base Frame Pdu RtuCodec TcpCodec Framed Client BaseLemmas FramedProofs FramedMore
  TcpProofs RtuProofs StreamProofs ClientProofs.
Ltac Zify.zify_post_hook ::= Z.div_mod_to_equations.

(* ---- operations on a client with a scripted transport ---- *)
Inductive op :=
| OCall (typed_ : bool) (req : request) (bg : budget) (w : list wev) (f : list fev) (r : list revt)
| OSlave (s : N)
| ODisc (sd : list sdev).

(* the scripts of an operation are appended to what the transport still has in store *)
Definition push (st : cstate) (w : list wev) (f : list fev) (r : list revt) : cstate :=
  let wi := wio_ st in
  mkC (framed st) (rst st) (mkW (wbuf wi) (wq wi ++ w) (fq wi ++ f) (accepted wi)) (rq st ++ r) (sq st)
      (next_tid st) (unit_id st) (shutdowns st).
Definition push_sd (st : cstate) (sd : list sdev) : cstate :=
  mkC (framed st) (rst st) (wio_ st) (rq st) (sq st ++ sd) (next_tid st) (unit_id st) (shutdowns st).

Definition run_op (p : proto) (m : mode) (st : cstate) (o : op) : cstate :=
  match o with
  | OCall t req bg w f r => if t then snd (typed p m (push st w f r) req bg) else snd (call p m (push st w f r) req bg)
  | OSlave s => set_slave st s
  | ODisc sd => snd (disconnect (push_sd st sd))
  end.
Definition run_ops (p : proto) (m : mode) (st : cstate) (ops : list op) : cstate := fold_left (run_op p m) ops st.

Definition is_call (o : op) : bool := match o with OCall _ _ _ _ _ _ => true | _ => false end.
Definition ncalls (ops : list op) : N := len (filter is_call ops).

Lemma typed_state p m st req bg : snd (typed p m st req bg) = snd (call p m st req bg).
Proof. unfold typed. destruct (call p m st req bg) as [[] st']; reflexivity. Qed.

Lemma run_op_call p m st t req bg w f r : run_op p m st (OCall t req bg w f r) = snd (call p m (push st w f r) req bg).
Proof. cbn [run_op]. destruct t; [apply typed_state|reflexivity]. Qed.

(* ---- C10: the id stamped on the k-th call is k mod 65536, whatever the earlier calls did ---- *)
Lemma tid_after_op m st o : next_tid st < 65536 ->
  next_tid (run_op TCP m st o) = (next_tid st + (if is_call o then 1 else 0)) mod 65536.
Proof.
  intros Hlt. destruct o as [t req bg w f r|s|sd].
  - rewrite run_op_call, call_tid_advances. reflexivity.
  - cbn. lia.
  - cbn [run_op is_call]. unfold disconnect, push_sd. cbn [framed sq].
    destruct (framed st); cbn [negb]; [|cbn; lia].
    destruct (shutdown (sq st ++ sd)) as [[r q] d]. cbn. lia.
Qed.

Theorem tid_after_history m : forall ops st, next_tid st < 65536 ->
  next_tid (run_ops TCP m st ops) = (next_tid st + ncalls ops) mod 65536.
Proof.
  induction ops as [|o ops IH]; intros st Hlt.
  - cbn. unfold ncalls. cbn. lia.
  - cbn [run_ops fold_left]. fold (run_ops TCP m (run_op TCP m st o) ops).
    rewrite IH by (rewrite tid_after_op by exact Hlt; lia).
    rewrite tid_after_op by exact Hlt. unfold ncalls. cbn [filter].
    destruct (is_call o); [rewrite len_cons|]; lia.
Qed.

(* the header stamped on a call issued after history [ops] on a fresh client *)
Theorem tid_of_call m ops slave :
  fst (req_hdr TCP (run_ops TCP m (client_new TCP slave) ops)) = ncalls ops mod 65536.
Proof. unfold req_hdr. cbn [fst]. rewrite tid_after_history by (cbn; lia). cbn. reflexivity. Qed.

Theorem tids_distinct_in_window i j : i < j -> j < i + 65536 -> i mod 65536 <> j mod 65536.
Proof. intros. lia. Qed.

Theorem tid_never_sticks k : (k + 1) mod 65536 <> k mod 65536.
Proof. lia. Qed.

(* ---- C15: the shutdown happens exactly once, in the first disconnect ---- *)
Definition conn_inv (st : cstate) (s0 : N) : Prop :=
  (framed st = true /\ shutdowns st = s0) \/ (framed st = false /\ shutdowns st = s0 + 1).

Lemma conn_inv_op p m st o s0 : conn_inv st s0 -> conn_inv (run_op p m st o) s0.
Proof.
  intros Hi. destruct o as [t req bg w f r|s|sd].
  - rewrite run_op_call. destruct (call_keeps_framed p m (push st w f r) req bg) as [Hf Hs]. unfold conn_inv. rewrite Hf, Hs. exact Hi.
  - exact Hi.
  - cbn [run_op]. destruct Hi as [[Hf Hs]|[Hf Hs]].
    + destruct (disconnect_first (push_sd st sd) Hf) as (_ & Hf' & Hs'). right. rewrite Hf', Hs'. cbn [push_sd shutdowns]. rewrite Hs. auto.
    + rewrite (disconnect_again (push_sd st sd) Hf). right. auto.
Qed.

Theorem shutdown_at_most_once p m : forall ops st s0, conn_inv st s0 -> conn_inv (run_ops p m st ops) s0.
Proof.
  induction ops as [|o ops IH]; intros st s0 Hi; [exact Hi|].
  cbn [run_ops fold_left]. apply IH. apply conn_inv_op. exact Hi.
Qed.

(* ---- C12: clean start over histories ---- *)
Lemma push_clean st w f r : clean st -> clean (push st w f r).
Proof. auto. Qed.
Theorem history_clean p m : forall ops st, clean st -> clean (run_ops p m st ops).
Proof.
  induction ops as [|o ops IH]; intros st Hc; [exact Hc|].
  cbn [run_ops fold_left]. apply IH. destruct o as [t req bg w f r|s|sd].
  - rewrite run_op_call. apply call_preserves_clean. exact Hc.
  - exact Hc.
  - cbn [run_op]. unfold disconnect, push_sd. cbn [framed sq]. destruct (framed st); cbn [negb]; [|exact Hc].
    destruct (shutdown (sq st ++ sd)) as [[r q] d]. exact Hc.
Qed.

(* ---- C16: whatever reached the transport plus what is still buffered is a concatenation of whole
   encoded request frames, across completed, failed and abandoned calls ---- *)
Definition whole_frames (p : proto) (bytes : list N) : Prop :=
  exists frs, bytes = concat frs /\ Forall (fun fr => exists m h req, client_enc p m h req = Val fr) frs.

Definition sent_and_buffered (st : cstate) : list N := accepted (wio_ st) ++ wbuf (wio_ st).

Lemma whole_frames_app p a fr : whole_frames p a -> (fr = [] \/ exists m h req, client_enc p m h req = Val fr) -> whole_frames p (a ++ fr).
Proof.
  intros (frs & -> & Hf) [->|He].
  - exists frs. rewrite app_nil_r. auto.
  - exists (frs ++ [fr]). rewrite concat_app. cbn. rewrite app_nil_r. split; [reflexivity|].
    apply Forall_app. split; [exact Hf|]. constructor; [exact He|constructor].
Qed.

Theorem history_whole_frames p m : forall ops st, whole_frames p (sent_and_buffered st) ->
  whole_frames p (sent_and_buffered (run_ops p m st ops)).
Proof.
  induction ops as [|o ops IH]; intros st Hw; [exact Hw|].
  cbn [run_ops fold_left]. apply IH. destruct o as [t req bg w f r|s|sd].
  - rewrite run_op_call. destruct (call_conserves p m (push st w f r) req bg) as (fr & Hfr & Hc).
    unfold sent_and_buffered. rewrite Hc. cbn [push wio_ accepted wbuf]. rewrite app_assoc. apply whole_frames_app; [exact Hw|].
    destruct Hfr as [->|He]; [left; reflexivity|right; eauto].
  - exact Hw.
  - cbn [run_op]. unfold disconnect, push_sd. cbn [framed sq]. destruct (framed st); cbn [negb]; [|exact Hw].
    destruct (shutdown (sq st ++ sd)) as [[r q] d]. exact Hw.
Qed.

(* ---- one exchange ---- *)
Definition client_valid (p : proto) : list N -> hdr * rsp_result -> Prop :=
  match p with TCP => valid_rsp_frame | RTU => valid_rtu_rsp end.
Lemma client_H1 p f i x : client_valid p f i -> client_dec p (f ++ x) = (x, DSome i).
Proof. destruct p; [apply tcp_client_H1|apply rtu_client_H1]. Qed.
Lemma client_H2 p f i q : client_valid p f i -> proper_prefix q f -> client_dec p q = (q, DNone).
Proof. destruct p; [apply tcp_client_H2|apply rtu_client_H2]. Qed.
Lemma client_valid_nonempty p f i : client_valid p f i -> f <> [].
Proof. destruct p; [apply valid_rsp_frame_nonempty|apply valid_rtu_rsp_nonempty]. Qed.

(* C12: once the request has been written and the transport then delivers the matching reply -- in any
   chunking, followed by any surplus -- the call consumes exactly that reply, whatever happened before
   (no latched error, transport not at end of stream) *)
Theorem exchange_consumes_reply p m st req bg f i cs rest w bg1 :
  framed st = true -> clean st -> reof (rst st) = false ->
  send (client_enc p m (req_hdr p st) req) (wio_ st) bg = (SOk, w, bg1, false) ->
  rq st = datas cs -> Forall nonempty cs -> concat cs = f ++ rest -> client_valid p f i ->
  call_reply p m st req bg = Some i.
Proof.
  intros Hf Hc He Hs Hq Hne Hcat Hv. unfold call_reply. rewrite Hf. cbn [negb]. rewrite Hs.
  unfold cleared. unfold clean in Hc. rewrite Hc, He, Hq.
  destruct (next_item (client_dec p) (client_valid p) (client_H1 p) (client_H2 p) cs [] (rreadable (rst st)) f i rest bg1 Hv Hne Hcat) as (b' & cs' & Hn & _).
  { intros _. exists f. split; [eapply client_valid_nonempty; eauto|reflexivity]. }
  rewrite Hn. reflexivity.
Qed.

Theorem exchange_returns_reply p m st req bg f rr cs rest w bg1 :
  framed st = true -> clean st -> reof (rst st) = false ->
  send (client_enc p m (req_hdr p st) req) (wio_ st) bg = (SOk, w, bg1, false) ->
  rq st = datas cs -> Forall nonempty cs -> concat cs = f ++ rest -> client_valid p f (req_hdr p st, rr) ->
  fc_value (rr_fc rr) = fc_value (req_fc req) ->
  fst (call p m st req bg) = match rr with RROk r => CROk r | RRExc e => CRExc (exr_exception e) end.
Proof.
  intros Hf Hc He Hs Hq Hne Hcat Hv Hfc. apply call_returns_answer; [|exact Hfc].
  eapply exchange_consumes_reply; eauto.
Qed.

(* C13: end of stream or a read error after any proper prefix of the reply (incl. nothing) is a
   transport error, never a success, never a panic *)
Theorem read_fault_is_transport_error p m st req bg f i cs tl w bg1 (e : revt) :
  framed st = true -> clean st -> reof (rst st) = false -> rreadable (rst st) = false ->
  send (client_enc p m (req_hdr p st) req) (wio_ st) bg = (SOk, w, bg1, false) ->
  client_valid p f i -> Forall nonempty cs -> proper_prefix (concat cs) f ->
  rq st = datas cs ++ e :: tl -> (e = REof \/ exists k, e = RErr k) ->
  exists k, fst (call p m st req bg) = CRTransport k.
Proof.
  intros Hf Hc He Hr Hs Hv Hne Hp Hq Hev. unfold call. rewrite Hf. cbn [negb]. fold (req_hdr p st). rewrite Hs.
  unfold clean in Hc. rewrite Hc, He, Hr, Hq.
  destruct Hev as [->|[k ->]].
  - destruct (next_prefix_then_eof (client_dec p) (client_valid p) (client_H2 p) cs [] f i bg1 tl Hv Hne Hp) as (st' & Hn).
    rewrite Hn. cbn [app]. destruct (concat cs).
    + eexists. reflexivity.
    + match goal with |- context [next ?d ?s ?q ?b] => destruct (next d s q b) as [[[nr2 r2] q2] bg3] end. eexists. reflexivity.
  - destruct (next_prefix_then_err (client_dec p) (client_valid p) (client_H2 p) cs [] f i bg1 k tl Hv Hne Hp) as (st' & Hn).
    rewrite Hn. match goal with |- context [next ?d ?s ?q ?b] => destruct (next d s q b) as [[[nr2 r2] q2] bg3] end. eexists. reflexivity.
Qed.

(* C13: an orderly end of stream before any reply byte is reported as a closed connection *)
Theorem eof_is_broken_pipe p m st req bg tl w bg1 :
  framed st = true -> clean st -> reof (rst st) = false -> rreadable (rst st) = false ->
  send (client_enc p m (req_hdr p st) req) (wio_ st) bg = (SOk, w, bg1, false) ->
  rq st = REof :: tl -> client_dec p [] = ([], DNone) ->
  fst (call p m st req bg) = CRTransport KBrokenPipe.
Proof.
  intros Hf Hc He Hr Hs Hq Hd. unfold call. rewrite Hf. cbn [negb]. fold (req_hdr p st). rewrite Hs.
  unfold clean in Hc. rewrite Hc, He, Hr, Hq.
  rewrite next_eq. unfold attempt. cbn [rerrored rreadable reof rbuf].
  rewrite next_eq. unfold attempt, decode_eof. cbn [rerrored rreadable reof rbuf]. rewrite Hd. reflexivity.
Qed.
Lemma client_dec_nil p : client_dec p [] = ([], DNone).
Proof. destruct p; reflexivity. Qed.

(* C13: a write fault is a transport error and what the transport accepted is a prefix of the bytes
   offered (buffered remainder ++ frame); fault-free writes deliver them completely *)
Theorem write_fault_is_transport_error p m st req bg k w bg1 :
  framed st = true ->
  send (client_enc p m (req_hdr p st) req) (wio_ st) bg = (SErr k, w, bg1, false) ->
  fst (call p m st req bg) = CRTransport k
  /\ exists fr, (fr = [] \/ client_enc p m (req_hdr p st) req = Val fr)
                /\ accepted w ++ wbuf w = accepted (wio_ st) ++ wbuf (wio_ st) ++ fr.
Proof.
  intros Hf Hs. split.
  - unfold call. rewrite Hf. cbn [negb]. fold (req_hdr p st). rewrite Hs. reflexivity.
  - apply send_conserve in Hs. destruct Hs as (fr & Hfr & Hc & _). eauto.
Qed.
