(* BufferBound.v -- bounded buffering of the framing layer (property C03): with a decoder that (a) never
   grows its buffer and (b) never answers "need more input" on B or more buffered bytes, the receive buffer
   of [next] never holds B + M bytes or more, M being the largest chunk the transport delivers in one read --
   whatever the bytes, the fragmentation, the faults and the number of frames.  Lifted to every client
   history and to every run of served requests. *)
From Coq Require Import Lia ZifyBool ZifyNat ZifyN.
From TM Require Import Base Frame Pdu Crc RtuCodec TcpCodec Framed Client Server BaseLemmas FramedProofs RtuProofs
  FramedMore ClientProofs Histories Totality Slices Bounds.

Fixpoint chunks_le (M : N) (q : list revt) : Prop :=
  match q with
  | [] => True
  | RData c :: q' => len c <= M /\ chunks_le M q'
  | _ :: q' => chunks_le M q'
  end.

Lemma chunks_le_app M a b : chunks_le M a -> chunks_le M b -> chunks_le M (a ++ b).
Proof. induction a as [|e a IH]; cbn [app chunks_le]; [auto|]. destruct e; intuition. Qed.

Section Bound.
  Context {I : Type}.
  Variable dec : list N -> list N * dres I.
  Variables B M : N.
  Hypothesis Hpos : 0 < B.
  Hypothesis Htotal : dec_total dec.
  Hypothesis Hsuf : forall buf b r, bytes_ok buf = true -> dec buf = (b, r) -> bytes_ok b = true.
  Hypothesis Hbound : forall buf b r, bytes_ok buf = true -> B <= len buf -> dec buf = (b, r) -> r <> DNone.

  (* a buffer the layer will extend by reading is shorter than B *)
  Definition rinv (st : rstate) : Prop := rreadable st = false -> len (rbuf st) < B.

  Lemma dec_len buf b r : dec buf = (b, r) -> len b <= len buf.
  Proof. intros H. destruct (Htotal _ _ _ H) as (_ & Hl & _). unfold len. lia. Qed.

  Lemma attempt_bounded st : bytes_ok (rbuf st) = true -> rerrored st = false -> rinv st ->
    match attempt dec st with
    | inl (r, st') => len (rbuf st') <= len (rbuf st) /\ bytes_ok (rbuf st') = true /\ (rerrored st' = false -> rinv st')
    | inr st' => len (rbuf st') < B /\ bytes_ok (rbuf st') = true /\ rerrored st' = false
    end.
  Proof.
    intros Hok Herr Hinv. unfold attempt. destruct (rreadable st) eqn:Hrd.
    - destruct (reof st).
      + unfold decode_eof. destruct (dec (rbuf st)) as [b0 r0] eqn:Hd.
        pose proof (dec_len _ _ _ Hd) as Hl. pose proof (Hsuf _ _ _ Hok Hd) as Hb.
        destruct r0 as [|i|k|]; [destruct b0|..]; cbn [rbuf rerrored rreadable];
          repeat split; auto; try discriminate; unfold rinv; cbn [rbuf rreadable]; intros; try discriminate.
        cbn. lia.
      + destruct (dec (rbuf st)) as [b0 r0] eqn:Hd.
        pose proof (dec_len _ _ _ Hd) as Hl. pose proof (Hsuf _ _ _ Hok Hd) as Hb.
        destruct r0 as [|i|k|]; cbn [rbuf rerrored rreadable];
          repeat split; auto; try discriminate; unfold rinv; cbn [rbuf rreadable]; intros; try discriminate.
        destruct (N.ltb_spec (len (rbuf st)) B) as [Hs|Hs]; [lia|].
        exfalso. exact (Hbound _ _ _ Hok Hs Hd eq_refl).
    - repeat split; auto.
  Qed.

  Definition sok (q : list revt) : Prop := bytes_ok (sdata q) = true.

  Theorem next_bounded : forall evs st bg r st' evs' bg',
      bytes_ok (rbuf st) = true -> sok evs -> chunks_le M evs ->
      rerrored st = false -> rinv st -> len (rbuf st) < B + M ->
      next dec st evs bg = (r, st', evs', bg') ->
      len (rbuf st') < B + M /\ (rerrored st' = false -> rinv st') /\ bytes_ok (rbuf st') = true
      /\ sok evs' /\ chunks_le M evs'.
  Proof.
    induction evs as [|e evs IH]; intros st bg r st' evs' bg' Hok Hsok Hch Herr Hinv Hlen H; rewrite next_eq in H;
      rewrite Herr in H; pose proof (attempt_bounded st Hok Herr Hinv) as Ha;
      destruct (attempt dec st) as [[r1 st1]|st1].
    - injection H as <- <- <- <-. destruct Ha as (H1 & H2 & H3). repeat split; auto. lia.
    - injection H as <- <- <- <-. destruct Ha as (H1 & H2 & H3). repeat split; auto; try lia.
      intros _ _. exact H1.
    - injection H as <- <- <- <-. destruct Ha as (H1 & H2 & H3). repeat split; auto. lia.
    - destruct Ha as (H1 & H2 & H3).
      assert (Hret : forall x : unit, len (rbuf st1) < B + M /\ (rerrored st1 = false -> rinv st1) /\ bytes_ok (rbuf st1) = true
                               /\ sok evs /\ chunks_le M evs).
      { intros _. repeat split; auto; try lia.
        - intros _ _. exact H1.
        - unfold sok in *. destruct e; cbn [sdata] in Hsok; auto. exact (bytes_ok_tail _ _ Hsok).
        - destruct e; cbn [chunks_le] in Hch; tauto. }
      destruct (Hret tt) as (R1 & R2 & R3 & R4 & R5).
      destruct e as [c| |k|].
      + destruct c as [|c0 c].
        * destruct (reof st1).
          -- injection H as <- <- <- <-. auto.
          -- eapply (IH (mkR (rbuf st1) true true false)); eauto; cbn [rbuf rerrored]; auto; try (intros Hx; discriminate Hx).
        * assert (Hc1 : bytes_ok (rbuf st1 ++ c0 :: c) = true).
          { rewrite bytes_ok_app, H2. unfold sok in Hsok. cbn [sdata] in Hsok. rewrite (bytes_ok_head _ _ Hsok). reflexivity. }
          assert (Hc2 : len (rbuf st1 ++ c0 :: c) < B + M).
          { cbn [chunks_le] in Hch. rewrite len_app. lia. }
          eapply (IH (mkR (rbuf st1 ++ c0 :: c) false true false)); eauto; cbn [rbuf rerrored]; auto; try (intros Hx; discriminate Hx).
      + destruct (reof st1).
        * injection H as <- <- <- <-. auto.
        * eapply (IH (mkR (rbuf st1) true true false)); eauto; cbn [rbuf rerrored]; auto; try (intros Hx; discriminate Hx).
      + injection H as <- <- <- <-. cbn [rbuf rerrored]. repeat split; auto; discriminate.
      + destruct (spend bg) as [bg1|].
        * eapply (IH st1); eauto; intros _; exact H1.
        * injection H as <- <- <- <-. auto.
  Qed.

  Lemma next_item_clean : forall evs st bg i st' evs' bg',
      next dec st evs bg = (NItem i, st', evs', bg') -> rerrored st' = false.
  Proof.
    induction evs as [|e evs IH]; intros st bg i st' evs' bg' H; rewrite next_eq in H;
      (destruct (rerrored st); [discriminate H|]); unfold attempt in H.
    - destruct (rreadable st); [destruct (reof st)|].
      + destruct (decode_eof dec (rbuf st)) as [b0 [|j|k|]]; injection H as Hr <- _ _; try discriminate Hr. reflexivity.
      + destruct (dec (rbuf st)) as [b0 [|j|k|]]; injection H as Hr <- _ _; try discriminate Hr. reflexivity.
      + injection H as Hr _ _ _. discriminate Hr.
    - assert (Hgo : forall st1,
                match e :: evs with
                | [] => (NWait, st1, [], bg)
                | RPend :: evs' => match spend bg with None => (NAbandon, st1, evs', bg) | Some bg' => next dec st1 evs' bg' end
                | RErr k :: evs' => (NErr k, mkR (rbuf st1) (reof st1) (rreadable st1) true, evs', bg)
                | REof :: evs' | RData [] :: evs' => if reof st1 then (NEnd, st1, evs', bg) else next dec (mkR (rbuf st1) true true false) evs' bg
                | RData c :: evs' => next dec (mkR (rbuf st1 ++ c) false true false) evs' bg
                end = (NItem i, st', evs', bg') -> rerrored st' = false).
      { intros st1 Hm. destruct e as [c| |k|].
        - destruct c as [|c0 c]; [destruct (reof st1); [discriminate Hm|]|]; eapply IH; exact Hm.
        - destruct (reof st1); [discriminate Hm|]. eapply IH; exact Hm.
        - discriminate Hm.
        - destruct (spend bg); [eapply IH; exact Hm|discriminate Hm]. }
      destruct (rreadable st); [destruct (reof st)|].
      + destruct (decode_eof dec (rbuf st)) as [b0 [|j|k|]]; injection H as Hr <- _ _; try discriminate Hr. reflexivity.
      + destruct (dec (rbuf st)) as [b0 [|j|k|]]; try (injection H as Hr <- _ _; try discriminate Hr; reflexivity).
        eapply Hgo. exact H.
      + eapply Hgo. exact H.
  Qed.

  (* any number of consecutive items (what a server connection does between errors) *)
  Theorem items_bounded : forall n st evs is st' evs',
      bytes_ok (rbuf st) = true -> sok evs -> chunks_le M evs ->
      rerrored st = false -> rinv st -> len (rbuf st) < B + M ->
      take_items dec n st evs = Some (is, st', evs') ->
      len (rbuf st') < B + M.
  Proof.
    induction n as [|n IH]; intros st evs is st' evs' Hok Hsok Hch Herr Hinv Hlen H; cbn [take_items] in H.
    - injection H as <- <- <-. exact Hlen.
    - destruct (next dec st evs None) as [[[r st1] evs1] bg1] eqn:Hn.
      destruct r as [i|k| | | |]; try discriminate.
      destruct (take_items dec n st1 evs1) as [[[is1 s1] e1]|] eqn:Ht; [|discriminate]. injection H as <- <- <-.
      destruct (next_bounded _ _ _ _ _ _ _ Hok Hsok Hch Herr Hinv Hlen Hn) as (G1 & G2 & G3 & G4 & G5).
      pose proof (next_item_clean _ _ _ _ _ _ _ Hn) as He.
      eapply IH; eauto.
  Qed.
End Bound.

(* ---- instances ---- *)
Lemma seg_suf {I} (dec : list N -> list N * dres I) R : dec_seg dec R ->
  forall buf b r, bytes_ok buf = true -> dec buf = (b, r) -> bytes_ok b = true.
Proof.
  intros Hs buf b r Hok H. destruct (Hs buf b r Hok H) as [d Hm].
  destruct r as [|i|k|]; try (rewrite Hm in Hok; exact (bytes_ok_tail _ _ Hok)).
  destruct Hm as [f [_ Hm]]. rewrite Hm in Hok. exact (bytes_ok_tail _ _ (bytes_ok_tail _ _ Hok)).
Qed.

Lemma adu_decode_bound buf b r : bytes_ok buf = true -> 65542 <= len buf -> adu_decode buf = (b, r) -> r <> DNone.
Proof.
  intros Hok Hl H. unfold adu_decode in H.
  destruct buf as [|t1 [|t2 [|p1 [|p2 [|l1 [|l2 [|uid rest]]]]]]]; try (exfalso; cbn in Hl; lia).
  destruct (of_be16 l1 l2 =? 0); [injection H as <- <-; discriminate|].
  assert (Hlt : of_be16 l1 l2 < 65536).
  { apply BaseLemmas.of_be16_lt; [apply (nth_error_byte _ 4 _ Hok); reflexivity|apply (nth_error_byte _ 5 _ Hok); reflexivity]. }
  match type of H with context [?a <? ?b] => destruct (N.ltb_spec a b) as [Hs|Hs] end.
  - exfalso. unfold HEADER_LEN in Hs. lia.
  - destruct (negb _); injection H as <- <-; discriminate.
Qed.

Lemma tcp_server_dec_bound buf b r : bytes_ok buf = true -> 65542 <= len buf -> tcp_server_dec buf = (b, r) -> r <> DNone.
Proof.
  intros Hok Hl. unfold tcp_server_dec. destruct (adu_decode buf) as [b0 r0] eqn:Hd.
  pose proof (adu_decode_bound _ _ _ Hok Hl Hd) as Hn.
  destruct r0 as [|[h pdu]|k|]; [congruence| | |]; try (intros H; injection H as <- <-; discriminate).
  destruct (dec_req pdu); intros H; injection H as <- <-; discriminate.
Qed.
Lemma tcp_client_dec_bound buf b r : bytes_ok buf = true -> 65542 <= len buf -> tcp_client_dec buf = (b, r) -> r <> DNone.
Proof.
  intros Hok Hl. unfold tcp_client_dec. destruct (adu_decode buf) as [b0 r0] eqn:Hd.
  pose proof (adu_decode_bound _ _ _ Hok Hl Hd) as Hn.
  destruct r0 as [|[h pdu]|k|]; [congruence| | |]; try (intros H; injection H as <- <-; discriminate).
  destruct (dec_rsp_pdu pdu); intros H; injection H as <- <-; discriminate.
Qed.

(* the largest frame each decoder can wait for (plus, for RTU, the 19 bytes one call may drop) *)
Definition server_bound (p : proto) : N := match p with TCP => 65542 | RTU => 287 end.
Definition client_bound (p : proto) : N := match p with TCP => 65542 | RTU => 65560 end.

Lemma server_dec_bound p buf b r : bytes_ok buf = true -> server_bound p <= len buf -> server_dec p buf = (b, r) -> r <> DNone.
Proof. destruct p; [apply tcp_server_dec_bound|apply rtu_server_dec_buffer_bound]. Qed.
Lemma client_dec_bound p buf b r : bytes_ok buf = true -> client_bound p <= len buf -> client_dec p buf = (b, r) -> r <> DNone.
Proof. destruct p; [apply tcp_client_dec_bound|apply rtu_client_dec_buffer_bound]. Qed.

Lemma server_bound_pos p : 0 < server_bound p. Proof. destruct p; cbn; lia. Qed.
Lemma client_bound_pos p : 0 < client_bound p. Proof. destruct p; cbn; lia. Qed.

(* a server connection: however many requests it serves, its receive buffer stays below bound + chunk *)
Theorem server_buffer_bounded p M n q is st' q' :
  sok q -> chunks_le M q ->
  take_items (server_dec p) n rstate0 q = Some (is, st', q') ->
  len (rbuf st') < server_bound p + M.
Proof.
  intros Hs Hc Ht.
  eapply (items_bounded (server_dec p) (server_bound p) M (server_bound_pos p) (server_dec_total p)
            (seg_suf _ _ (server_dec_seg p)) (server_dec_bound p) n rstate0 q is st' q'); eauto.
  - intros _. cbn. apply server_bound_pos.
  - cbn. pose proof (server_bound_pos p). lia.
Qed.

(* ---- every client history ---- *)
Definition cinv (p : proto) (M : N) (st : cstate) : Prop :=
  clean st /\ bytes_ok (rbuf (rst st)) = true /\ sok (rq st) /\ chunks_le M (rq st)
  /\ len (rbuf (rst st)) < client_bound p + M.

Lemma sok_tail e q : sok (e :: q) -> sok q.
Proof. unfold sok. destruct e; cbn [sdata]; auto. apply bytes_ok_tail. Qed.

Theorem call_buffer_bounded p m M st req bg : cinv p M st -> cinv p M (snd (call p m st req bg)).
Proof.
  intros (Hcl & Hb & Hs & Hc & Hl). pose proof (call_preserves_clean p m st req bg Hcl) as Hcl'.
  split; [exact Hcl'|]. clear Hcl'.
  unfold call. destruct (framed st); cbn [negb]; [|cbn; auto].
  pose proof (client_bound_pos p) as Hpos.
  assert (Hearly : forall w t, bytes_ok (rbuf (rst (upd st (mkR [] (reof (rst st)) (rreadable (rst st)) (rerrored (rst st))) w (rq st) t))) = true
            /\ sok (rq (upd st (mkR [] (reof (rst st)) (rreadable (rst st)) (rerrored (rst st))) w (rq st) t))
            /\ chunks_le M (rq (upd st (mkR [] (reof (rst st)) (rreadable (rst st)) (rerrored (rst st))) w (rq st) t))
            /\ len (rbuf (rst (upd st (mkR [] (reof (rst st)) (rreadable (rst st)) (rerrored (rst st))) w (rq st) t))) < client_bound p + M).
  { intros. cbn. repeat split; auto. lia. }
  match goal with |- context [send ?f ?w ?b] => destruct (send f w b) as [[[sr w1] bg1] pn] end.
  destruct pn; [destruct sr; apply Hearly|].
  destruct sr; try apply Hearly.
  match goal with |- context [next ?d ?s ?q ?b] => destruct (next d s q b) as [[[nr r1] q1] bg2] eqn:Hn end.
  assert (Hnb := next_bounded (client_dec p) (client_bound p) M Hpos (client_dec_total p) (seg_suf _ _ (client_dec_seg p))
              (client_dec_bound p) (rq st) (mkR [] (reof (rst st)) (rreadable (rst st)) (rerrored (rst st))) bg1 nr r1 q1 bg2).
  destruct Hnb as (G1 & G2 & G3 & G4 & G5); auto.
  { intros _. cbn. exact Hpos. }
  { cbn. lia. }
  destruct nr as [[rh rr]|k| | | |]; try (cbn; repeat split; auto; fail).
  - destruct (negb (hdr_eqb _ rh)); [cbn; auto|]. destruct (negb (_ =? _)); [cbn; auto|]. destruct rr; cbn; auto.
  - rewrite (next_unlatch (client_dec p) r1 q1 (Some O) (next_err_latches _ _ _ _ _ _ _ _ Hn)). cbn. auto.
Qed.

Definition op_ok (M : N) (o : op) : Prop :=
  match o with OCall _ _ _ _ _ r => sok r /\ chunks_le M r | _ => True end.

Lemma push_cinv p M st w f r : cinv p M st -> sok r -> chunks_le M r -> cinv p M (push st w f r).
Proof.
  intros (Hcl & Hb & Hs & Hc & Hl) Hr Hcr. unfold cinv, push, clean. cbn [rst rq]. repeat split; auto.
  - unfold sok in *. rewrite sdata_app, bytes_ok_app, Hs, Hr. reflexivity.
  - apply chunks_le_app; assumption.
Qed.

Theorem history_buffer_bounded p m M : forall ops st, cinv p M st -> Forall (op_ok M) ops -> cinv p M (run_ops p m st ops).
Proof.
  induction ops as [|o ops IH]; intros st Hi Hok; [exact Hi|].
  inversion Hok as [|? ? Ho Hos]; subst. unfold run_ops. cbn [fold_left]. apply IH; [|exact Hos].
  destruct o as [t req bg w f r|s|sd].
  - destruct Ho as [Hr Hc]. cbn [run_op].
    destruct t; [rewrite typed_state|]; apply call_buffer_bounded; apply push_cinv; assumption.
  - exact Hi.
  - cbn [run_op]. destruct Hi as (Hcl & Hb & Hs & Hc & Hl). unfold disconnect, push_sd. cbn [framed].
    destruct (negb (framed st)); [repeat split; assumption|].
    cbn [sq]. destruct (shutdown (sq st ++ sd)) as [[r0 q0] dn]. repeat split; assumption.
Qed.

Theorem client_buffer_never_exceeds p m M slave ops : Forall (op_ok M) ops ->
  len (rbuf (rst (run_ops p m (client_new p slave) ops))) < client_bound p + M.
Proof.
  intros Hok. apply (history_buffer_bounded p m M ops (client_new p slave)); [|exact Hok].
  unfold cinv, clean, sok. cbn. repeat split; auto. pose proof (client_bound_pos p). lia.
Qed.
