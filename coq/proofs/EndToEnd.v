(* EndToEnd.v -- what one side emits is a valid frame for the other side (C01 / C02), and the
   encoders never panic behind their size checks (C03 / C09). *)
From Coq Require Import ZArith Lia ZifyBool ZifyNat ZifyN.
From TM Require Import Base Frame Pdu Crc RtuCodec TcpCodec Framed Client Server BaseLemmas Coils Spec
  PduDecode PduEncode PduReencode FramedProofs TcpProofs RtuProofs RtuCarried StreamProofs ClientProofs ServerProofs.
Ltac Zify.zify_post_hook ::= Z.div_mod_to_equations.

Lemma spec_req_pdu_nonempty r : 1 <= len (spec_req_pdu r).
Proof. destruct r; cbn [spec_req_pdu app]; rewrite len_cons; lia. Qed.

(* ---- C01: the frame a client writes is delivered by a server as exactly that request ---- *)
Theorem client_frame_tcp m tid uid r : req_ok r = true -> req_size r <= 253 -> tid < 65536 ->
  tcp_client_enc m (tid, uid) r = Val (tcp_frame tid uid (spec_req_pdu r)).
Proof.
  intros Hok Hsz Ht. destruct (enc_req_spec m r Hok Hsz) as [He Hl].
  unfold tcp_client_enc, req_size_chk, MAX_PDU_SIZE. destruct (N.ltb_spec 253 (req_size r)); [lia|]. cbn [bind].
  unfold u16_len. destruct (N.ltb_spec 65535 (req_size r + 1)); [lia|]. cbn [bind]. rewrite He. cbn [bind].
  unfold tcp_frame. rewrite Hl. reflexivity.
Qed.
Theorem client_frame_rtu m tid uid r : req_ok r = true -> req_size r <= 253 ->
  rtu_client_enc m (tid, uid) r = Val (rtu_frame uid (spec_req_pdu r)).
Proof.
  intros Hok Hsz. destruct (enc_req_spec m r Hok Hsz) as [He Hl].
  unfold rtu_client_enc, req_size_chk, MAX_PDU_SIZE. destruct (N.ltb_spec 253 (req_size r)); [lia|]. cbn [bind].
  rewrite He. reflexivity.
Qed.

Lemma len_word_bytes w : len (word_bytes w) = 2.
Proof. reflexivity. Qed.

Lemma len_spec_req_pdu r : req_size r <= 253 -> len (spec_req_pdu r) = req_size r.
Proof.
  intros Hsz. destruct r; cbn [req_size] in *; cbn [spec_req_pdu word_bytes app];
    rewrite ?len_cons, ?len_app, ?len_nil, ?len_word_bytes, ?len_flat_word_bytes, ?spec_pack_eq, ?len_pack; try lia.
  destruct b; cbn; lia.
Qed.

Theorem request_frame_valid_tcp tid uid r :
  req_size r <= 253 -> canonical_req r = true -> tid < 65536 -> uid < 256 ->
  valid_req_frame (tcp_frame tid uid (spec_req_pdu r)) ((tid, uid), r).
Proof.
  intros Hsz Hc Ht Hu. exists tid, uid, (spec_req_pdu r). split.
  - unfold hdr_ok. pose proof (spec_req_pdu_nonempty r). rewrite (len_spec_req_pdu r Hsz) in *. lia.
  - split; [reflexivity|]. split; [apply dec_req_spec_pdu; assumption|reflexivity].
Qed.

Theorem request_frame_valid_rtu s r :
  req_size r <= 253 -> canonical_req r = true -> rtu_req_supported r = true ->
  valid_rtu_req (rtu_frame s (spec_req_pdu r)) ((0, s), r).
Proof.
  intros Hsz Hc Hs. exists s, (spec_req_pdu r). split; [reflexivity|]. split; [apply req_carried; assumption|].
  split; [apply dec_req_spec_pdu; assumption|reflexivity].
Qed.

(* ---- C02: the frame a server writes is consumed by the client as exactly that result ---- *)
Lemma spec_rsp_pdu_head r : exists t, spec_rsp_pdu r = fc_value (rsp_fc r) :: t.
Proof. destruct r; cbn [spec_rsp_pdu app rsp_fc fc_value]; eauto. Qed.

Theorem dec_rsp_pdu_spec r : rsp_size r <= 253 -> canonical_rsp r = true -> fc_value (rsp_fc r) < 0x80 ->
  dec_rsp_pdu (spec_rsp_pdu r) = Val (RROk (pad_rsp r)).
Proof.
  intros Hsz Hc Hfc. unfold dec_rsp_pdu. destruct (spec_rsp_pdu_head r) as [t Ht]. rewrite Ht. cbn [rd8 bind].
  destruct (N.ltb_spec (fc_value (rsp_fc r)) 128); [|lia]. rewrite <- Ht. rewrite (dec_rsp_spec_pdu r Hsz Hc). reflexivity.
Qed.

Theorem dec_rsp_pdu_exc fc code : fc < 0x80 ->
  dec_rsp_pdu (spec_exc_pdu fc code) = Val (RRExc {| exr_function := fc_new fc; exr_exception := ex_new code |}).
Proof.
  intros Hf. unfold dec_rsp_pdu, spec_exc_pdu. cbn [rd8 bind]. destruct (N.ltb_spec (fc + 128) 128); [lia|].
  rewrite dec_exc_char. destruct (N.ltb_spec (fc + 128) 128); [lia|]. replace (fc + 128 - 128) with fc by lia. reflexivity.
Qed.

Theorem server_frame_tcp m tid uid r : rsp_ok r = true -> rsp_size r <= 253 -> tid < 65536 ->
  tcp_server_enc m (tid, uid) (RROk r) = Val (tcp_frame tid uid (spec_rsp_pdu r)).
Proof.
  intros Hok Hsz Ht. destruct (enc_rsp_spec m r Hok Hsz) as [He Hl].
  unfold tcp_server_enc, rr_size_chk, rsp_size_chk, MAX_PDU_SIZE. destruct (N.ltb_spec 253 (rsp_size r)); [lia|]. cbn [bind].
  unfold u16_len. destruct (N.ltb_spec 65535 (rsp_size r + 1)); [lia|]. cbn [bind enc_rr]. rewrite He. cbn [bind].
  unfold tcp_frame. rewrite Hl. reflexivity.
Qed.
Theorem server_frame_rtu m tid uid r : rsp_ok r = true -> rsp_size r <= 253 ->
  rtu_server_enc m (tid, uid) (RROk r) = Val (rtu_frame uid (spec_rsp_pdu r)).
Proof.
  intros Hok Hsz. destruct (enc_rsp_spec m r Hok Hsz) as [He Hl].
  unfold rtu_server_enc, rr_size_chk, rsp_size_chk, MAX_PDU_SIZE. destruct (N.ltb_spec 253 (rsp_size r)); [lia|]. cbn [bind enc_rr].
  rewrite He. reflexivity.
Qed.
Theorem server_exception_frame_tcp m tid uid f e : fc_value f < 0x80 -> tid < 65536 ->
  tcp_server_enc m (tid, uid) (RRExc {| exr_function := f; exr_exception := e |})
  = Val (tcp_frame tid uid (spec_exc_pdu (fc_value f) (ex_value e))).
Proof.
  intros Hf Ht. unfold tcp_server_enc. cbn [rr_size_chk bind]. unfold u16_len. cbn [bind enc_rr].
  change (65535 <? 2 + 1) with false. cbv iota. cbn [bind]. rewrite (enc_exc_spec m f e Hf). reflexivity.
Qed.
Theorem server_exception_frame_rtu m tid uid f e : fc_value f < 0x80 ->
  rtu_server_enc m (tid, uid) (RRExc {| exr_function := f; exr_exception := e |})
  = Val (rtu_frame uid (spec_exc_pdu (fc_value f) (ex_value e))).
Proof. intros Hf. unfold rtu_server_enc. cbn [rr_size_chk bind enc_rr]. rewrite (enc_exc_spec m f e Hf). reflexivity. Qed.

Lemma len_spec_rsp_pdu r : rsp_size r <= 253 -> len (spec_rsp_pdu r) = rsp_size r.
Proof.
  intros Hsz. destruct r; cbn [rsp_size] in *; cbn [spec_rsp_pdu word_bytes app];
    rewrite ?len_cons, ?len_app, ?len_nil, ?len_word_bytes, ?len_flat_word_bytes, ?spec_pack_eq, ?len_pack; try lia.
  destruct b; cbn; lia.
Qed.

Theorem response_frame_valid_tcp tid uid r :
  rsp_size r <= 253 -> canonical_rsp r = true -> fc_value (rsp_fc r) < 0x80 -> tid < 65536 -> uid < 256 ->
  valid_rsp_frame (tcp_frame tid uid (spec_rsp_pdu r)) ((tid, uid), RROk (pad_rsp r)).
Proof.
  intros Hsz Hc Hfc Ht Hu. exists tid, uid, (spec_rsp_pdu r). split.
  - unfold hdr_ok. rewrite (len_spec_rsp_pdu r Hsz). destruct r; cbn [rsp_size] in *; lia.
  - split; [reflexivity|]. split; [apply dec_rsp_pdu_spec; assumption|reflexivity].
Qed.
Theorem response_frame_valid_rtu s r :
  rsp_size r <= 253 -> canonical_rsp r = true -> fc_value (rsp_fc r) < 0x80 -> rtu_rsp_supported r = true ->
  valid_rtu_rsp (rtu_frame s (spec_rsp_pdu r)) ((0, s), RROk (pad_rsp r)).
Proof.
  intros Hsz Hc Hfc Hs. exists s, (spec_rsp_pdu r). split; [reflexivity|]. split; [apply rsp_carried; assumption|].
  split; [apply dec_rsp_pdu_spec; assumption|reflexivity].
Qed.
Theorem exception_frame_valid_tcp tid uid fc code : fc < 0x80 -> tid < 65536 -> uid < 256 ->
  valid_rsp_frame (tcp_frame tid uid (spec_exc_pdu fc code))
                  ((tid, uid), RRExc {| exr_function := fc_new fc; exr_exception := ex_new code |}).
Proof.
  intros Hf Ht Hu. exists tid, uid, (spec_exc_pdu fc code). split; [unfold hdr_ok; cbn; lia|].
  split; [reflexivity|]. split; [apply dec_rsp_pdu_exc; exact Hf|reflexivity].
Qed.
Theorem exception_frame_valid_rtu s fc code : 1 <= fc -> fc <= 0x2B ->
  valid_rtu_rsp (rtu_frame s (spec_exc_pdu fc code))
                ((0, s), RRExc {| exr_function := fc_new fc; exr_exception := ex_new code |}).
Proof.
  intros H1 H2. exists s, (spec_exc_pdu fc code). split; [reflexivity|]. split; [apply exc_carried; assumption|].
  split; [apply dec_rsp_pdu_exc; lia|reflexivity].
Qed.

(* ---- oversized responses are refused by the server encoder before anything is appended ---- *)
Theorem oversized_response_refused p m h r : 253 < rsp_size r -> server_enc p m h (RROk r) = Fail KInvalidInput.
Proof.
  intros H. destruct p; unfold server_enc, tcp_server_enc, rtu_server_enc, rr_size_chk, rsp_size_chk, MAX_PDU_SIZE;
    destruct (N.ltb_spec 253 (rsp_size r)); try lia; reflexivity.
Qed.

(* ---- the encoders never panic: every debug assertion / checked arithmetic sits behind a size check ---- *)
Lemma enc_req_no_panic m r : req_size r <= 253 -> enc_req m r <> Panic.
Proof.
  intros Hsz. destruct r; cbn [req_size] in Hsz; cbn [enc_req]; try discriminate.
  - pose proof (packed_size_bound bs 247 ltac:(lia)). unfold u16_len, u8_len.
    destruct (N.ltb_spec 65535 (len bs)); [lia|]. destruct (N.ltb_spec 255 (packed_size bs)); [lia|]. discriminate.
  - unfold u16_len, u8_len. destruct (N.ltb_spec 65535 (len ws)); [lia|]. destruct (N.ltb_spec 255 (len ws * 2)); [lia|]. discriminate.
  - unfold u16_len, u8_len. destruct (N.ltb_spec 65535 (len ws)); [lia|]. destruct (N.ltb_spec 255 (len ws * 2)); [lia|]. discriminate.
Qed.
Lemma enc_rsp_no_panic m r : rsp_size r <= 253 -> enc_rsp m r <> Panic.
Proof.
  intros Hsz. destruct r; cbn [rsp_size] in Hsz; cbn [enc_rsp]; try discriminate;
    unfold u8_len;
    repeat match goal with |- context [?a <? ?b] => destruct (N.ltb_spec a b); try lia end; cbn [bind];
    repeat match goal with |- context [?a <? ?b] => destruct (N.ltb_spec a b); try lia end; try discriminate.
  all: unfold packed_size in *; try lia.
Qed.

Theorem client_enc_no_panic p m h r : client_enc p m h r <> Panic.
Proof.
  destruct p; unfold client_enc, tcp_client_enc, rtu_client_enc, req_size_chk, MAX_PDU_SIZE;
    destruct (N.ltb_spec 253 (req_size r)) as [|Hs]; try discriminate; cbn [bind].
  - unfold u16_len. destruct (N.ltb_spec 65535 (req_size r + 1)); [lia|]. cbn [bind].
    pose proof (enc_req_no_panic m r Hs). destruct (enc_req m r); cbn; congruence.
  - pose proof (enc_req_no_panic m r Hs). destruct (enc_req m r); cbn; congruence.
Qed.

Lemma dec_req_fc_lt bs r : dec_req bs = Val r -> fc_value (req_fc r) < 0x80.
Proof.
  intros H. pose proof (req_wf_dec bs) as Hw. destruct (wf_req bs) as [v|] eqn:Hwf; cbn in Hw; [|destruct Hw; congruence].
  assert (v = r) by congruence. subst v. destruct bs as [|fc t]; [discriminate|]. unfold wf_req in Hwf.
  repeat match type of Hwf with
         | (if ?c then _ else _) = _ => destruct c eqn:?
         end;
    try (unfold fixed4 in Hwf; destruct t as [|a1 [|a2 [|q1 [|q2 [|x t]]]]]; inversion Hwf; subst; cbn; lia);
    try (destruct t as [|a1 [|a2 [|q1 [|q2 [|x t]]]]]; try discriminate;
         repeat match type of Hwf with (if ?c then _ else _) = _ => destruct c end; inversion Hwf; subst; cbn; lia);
    try (destruct t; inversion Hwf; subst; cbn; lia);
    try (destruct t as [|a1 [|a2 [|x1 [|x2 [|y1 [|y2 [|z t]]]]]]]; inversion Hwf; subst; cbn; lia);
    try (destruct t as [|a1 [|a2 [|q1 [|q2 [|w1 [|w2 [|n1 [|n2 [|bc data]]]]]]]]]; try discriminate;
         repeat match type of Hwf with (if ?c then _ else _) = _ => destruct c end; inversion Hwf; subst; cbn; lia);
    try (inversion Hwf; subst; cbn; lia); try discriminate.
Qed.

Theorem server_enc_no_panic p m h req rep rr : fc_value (req_fc req) < 0x80 -> reply_of req rep = Some rr ->
  server_enc p m h rr <> Panic.
Proof.
  intros Hfc Hr. destruct rep as [r| |c]; cbn [reply_of] in Hr; try discriminate; injection Hr as <-.
  - destruct p; unfold server_enc, tcp_server_enc, rtu_server_enc, rr_size_chk, rsp_size_chk, MAX_PDU_SIZE;
      destruct (N.ltb_spec 253 (rsp_size r)) as [|Hs]; try discriminate; cbn [bind enc_rr].
    + unfold u16_len. destruct (N.ltb_spec 65535 (rsp_size r + 1)); [lia|]. cbn [bind].
      pose proof (enc_rsp_no_panic m r Hs). destruct (enc_rsp m r); cbn; congruence.
    + pose proof (enc_rsp_no_panic m r Hs). destruct (enc_rsp m r); cbn; congruence.
  - assert (He : enc_exc m {| exr_function := req_fc req; exr_exception := c |} <> Panic).
    { unfold enc_exc. cbn [exr_function exr_exception]. destruct (N.leb_spec 128 (fc_value (req_fc req))); [lia|discriminate]. }
    destruct p; unfold server_enc, tcp_server_enc, rtu_server_enc; cbn [rr_size_chk bind enc_rr].
    + unfold u16_len. change (65535 <? 2 + 1) with false. cbv iota. cbn [bind].
      destruct (enc_exc m _); cbn; congruence.
    + destruct (enc_exc m _); cbn; congruence.
Qed.
