(* Sweep.v -- lifting a boolean check computed over a finite range to a universally
   quantified statement (the only place finite enumeration enters the proofs). *)
From Coq Require Import List NArith Arith Bool Lia.
Import ListNotations.
Open Scope N_scope.

Fixpoint nrange_from (start : N) (cnt : nat) : list N :=
  match cnt with O => [] | S c => start :: nrange_from (N.succ start) c end.
Definition nrange (n : N) : list N := nrange_from 0 (N.to_nat n).

Lemma nrange_from_in : forall cnt start b, start <= b -> b < start + N.of_nat cnt -> In b (nrange_from start cnt).
Proof.
  induction cnt as [|c IH]; intros start b H1 H2.
  - lia.
  - cbn [nrange_from]. destruct (N.eq_dec start b) as [->|Hne]; [left; reflexivity|].
    right. apply IH; lia.
Qed.

Lemma nrange_in b n : b < n -> In b (nrange n).
Proof. intros H. unfold nrange. apply nrange_from_in; lia. Qed.

Lemma sweep (P : N -> bool) (n : N) :
  forallb P (nrange n) = true -> forall b, b < n -> P b = true.
Proof.
  intros H b Hb. rewrite forallb_forall in H. apply H. apply nrange_in. exact Hb.
Qed.

Lemma sweep2 (P : N -> N -> bool) (n m : N) :
  forallb (fun a => forallb (P a) (nrange m)) (nrange n) = true ->
  forall a b, a < n -> b < m -> P a b = true.
Proof.
  intros H a b Ha Hb.
  pose proof (sweep _ _ H a Ha) as H1. cbv beta in H1.
  exact (sweep _ _ H1 b Hb).
Qed.
