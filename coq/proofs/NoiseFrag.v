(* NoiseFrag.v -- resynchronisation after line noise under EVERY fragmentation (property C11, second sentence):
   a valid frame preceded by noise that cannot be mistaken for the start of a frame is delivered, with exactly the
   noise discarded and the bytes after the frame left in place,
     * for up to 18 noise bytes under every composition of the stream into read chunks, and
     * for ANY amount of noise when no read chunk is longer than 18 bytes (in particular byte by byte).
   (One call of the decoder drops at most 19 bytes -- MAX_RETRIES = 20 attempts; a read can add to one byte left
   over from the previous read.)  Generic over a decoder with the three noise facts N1-N3, then instantiated
   for the RTU server and client decoders. *)
From Coq Require Import Lia.
From TM Require Import Base Frame Pdu Crc RtuCodec Framed BaseLemmas FramedProofs RtuProofs StreamProofs.

Section NoiseFrag.
  Context {I : Type}.
  Variable dec : list N -> list N * dres I.
  Variable nz : N -> bool.                       (* noise-valued byte *)
  Variable valid : list N -> I -> Prop.          (* a frame whose first byte is noise-valued too *)
  Hypothesis H1 : forall f i x, valid f i -> dec (f ++ x) = (x, DSome i).
  Hypothesis H2 : forall f i p, valid f i -> proper_prefix p f -> dec p = (p, DNone).
  Hypothesis Hlen2 : forall f i, valid f i -> (2 <= length f)%nat.
  (* N1: a buffer of at most 20 noise bytes is dropped but for its last byte *)
  Hypothesis N1 : forall ms m, forallb nz (ms ++ [m]) = true -> (length ms <= 19)%nat -> dec (ms ++ [m]) = ([m], DNone).
  (* N2: at most 19 noise bytes, then an incomplete frame: the noise is dropped, the fragment kept *)
  Hypothesis N2 : forall ms f i q, valid f i -> forallb nz ms = true -> (length ms <= 19)%nat -> q <> [] -> proper_prefix q f ->
    dec (ms ++ q) = (q, DNone).
  (* N3: at most 19 noise bytes, then the whole frame *)
  Hypothesis N3 : forall ms f i x, valid f i -> forallb nz ms = true -> (length ms <= 19)%nat -> dec (ms ++ f ++ x) = (x, DSome i).

  Lemma next_after_none b b' evs bg : dec b = (b', DNone) ->
    next dec (mkR b false true false) evs bg = next dec (mkR b' false false false) evs bg.
  Proof.
    intros Hd. rewrite (next_eq dec (mkR b false true false)), (next_eq dec (mkR b' false false false)).
    unfold attempt. cbn [rerrored rreadable reof rbuf]. rewrite Hd. reflexivity.
  Qed.

  Lemma next_read b c evs bg : c <> [] ->
    next dec (mkR b false false false) (RData c :: evs) bg = next dec (mkR (b ++ c) false true false) evs bg.
  Proof.
    intros Hc. rewrite (next_eq dec (mkR b false false false)). unfold attempt. cbn [rerrored rreadable rbuf reof].
    destruct c; [congruence|reflexivity].
  Qed.

  Lemma split_last (l : list N) : l <> [] -> exists ms m, l = ms ++ [m].
  Proof. intros H. destruct (exists_last H) as [ms [m ->]]. eauto. Qed.

  Lemma forallb_app_l (a b : list N) : forallb nz (a ++ b) = true -> forallb nz a = true.
  Proof. rewrite forallb_app. intros H. apply andb_prop in H. tauto. Qed.
  Lemma forallb_app_r (a b : list N) : forallb nz (a ++ b) = true -> forallb nz b = true.
  Proof. rewrite forallb_app. intros H. apply andb_prop in H. tauto. Qed.

  Definition short_chunks (cs : list (list N)) : Prop := Forall (fun c : list N => (length c <= 18)%nat) cs.

  Theorem noise_then_frame_any_chunking : forall cs b ns f i x bg,
      valid f i -> forallb nz ns = true -> Forall nonempty cs ->
      b ++ concat cs = ns ++ f ++ x ->
      (length b <= 1)%nat -> (b = [] \/ exists ns', ns = b ++ ns') ->
      ((length ns <= 18)%nat \/ short_chunks cs) ->
      exists b' cs', next dec (mkR b false false false) (datas cs) bg = (NItem i, mkR b' false true false, datas cs', bg)
                     /\ b' ++ concat cs' = x /\ Forall nonempty cs'.
  Proof.
    induction cs as [|c cs IH]; intros b ns f i x bg Hv Hnz Hne Heq Hb1 Hbp Hshort.
    - exfalso. cbn [concat] in Heq. rewrite app_nil_r in Heq. pose proof (Hlen2 f i Hv) as Hl.
      apply (f_equal (@length N)) in Heq. rewrite !app_length in Heq. lia.
    - inversion Hne as [|? ? Hc Hne']; subst. cbn [datas map]. fold (datas cs).
      rewrite (next_read b c (datas cs) bg Hc).
      set (B := b ++ c).
      assert (HeqB : B ++ concat cs = ns ++ f ++ x) by (unfold B; rewrite <- app_assoc; exact Heq).
      assert (HBne : B <> []) by (unfold B; destruct b; [exact Hc|discriminate]).
      (* bound on the noise one decoder call sees *)
      assert (HBlen : short_chunks (c :: cs) -> (length B <= 19)%nat).
      { intros Hs. inversion Hs; subst. unfold B. rewrite app_length. lia. }
      assert (Hshort' : forall ns2 : list N, (length ns2 <= length ns)%nat -> (length ns2 <= 18)%nat \/ short_chunks cs).
      { intros ns2 Hl. destruct Hshort as [Hs|Hs]; [left; lia|right; inversion Hs; assumption]. }
      destruct (app_split B (concat cs) ns (f ++ x) HeqB) as [[y HBy]|Hpp].
      + (* the buffer holds all the remaining noise and y of what follows *)
        assert (Hnslen : (length ns <= 19)%nat).
        { destruct Hshort as [Hs|Hs]; [lia|]. pose proof (HBlen Hs). rewrite HBy, app_length in H. lia. }
        assert (Hy : y ++ concat cs = f ++ x).
        { rewrite HBy, <- app_assoc in HeqB. apply app_inv_head in HeqB. exact HeqB. }
        destruct (app_split y (concat cs) f x Hy) as [[x1 Hyf]|Hyp].
        * (* the whole frame is there *)
          subst y. rewrite <- app_assoc in Hy. apply app_inv_head in Hy.
          exists x1, cs. split; [|split; [exact Hy|exact Hne']].
          rewrite next_eq. unfold attempt. cbn [rerrored rreadable reof rbuf]. rewrite HBy.
          rewrite (N3 ns f i x1 Hv Hnz Hnslen). reflexivity.
        * destruct y as [|y0 y].
          -- (* exactly the noise: all of it is dropped but its last byte *)
             rewrite app_nil_r in HBy. destruct (split_last B HBne) as [ms [m HB]].
             assert (Hd : dec B = ([m], DNone)).
             { rewrite HB. apply N1; [rewrite <- HB, HBy; exact Hnz|].
               apply (f_equal (@length N)) in HB. rewrite app_length in HB. cbn [length] in HB. rewrite HBy in HB. lia. }
             rewrite (next_after_none B [m] (datas cs) bg Hd).
             apply (IH [m] [m] f i x bg Hv).
             ++ rewrite HBy in HB. rewrite HB in Hnz. exact (forallb_app_r _ _ Hnz).
             ++ exact Hne'.
             ++ cbn [app] in Hy. cbn [app]. rewrite Hy. reflexivity.
             ++ cbn. lia.
             ++ right. exists []. reflexivity.
             ++ apply Hshort'. rewrite HBy in HB. apply (f_equal (@length N)) in HB. rewrite app_length in HB. cbn [length] in *. lia.
          -- (* the noise and a fragment of the frame: the noise goes, the fragment stays *)
             assert (Hd : dec B = (y0 :: y, DNone)).
             { rewrite HBy. apply (N2 ns f i (y0 :: y) Hv Hnz Hnslen); [discriminate|exact Hyp]. }
             rewrite (next_after_none B (y0 :: y) (datas cs) bg Hd).
             apply (next_item dec valid H1 H2 cs (y0 :: y) false f i x bg Hv Hne' Hy). intros _. exact Hyp.
      + (* the buffer is still inside the noise *)
        destruct Hpp as [y [Hyne Hns]].
        destruct (split_last B HBne) as [ms [m HB]].
        assert (HBnz : forallb nz B = true) by (rewrite Hns in Hnz; exact (forallb_app_l _ _ Hnz)).
        assert (Hmslen : (length ms <= 19)%nat).
        { apply (f_equal (@length N)) in HB. rewrite app_length in HB. cbn [length] in HB.
          destruct Hshort as [Hs|Hs].
          - apply (f_equal (@length N)) in Hns. rewrite app_length in Hns. destruct y; [congruence|]. cbn [length] in Hns. lia.
          - pose proof (HBlen Hs). lia. }
        assert (Hd : dec B = ([m], DNone)) by (rewrite HB; apply N1; [rewrite <- HB; exact HBnz|exact Hmslen]).
        rewrite (next_after_none B [m] (datas cs) bg Hd).
        apply (IH [m] ([m] ++ y) f i x bg Hv).
        * rewrite Hns, HB, <- app_assoc in Hnz. exact (forallb_app_r _ _ Hnz).
        * exact Hne'.
        * rewrite Hns, HB, <- !app_assoc in HeqB. apply app_inv_head in HeqB. rewrite <- app_assoc. exact HeqB.
        * cbn. lia.
        * right. exists y. reflexivity.
        * apply Hshort'. rewrite Hns, HB, !app_length. cbn [length]. lia.
  Qed.

  (* the two forms the property names *)
  Corollary noise_up_to_18_any_fragmentation cs ns f i x :
      valid f i -> forallb nz ns = true -> (length ns <= 18)%nat -> Forall nonempty cs -> concat cs = ns ++ f ++ x ->
      exists b' cs', next dec rstate0 (datas cs) None = (NItem i, mkR b' false true false, datas cs', None)
                     /\ b' ++ concat cs' = x /\ Forall nonempty cs'.
  Proof.
    intros Hv Hnz Hl Hne Heq. apply (noise_then_frame_any_chunking cs [] ns f i x None Hv Hnz Hne); auto.
  Qed.

  Corollary any_noise_in_short_reads cs ns f i x :
      valid f i -> forallb nz ns = true -> Forall nonempty cs -> short_chunks cs -> concat cs = ns ++ f ++ x ->
      exists b' cs', next dec rstate0 (datas cs) None = (NItem i, mkR b' false true false, datas cs', None)
                     /\ b' ++ concat cs' = x /\ Forall nonempty cs'.
  Proof.
    intros Hv Hnz Hne Hs Heq. apply (noise_then_frame_any_chunking cs [] ns f i x None Hv Hnz Hne); auto.
  Qed.
End NoiseFrag.

(* ---- the three noise facts for the resynchronising loop ---- *)
Section LoopNoise.
  Variable pdu_len : list N -> outcome (option N).
  Hypothesis pdu_len_no_panic : forall b, pdu_len b <> Panic.
  Hypothesis pdu_len_short : forall y, pdu_len [y] = Val None.
  Variable noise : N -> bool.
  Hypothesis noise_invalid : forall a b tl, noise b = true -> exists k, pdu_len (a :: b :: tl) = Fail k.

  Lemma loop_keep_last : forall ms m fuel dr, forallb noise (ms ++ [m]) = true ->
      decode_loop pdu_len (length ms + S fuel) (ms ++ [m]) dr = ([m], dr ++ ms, DNone).
  Proof.
    intros ms m fuel dr Hn. destruct ms as [|a ms].
    - cbn [length Nat.add app decode_loop]. rewrite pdu_len_short, app_nil_r. reflexivity.
    - cbn [app forallb] in Hn. apply andb_prop in Hn. destruct Hn as [_ Hn].
      replace (length (a :: ms) + S fuel)%nat with (S (length ms) + S fuel)%nat by (cbn [length]; lia).
      change ((a :: ms) ++ [m]) with (a :: ms ++ m :: []).
      rewrite (drop_noise pdu_len pdu_len_no_panic noise noise_invalid ms a m [] (S fuel) dr Hn).
      cbn [decode_loop]. rewrite pdu_len_short. reflexivity.
  Qed.

  Lemma loop_noise_then_prefix : forall ms s p q fuel dr,
      forallb noise (ms ++ [s]) = true -> carried pdu_len s p -> q <> [] -> proper_prefix q (rtu_frame s p) ->
      decode_loop pdu_len (length ms + S fuel) (ms ++ q) dr = (q, dr ++ ms, DNone).
  Proof.
    intros ms s p q fuel dr Hn Hc Hq Hp.
    assert (Hqs : exists q', q = s :: q').
    { destruct Hp as [y [_ Hf]]. destruct q as [|q0 q']; [congruence|]. unfold rtu_frame in Hf. cbn [app] in Hf. injection Hf as <- _. eauto. }
    destruct Hqs as [q' ->].
    destruct ms as [|a ms].
    - cbn [length Nat.add app]. rewrite (H2_loop pdu_len pdu_len_no_panic s p (s :: q') fuel dr Hc Hp), app_nil_r. reflexivity.
    - cbn [app forallb] in Hn. apply andb_prop in Hn. destruct Hn as [_ Hn].
      replace (length (a :: ms) + S fuel)%nat with (S (length ms) + S fuel)%nat by (cbn [length]; lia).
      change ((a :: ms) ++ s :: q') with (a :: ms ++ s :: q').
      rewrite (drop_noise pdu_len pdu_len_no_panic noise noise_invalid ms a s q' (S fuel) dr Hn).
      rewrite (H2_loop pdu_len pdu_len_no_panic s p (s :: q') fuel _ Hc Hp). reflexivity.
  Qed.
End LoopNoise.

(* ---- instances ---- *)
Definition noisy_rtu_req (f : list N) (i : hdr * request) : Prop := valid_rtu_req f i /\ is_noise (snd (fst i)) = true.
Definition noisy_rtu_rsp (f : list N) (i : hdr * rsp_result) : Prop := valid_rtu_rsp f i /\ is_noise (snd (fst i)) = true.

Lemma req_pdu_len_short y : req_pdu_len [y] = Val None. Proof. reflexivity. Qed.
Lemma rsp_pdu_len_short y : rsp_pdu_len [y] = Val None. Proof. reflexivity. Qed.

Lemma len_ge2_rtu s p : (2 <= length (rtu_frame s p))%nat.
Proof. unfold rtu_frame. cbn [length]. rewrite app_length, crc2_length. lia. Qed.

Lemma fuel20 (n : nat) : (n <= 19)%nat -> MAX_RETRIES = (n + S (19 - n))%nat.
Proof. unfold MAX_RETRIES. lia. Qed.

Section Server.
  Lemma srv_N1 ms m : forallb is_noise (ms ++ [m]) = true -> (length ms <= 19)%nat -> rtu_server_dec (ms ++ [m]) = ([m], DNone).
  Proof.
    intros Hn Hl. unfold rtu_server_dec, rtu_frame_dec. rewrite (fuel20 _ Hl).
    rewrite (loop_keep_last req_pdu_len req_pdu_len_no_panic req_pdu_len_short is_noise req_noise_invalid ms m _ [] Hn). reflexivity.
  Qed.
  Lemma srv_N2 ms f i q : noisy_rtu_req f i -> forallb is_noise ms = true -> (length ms <= 19)%nat -> q <> [] -> proper_prefix q f ->
    rtu_server_dec (ms ++ q) = (q, DNone).
  Proof.
    intros [(s & pdu & -> & Hc & Hd & Hi) Hs] Hn Hl Hq Hp. unfold rtu_server_dec, rtu_frame_dec. rewrite (fuel20 _ Hl).
    assert (Hns : forallb is_noise (ms ++ [s]) = true).
    { rewrite forallb_app, Hn. cbn. rewrite Hi in Hs. cbn in Hs. rewrite Hs. reflexivity. }
    rewrite (loop_noise_then_prefix req_pdu_len req_pdu_len_no_panic req_pdu_len_short is_noise req_noise_invalid ms s pdu q _ [] Hns Hc Hq Hp). reflexivity.
  Qed.
  Lemma srv_N3 ms f i x : noisy_rtu_req f i -> forallb is_noise ms = true -> (length ms <= 19)%nat ->
    rtu_server_dec (ms ++ f ++ x) = (x, DSome i).
  Proof.
    intros [(s & pdu & -> & Hc & Hd & Hi) Hs] Hn Hl. destruct ms as [|a ms].
    - cbn [app]. apply rtu_server_H1. exists s, pdu. auto.
    - unfold rtu_server_dec, rtu_frame_dec.
      assert (Hns : forallb is_noise ((a :: ms) ++ [s]) = true).
      { rewrite forallb_app, Hn. cbn. rewrite Hi in Hs. cbn in Hs. rewrite Hs. reflexivity. }
      rewrite (noise_then_frame req_pdu_len req_pdu_len_no_panic is_noise req_noise_invalid (a :: ms) s pdu x ltac:(discriminate) Hl Hns Hc).
      rewrite Hd. destruct i as [h r]. cbn in *. subst h. reflexivity.
  Qed.

  Theorem rtu_server_noise_any_fragmentation cs ns f i x :
      noisy_rtu_req f i -> forallb is_noise ns = true -> Forall nonempty cs -> concat cs = ns ++ f ++ x ->
      ((length ns <= 18)%nat \/ short_chunks cs) ->
      exists b' cs', next rtu_server_dec rstate0 (datas cs) None = (NItem i, mkR b' false true false, datas cs', None)
                     /\ b' ++ concat cs' = x /\ Forall nonempty cs'.
  Proof.
    intros Hv Hn Hne Heq Hs.
    assert (A1 : forall f0 i0 x0, noisy_rtu_req f0 i0 -> rtu_server_dec (f0 ++ x0) = (x0, DSome i0)) by (intros f0 i0 x0 [H0 _]; apply rtu_server_H1; exact H0).
    assert (A2 : forall f0 i0 p0, noisy_rtu_req f0 i0 -> proper_prefix p0 f0 -> rtu_server_dec p0 = (p0, DNone)) by (intros f0 i0 p0 [H0 _] Hp0; exact (rtu_server_H2 f0 i0 p0 H0 Hp0)).
    assert (A3 : forall f0 i0, noisy_rtu_req f0 i0 -> (2 <= length f0)%nat) by (intros f0 i0 [(s & pdu & -> & _) _]; apply len_ge2_rtu).
    apply (noise_then_frame_any_chunking rtu_server_dec is_noise noisy_rtu_req A1 A2 A3 srv_N1 srv_N2 srv_N3 cs [] ns f i x None Hv Hn Hne Heq); auto.
  Qed.
End Server.

Section ClientSide.
  Lemma cli_N1 ms m : forallb is_noise (ms ++ [m]) = true -> (length ms <= 19)%nat -> rtu_client_dec (ms ++ [m]) = ([m], DNone).
  Proof.
    intros Hn Hl. unfold rtu_client_dec, rtu_frame_dec. rewrite (fuel20 _ Hl).
    rewrite (loop_keep_last rsp_pdu_len rsp_pdu_len_no_panic rsp_pdu_len_short is_noise rsp_noise_invalid ms m _ [] Hn). reflexivity.
  Qed.
  Lemma cli_N2 ms f i q : noisy_rtu_rsp f i -> forallb is_noise ms = true -> (length ms <= 19)%nat -> q <> [] -> proper_prefix q f ->
    rtu_client_dec (ms ++ q) = (q, DNone).
  Proof.
    intros [(s & pdu & -> & Hc & Hd & Hi) Hs] Hn Hl Hq Hp. unfold rtu_client_dec, rtu_frame_dec. rewrite (fuel20 _ Hl).
    assert (Hns : forallb is_noise (ms ++ [s]) = true).
    { rewrite forallb_app, Hn. cbn. rewrite Hi in Hs. cbn in Hs. rewrite Hs. reflexivity. }
    rewrite (loop_noise_then_prefix rsp_pdu_len rsp_pdu_len_no_panic rsp_pdu_len_short is_noise rsp_noise_invalid ms s pdu q _ [] Hns Hc Hq Hp). reflexivity.
  Qed.
  Lemma cli_N3 ms f i x : noisy_rtu_rsp f i -> forallb is_noise ms = true -> (length ms <= 19)%nat ->
    rtu_client_dec (ms ++ f ++ x) = (x, DSome i).
  Proof.
    intros [(s & pdu & -> & Hc & Hd & Hi) Hs] Hn Hl. destruct ms as [|a ms].
    - cbn [app]. apply rtu_client_H1. exists s, pdu. auto.
    - unfold rtu_client_dec, rtu_frame_dec.
      assert (Hns : forallb is_noise ((a :: ms) ++ [s]) = true).
      { rewrite forallb_app, Hn. cbn. rewrite Hi in Hs. cbn in Hs. rewrite Hs. reflexivity. }
      rewrite (noise_then_frame rsp_pdu_len rsp_pdu_len_no_panic is_noise rsp_noise_invalid (a :: ms) s pdu x ltac:(discriminate) Hl Hns Hc).
      rewrite Hd. destruct i as [h r]. cbn in *. subst h. reflexivity.
  Qed.

  Theorem rtu_client_noise_any_fragmentation cs ns f i x :
      noisy_rtu_rsp f i -> forallb is_noise ns = true -> Forall nonempty cs -> concat cs = ns ++ f ++ x ->
      ((length ns <= 18)%nat \/ short_chunks cs) ->
      exists b' cs', next rtu_client_dec rstate0 (datas cs) None = (NItem i, mkR b' false true false, datas cs', None)
                     /\ b' ++ concat cs' = x /\ Forall nonempty cs'.
  Proof.
    intros Hv Hn Hne Heq Hs.
    assert (A1 : forall f0 i0 x0, noisy_rtu_rsp f0 i0 -> rtu_client_dec (f0 ++ x0) = (x0, DSome i0)) by (intros f0 i0 x0 [H0 _]; apply rtu_client_H1; exact H0).
    assert (A2 : forall f0 i0 p0, noisy_rtu_rsp f0 i0 -> proper_prefix p0 f0 -> rtu_client_dec p0 = (p0, DNone)) by (intros f0 i0 p0 [H0 _] Hp0; exact (rtu_client_H2 f0 i0 p0 H0 Hp0)).
    assert (A3 : forall f0 i0, noisy_rtu_rsp f0 i0 -> (2 <= length f0)%nat) by (intros f0 i0 [(s & pdu & -> & _) _]; apply len_ge2_rtu).
    apply (noise_then_frame_any_chunking rtu_client_dec is_noise noisy_rtu_rsp A1 A2 A3 cli_N1 cli_N2 cli_N3 cs [] ns f i x None Hv Hn Hne Heq); auto.
  Qed.
End ClientSide.
