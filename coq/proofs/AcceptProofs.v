(* AcceptProofs.v -- the accept loop's decision logic (C14) and independence of connections (C18). *)
From Coq Require Import ZArith Lia.
From TM Require Import Base Frame Pdu RtuCodec Framed Client Server BaseLemmas.

(* an event that ends serve / serve_until *)
Definition stops (e : accept_ev) : bool :=
  match e with AConn (SetupErr _) | AConn SetupHang | AAcceptErr _ | AAbort => true | _ => false end.
Definition is_abort (e : accept_ev) : bool := match e with AAbort => true | _ => false end.
Definition script_of (e : accept_ev) : list (list revt) :=
  match e with AConn (SetupService q) => [q] | _ => [] end.
(* [post]: what happens after e -- it matters only while a connection setup hangs: then the abort signal still ends serving *)
Definition result_of (e : accept_ev) (post : list accept_ev) : serve_result :=
  match e with
  | AConn (SetupErr k) | AAcceptErr k => SrvErr k
  | AAbort => SrvAborted
  | AConn SetupHang => if existsb is_abort post then SrvAborted else SrvListening
  | _ => SrvListening
  end.

(* events before the first stopping event are all handled: a task per service, nothing for a rejected
   connection; the first stopping event decides the result; nothing after it is looked at *)
Theorem serve_split : forall pre e post,
  forallb (fun x => negb (stops x)) pre = true -> stops e = true ->
  serve (pre ++ e :: post) = (flat_map script_of pre, result_of e post).
Proof.
  induction pre as [|x pre IH]; intros e post Hpre He.
  - cbn [app flat_map]. destruct e as [[q| |k|]|k|]; try discriminate; reflexivity.
  - cbn [forallb] in Hpre. apply andb_prop in Hpre. destruct Hpre as [Hx Hpre].
    cbn [app flat_map]. destruct x as [[q| |k|]|k|]; try discriminate; cbn [serve script_of app];
      rewrite (IH e post Hpre He); reflexivity.
Qed.

(* the abort signal is honoured even while the accept loop is suspended in a connection setup that never completes *)
Theorem abort_during_hanging_setup : forall pre post1 post2,
  forallb (fun x => negb (stops x)) pre = true ->
  serve (pre ++ AConn SetupHang :: post1 ++ AAbort :: post2) = (flat_map script_of pre, SrvAborted).
Proof.
  intros pre post1 post2 Hpre. rewrite (serve_split pre (AConn SetupHang) (post1 ++ AAbort :: post2) Hpre eq_refl).
  cbn [result_of]. rewrite existsb_app. cbn [existsb is_abort]. rewrite Bool.orb_true_r. reflexivity.
Qed.

Theorem serve_keeps_listening : forall evs,
  forallb (fun x => negb (stops x)) evs = true -> serve evs = (flat_map script_of evs, SrvListening).
Proof.
  induction evs as [|x evs IH]; intros H; [reflexivity|].
  cbn [forallb] in H. apply andb_prop in H. destruct H as [Hx H].
  destruct x as [[q| |k|]|k|]; try discriminate; cbn [serve flat_map script_of app]; rewrite (IH H); reflexivity.
Qed.

(* a connection's error reports depend on that connection's own script only: the total is the sum *)
Theorem serve_reports_app p m a b : serve_reports p m (a ++ b) = serve_reports p m a + serve_reports p m b.
Proof.
  unfold serve_reports. rewrite map_app, fold_left_app.
  generalize (map (fun q => count_reports (serve_conn p m q [] [] [])) b) as l.
  generalize (fold_left N.add (map (fun q => count_reports (serve_conn p m q [] [] [])) a) 0) as x.
  intros x l. revert x. induction l as [|y l IH]; intros x; cbn [fold_left]; [lia|].
  rewrite IH, (IH (0 + y)). lia.
Qed.

(* ---- C18: connections as independent machines ---- *)
(* a schedule is the global arrival order of (connection id, event) *)
Definition schedule := list (N * revt).
Definition events_of (c : N) (s : schedule) : list revt := map snd (filter (fun e => fst e =? c) s).

(* the server as a whole: per connection, what it has received so far; one step delivers one event
   to one connection and touches nothing else *)
Definition gstate := N -> list revt.
Definition gstep (g : gstate) (e : N * revt) : gstate :=
  fun c => if fst e =? c then g c ++ [snd e] else g c.
Definition grun (s : schedule) : gstate := fold_left gstep s (fun _ => []).

Lemma grun_from : forall s g c, fold_left gstep s g c = g c ++ events_of c s.
Proof.
  induction s as [|e s IH]; intros g c; cbn [fold_left events_of filter map]; [rewrite app_nil_r; reflexivity|].
  rewrite IH. unfold gstep, events_of. cbn [filter].
  destruct (fst e =? c); cbn [map]; [rewrite <- app_assoc; reflexivity|reflexivity].
Qed.

(* what connection c has received after the whole schedule is exactly its own events in its own order *)
Theorem grun_projection s c : grun s c = events_of c s.
Proof. unfold grun. rewrite grun_from. reflexivity. Qed.

(* the trace of connection c: its own machine run on its own events with its own service instance *)
Definition conn_trace (p : proto) (m : mode) (svc : N -> list svc_reply) (s : schedule) (c : N) : list tev :=
  serve_conn p m (grun s c) [] [] (svc c).

(* non-interference: traffic of other connections, however interleaved, does not change c's trace *)
Theorem noninterference p m svc s1 s2 c :
  events_of c s1 = events_of c s2 -> conn_trace p m svc s1 c = conn_trace p m svc s2 c.
Proof. intros H. unfold conn_trace. rewrite !grun_projection, H. reflexivity. Qed.

Theorem step_frame g e c : fst e <> c -> gstep g e c = g c.
Proof. intros H. unfold gstep. destruct (N.eqb_spec (fst e) c); [contradiction|reflexivity]. Qed.

(* the service factory: one instance per accepted connection, in accept order *)
Theorem factory_once_per_connection : forall evs,
  forallb (fun x => negb (stops x)) evs = true ->
  length (fst (serve evs)) = length (filter (fun e => match e with AConn (SetupService _) => true | _ => false end) evs).
Proof.
  intros evs H. rewrite (serve_keeps_listening evs H). cbn [fst].
  induction evs as [|x evs IH]; [reflexivity|].
  cbn [forallb] in H. apply andb_prop in H. destruct H as [Hx H].
  destruct x as [[q| |k|]|k|]; cbn [flat_map script_of app filter length]; rewrite ?(IH H); try reflexivity; discriminate.
Qed.
