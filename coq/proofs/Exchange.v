(* Exchange.v -- the composed end-to-end theorem (C01 + C02 + C07 in one statement): the real client's
   call, the bytes it transmits handed to a server connection, the bytes that connection writes handed
   back to the same call.  [e2e_exchange] (model/Run.v) is this composition; it is what an `E2E` case
   line executes, on the model and -- over loopback sockets and a pty -- on the implementation. *)
From Coq Require Import ZArith Lia ZifyBool ZifyNat ZifyN.
From TM Require Import Base Frame Pdu Crc RtuCodec TcpCodec Framed Client Server Text Run BaseLemmas Coils Spec
  PduDecode PduEncode PduReencode FramedProofs TcpProofs RtuProofs RtuCarried StreamProofs FramedMore ClientProofs
  Histories ServerProofs EndToEnd C19_proofs.
Ltac Zify.zify_post_hook ::= Z.div_mod_to_equations.

(* a connected client between two calls: nothing latched, nothing buffered for writing, default
   transport scripts, nothing queued to read *)
Definition idle (st : cstate) : Prop :=
  framed st = true /\ clean st /\ reof (rst st) = false /\ w_default (wio_ st) /\ rq st = [] /\
  next_tid st < 65536 /\ unit_id st < 256.

Definition req_frame (p : proto) (h : hdr) (r : request) : list N :=
  match p with TCP => tcp_frame (fst h) (snd h) (spec_req_pdu r) | RTU => rtu_frame (snd h) (spec_req_pdu r) end.
Definition rsp_frame (p : proto) (h : hdr) (pdu : list N) : list N :=
  match p with TCP => tcp_frame (fst h) (snd h) pdu | RTU => rtu_frame (snd h) pdu end.
Definition req_carried_by (p : proto) (r : request) : bool := match p with TCP => true | RTU => rtu_req_supported r end.
Definition rsp_carried_by (p : proto) (r : response) : bool := match p with TCP => true | RTU => rtu_rsp_supported r end.
Definition exc_carried_by (p : proto) (fc : N) : Prop := match p with TCP => True | RTU => 1 <= fc /\ fc <= 0x2B end.

Lemma served_ext p m : forall is svc w c1 c2, (forall s w', c1 s w' = c2 s w') -> served p m is svc w c1 = served p m is svc w c2.
Proof.
  induction is as [|[h req] is IH]; intros svc w c1 c2 He; cbn [served]; [apply He|]. f_equal.
  destruct (reply_of req _) as [rr|]; [|apply IH; exact He].
  destruct (send _ _ _) as [[[r w1] bg1] pn]. destruct pn; [reflexivity|]. destruct r; try reflexivity.
  f_equal. apply IH; exact He.
Qed.

Lemma rtu_frame_nonempty s pdu : rtu_frame s pdu <> [].
Proof. unfold rtu_frame. discriminate. Qed.
Lemma tcp_frame_nonempty t u pdu : tcp_frame t u pdu <> [].
Proof. rewrite tcp_frame_shape. discriminate. Qed.
Lemma req_frame_nonempty p h r : req_frame p h r <> [].
Proof. destruct p; [apply tcp_frame_nonempty|apply rtu_frame_nonempty]. Qed.
Lemma rsp_frame_nonempty p h pdu : rsp_frame p h pdu <> [].
Proof. destruct p; [apply tcp_frame_nonempty|apply rtu_frame_nonempty]. Qed.

(* ---- the client transmits the spec frame of the request ---- *)
Lemma client_frame p m st r : req_ok r = true -> req_size r <= 253 -> next_tid st < 65536 ->
  client_enc p m (req_hdr p st) r = Val (req_frame p (req_hdr p st) r).
Proof.
  intros Hok Hsz Ht. destruct p; unfold client_enc, req_hdr, req_frame; cbn [fst snd].
  - apply client_frame_tcp; assumption.
  - apply client_frame_rtu; assumption.
Qed.

Lemma req_hdr_reset p st : req_hdr p (reset_acc st) = req_hdr p st.
Proof. reflexivity. Qed.
Lemma req_hdr_push p st q : req_hdr p (push_rq st q) = req_hdr p st.
Proof. reflexivity. Qed.

(* a call that is given nothing to read transmits exactly its frame and is left waiting *)
Lemma probe_call p m st r : idle st -> req_ok r = true -> req_size r <= 253 ->
  accepted (wio_ (snd (call p m (reset_acc st) r None))) = req_frame p (req_hdr p st) r.
Proof.
  intros (Hf & Hc & He & Hw & Hq & Ht & Hu) Hok Hsz.
  unfold call. change (framed (reset_acc st)) with (framed st). rewrite Hf. cbn [negb].
  change (match p with TCP => next_tid (reset_acc st) | RTU => 0 end, unit_id (reset_acc st)) with (req_hdr p st).
  rewrite (client_frame p m st r Hok Hsz Ht).
  change (wio_ (reset_acc st)) with (mkW (wbuf (wio_ st)) (wq (wio_ st)) (fq (wio_ st)) []).
  rewrite (send_default _ (wio_ st) Hw (req_frame_nonempty p _ r)).
  change (rq (reset_acc st)) with (rq st). rewrite Hq.
  change (rst (reset_acc st)) with (rst st). unfold clean in Hc. rewrite He, Hc.
  destruct (rreadable (rst st)); cbn [next rerrored attempt rreadable reof rbuf].
  - rewrite (client_dec_nil p). reflexivity.
  - reflexivity.
Qed.

(* ---- every frame an encoder produces is non-empty (the side condition of [served_default]) ---- *)
Lemma be16_nonempty n : be16 n <> [].
Proof. unfold be16. discriminate. Qed.
Lemma server_enc_nonempty p m h rr f : server_enc p m h rr = Val f -> f <> [].
Proof.
  destruct p; unfold server_enc, tcp_server_enc, rtu_server_enc; intros H.
  - destruct (rr_size_chk rr) as [sz| |]; cbn [bind] in H; try discriminate.
    destruct (u16_len m (sz + 1)) as [l| |]; cbn [bind] in H; try discriminate.
    destruct (enc_rr m rr) as [pdu| |]; cbn [bind] in H; try discriminate.
    injection H as <-. unfold mbap, be16. discriminate.
  - destruct (rr_size_chk rr) as [sz| |]; cbn [bind] in H; try discriminate.
    destruct (enc_rr m rr) as [pdu| |]; cbn [bind] in H; try discriminate.
    injection H as <-. apply rtu_frame_nonempty.
Qed.

(* ---- the server connection fed exactly that frame ---- *)
Lemma server_valid_req p st r : req_size r <= 253 -> canonical_req r = true -> req_carried_by p r = true ->
  next_tid st < 65536 -> unit_id st < 256 ->
  server_valid p (req_frame p (req_hdr p st) r) (req_hdr p st, r).
Proof.
  intros Hsz Hc Hcar Ht Hu. destruct p; unfold server_valid, req_frame, req_hdr; cbn [fst snd].
  - apply request_frame_valid_tcp; assumption.
  - apply request_frame_valid_rtu; assumption.
Qed.

Definition one_trace (p : proto) (m : mode) (h : hdr) (r : request) (rep : svc_reply) : list tev :=
  TCall (snd h) r ::
  match reply_of r rep with
  | None => [TWaiting]
  | Some rr => match server_enc p m h rr with
               | Val f => [TWrote f; TWaiting]
               | Fail k => [TReport k]
               | Panic => [TPanic]
               end
  end.

Lemma serve_one p m st r rep : req_size r <= 253 -> canonical_req r = true -> req_carried_by p r = true ->
  next_tid st < 65536 -> unit_id st < 256 ->
  serve_conn p m [RData (req_frame p (req_hdr p st) r)] [] [] [rep] = one_trace p m (req_hdr p st) r rep.
Proof.
  intros Hsz Hc Hcar Ht Hu. set (fr := req_frame p (req_hdr p st) r). set (h := req_hdr p st).
  unfold serve_conn, process_fuel. cbn [rev_bytes length].
  replace (length fr + 0 + 1 + 2)%nat with (length [fr] + S (length fr + 1))%nat by (cbn [length]; lia).
  change [RData fr] with (datas [fr] ++ []). unfold rstate0.
  rewrite (process_serves p m [fr] [(h, r)] [fr] [] false [] [rep] (mkW [] [] [] []) (S (length fr + 1))).
  - rewrite (served_ext p m [(h, r)] [rep] (mkW [] [] [] []) _ (fun _ _ => [TWaiting])).
    + rewrite served_default.
      * unfold one_trace. cbn [trace_default tl]. destruct (reply_of r rep) as [rr|]; [|reflexivity].
        destruct (server_enc p m h rr); reflexivity.
      * repeat split.
      * intros h0 req0 rr f _ He. eapply server_enc_nonempty; eassumption.
    + intros s w'. apply end_waiting.
  - constructor; [|constructor]. apply server_valid_req; assumption.
  - constructor; [|constructor]. unfold nonempty. apply req_frame_nonempty.
  - cbn [concat app]. rewrite !app_nil_r. reflexivity.
  - reflexivity.
Qed.

(* ---- the reply frame is valid for the client under the request's header ---- *)
Lemma rsp_fc_pad r : rsp_fc (pad_rsp r) = rsp_fc r.
Proof. destruct r; reflexivity. Qed.

Lemma server_frame p m st rsp : rsp_ok rsp = true -> rsp_size rsp <= 253 -> next_tid st < 65536 ->
  server_enc p m (req_hdr p st) (RROk rsp) = Val (rsp_frame p (req_hdr p st) (spec_rsp_pdu rsp)).
Proof.
  intros Hok Hsz Ht. destruct p; unfold server_enc, req_hdr, rsp_frame; cbn [fst snd].
  - apply server_frame_tcp; assumption.
  - apply server_frame_rtu; assumption.
Qed.
Lemma server_exc_frame p m st f e : fc_value f < 0x80 -> next_tid st < 65536 ->
  server_enc p m (req_hdr p st) (RRExc {| exr_function := f; exr_exception := e |})
  = Val (rsp_frame p (req_hdr p st) (spec_exc_pdu (fc_value f) (ex_value e))).
Proof.
  intros Hf Ht. destruct p; unfold server_enc, req_hdr, rsp_frame; cbn [fst snd].
  - apply server_exception_frame_tcp; assumption.
  - apply server_exception_frame_rtu; assumption.
Qed.

Lemma client_valid_rsp p st rsp : rsp_size rsp <= 253 -> canonical_rsp rsp = true -> fc_value (rsp_fc rsp) < 0x80 ->
  rsp_carried_by p rsp = true -> next_tid st < 65536 -> unit_id st < 256 ->
  client_valid p (rsp_frame p (req_hdr p st) (spec_rsp_pdu rsp)) (req_hdr p st, RROk (pad_rsp rsp)).
Proof.
  intros Hsz Hc Hfc Hcar Ht Hu. destruct p; unfold client_valid, rsp_frame, req_hdr; cbn [fst snd].
  - apply response_frame_valid_tcp; assumption.
  - apply response_frame_valid_rtu; assumption.
Qed.
Lemma client_valid_exc p st fc code : fc < 0x80 -> exc_carried_by p fc -> next_tid st < 65536 -> unit_id st < 256 ->
  client_valid p (rsp_frame p (req_hdr p st) (spec_exc_pdu fc code))
               (req_hdr p st, RRExc {| exr_function := fc_new fc; exr_exception := ex_new code |}).
Proof.
  intros Hfc Hcar Ht Hu. destruct p; unfold client_valid, rsp_frame, req_hdr; cbn [fst snd].
  - apply exception_frame_valid_tcp; assumption.
  - destruct Hcar. apply exception_frame_valid_rtu; assumption.
Qed.

Lemma match_nonempty {A B} (l : list A) (a b : B) : l <> [] -> match l with [] => a | _ :: _ => b end = b.
Proof. destruct l; [congruence|reflexivity]. Qed.

Lemma req_fc_lt r : req_size r <= 253 -> canonical_req r = true -> fc_value (req_fc r) < 0x80.
Proof. intros Hsz Hc. eapply dec_req_fc_lt. apply dec_req_spec_pdu; eassumption. Qed.

(* the second phase: the same call, now with the server's reply frame to read: its result, and the
   state it leaves -- idle again, transaction id advanced, nothing left unread *)
Definition tid_next (p : proto) (st : cstate) : N := match p with TCP => (next_tid st + 1) mod 65536 | RTU => next_tid st end.

Lemma final_call_full p m st r f rr : idle st -> req_ok r = true -> req_size r <= 253 ->
  client_valid p f (req_hdr p st, rr) -> fc_value (rr_fc rr) = fc_value (req_fc r) ->
  call p m (push_rq (reset_acc st) [RData f]) r None =
  (match rr with RROk x => CROk x | RRExc e => CRExc (exr_exception e) end,
   mkC true (mkR [] false true false) (mkW [] [] [] (req_frame p (req_hdr p st) r)) [] (sq st) (tid_next p st) (unit_id st) (shutdowns st)).
Proof.
  intros (Hf & Hc & He & Hw & Hq & Ht & Hu) Hok Hsz Hv Hfc.
  unfold call. change (framed (push_rq (reset_acc st) [RData f])) with (framed st). rewrite Hf. cbn [negb].
  change (match p with TCP => next_tid (push_rq (reset_acc st) [RData f]) | RTU => 0 end, unit_id (push_rq (reset_acc st) [RData f])) with (req_hdr p st).
  rewrite (client_frame p m st r Hok Hsz Ht).
  change (wio_ (push_rq (reset_acc st) [RData f])) with (mkW (wbuf (wio_ st)) (wq (wio_ st)) (fq (wio_ st)) []).
  rewrite (send_default _ (wio_ st) Hw (req_frame_nonempty p _ r)).
  change (rq (push_rq (reset_acc st) [RData f])) with (rq st ++ [RData f]). rewrite Hq. cbn [app].
  change (rst (push_rq (reset_acc st) [RData f])) with (rst st). unfold clean in Hc. rewrite He, Hc.
  destruct (next_item (client_dec p) (client_valid p) (client_H1 p) (client_H2 p) [f] [] (rreadable (rst st)) f (req_hdr p st, rr) [] None Hv)
    as (b' & cs' & Hn & Hr & Hne).
  { constructor; [|constructor]. unfold nonempty. eapply client_valid_nonempty; exact Hv. }
  { cbn [concat app]. reflexivity. }
  { intros _. exists f. split; [eapply client_valid_nonempty; exact Hv|reflexivity]. }
  change [RData f] with (datas [f]). rewrite Hn.
  assert (b' = [] /\ cs' = []) as [-> ->].
  { destruct b' as [|x b']; [|discriminate Hr]. split; [reflexivity|]. cbn [app] in Hr.
    destruct cs' as [|c cs']; [reflexivity|]. inversion Hne as [|? ? Hc0 _]; subst. destruct c; [unfold nonempty in Hc0; congruence|discriminate Hr]. }
  replace (hdr_eqb (req_hdr p st) (req_hdr p st)) with true by (symmetry; apply hdr_eqb_eq; reflexivity). cbn [negb].
  rewrite <- Hfc, N.eqb_refl. cbn [negb].
  unfold upd, tid_next. change (framed (push_rq (reset_acc st) (datas [f]))) with (framed st). rewrite Hf.
  destruct rr; destruct p; reflexivity.
Qed.

Lemma final_call p m st r f rr : idle st -> req_ok r = true -> req_size r <= 253 ->
  client_valid p f (req_hdr p st, rr) -> fc_value (rr_fc rr) = fc_value (req_fc r) ->
  fst (call p m (push_rq (reset_acc st) [RData f]) r None) = match rr with RROk x => CROk x | RRExc e => CRExc (exr_exception e) end.
Proof. intros. rewrite (final_call_full p m st r f rr) by assumption. reflexivity. Qed.

Definition after (p : proto) (st : cstate) (r : request) : cstate :=
  mkC true (mkR [] false true false) (mkW [] [] [] (req_frame p (req_hdr p st) r)) [] (sq st) (tid_next p st) (unit_id st) (shutdowns st).

Lemma after_idle p st r : idle st -> idle (after p st r).
Proof.
  intros (Hf & Hc & He & Hw & Hq & Ht & Hu). unfold idle, after, clean, w_default. cbn. repeat split; try reflexivity; try assumption.
  unfold tid_next. destruct p; [lia|assumption].
Qed.

(* ================= the composed theorems ================= *)
(* A request that fits, answered by the service with a response of its kind that fits: the service is
   invoked exactly once with the same slave id and an equal request, and the caller gets the value the
   service produced (bit data padded to whole bytes). *)
Theorem exchange_response p m st r rsp :
  idle st -> req_ok r = true -> req_size r <= 253 -> canonical_req r = true -> req_carried_by p r = true ->
  rsp_ok rsp = true -> rsp_size rsp <= 253 -> canonical_rsp rsp = true -> rsp_carried_by p rsp = true ->
  fc_value (rsp_fc rsp) = fc_value (req_fc r) ->
  e2e_exchange p m st false r [SReply rsp] = (inl (CROk (pad_rsp rsp)), [TCall (unit_id st) r], after p st r).
Proof.
  intros Hi Hok Hsz Hc Hcar Hrok Hrsz Hrc Hrcar Hfc.
  pose proof Hi as (Hf & Hcl & He & Hw & Hq & Ht & Hu).
  pose proof (req_fc_lt r Hsz Hc) as Hlt.
  unfold e2e_exchange. rewrite (probe_call p m st r Hi Hok Hsz).
  rewrite (match_nonempty _ _ _ (req_frame_nonempty p (req_hdr p st) r)).
  rewrite (serve_one p m st r (SReply rsp) Hsz Hc Hcar Ht Hu).
  unfold one_trace. cbn [reply_of]. rewrite (server_frame p m st rsp Hrok Hrsz Ht).
  cbn [map tev_wrote concat app filter tev_is_call]. rewrite app_nil_r.
  rewrite (match_nonempty _ _ _ (rsp_frame_nonempty p (req_hdr p st) (spec_rsp_pdu rsp))).
  rewrite (final_call_full p m st r _ (RROk (pad_rsp rsp)) Hi Hok Hsz (client_valid_rsp p st rsp Hrsz Hrc ltac:(lia) Hrcar Ht Hu)).
  - reflexivity.
  - cbn [rr_fc]. rewrite rsp_fc_pad. exact Hfc.
Qed.

(* ... answered by the service with an exception: the caller gets the exception with the same numeric code *)
Theorem exchange_exception p m st r c :
  idle st -> req_ok r = true -> req_size r <= 253 -> canonical_req r = true -> req_carried_by p r = true ->
  exc_carried_by p (fc_value (req_fc r)) -> ex_value c < 256 ->
  e2e_exchange p m st false r [SExc c] = (inl (CRExc (ex_new (ex_value c))), [TCall (unit_id st) r], after p st r)
  /\ ex_value (ex_new (ex_value c)) = ex_value c.
Proof.
  intros Hi Hok Hsz Hc Hcar Hxc Hcv.
  pose proof Hi as (Hf & Hcl & He & Hw & Hq & Ht & Hu).
  pose proof (req_fc_lt r Hsz Hc) as Hlt.
  unfold e2e_exchange. rewrite (probe_call p m st r Hi Hok Hsz).
  rewrite (match_nonempty _ _ _ (req_frame_nonempty p (req_hdr p st) r)).
  rewrite (serve_one p m st r (SExc c) Hsz Hc Hcar Ht Hu).
  unfold one_trace. cbn [reply_of]. rewrite (server_exc_frame p m st (req_fc r) c Hlt Ht).
  cbn [map tev_wrote concat app filter tev_is_call]. rewrite app_nil_r.
  rewrite (match_nonempty _ _ _ (rsp_frame_nonempty p (req_hdr p st) _)).
  split; [|apply ex_roundtrip; exact Hcv].
  rewrite (final_call_full p m st r _ _ Hi Hok Hsz (client_valid_exc p st (fc_value (req_fc r)) (ex_value c) Hlt Hxc Ht Hu)).
  - reflexivity.
  - cbn [rr_fc exr_function]. apply fc_roundtrip. lia.
Qed.

(* ... declined by the service: invoked once, nothing written, the caller keeps waiting *)
Theorem exchange_declined p m st r :
  idle st -> req_ok r = true -> req_size r <= 253 -> canonical_req r = true -> req_carried_by p r = true ->
  exists st', e2e_exchange p m st false r [SDecline] = (inl CRWait, [TCall (unit_id st) r], st').
Proof.
  intros Hi Hok Hsz Hc Hcar.
  pose proof Hi as (Hf & Hcl & He & Hw & Hq & Ht & Hu).
  unfold e2e_exchange. rewrite (probe_call p m st r Hi Hok Hsz).
  rewrite (match_nonempty _ _ _ (req_frame_nonempty p (req_hdr p st) r)).
  rewrite (serve_one p m st r SDecline Hsz Hc Hcar Ht Hu).
  unfold one_trace. cbn [reply_of map tev_wrote concat app filter tev_is_call].
  destruct (call p m _ r None) as [res st2] eqn:Hcall. exists st2. cbn [snd].
  assert (H : fst (call p m (push_rq (reset_acc st) []) r None) = CRWait).
  { unfold call. change (framed (push_rq (reset_acc st) [])) with (framed st). rewrite Hf. cbn [negb].
    change (match p with TCP => next_tid (push_rq (reset_acc st) []) | RTU => 0 end, unit_id (push_rq (reset_acc st) [])) with (req_hdr p st).
    rewrite (client_frame p m st r Hok Hsz Ht).
    change (wio_ (push_rq (reset_acc st) [])) with (mkW (wbuf (wio_ st)) (wq (wio_ st)) (fq (wio_ st)) []).
    rewrite (send_default _ (wio_ st) Hw (req_frame_nonempty p _ r)).
    change (rq (push_rq (reset_acc st) [])) with (rq st ++ []). rewrite Hq. cbn [app].
    change (rst (push_rq (reset_acc st) [])) with (rst st). unfold clean in Hcl. rewrite He, Hcl.
    destruct (rreadable (rst st)); cbn [next rerrored attempt rreadable reof rbuf]; [rewrite (client_dec_nil p)|]; reflexivity. }
  rewrite Hcall in H. cbn [fst] in H. subst res. reflexivity.
Qed.

(* ---- any sequence of exchanges on one client context ---- *)
Inductive answer := AResp (rsp : response) | AExc (c : exception_code).
Definition svc_of (a : answer) : svc_reply := match a with AResp r => SReply r | AExc c => SExc c end.
Definition ok_exchange (p : proto) (x : request * answer) : Prop :=
  req_ok (fst x) = true /\ req_size (fst x) <= 253 /\ canonical_req (fst x) = true /\ req_carried_by p (fst x) = true /\
  match snd x with
  | AResp rsp => rsp_ok rsp = true /\ rsp_size rsp <= 253 /\ canonical_rsp rsp = true /\ rsp_carried_by p rsp = true /\
                 fc_value (rsp_fc rsp) = fc_value (req_fc (fst x))
  | AExc c => exc_carried_by p (fc_value (req_fc (fst x))) /\ ex_value c < 256
  end.
Definition expected (a : answer) : call_result :=
  match a with AResp rsp => CROk (pad_rsp rsp) | AExc c => CRExc (ex_new (ex_value c)) end.

Fixpoint exchanges (p : proto) (m : mode) (st : cstate) (xs : list (request * answer))
  : list ((call_result + typed_result) * list tev) :=
  match xs with
  | [] => []
  | (r, a) :: xs' => let '(res, calls, st') := e2e_exchange p m st false r [svc_of a] in (res, calls) :: exchanges p m st' xs'
  end.

(* every exchange of the sequence: the service is invoked exactly once with an equal request under the
   client's slave id, and the caller gets exactly what the service produced -- whatever came before *)
Theorem exchanges_correct p m : forall xs st, idle st -> Forall (ok_exchange p) xs ->
  exchanges p m st xs = map (fun x => (inl (expected (snd x)), [TCall (unit_id st) (fst x)])) xs.
Proof.
  induction xs as [|[r a] xs IH]; intros st Hi Hall; [reflexivity|].
  inversion Hall as [|? ? (Hok & Hsz & Hc & Hcar & Ha) Hrest]; subst. cbn [fst snd] in *.
  cbn [exchanges map fst snd]. destruct a as [rsp|c]; cbn [svc_of expected].
  - destruct Ha as (Hrok & Hrsz & Hrc & Hrcar & Hfc).
    rewrite (exchange_response p m st r rsp Hi Hok Hsz Hc Hcar Hrok Hrsz Hrc Hrcar Hfc). f_equal.
    rewrite (IH (after p st r) (after_idle p st r Hi) Hrest). reflexivity.
  - destruct Ha as (Hxc & Hcv).
    destruct (exchange_exception p m st r c Hi Hok Hsz Hc Hcar Hxc Hcv) as [He _]. rewrite He. f_equal.
    rewrite (IH (after p st r) (after_idle p st r Hi) Hrest). reflexivity.
Qed.

Lemma client_new_idle p s : s < 256 -> idle (client_new p s).
Proof. intros Hs. unfold idle, client_new, clean, w_default. cbn. repeat split; try reflexivity; try assumption; try lia. Qed.

(* ================= the same under EVERY fragmentation in both directions ================= *)
(* a chunker cuts a byte string into non-empty read chunks; the transit may use any *)
Definition chunker := list N -> list (list N).
Definition good_chunker (k : chunker) : Prop := forall l, concat (k l) = l /\ Forall nonempty (k l).

Definition e2e_chunked (p : proto) (m : mode) (st : cstate) (req : request) (svc : list svc_reply) (k1 k2 : chunker)
  : call_result * list tev * cstate :=
  let st0 := reset_acc st in
  let sent := accepted (wio_ (snd (call p m st0 req None))) in
  let tr := serve_conn p m (datas (k1 sent)) [] [] svc in
  let reply := concat (map tev_wrote tr) in
  let st1 := push_rq st0 (datas (k2 reply)) in
  let '(res, st2) := call p m st1 req None in (res, filter tev_is_call tr, st2).

Lemma rev_bytes_datas cs : rev_bytes (datas cs) = length (concat cs).
Proof. induction cs as [|c cs IH]; [reflexivity|]. cbn [datas map rev_bytes concat]. rewrite app_length. unfold datas in IH. rewrite IH. reflexivity. Qed.

Lemma serve_one_chunked p m st r rep cs : req_size r <= 253 -> canonical_req r = true -> req_carried_by p r = true ->
  next_tid st < 65536 -> unit_id st < 256 ->
  concat cs = req_frame p (req_hdr p st) r -> Forall nonempty cs ->
  serve_conn p m (datas cs) [] [] [rep] = one_trace p m (req_hdr p st) r rep.
Proof.
  intros Hsz Hc Hcar Ht Hu Hcat Hne. set (fr := req_frame p (req_hdr p st) r) in *. set (h := req_hdr p st).
  unfold serve_conn, process_fuel. rewrite rev_bytes_datas, Hcat.
  set (n := length (datas cs)).
  replace (length fr + n + 2)%nat with (length [fr] + S (length fr + n))%nat by (cbn [length]; lia).
  rewrite <- (app_nil_r (datas cs)). unfold rstate0.
  rewrite (process_serves p m [fr] [(h, r)] cs [] false [] [rep] (mkW [] [] [] []) (S (length fr + n))).
  - rewrite (served_ext p m [(h, r)] [rep] (mkW [] [] [] []) _ (fun _ _ => [TWaiting])).
    + rewrite served_default.
      * unfold one_trace. cbn [trace_default tl]. destruct (reply_of r rep) as [rr|]; [|reflexivity].
        destruct (server_enc p m h rr); reflexivity.
      * repeat split.
      * intros h0 req0 rr f _ He. eapply server_enc_nonempty; eassumption.
    + intros s w'. apply end_waiting.
  - constructor; [|constructor]. apply server_valid_req; assumption.
  - exact Hne.
  - cbn [concat app]. rewrite app_nil_r. exact Hcat.
  - reflexivity.
Qed.

Lemma final_call_chunked p m st r f rr cs : idle st -> req_ok r = true -> req_size r <= 253 ->
  client_valid p f (req_hdr p st, rr) -> fc_value (rr_fc rr) = fc_value (req_fc r) ->
  concat cs = f -> Forall nonempty cs ->
  call p m (push_rq (reset_acc st) (datas cs)) r None =
  (match rr with RROk x => CROk x | RRExc e => CRExc (exr_exception e) end, after p st r).
Proof.
  intros (Hf & Hc & He & Hw & Hq & Ht & Hu) Hok Hsz Hv Hfc Hcat Hne0.
  unfold call. change (framed (push_rq (reset_acc st) (datas cs))) with (framed st). rewrite Hf. cbn [negb].
  change (match p with TCP => next_tid (push_rq (reset_acc st) (datas cs)) | RTU => 0 end, unit_id (push_rq (reset_acc st) (datas cs))) with (req_hdr p st).
  rewrite (client_frame p m st r Hok Hsz Ht).
  change (wio_ (push_rq (reset_acc st) (datas cs))) with (mkW (wbuf (wio_ st)) (wq (wio_ st)) (fq (wio_ st)) []).
  rewrite (send_default _ (wio_ st) Hw (req_frame_nonempty p _ r)).
  change (rq (push_rq (reset_acc st) (datas cs))) with (rq st ++ datas cs). rewrite Hq. cbn [app].
  change (rst (push_rq (reset_acc st) (datas cs))) with (rst st). unfold clean in Hc. rewrite He, Hc.
  destruct (next_item (client_dec p) (client_valid p) (client_H1 p) (client_H2 p) cs [] (rreadable (rst st)) f (req_hdr p st, rr) [] None Hv Hne0)
    as (b' & cs' & Hn & Hr & Hne).
  { cbn [app]. rewrite app_nil_r. exact Hcat. }
  { intros _. exists f. split; [eapply client_valid_nonempty; exact Hv|reflexivity]. }
  rewrite Hn.
  assert (b' = [] /\ cs' = []) as [-> ->].
  { destruct b' as [|x b']; [|discriminate Hr]. split; [reflexivity|]. cbn [app] in Hr.
    destruct cs' as [|c cs']; [reflexivity|]. inversion Hne as [|? ? Hc0 _]; subst. destruct c; [unfold nonempty in Hc0; congruence|discriminate Hr]. }
  replace (hdr_eqb (req_hdr p st) (req_hdr p st)) with true by (symmetry; apply hdr_eqb_eq; reflexivity). cbn [negb].
  rewrite <- Hfc, N.eqb_refl. cbn [negb].
  unfold upd, tid_next, after. change (framed (push_rq (reset_acc st) (datas cs))) with (framed st). rewrite Hf.
  destruct rr; destruct p; reflexivity.
Qed.

Theorem exchange_response_any_fragmentation p m st r rsp k1 k2 :
  good_chunker k1 -> good_chunker k2 ->
  idle st -> req_ok r = true -> req_size r <= 253 -> canonical_req r = true -> req_carried_by p r = true ->
  rsp_ok rsp = true -> rsp_size rsp <= 253 -> canonical_rsp rsp = true -> rsp_carried_by p rsp = true ->
  fc_value (rsp_fc rsp) = fc_value (req_fc r) ->
  e2e_chunked p m st r [SReply rsp] k1 k2 = (CROk (pad_rsp rsp), [TCall (unit_id st) r], after p st r).
Proof.
  intros Hk1 Hk2 Hi Hok Hsz Hc Hcar Hrok Hrsz Hrc Hrcar Hfc.
  pose proof Hi as (Hf & Hcl & He & Hw & Hq & Ht & Hu).
  pose proof (req_fc_lt r Hsz Hc) as Hlt.
  unfold e2e_chunked. rewrite (probe_call p m st r Hi Hok Hsz).
  destruct (Hk1 (req_frame p (req_hdr p st) r)) as [Hc1 Hn1].
  rewrite (serve_one_chunked p m st r (SReply rsp) _ Hsz Hc Hcar Ht Hu Hc1 Hn1).
  unfold one_trace. cbn [reply_of]. rewrite (server_frame p m st rsp Hrok Hrsz Ht).
  cbn [map tev_wrote concat app filter tev_is_call]. rewrite app_nil_r.
  destruct (Hk2 (rsp_frame p (req_hdr p st) (spec_rsp_pdu rsp))) as [Hc2 Hn2].
  rewrite (final_call_chunked p m st r _ (RROk (pad_rsp rsp)) _ Hi Hok Hsz (client_valid_rsp p st rsp Hrsz Hrc ltac:(lia) Hrcar Ht Hu)); [reflexivity| |exact Hc2|exact Hn2].
  cbn [rr_fc]. rewrite rsp_fc_pad. exact Hfc.
Qed.

Theorem exchange_exception_any_fragmentation p m st r c k1 k2 :
  good_chunker k1 -> good_chunker k2 ->
  idle st -> req_ok r = true -> req_size r <= 253 -> canonical_req r = true -> req_carried_by p r = true ->
  exc_carried_by p (fc_value (req_fc r)) -> ex_value c < 256 ->
  e2e_chunked p m st r [SExc c] k1 k2 = (CRExc (ex_new (ex_value c)), [TCall (unit_id st) r], after p st r).
Proof.
  intros Hk1 Hk2 Hi Hok Hsz Hc Hcar Hxc Hcv.
  pose proof Hi as (Hf & Hcl & He & Hw & Hq & Ht & Hu).
  pose proof (req_fc_lt r Hsz Hc) as Hlt.
  unfold e2e_chunked. rewrite (probe_call p m st r Hi Hok Hsz).
  destruct (Hk1 (req_frame p (req_hdr p st) r)) as [Hc1 Hn1].
  rewrite (serve_one_chunked p m st r (SExc c) _ Hsz Hc Hcar Ht Hu Hc1 Hn1).
  unfold one_trace. cbn [reply_of]. rewrite (server_exc_frame p m st (req_fc r) c Hlt Ht).
  cbn [map tev_wrote concat app filter tev_is_call]. rewrite app_nil_r.
  destruct (Hk2 (rsp_frame p (req_hdr p st) (spec_exc_pdu (fc_value (req_fc r)) (ex_value c)))) as [Hc2 Hn2].
  rewrite (final_call_chunked p m st r _ _ _ Hi Hok Hsz (client_valid_exc p st (fc_value (req_fc r)) (ex_value c) Hlt Hxc Ht Hu)); [reflexivity| |exact Hc2|exact Hn2].
  cbn [rr_fc exr_function]. apply fc_roundtrip. lia.
Qed.

(* non-vacuity: byte-wise delivery is a good chunker, and so is delivery in one piece *)
Definition bytewise : chunker := map (fun b => [b]).
Definition whole : chunker := fun l => match l with [] => [] | _ => [l] end.
Lemma bytewise_good : good_chunker bytewise.
Proof. intros l. induction l as [|x l [IH1 IH2]]; [split; [reflexivity|constructor]|]. split; [cbn; f_equal; exact IH1|constructor; [discriminate|exact IH2]]. Qed.
Lemma whole_good : good_chunker whole.
Proof. intros [|x l]; [split; [reflexivity|constructor]|]. split; [cbn; rewrite app_nil_r; reflexivity|constructor; [discriminate|constructor]]. Qed.
