(* FramedProofs.v -- the generic fragmentation theorem for the framed read half:
   if a decoder (H1) turns a complete frame followed by anything into its item leaving exactly
   the rest, and (H2) leaves every proper prefix of a frame untouched yielding nothing, then for
   EVERY composition of the byte stream into non-empty read chunks [next] delivers the frame's
   item and what remains (buffer ++ unread chunks) is exactly the rest of the stream. *)
From Coq Require Import ZArith Lia.
From TM Require Import Base RtuCodec Framed.

Definition proper_prefix (p f : list N) := exists y, y <> [] /\ f = p ++ y.
Definition datas (cs : list (list N)) : list revt := map RData cs.
Definition nonempty (c : list N) := c <> [].

Lemma app_split (b y f z : list N) : b ++ y = f ++ z -> (exists x, b = f ++ x) \/ proper_prefix b f.
Proof.
  revert f. induction b as [|a b IH]; intros f Hq.
  - destruct f as [|a' f].
    + left. exists []. reflexivity.
    + right. exists (a' :: f). split; [discriminate|reflexivity].
  - destruct f as [|a' f].
    + left. exists (a :: b). reflexivity.
    + cbn in Hq. injection Hq as -> Hq. destruct (IH _ Hq) as [[x ->]|[y' [Hy ->]]].
      * left. exists x. reflexivity.
      * right. exists y'. split; [assumption|reflexivity].
Qed.

Lemma proper_prefix_not_whole p f : proper_prefix p f -> p <> f.
Proof.
  intros [y [Hy Hf]] ->. apply (f_equal (@length N)) in Hf. rewrite app_length in Hf.
  destruct y; [congruence|cbn in Hf; lia].
Qed.

Section Frag.
  Context {I : Type}.
  Variable dec : list N -> list N * dres I.

  Lemma next_eq st evs bg : next dec st evs bg =
    if rerrored st then (NEnd, mkR (rbuf st) (reof st) false false, evs, bg) else
    match attempt dec st with
    | inl (r, st') => (r, st', evs, bg)
    | inr st' =>
        match evs with
        | [] => (NWait, st', [], bg)
        | RPend :: evs' =>
            match spend bg with
            | None => (NAbandon, st', evs', bg)
            | Some bg' => next dec st' evs' bg'
            end
        | RErr k :: evs' => (NErr k, mkR (rbuf st') (reof st') (rreadable st') true, evs', bg)
        | REof :: evs' | RData [] :: evs' =>
            if reof st' then (NEnd, st', evs', bg)
            else next dec (mkR (rbuf st') true true false) evs' bg
        | RData c :: evs' => next dec (mkR (rbuf st' ++ c) false true false) evs' bg
        end
    end.
  Proof. destruct evs; reflexivity. Qed.

  Variable valid : list N -> I -> Prop.
  Hypothesis H1 : forall f i x, valid f i -> dec (f ++ x) = (x, DSome i).
  Hypothesis H2 : forall f i p, valid f i -> proper_prefix p f -> dec p = (p, DNone).

  (* general form: any further events [tl] after the chunks are left untouched *)
  Lemma next_item_tl : forall cs b rd f i rest bg tl,
      valid f i -> Forall nonempty cs ->
      b ++ concat cs = f ++ rest ->
      (rd = false -> proper_prefix b f) ->
      exists b' cs', next dec (mkR b false rd false) (datas cs ++ tl) bg = (NItem i, mkR b' false true false, datas cs' ++ tl, bg)
                     /\ b' ++ concat cs' = rest /\ Forall nonempty cs'.
  Proof.
    induction cs as [|c cs IH]; intros b rd f i rest bg tl Hv Hne Heq Hinv.
    - cbn [concat] in Heq. rewrite app_nil_r in Heq. subst b.
      destruct rd.
      + exists rest, []. rewrite next_eq. unfold attempt. cbn [rerrored rreadable reof rbuf].
        rewrite (H1 f i rest Hv). cbn. rewrite app_nil_r. auto.
      + destruct (Hinv eq_refl) as [y [Hy Hf]]. exfalso. apply (f_equal (@length N)) in Hf.
        rewrite !app_length in Hf. destruct y; [congruence|cbn in Hf; lia].
    - inversion Hne as [|? ? Hc Hne']; subst.
      assert (Hstep : forall b0, proper_prefix b0 f -> b0 ++ concat (c :: cs) = f ++ rest ->
                exists b' cs', next dec (mkR b0 false false false) (datas (c :: cs) ++ tl) bg = (NItem i, mkR b' false true false, datas cs' ++ tl, bg)
                        /\ b' ++ concat cs' = rest /\ Forall nonempty cs').
      { intros b0 Hp Hq. rewrite next_eq. unfold attempt. cbn [rerrored rreadable datas map app].
        destruct c as [|c0 c]; [unfold nonempty in Hc; congruence|].
        cbn [rbuf reof]. fold (datas cs).
        apply (IH (b0 ++ c0 :: c) true f i rest bg tl Hv Hne').
        - rewrite <- app_assoc. exact Hq.
        - discriminate. }
      destruct rd.
      + destruct (app_split b (concat (c :: cs)) f rest Heq) as [[x ->]|Hp].
        * rewrite <- app_assoc in Heq. apply app_inv_head in Heq. subst rest.
          exists x, (c :: cs).
          rewrite next_eq. unfold attempt. cbn [rerrored rreadable reof rbuf]. rewrite (H1 f i x Hv). auto.
        * destruct (Hstep b Hp Heq) as (b' & cs' & Hn & Hr & Hf).
          exists b', cs'. split; [|auto].
          rewrite next_eq. unfold attempt. cbn [rerrored rreadable reof rbuf]. rewrite (H2 f i b Hv Hp).
          rewrite next_eq in Hn. unfold attempt in Hn. cbn [rerrored rreadable] in Hn. exact Hn.
      + apply Hstep; auto.
  Qed.

  Lemma next_item : forall cs b rd f i rest bg,
      valid f i -> Forall nonempty cs ->
      b ++ concat cs = f ++ rest ->
      (rd = false -> proper_prefix b f) ->
      exists b' cs', next dec (mkR b false rd false) (datas cs) bg = (NItem i, mkR b' false true false, datas cs', bg)
                     /\ b' ++ concat cs' = rest /\ Forall nonempty cs'.
  Proof.
    intros cs b rd f i rest bg Hv Hne Heq Hinv.
    destruct (next_item_tl cs b rd f i rest bg [] Hv Hne Heq Hinv) as (b' & cs' & Hn & Hr).
    rewrite !app_nil_r in Hn. eauto.
  Qed.

  (* nothing is delivered, and no byte is lost, while the frame is incomplete *)
  Lemma next_incomplete : forall cs b rd f i bg,
      valid f i -> Forall nonempty cs -> proper_prefix (b ++ concat cs) f ->
      exists st', next dec (mkR b false rd false) (datas cs) bg = (NWait, st', [], bg) /\ rbuf st' = b ++ concat cs.
  Proof.
    induction cs as [|c cs IH]; intros b rd f i bg Hv Hne Hp.
    - cbn [concat] in *. rewrite app_nil_r in *. rewrite next_eq. unfold attempt. cbn [rerrored rreadable reof rbuf datas map].
      destruct rd.
      + rewrite (H2 f i b Hv Hp). eexists. split; reflexivity.
      + eexists. split; reflexivity.
    - inversion Hne as [|? ? Hc Hne']; subst.
      assert (Hpb : proper_prefix b f).
      { destruct Hp as [y [Hy Hf]]. exists (concat (c :: cs) ++ y). split.
        - destruct c; [unfold nonempty in Hc; congruence|discriminate].
        - rewrite Hf, app_assoc. reflexivity. }
      rewrite next_eq. unfold attempt. cbn [rerrored rreadable reof rbuf datas map].
      destruct c as [|c0 c]; [unfold nonempty in Hc; congruence|].
      assert (Hgo : exists st', next dec (mkR (b ++ c0 :: c) false true false) (datas cs) bg = (NWait, st', [], bg)
                                /\ rbuf st' = (b ++ c0 :: c) ++ concat cs).
      { apply (IH (b ++ c0 :: c) true f i bg Hv Hne'). rewrite <- app_assoc. exact Hp. }
      destruct Hgo as (st' & Hn & Hb). exists st'. split.
      + destruct rd; [rewrite (H2 f i b Hv Hpb)|]; cbn [rbuf reof]; exact Hn.
      + rewrite Hb, <- app_assoc. reflexivity.
  Qed.

  (* consuming chunks that still form a proper prefix of the frame only accumulates them *)
  Lemma next_incomplete_app : forall cs b rd f i bg tl,
      valid f i -> Forall nonempty cs -> proper_prefix (b ++ concat cs) f ->
      next dec (mkR b false rd false) (datas cs ++ tl) bg = next dec (mkR (b ++ concat cs) false false false) tl bg
      \/ (cs = [] /\ rd = true).
  Proof.
    induction cs as [|c cs IH]; intros b rd f i bg tl Hv Hne Hp.
    - cbn [concat datas map app] in *. rewrite app_nil_r in *. destruct rd; [right; auto|left; reflexivity].
    - left. inversion Hne as [|? ? Hc Hne']; subst.
      assert (Hpb : proper_prefix b f).
      { destruct Hp as [y [Hy Hf]]. exists (concat (c :: cs) ++ y). split.
        - destruct c; [unfold nonempty in Hc; congruence|discriminate].
        - rewrite Hf, app_assoc. reflexivity. }
      destruct c as [|c0 c]; [unfold nonempty in Hc; congruence|].
      rewrite next_eq. unfold attempt. cbn [rerrored rreadable reof rbuf datas map app].
      assert (Hstep : next dec (mkR (b ++ c0 :: c) false true false) (datas cs ++ tl) bg
                      = next dec (mkR (b ++ concat ((c0 :: c) :: cs)) false false false) tl bg).
      { cbn [concat]. rewrite app_assoc.
        destruct (IH (b ++ c0 :: c) true f i bg tl Hv Hne') as [H|[-> _]].
        - rewrite <- app_assoc. exact Hp.
        - exact H.
        - (* no further chunk: one decode attempt on the accumulated prefix, which yields nothing *)
          cbn [datas map app concat]. rewrite app_nil_r.
          assert (Hp' : proper_prefix (b ++ c0 :: c) f) by (cbn [concat] in Hp; rewrite app_nil_r in Hp; exact Hp).
          rewrite (next_eq (mkR (b ++ c0 :: c) false true false)). unfold attempt. cbn [rerrored rreadable reof rbuf].
          rewrite (H2 f i _ Hv Hp'). rewrite (next_eq (mkR (b ++ c0 :: c) false false false)). unfold attempt. cbn [rerrored rreadable].
          reflexivity. }
      destruct rd; [rewrite (H2 f i b Hv Hpb)|]; cbn [rbuf reof]; exact Hstep.
  Qed.

  (* a transport error after a proper prefix of a frame surfaces as that error *)
  Lemma next_prefix_then_err : forall cs b f i bg k tl,
      valid f i -> Forall nonempty cs -> proper_prefix (b ++ concat cs) f ->
      exists st', next dec (mkR b false false false) (datas cs ++ RErr k :: tl) bg = (NErr k, st', tl, bg).
  Proof.
    intros cs b f i bg k tl Hv Hne Hp.
    destruct (next_incomplete_app cs b false f i bg (RErr k :: tl) Hv Hne Hp) as [H|[_ H]]; [|discriminate].
    rewrite H. rewrite next_eq. unfold attempt. cbn. eauto.
  Qed.

  (* end of stream after a proper prefix: "bytes remaining on stream" if any byte was received,
     a clean end of stream otherwise -- never an item *)
  Lemma next_prefix_then_eof : forall cs b f i bg tl,
      valid f i -> Forall nonempty cs -> proper_prefix (b ++ concat cs) f ->
      exists st', next dec (mkR b false false false) (datas cs ++ REof :: tl) bg =
                  (match b ++ concat cs with [] => NEnd | _ => NErr (KOther 0) end, st', tl, bg).
  Proof.
    intros cs b f i bg tl Hv Hne Hp.
    destruct (next_incomplete_app cs b false f i bg (REof :: tl) Hv Hne Hp) as [H|[_ H]]; [|discriminate].
    rewrite H. rewrite next_eq. unfold attempt. cbn [rerrored rreadable reof rbuf].
    rewrite next_eq. unfold attempt, decode_eof. cbn [rerrored rreadable reof rbuf].
    rewrite (H2 f i _ Hv Hp). destruct (b ++ concat cs); eauto.
  Qed.

  (* ---- a whole stream of frames, any chunking: every frame delivered once, in order ---- *)
  Hypothesis valid_nonempty : forall f i, valid f i -> f <> [].

  Fixpoint take_items (n : nat) (st : rstate) (evs : list revt) : option (list I * rstate * list revt) :=
    match n with
    | O => Some ([], st, evs)
    | S k =>
        match next dec st evs None with
        | (NItem i, st', evs', _) =>
            match take_items k st' evs' with
            | Some (is, s, e) => Some (i :: is, s, e)
            | None => None
            end
        | _ => None
        end
    end.

  Lemma frames_from : forall fs is cs b rd rest,
      Forall2 valid fs is -> Forall nonempty cs ->
      b ++ concat cs = concat fs ++ rest ->
      (rd = false -> b = []) ->
      exists st' cs', take_items (length fs) (mkR b false rd false) (datas cs) = Some (is, st', datas cs')
                      /\ rbuf st' ++ concat cs' = rest /\ Forall nonempty cs'
                      /\ reof st' = false /\ rerrored st' = false.
  Proof.
    induction fs as [|f fs IH]; intros is cs b rd rest Hv Hne Heq Hinv.
    - inversion Hv; subst. cbn [length take_items concat app] in *. exists (mkR b false rd false), cs.
      cbn [rbuf reof rerrored]. auto.
    - inversion Hv as [|? i ? is' Hvf Hvr]; subst. cbn [concat] in Heq. rewrite <- app_assoc in Heq.
      destruct (next_item cs b rd f i (concat fs ++ rest) None Hvf Hne Heq) as (b' & cs' & Hn & Hr & Hf).
      { intros Hrd. rewrite (Hinv Hrd). exists f. split; [eapply valid_nonempty; eauto|reflexivity]. }
      destruct (IH is' cs' b' true rest Hvr Hf Hr ltac:(discriminate)) as (st' & cs'' & Ht & Hrest & Hne'' & He & Herr).
      exists st', cs''. cbn [length take_items]. rewrite Hn, Ht. auto.
  Qed.

  Theorem frames_any_chunking : forall fs is cs,
      Forall2 valid fs is -> Forall nonempty cs -> concat cs = concat fs ->
      exists st' cs', take_items (length fs) rstate0 (datas cs) = Some (is, st', datas cs')
                      /\ rbuf st' ++ concat cs' = [].
  Proof.
    intros fs is cs Hv Hne Heq.
    destruct (frames_from fs is cs [] false [] Hv Hne) as (st' & cs' & Ht & Hr & _); [cbn; rewrite app_nil_r; exact Heq|auto|].
    exists st', cs'. auto.
  Qed.
End Frag.
