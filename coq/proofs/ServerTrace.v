(* ServerTrace.v -- the shape of EVERY server-connection trace, for ARBITRARY input bytes, fragmentation, faults,
   service behaviour and write / flush behaviour of the transport (property C07 without the "well-formed stream"
   hypothesis of [process_serves]):
     every service invocation is followed -- before anything else happens on the connection -- by exactly the bytes
     of ONE reply frame, encoded under a header whose unit / slave id is the one the service was given, or by
     nothing when the service declines; a reply that cannot be encoded or written ends the connection with one
     report (or leaves it blocked in the write), having written at most a prefix of that one frame.
   Hence replies are never reordered, duplicated, merged or attributed to another request, whatever else is on
   the line. *)
From Coq Require Import Lia.
From TM Require Import Base Frame Pdu Crc RtuCodec TcpCodec Framed Client Server BaseLemmas FramedProofs FramedMore
  ServerProofs.

Definition hd_reply (svc : list svc_reply) : svc_reply := match svc with [] => SDecline | x :: _ => x end.

Definition terminal (e : tev) : Prop :=
  match e with TReport _ | TClosed | TWaiting | TPanic | TOutOfFuel => True | _ => False end.

Definition is_prefix (a b : list N) : Prop := exists y, b = a ++ y.

Inductive Trace (p : proto) (m : mode) : list svc_reply -> list tev -> Prop :=
| T_end svc e : terminal e -> Trace p m svc [e]
| T_decline svc s req t :
    hd_reply svc = SDecline -> Trace p m (tl svc) t -> Trace p m svc (TCall s req :: t)
| T_answer svc s req t h rr f :
    snd h = s -> reply_of req (hd_reply svc) = Some rr -> server_enc p m h rr = Val f ->
    Trace p m (tl svc) t -> Trace p m svc (TCall s req :: wrote f ++ t)
| T_cut svc s req h rr f pre e :
    snd h = s -> reply_of req (hd_reply svc) = Some rr -> server_enc p m h rr = Val f ->
    is_prefix pre f -> terminal e -> Trace p m svc (TCall s req :: wrote pre ++ [e])
| T_unencodable svc s req h rr e :
    snd h = s -> reply_of req (hd_reply svc) = Some rr -> (forall f, server_enc p m h rr <> Val f) ->
    terminal e -> Trace p m svc [TCall s req; e].

(* one send on an empty write buffer *)
Lemma send_on_empty frame wq0 fq0 r w1 bg1 pn :
  send frame (mkW [] wq0 fq0 []) None = (r, w1, bg1, pn) ->
  match frame with
  | Val f => is_prefix (accepted w1) f /\ (r = SOk -> pn = false -> accepted w1 = f /\ wbuf w1 = [])
  | _ => accepted w1 = []
  end.
Proof.
  intros H. destruct (send_conserve _ _ _ _ _ _ _ H) as [fr [Hfr [Hc [Hok _]]]]. cbn [accepted wbuf app] in Hc.
  destruct frame as [f|k|].
  - destruct Hfr as [->|Hf].
    + rewrite app_nil_r in Hc || idtac. assert (accepted w1 = []) by (destruct (accepted w1); [reflexivity|discriminate]).
      split.
      * exists f. rewrite H0. reflexivity.
      * intros Hr Hp. destruct (Hok Hr Hp) as [Hv Hw]. injection Hv as Hf0. subst f. split; [exact H0|exact Hw].
    + injection Hf as <-. split.
      * exists (wbuf w1). symmetry. exact Hc.
      * intros Hr Hp. destruct (Hok Hr Hp) as [_ Hw]. rewrite Hw, app_nil_r in Hc. split; [exact Hc|exact Hw].
  - destruct Hfr as [->|Hf]; [|discriminate]. destruct (accepted w1); [reflexivity|discriminate].
  - destruct Hfr as [->|Hf]; [|discriminate]. destruct (accepted w1); [reflexivity|discriminate].
Qed.

Theorem process_trace p m : forall fuel r w q svc, wbuf w = [] -> Trace p m svc (process fuel p m r w q svc).
Proof.
  induction fuel as [|fuel IH]; intros r w q svc Hw; cbn [process].
  - apply T_end. exact I.
  - destruct (next (server_dec p) r q None) as [[[nr r1] q1] bg1].
    destruct nr as [[h req]|k| | | |]; try (apply T_end; exact I).
    fold (hd_reply svc).
    destruct (hd_reply svc) as [rsp| |code] eqn:Hrep.
    + (* reply *)
      set (rr := RROk rsp).
      assert (Hro : reply_of req (hd_reply svc) = Some rr) by (rewrite Hrep; reflexivity).
      rewrite Hw.
      destruct (send (server_enc p m h rr) (mkW [] (wq w) (fq w) []) None) as [[[sr w1] bg2] pn] eqn:Hs.
      pose proof (send_on_empty _ _ _ _ _ _ _ Hs) as Hse.
      destruct (server_enc p m h rr) as [f|k|] eqn:He.
      * destruct Hse as [Hpre Hok].
        destruct pn; [destruct sr; eapply T_cut; eauto; exact I|].
        destruct sr; try (eapply T_cut; eauto; exact I).
        destruct (Hok eq_refl eq_refl) as [Hacc Hwb]. rewrite Hacc.
        eapply T_answer; eauto.
      * rewrite Hse. cbn [wrote app].
        destruct pn; [destruct sr; eapply T_unencodable; eauto; try exact I; intros f0; rewrite He; discriminate|].
        destruct sr; try (eapply T_unencodable; eauto; try exact I; intros f0; rewrite He; discriminate).
        (* SOk with a failing encoder cannot happen; the shape still holds *)
        exfalso. destruct (send_conserve _ _ _ _ _ _ _ Hs) as [fr [_ [_ [Hok _]]]]. destruct (Hok eq_refl eq_refl) as [Hv _]. discriminate.
      * rewrite Hse. cbn [wrote app].
        destruct pn; [destruct sr; eapply T_unencodable; eauto; try exact I; intros f0; rewrite He; discriminate|].
        destruct sr; try (eapply T_unencodable; eauto; try exact I; intros f0; rewrite He; discriminate).
        exfalso. destruct (send_conserve _ _ _ _ _ _ _ Hs) as [fr [_ [_ [Hok _]]]]. destruct (Hok eq_refl eq_refl) as [Hv _]. discriminate.
    + (* decline *)
      apply T_decline; [exact Hrep|]. apply IH. exact Hw.
    + (* exception *)
      set (rr := RRExc {| exr_function := req_fc req; exr_exception := code |}).
      assert (Hro : reply_of req (hd_reply svc) = Some rr) by (rewrite Hrep; reflexivity).
      rewrite Hw.
      destruct (send (server_enc p m h rr) (mkW [] (wq w) (fq w) []) None) as [[[sr w1] bg2] pn] eqn:Hs.
      pose proof (send_on_empty _ _ _ _ _ _ _ Hs) as Hse.
      destruct (server_enc p m h rr) as [f|k|] eqn:He.
      * destruct Hse as [Hpre Hok].
        destruct pn; [destruct sr; eapply T_cut; eauto; exact I|].
        destruct sr; try (eapply T_cut; eauto; exact I).
        destruct (Hok eq_refl eq_refl) as [Hacc Hwb]. rewrite Hacc.
        eapply T_answer; eauto.
      * rewrite Hse. cbn [wrote app].
        destruct pn; [destruct sr; eapply T_unencodable; eauto; try exact I; intros f0; rewrite He; discriminate|].
        destruct sr; try (eapply T_unencodable; eauto; try exact I; intros f0; rewrite He; discriminate).
        exfalso. destruct (send_conserve _ _ _ _ _ _ _ Hs) as [fr [_ [_ [Hok _]]]]. destruct (Hok eq_refl eq_refl) as [Hv _]. discriminate.
      * rewrite Hse. cbn [wrote app].
        destruct pn; [destruct sr; eapply T_unencodable; eauto; try exact I; intros f0; rewrite He; discriminate|].
        destruct sr; try (eapply T_unencodable; eauto; try exact I; intros f0; rewrite He; discriminate).
        exfalso. destruct (send_conserve _ _ _ _ _ _ _ Hs) as [fr [_ [_ [Hok _]]]]. destruct (Hok eq_refl eq_refl) as [Hv _]. discriminate.
Qed.

Corollary serve_conn_trace p m q wq0 fq0 svc : Trace p m svc (serve_conn p m q wq0 fq0 svc).
Proof. unfold serve_conn. apply process_trace. reflexivity. Qed.

(* what the shape implies: the bytes written over the life of the connection are the reply frames of the answered
   invocations, in invocation order, the last one possibly cut short -- nothing else, nothing twice *)
Fixpoint written (t : list tev) : list N :=
  match t with
  | [] => []
  | TWrote b :: t' => b ++ written t'
  | _ :: t' => written t'
  end.

Lemma written_app a b : written (a ++ b) = written a ++ written b.
Proof. induction a as [|e a IH]; [reflexivity|]. destruct e; cbn [app written]; rewrite IH, ?app_assoc; reflexivity. Qed.
Lemma written_wrote f : written (wrote f) = f.
Proof. destruct f; [reflexivity|]. cbn. rewrite app_nil_r. reflexivity. Qed.
Lemma written_terminal e : terminal e -> written [e] = [].
Proof. destruct e; cbn; tauto. Qed.

Theorem trace_written p m svc t : Trace p m svc t ->
  exists fs last, is_prefix (written t) (concat fs ++ last)
    /\ (forall f, In f (fs ++ [last]) -> f = [] \/ exists h rr, server_enc p m h rr = Val f).
Proof.
  induction 1 as [svc e He|svc s req t Hd Ht IH|svc s req t h rr f Hs Hr He Ht IH|svc s req h rr f pre e Hs Hr He Hp Hterm|svc s req h rr e Hs Hr He Hterm].
  - exists [], []. rewrite (written_terminal e He). split; [exists []; reflexivity|]. intros f [<-|[]]. left. reflexivity.
  - destruct IH as (fs & last & Hp & Hall). exists fs, last. cbn [written]. split; assumption.
  - destruct IH as (fs & last & [y Hp] & Hall). exists (f :: fs), last. cbn [written]. rewrite written_app, written_wrote.
    split.
    + exists y. cbn [concat]. rewrite <- !app_assoc. f_equal. exact Hp.
    + intros g [<-|Hg]; [right; eauto|apply Hall; exact Hg].
  - exists [], f. cbn [written concat app]. rewrite written_app, written_wrote, (written_terminal e Hterm), app_nil_r.
    split; [exact Hp|]. intros g [<-|[]]. right. eauto.
  - exists [], []. change (written [TCall s req; e]) with (written [e]). rewrite (written_terminal e Hterm).
    split; [exists []; reflexivity|]. intros f [<-|[]]. left. reflexivity.
Qed.

(* ---- many connections at once (C18): each connection's trace has the shape above whatever the schedule of the
   connections' traffic and whatever its own transport does with the replies (partial / pending / failing writes and
   flushes); the traffic of the others does not change it ---- *)
From TM Require Import AcceptProofs.

Definition conn_trace_w (p : proto) (m : mode) (svc : N -> list svc_reply) (wqs : N -> list wev) (fqs : N -> list fev)
           (s : schedule) (c : N) : list tev :=
  serve_conn p m (grun s c) (wqs c) (fqs c) (svc c).

Theorem conn_trace_w_default p m svc s c : conn_trace_w p m svc (fun _ => []) (fun _ => []) s c = conn_trace p m svc s c.
Proof. reflexivity. Qed.

Theorem noninterference_w p m svc wqs fqs s1 s2 c :
  events_of c s1 = events_of c s2 -> conn_trace_w p m svc wqs fqs s1 c = conn_trace_w p m svc wqs fqs s2 c.
Proof. intros H. unfold conn_trace_w. rewrite !grun_projection, H. reflexivity. Qed.

Theorem every_connection_trace p m svc wqs fqs s c : Trace p m (svc c) (conn_trace_w p m svc wqs fqs s c).
Proof. unfold conn_trace_w. apply serve_conn_trace. Qed.

Corollary every_connection_written p m svc wqs fqs s c :
  exists fs last, is_prefix (written (conn_trace_w p m svc wqs fqs s c)) (concat fs ++ last)
    /\ (forall f, In f (fs ++ [last]) -> f = [] \/ exists h rr, server_enc p m h rr = Val f).
Proof. eapply trace_written. apply every_connection_trace. Qed.
