(* ClientProofs.v -- the client call: classification of the outcome by the reply it consumed
   (C06/C02), transaction ids (C10), the clean-start invariant (C12), disconnect (C15), conservation
   of transmitted bytes (C13/C16), oversized requests (C09). *)
From Coq Require Import ZArith Lia ZifyBool ZifyNat ZifyN.
From TM Require Import Base Frame Pdu RtuCodec TcpCodec Framed Client BaseLemmas FramedProofs FramedMore.
Ltac Zify.zify_post_hook ::= Z.div_mod_to_equations.

(* the header the call stamps on its request *)
Definition req_hdr (p : proto) (st : cstate) : hdr :=
  (match p with TCP => next_tid st | RTU => 0 end, unit_id st).

(* framed.read_buffer_mut().clear() *)
Definition cleared (r : rstate) : rstate := mkR [] (reof r) (rreadable r) (rerrored r).

(* the reply item the call consumed, if it got that far *)
Definition call_reply (p : proto) (m : mode) (st : cstate) (req : request) (bg : budget) : option (hdr * rsp_result) :=
  if negb (framed st) then None else
  match send (client_enc p m (req_hdr p st) req) (wio_ st) bg with
  | (SOk, w, bg1, false) =>
      match next (client_dec p) (cleared (rst st)) (rq st) bg1 with
      | (NItem i, _, _, _) => Some i
      | _ => None
      end
  | _ => None
  end.

Definition classify (p : proto) (st : cstate) (req : request) (i : hdr * rsp_result) : call_result :=
  let '(rh, rr) := i in
  if negb (hdr_eqb (req_hdr p st) rh) then CRHeaderMismatch rr
  else if negb (fc_value (req_fc req) =? fc_value (rr_fc rr)) then CRFcMismatch (req_fc req) rr
  else match rr with RROk r => CROk r | RRExc e => CRExc (exr_exception e) end.

Definition is_success (c : call_result) : bool :=
  match c with CROk _ | CRExc _ => true | _ => false end.

(* Every outcome of a call is explained by the reply it consumed: with a reply it is [classify];
   without one it is never a success and never a protocol error. *)
Theorem call_classify p m st req bg :
  match call_reply p m st req bg with
  | Some i => fst (call p m st req bg) = classify p st req i
  | None => match fst (call p m st req bg) with
            | CROk _ | CRExc _ | CRHeaderMismatch _ | CRFcMismatch _ _ => False
            | _ => True
            end
  end.
Proof.
  unfold call_reply, call, req_hdr, cleared.
  destruct (framed st); cbn [negb]; [|exact I].
  match goal with |- context [send ?f ?w ?b] => destruct (send f w b) as [[[r w1] bg1] pn] end.
  destruct pn; [destruct r; exact I|].
  destruct r; try exact I.
  match goal with |- context [next ?d ?s ?q ?b] => destruct (next d s q b) as [[[nr r1] q1] bg2] end.
  destruct nr as [[rh rr]|k| | | |]; try exact I.
  - unfold classify. cbn [fst].
    destruct (hdr_eqb _ rh); cbn [negb]; [|reflexivity].
    destruct (_ =? _); cbn [negb]; [|reflexivity]. destruct rr; reflexivity.
  - match goal with |- context [next ?d ?s ?q ?b] => destruct (next d s q b) as [[[nr2 r2] q2] bg3] end. exact I.
Qed.

Lemma hdr_eqb_eq a b : hdr_eqb a b = true <-> a = b.
Proof.
  destruct a as [a1 a2], b as [b1 b2]. unfold hdr_eqb. cbn [fst snd]. split.
  - intros H. apply andb_prop in H. destruct H as [H1 H2]. apply N.eqb_eq in H1, H2. congruence.
  - intros H. injection H as -> ->. rewrite !N.eqb_refl. reflexivity.
Qed.

(* C06: success only for the reply that answers the request *)
Theorem call_success_only_if p m st req bg :
  is_success (fst (call p m st req bg)) = true ->
  exists rr, call_reply p m st req bg = Some (req_hdr p st, rr)
             /\ fc_value (rr_fc rr) = fc_value (req_fc req)
             /\ fst (call p m st req bg) = match rr with RROk r => CROk r | RRExc e => CRExc (exr_exception e) end.
Proof.
  intros Hs. pose proof (call_classify p m st req bg) as H.
  destruct (call_reply p m st req bg) as [[rh rr]|].
  - rewrite H in Hs |- *. unfold classify in *.
    destruct (hdr_eqb (req_hdr p st) rh) eqn:Hh; cbn [negb] in *; [|discriminate].
    destruct (fc_value (req_fc req) =? fc_value (rr_fc rr)) eqn:Hf; cbn [negb] in *; [|discriminate].
    apply hdr_eqb_eq in Hh. subst rh. apply N.eqb_eq in Hf. exists rr. auto.
  - destruct (fst (call p m st req bg)); try discriminate; contradiction.
Qed.

Theorem call_header_mismatch p m st req bg rh rr :
  call_reply p m st req bg = Some (rh, rr) -> rh <> req_hdr p st ->
  fst (call p m st req bg) = CRHeaderMismatch rr.
Proof.
  intros Hr Hne. pose proof (call_classify p m st req bg) as H. rewrite Hr in H. rewrite H. unfold classify.
  destruct (hdr_eqb (req_hdr p st) rh) eqn:Hh; [apply hdr_eqb_eq in Hh; congruence|reflexivity].
Qed.

Theorem call_fc_mismatch p m st req bg rr :
  call_reply p m st req bg = Some (req_hdr p st, rr) -> fc_value (rr_fc rr) <> fc_value (req_fc req) ->
  fst (call p m st req bg) = CRFcMismatch (req_fc req) rr.
Proof.
  intros Hr Hne. pose proof (call_classify p m st req bg) as H. rewrite Hr in H. rewrite H. unfold classify.
  replace (hdr_eqb (req_hdr p st) (req_hdr p st)) with true by (symmetry; apply hdr_eqb_eq; reflexivity). cbn [negb].
  destruct (N.eqb_spec (fc_value (req_fc req)) (fc_value (rr_fc rr))); [congruence|reflexivity].
Qed.

(* C02.4: the reply that answers the request (same header, numerically same code) is returned as it is *)
Theorem call_returns_answer p m st req bg rr :
  call_reply p m st req bg = Some (req_hdr p st, rr) -> fc_value (rr_fc rr) = fc_value (req_fc req) ->
  fst (call p m st req bg) = match rr with RROk r => CROk r | RRExc e => CRExc (exr_exception e) end.
Proof.
  intros Hr He. pose proof (call_classify p m st req bg) as H. rewrite Hr in H. rewrite H. unfold classify.
  replace (hdr_eqb (req_hdr p st) (req_hdr p st)) with true by (symmetry; apply hdr_eqb_eq; reflexivity). cbn [negb].
  rewrite He, N.eqb_refl. reflexivity.
Qed.

(* ---- C10: transaction ids ---- *)
Theorem call_tid_advances m st req bg :
  next_tid (snd (call TCP m st req bg)) = (next_tid st + 1) mod 65536.
Proof.
  unfold call. destruct (framed st); cbn [negb]; [|reflexivity].
  match goal with |- context [send ?f ?w ?b] => destruct (send f w b) as [[[r w1] bg1] pn] end.
  destruct pn; [destruct r; reflexivity|].
  destruct r; try reflexivity.
  match goal with |- context [next ?d ?s ?q ?b] => destruct (next d s q b) as [[[nr r1] q1] bg2] end.
  destruct nr as [[rh rr]|k| | | |]; try reflexivity.
  - destruct (negb _); [reflexivity|]. destruct (negb _); [reflexivity|]. destruct rr; reflexivity.
  - match goal with |- context [next ?d ?s ?q ?b] => destruct (next d s q b) as [[[nr2 r2] q2] bg3] end. reflexivity.
Qed.

Lemma mod_distinct a i j : i < j -> j < i + 65536 -> (a + i) mod 65536 <> (a + j) mod 65536.
Proof. intros H1 H2. lia. Qed.

(* ---- C12: clean start ---- *)
Definition clean (st : cstate) : Prop := rerrored (rst st) = false.

Theorem call_preserves_clean p m st req bg : clean st -> clean (snd (call p m st req bg)).
Proof.
  unfold clean, call. intros Hc.
  destruct (framed st); cbn [negb]; [|exact Hc].
  match goal with |- context [send ?f ?w ?b] => destruct (send f w b) as [[[r w1] bg1] pn] end.
  destruct pn; [destruct r; cbn; exact Hc|].
  destruct r; try (cbn; exact Hc).
  match goal with |- context [next ?d ?s ?q ?b] => destruct (next d s q b) as [[[nr r1] q1] bg2] eqn:Hn end.
  assert (Hlatch : rerrored r1 = true -> exists k, nr = NErr k) by (eapply next_latch; eauto).
  destruct nr as [[rh rr]|k| | | |].
  - assert (rerrored r1 = false) by (destruct (rerrored r1); [destruct (Hlatch eq_refl); discriminate|reflexivity]).
    destruct (negb _); [cbn; assumption|]. destruct (negb _); [cbn; assumption|]. destruct rr; cbn; assumption.
  - rewrite (next_unlatch (client_dec p) r1 q1 (Some O) (next_err_latches _ _ _ _ _ _ _ _ Hn)). reflexivity.
  - cbn. destruct (rerrored r1); [destruct (Hlatch eq_refl); discriminate|reflexivity].
  - cbn. destruct (rerrored r1); [destruct (Hlatch eq_refl); discriminate|reflexivity].
  - cbn. destruct (rerrored r1); [destruct (Hlatch eq_refl); discriminate|reflexivity].
  - cbn. destruct (rerrored r1); [destruct (Hlatch eq_refl); discriminate|reflexivity].
Qed.

Lemma client_new_clean p s : clean (client_new p s).
Proof. reflexivity. Qed.
Lemma set_slave_clean st s : clean st -> clean (set_slave st s).
Proof. auto. Qed.

(* ---- C15: disconnect ---- *)
Fixpoint first_shutdown (q : list sdev) : disc_result :=
  match q with
  | [] => DROk
  | SdOk :: _ => DROk
  | SdErr k :: _ => match k with KNotConnected | KBrokenPipe => DROk | _ => DRErr k end
  | SdPend :: q' => first_shutdown q'
  end.

Lemma shutdown_result q : fst (fst (shutdown q)) = first_shutdown q /\ snd (shutdown q) = true.
Proof.
  induction q as [|e q IH]; [auto|]. destruct e as [|k|]; cbn [shutdown first_shutdown].
  - auto.
  - destruct k; auto.
  - exact IH.
Qed.

Theorem disconnect_first st : framed st = true ->
  fst (disconnect st) = first_shutdown (sq st) /\ framed (snd (disconnect st)) = false
  /\ shutdowns (snd (disconnect st)) = shutdowns st + 1.
Proof.
  intros Hf. unfold disconnect. rewrite Hf. cbn [negb].
  destruct (shutdown (sq st)) as [[r q] d] eqn:Hs. pose proof (shutdown_result (sq st)) as [H1 H2]. rewrite Hs in H1, H2.
  cbn in H1, H2. subst. cbn. auto.
Qed.

Theorem disconnect_again st : framed st = false -> disconnect st = (DROk, st).
Proof. intros Hf. unfold disconnect. rewrite Hf. reflexivity. Qed.

Theorem call_when_disconnected p m st req bg : framed st = false ->
  fst (call p m st req bg) = CRTransport KNotConnected
  /\ wio_ (snd (call p m st req bg)) = wio_ st /\ rq (snd (call p m st req bg)) = rq st
  /\ framed (snd (call p m st req bg)) = false /\ shutdowns (snd (call p m st req bg)) = shutdowns st.
Proof. intros Hf. unfold call. rewrite Hf. cbn. auto. Qed.

Lemma call_keeps_framed p m st req bg : framed (snd (call p m st req bg)) = framed st /\ shutdowns (snd (call p m st req bg)) = shutdowns st.
Proof.
  unfold call. destruct (framed st) eqn:Hf; cbn [negb]; [|cbn; auto].
  match goal with |- context [send ?f ?w ?b] => destruct (send f w b) as [[[r w1] bg1] pn] end.
  destruct pn; [destruct r; cbn; auto|].
  destruct r; try (cbn; auto; fail).
  match goal with |- context [next ?d ?s ?q ?b] => destruct (next d s q b) as [[[nr r1] q1] bg2] end.
  destruct nr as [[rh rr]|k| | | |]; try (cbn; auto; fail).
  - destruct (negb _); [cbn; auto|]. destruct (negb _); [cbn; auto|]. destruct rr; cbn; auto.
  - match goal with |- context [next ?d ?s ?q ?b] => destruct (next d s q b) as [[[nr2 r2] q2] bg3] end. cbn; auto.
Qed.

(* ---- C13 / C16: what reaches the transport ---- *)
Theorem call_conserves p m st req bg :
  exists fr, (fr = [] \/ client_enc p m (req_hdr p st) req = Val fr)
    /\ accepted (wio_ (snd (call p m st req bg))) ++ wbuf (wio_ (snd (call p m st req bg)))
       = accepted (wio_ st) ++ wbuf (wio_ st) ++ fr.
Proof.
  unfold call, req_hdr. destruct (framed st); cbn [negb].
  2:{ exists []. rewrite app_nil_r. cbn. auto. }
  match goal with |- context [send ?f ?w ?b] => destruct (send f w b) as [[[r w1] bg1] pn] eqn:Hs end.
  apply send_conserve in Hs. destruct Hs as (fr & Hfr & Hc & _).
  exists fr. split; [exact Hfr|].
  destruct pn; [destruct r; cbn; exact Hc|].
  destruct r; try (cbn; exact Hc).
  match goal with |- context [next ?d ?s ?q ?b] => destruct (next d s q b) as [[[nr r1] q1] bg2] end.
  destruct nr as [[rh rr]|k| | | |]; try (cbn; exact Hc).
  - destruct (negb _); [cbn; exact Hc|]. destruct (negb _); [cbn; exact Hc|]. destruct rr; cbn; exact Hc.
  - match goal with |- context [next ?d ?s ?q ?b] => destruct (next d s q b) as [[[nr2 r2] q2] bg3] end. cbn; exact Hc.
Qed.

(* a call that got as far as reading (in particular every call that returns a reply) has flushed
   everything: the transport has received all frames encoded so far, whole *)
Theorem call_completed_flushes p m st req bg i :
  call_reply p m st req bg = Some i -> wbuf (wio_ (snd (call p m st req bg))) = []
  /\ exists fr, client_enc p m (req_hdr p st) req = Val fr
                /\ accepted (wio_ (snd (call p m st req bg))) = accepted (wio_ st) ++ wbuf (wio_ st) ++ fr.
Proof.
  unfold call_reply, call, req_hdr, cleared. destruct (framed st); cbn [negb]; [|discriminate].
  match goal with |- context [send ?f ?w ?b] => destruct (send f w b) as [[[r w1] bg1] pn] eqn:Hs end.
  destruct r; try discriminate. destruct pn; [discriminate|].
  apply send_conserve in Hs. destruct Hs as (fr & Hfr & Hc & Hok & _). destruct (Hok eq_refl eq_refl) as [Hv Hw].
  match goal with |- context [next ?d ?s ?q ?b] => destruct (next d s q b) as [[[nr r1] q1] bg2] end.
  destruct nr as [[rh rr]|k| | | |]; try discriminate. intros _.
  assert (Hgoal : wbuf w1 = [] /\ exists fr0, client_enc p m (match p with TCP => next_tid st | RTU => 0 end, unit_id st) req = Val fr0
                   /\ accepted w1 = accepted (wio_ st) ++ wbuf (wio_ st) ++ fr0).
  { split; [exact Hw|]. exists fr. split; [exact Hv|]. rewrite Hw, app_nil_r in Hc. exact Hc. }
  destruct (negb _); [cbn; exact Hgoal|]. destruct (negb _); [cbn; exact Hgoal|]. destruct rr; cbn; exact Hgoal.
Qed.

(* ---- C09: an oversized request is refused before anything is written ---- *)
Theorem oversized_request_refused p m st req bg :
  framed st = true -> 253 < req_size req -> len (wbuf (wio_ st)) < BACKPRESSURE ->
  fst (call p m st req bg) = CRTransport KInvalidInput
  /\ wio_ (snd (call p m st req bg)) = wio_ st /\ rq (snd (call p m st req bg)) = rq st
  /\ framed (snd (call p m st req bg)) = true.
Proof.
  intros Hf Hsz Hbp. unfold call. rewrite Hf. cbn [negb].
  assert (He : client_enc p m (match p with TCP => next_tid st | RTU => 0 end, unit_id st) req = Fail KInvalidInput).
  { destruct p; unfold client_enc, tcp_client_enc, rtu_client_enc, req_size_chk, MAX_PDU_SIZE;
      destruct (N.ltb_spec 253 (req_size req)); try lia; reflexivity. }
  rewrite He. rewrite send_encode_error by exact Hbp. cbn. auto.
Qed.

(* ---- disconnect whose future is dropped while the shutdown is pending ---- *)
Lemma shutdown_bg_none q : shutdown_bg q None = shutdown q.
Proof. induction q as [|e q IH]; [reflexivity|]. destruct e as [|k|]; cbn [shutdown_bg shutdown spend]; [reflexivity|destruct k; reflexivity|exact IH]. Qed.

Theorem disconnect_bg_none st : disconnect_bg st None = disconnect st.
Proof. unfold disconnect_bg, disconnect. rewrite shutdown_bg_none. reflexivity. Qed.

(* however the disconnect future ends -- completed, failed, or dropped while the transport's shutdown was still pending --
   the client is inert afterwards, the write half and the read queue are untouched, and at most one shutdown was completed *)
Theorem disconnect_bg_inert st bg :
  framed (snd (disconnect_bg st bg)) = false
  /\ wio_ (snd (disconnect_bg st bg)) = wio_ st /\ rq (snd (disconnect_bg st bg)) = rq st
  /\ (shutdowns (snd (disconnect_bg st bg)) = shutdowns st \/ shutdowns (snd (disconnect_bg st bg)) = shutdowns st + 1).
Proof.
  unfold disconnect_bg. destruct (framed st) eqn:Hf; cbn [negb].
  - destruct (shutdown_bg (sq st) bg) as [[r q] dn]. cbn [snd framed wio_ rq shutdowns]. repeat split. destruct dn; auto.
  - cbn [snd]. repeat split; auto.
Qed.

(* an abandoned disconnect completed no shutdown and reports nothing but "still waiting" *)
Theorem disconnect_bg_abandoned st bg r st' : framed st = true -> disconnect_bg st bg = (r, st') -> r = DRWait ->
  shutdowns st' = shutdowns st.
Proof.
  unfold disconnect_bg. intros Hf. rewrite Hf. cbn [negb]. destruct (shutdown_bg (sq st) bg) as [[r0 q] dn] eqn:Hs.
  intros H Hr. injection H as <- <-. subst r0. cbn [shutdowns].
  assert (dn = false); [|subst dn; reflexivity].
  clear Hf. revert bg Hs. generalize (sq st). intros l. induction l as [|e l IH]; intros bg Hs; cbn [shutdown_bg] in Hs.
  - discriminate.
  - destruct e as [|k|].
    + discriminate.
    + destruct k; discriminate.
    + destruct (spend bg) as [bg'|]; [eapply IH; eauto|injection Hs as _ <-; reflexivity].
Qed.
