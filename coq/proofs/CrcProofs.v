(* CrcProofs.v -- algebra of the CRC-16/MODBUS register as computed by calc_crc: GF(2)-linearity,
   the residue characterisation of a valid frame, and detection of every error burst of up to 16 bits
   (hence of every single-bit error) in frames of ANY length. *)
From Coq Require Import ZArith Lia ZifyBool ZifyNat ZifyN.
From TM Require Import Base Crc BaseLemmas Sweep.
Ltac Zify.zify_post_hook ::= Z.div_mod_to_equations.

Lemma odd_lxor a b : N.odd (N.lxor a b) = xorb (N.odd a) (N.odd b).
Proof. rewrite <- !N.bit0_odd. apply N.lxor_spec. Qed.

Lemma lxor_swap a b c d : N.lxor (N.lxor a b) (N.lxor c d) = N.lxor (N.lxor a c) (N.lxor b d).
Proof.
  apply N.bits_inj. intros n. rewrite !N.lxor_spec.
  destruct (N.testbit a n), (N.testbit b n), (N.testbit c n), (N.testbit d n); reflexivity.
Qed.

(* ---- linearity ---- *)
Lemma step1_xor a b : step1 (N.lxor a b) = N.lxor (step1 a) (step1 b).
Proof.
  unfold step1. rewrite odd_lxor, N.shiftr_lxor.
  destruct (N.odd a), (N.odd b); cbn [xorb]; apply N.bits_inj; intros n; rewrite ?N.lxor_spec;
    destruct (N.testbit (N.shiftr a 1) n), (N.testbit (N.shiftr b 1) n), (N.testbit 40961 n); reflexivity.
Qed.
Lemma step8_xor a b : step8 (N.lxor a b) = N.lxor (step8 a) (step8 b).
Proof. unfold step8. rewrite !step1_xor. reflexivity. Qed.
Lemma byte_step_xor a b x y : byte_step (N.lxor a b) (N.lxor x y) = N.lxor (byte_step a x) (byte_step b y).
Proof. unfold byte_step. rewrite lxor_swap. apply step8_xor. Qed.

Fixpoint xor_bytes (a b : list N) : list N :=
  match a, b with x :: a', y :: b' => N.lxor x y :: xor_bytes a' b' | _, _ => [] end.

Theorem crc_fold_xor : forall d1 d2 a b, length d1 = length d2 ->
  crc_fold (N.lxor a b) (xor_bytes d1 d2) = N.lxor (crc_fold a d1) (crc_fold b d2).
Proof.
  induction d1 as [|x d1 IH]; intros d2 a b Hl; destruct d2 as [|y d2]; try discriminate; [reflexivity|].
  cbn [xor_bytes]. unfold crc_fold in *. cbn [fold_left]. rewrite byte_step_xor. apply IH. cbn in Hl. lia.
Qed.

(* ---- 16-bit closure ---- *)
Lemma lxor_lt_pow2 a b n : a < 2 ^ n -> b < 2 ^ n -> N.lxor a b < 2 ^ n.
Proof.
  intros Ha Hb. pose proof (N.pow_nonzero 2 n ltac:(lia)) as Hpz.
  destruct (N.eq_dec (N.lxor a b) 0) as [->|Hz]; [lia|].
  apply N.log2_lt_pow2; [lia|].
  apply N.le_lt_trans with (m := N.max (N.log2 a) (N.log2 b)); [apply N.log2_lxor|].
  assert (Hlog : forall x, x < 2 ^ n -> x <> 0 -> N.log2 x < n) by (intros x Hx Hx0; apply N.log2_lt_pow2; lia).
  destruct (N.eq_dec a 0) as [->|Ha0]; destruct (N.eq_dec b 0) as [->|Hb0].
  - rewrite N.lxor_0_l in Hz. congruence.
  - rewrite N.max_r by (change (N.log2 0) with 0; lia). apply Hlog; assumption.
  - rewrite N.max_l by (change (N.log2 0) with 0; lia). apply Hlog; assumption.
  - apply N.max_lub_lt; apply Hlog; assumption.
Qed.

Lemma step8_closed : forall c, c < 65536 -> step8 c < 65536.
Proof.
  intros c Hc. pose proof (sweep (fun c => step8 c <? 65536) 65536 ltac:(vm_compute; reflexivity) c Hc) as H. cbv beta in H. lia.
Qed.
Lemma byte_step_closed c b : c < 65536 -> b < 256 -> byte_step c b < 65536.
Proof.
  intros Hc Hb. unfold byte_step. apply step8_closed. change 65536 with (2 ^ 16). apply lxor_lt_pow2; [exact Hc|].
  apply N.lt_trans with (m := 256); [exact Hb|reflexivity].
Qed.
Lemma crc_fold_closed : forall d c, c < 65536 -> bytes_ok d = true -> crc_fold c d < 65536.
Proof.
  induction d as [|x d IH]; intros c Hc Hd; [exact Hc|].
  cbn [bytes_ok forallb] in Hd. apply andb_prop in Hd. destruct Hd as [Hx Hd]. apply byte_ok_lt in Hx.
  unfold crc_fold in *. cbn [fold_left]. apply IH; [apply byte_step_closed; assumption|exact Hd].
Qed.

(* a non-zero register stays non-zero over any number of zero bytes; the zero register stays zero *)
Lemma step8_zero_only : forall c, c < 65536 -> step8 c = 0 -> c = 0.
Proof.
  intros c Hc H0. pose proof (sweep (fun c => negb (step8 c =? 0) || (c =? 0)) 65536 ltac:(vm_compute; reflexivity) c Hc) as H.
  cbv beta in H. lia.
Qed.
Lemma crc_fold_zeros_0 k : crc_fold 0 (repeat 0 k) = 0.
Proof. induction k as [|k IH]; [reflexivity|]. unfold crc_fold in *. cbn [repeat fold_left]. change (byte_step 0 0) with 0. exact IH. Qed.
Lemma crc_fold_zeros_nonzero : forall k c, c < 65536 -> c <> 0 -> crc_fold c (repeat 0 k) <> 0.
Proof.
  induction k as [|k IH]; intros c Hc Hnz; [exact Hnz|].
  unfold crc_fold in *. cbn [repeat fold_left]. apply IH.
  - apply byte_step_closed; [exact Hc|lia].
  - unfold byte_step. rewrite N.lxor_0_r. intros H. apply Hnz. apply step8_zero_only; assumption.
Qed.

Lemma crc_fold_app c a b : crc_fold c (a ++ b) = crc_fold (crc_fold c a) b.
Proof. unfold crc_fold. apply fold_left_app. Qed.

(* ---- residue: a slice passes the CRC check iff the register run over the WHOLE slice ends at 0 ---- *)
Lemma residue_zero : forall c, c < 65536 -> crc_fold c [lo8 c; hi8 c] = 0.
Proof.
  intros c Hc. apply N.eqb_eq.
  exact (sweep (fun c => crc_fold c [lo8 c; hi8 c] =? 0) 65536 ltac:(vm_compute; reflexivity) c Hc).
Qed.
Lemma two_bytes_zero_only : forall x y, x < 256 -> y < 256 -> crc_fold 0 [x; y] = 0 -> x = 0 /\ y = 0.
Proof.
  intros x y Hx Hy H0.
  pose proof (sweep2 (fun x y => negb (crc_fold 0 [x; y] =? 0) || ((x =? 0) && (y =? 0))) 256 256 ltac:(vm_compute; reflexivity) x y Hx Hy) as H.
  cbv beta in H. lia.
Qed.

Lemma lxor_cancel a b : N.lxor a b = 0 -> a = b.
Proof. apply N.lxor_eq. Qed.

Theorem check_crc_iff_residue adu c1 c2 : bytes_ok adu = true -> c1 < 256 -> c2 < 256 ->
  (check_crc adu c1 c2 = true <-> crc_fold 0xFFFF (adu ++ [c1; c2]) = 0).
Proof.
  intros Hok H1 H2. set (c := crc_reg adu).
  assert (Hc : c < 65536) by (apply crc_fold_closed; [lia|exact Hok]).
  rewrite crc_fold_app. fold (crc_reg adu). fold c.
  (* the register over the two trailing bytes, split by linearity into the residue part and the difference *)
  assert (Hlin : crc_fold c [c1; c2] = crc_fold 0 [N.lxor c1 (lo8 c); N.lxor c2 (hi8 c)]).
  { pose proof (crc_fold_xor [c1; c2] [lo8 c; hi8 c] 0 c eq_refl) as H. cbn [xor_bytes] in H.
    rewrite N.lxor_0_l in H. rewrite (residue_zero c Hc), N.lxor_0_r in H.
    pose proof (crc_fold_xor [N.lxor c1 (lo8 c); N.lxor c2 (hi8 c)] [lo8 c; hi8 c] 0 c eq_refl) as H'. cbn [xor_bytes] in H'.
    rewrite N.lxor_0_l, (residue_zero c Hc), N.lxor_0_r in H'.
    rewrite !N.lxor_assoc, !N.lxor_nilpotent, !N.lxor_0_r in H'. congruence. }
  rewrite Hlin. unfold check_crc, calc_crc. fold c.
  pose proof (lo8_lt c). pose proof (hi8_lt c).
  assert (Hb1 : N.lxor c1 (lo8 c) < 256) by (change 256 with (2 ^ 8); apply lxor_lt_pow2; assumption).
  assert (Hb2 : N.lxor c2 (hi8 c) < 256) by (change 256 with (2 ^ 8); apply lxor_lt_pow2; assumption).
  split.
  - intros He. apply N.eqb_eq in He. unfold of_be16 in He.
    assert (c1 = lo8 c /\ c2 = hi8 c) as [-> ->] by lia. rewrite !N.lxor_nilpotent. reflexivity.
  - intros Hz. destruct (two_bytes_zero_only _ _ Hb1 Hb2 Hz) as [Hx Hy].
    apply lxor_cancel in Hx. apply lxor_cancel in Hy. subst. unfold of_be16. apply N.eqb_eq. lia.
Qed.

(* ---- corrupting a valid slice: the new residue is the register of the error pattern alone ---- *)
Theorem corrupted_residue F E : length F = length E -> crc_fold 0xFFFF F = 0 ->
  crc_fold 0xFFFF (xor_bytes F E) = crc_fold 0 E.
Proof.
  intros Hl Hv. pose proof (crc_fold_xor F E 0xFFFF 0 Hl) as H. rewrite N.lxor_0_r in H. rewrite H, Hv. apply N.lxor_0_l.
Qed.

(* ---- bursts of up to 16 bits (bit order as transmitted: least significant bit of each byte first) ---- *)
(* an error pattern [p] (16 bits, non-zero) starting at bit [s] of some byte spans at most 3 bytes *)
Definition burst_bytes (p s : N) : list N :=
  let v := N.shiftl p s in [v mod 256; (v / 256) mod 256; (v / 65536) mod 256].

Definition burst_check (p s : N) : bool := (p =? 0) || negb (crc_fold 0 (burst_bytes p s) =? 0).

Lemma burst_sweep : forall p s, p < 65536 -> s < 8 -> burst_check p s = true.
Proof. exact (sweep2 burst_check 65536 8 ltac:(vm_compute; reflexivity)). Qed.

Lemma bytes_ok_burst p s : bytes_ok (burst_bytes p s) = true.
Proof. unfold burst_bytes, bytes_ok. cbn [forallb]. unfold byte_ok. lia. Qed.

Lemma burst_nonzero p s : 1 <= p -> p < 65536 -> s < 8 -> crc_fold 0 (burst_bytes p s) <> 0.
Proof.
  intros Hp1 Hp Hs. pose proof (burst_sweep p s Hp Hs) as H. unfold burst_check in H.
  generalize dependent (crc_fold 0 (burst_bytes p s)). intros c H. lia.
Qed.

(* every error pattern whose set bits lie within 16 consecutive transmitted bits -- anywhere in a frame
   of any length -- changes the residue of a valid frame, so the corrupted slice fails the CRC check *)
Theorem burst_detected F k p s m :
  crc_fold 0xFFFF F = 0 -> 1 <= p -> p < 65536 -> s < 8 ->
  length F = (k + 3 + m)%nat ->
  crc_fold 0xFFFF (xor_bytes F (repeat 0 k ++ burst_bytes p s ++ repeat 0 m)) <> 0.
Proof.
  intros Hv Hp1 Hp Hs Hl.
  rewrite corrupted_residue; [|rewrite !app_length, !repeat_length; cbn [burst_bytes length]; lia|exact Hv].
  rewrite !crc_fold_app, crc_fold_zeros_0.
  apply crc_fold_zeros_nonzero.
  - apply crc_fold_closed; [lia|apply bytes_ok_burst].
  - apply burst_nonzero; assumption.
Qed.

(* single-bit errors are bursts of length one *)
Corollary single_bit_detected F k b m :
  crc_fold 0xFFFF F = 0 -> b < 8 -> length F = (k + 3 + m)%nat ->
  crc_fold 0xFFFF (xor_bytes F (repeat 0 k ++ burst_bytes 1 b ++ repeat 0 m)) <> 0.
Proof. intros Hv Hb Hl. apply burst_detected; try assumption; lia. Qed.
