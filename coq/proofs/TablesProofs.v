(* TablesProofs.v -- the model's definitions (Frame.v, Pdu.v, RtuCodec.v) ARE the interpretation of the model's tables
   (model/Tables.v).  Together with the per-run obligations "table regenerated from the Rust source = model table"
   (coq/gen/Ob*.v) this carries every theorem about fc_new / ex_new / req_pdu_len / rsp_pdu_len / req_size / rsp_size
   over to the tables the code contains. *)
From Coq Require Import Lia ZifyBool ZifyNat ZifyN.
From TM Require Import Base Frame Pdu Crc RtuCodec TcpCodec Text Tables BaseLemmas.

Lemma bytes256_all b : b < 256 -> In b bytes256.
Proof.
  intros H. unfold bytes256. apply in_map_iff. exists (N.to_nat b). split; [lia|]. apply in_seq. lia.
Qed.

Lemma leqb_refl l : leqb l l = true.
Proof. unfold leqb. induction l as [|a l IH]; [reflexivity|]. cbn. rewrite N.eqb_refl, IH. reflexivity. Qed.

(* ---- names ---- *)
Definition fc_name_ok (t : name_table) (b : N) : bool :=
  match lookup_name t b with
  | Some n => leqb (show_fc_name (fc_new b)) n
  | None => match fc_new b with FcCustom c => c =? b | _ => false end
  end.
Definition ex_name_ok (t : name_table) (b : N) : bool :=
  match lookup_name t b with
  | Some n => leqb (show_ex_name (ex_new b)) n
  | None => match ex_new b with ExCustom c => c =? b | _ => false end
  end.

Theorem fc_table_model_ok : forall b, b < 256 -> fc_name_ok fc_table_model b = true.
Proof.
  assert (H : forallb (fc_name_ok fc_table_model) bytes256 = true) by (vm_compute; reflexivity).
  intros b Hb. rewrite forallb_forall in H. apply H. apply bytes256_all. exact Hb.
Qed.
Theorem ex_table_model_ok : forall b, b < 256 -> ex_name_ok ex_table_model b = true.
Proof.
  assert (H : forallb (ex_name_ok ex_table_model) bytes256 = true) by (vm_compute; reflexivity).
  intros b Hb. rewrite forallb_forall in H. apply H. apply bytes256_all. exact Hb.
Qed.

(* two name tables with the same expansion name every byte alike *)
Lemma expand_names_eq t1 t2 b : expand_names t1 = expand_names t2 -> b < 256 -> lookup_name t1 b = lookup_name t2 b.
Proof.
  intros He Hb. unfold expand_names in He.
  assert (Hn : nth_error (map (lookup_name t1) bytes256) (N.to_nat b) = nth_error (map (lookup_name t2) bytes256) (N.to_nat b)) by (rewrite He; reflexivity).
  rewrite !nth_error_map in Hn.
  assert (Hb' : nth_error bytes256 (N.to_nat b) = Some b).
  { unfold bytes256. rewrite nth_error_map. rewrite nth_error_nth' with (d := O) by (rewrite seq_length; lia).
    rewrite seq_nth by lia. cbn. f_equal. lia. }
  rewrite Hb' in Hn. cbn in Hn. congruence.
Qed.

(* ---- RTU length tables ---- *)
Definition req_rule (fc : N) : len_rule :=
  if (1 <=? fc) && (fc <=? 6) then LConst 5
  else if (fc =? 0x07) || (fc =? 0x0B) || (fc =? 0x0C) || (fc =? 0x11) then LConst 1
  else if (fc =? 0x0F) || (fc =? 0x10) then LCount 6
  else if fc =? 0x16 then LConst 7
  else if fc =? 0x18 then LConst 3
  else if fc =? 0x17 then LCount 10
  else LInvalid.
Definition rsp_rule (fc : N) : len_rule :=
  if ((1 <=? fc) && (fc <=? 4)) || (fc =? 0x0C) || (fc =? 0x11) || (fc =? 0x17) then LCount 2
  else if (fc =? 0x05) || (fc =? 0x06) || (fc =? 0x0B) || (fc =? 0x0F) || (fc =? 0x10) then LConst 5
  else if fc =? 0x07 then LConst 2
  else if fc =? 0x16 then LConst 7
  else if fc =? 0x18 then LCount16 3
  else if (0x81 <=? fc) && (fc <=? 0xAB) then LConst 2
  else LInvalid.

Lemma req_pdu_len_rule buf : req_pdu_len buf = match nth_error buf 1 with None => Val None | Some fc => apply_rule (req_rule fc) buf end.
Proof.
  unfold req_pdu_len, req_rule. destruct (nth_error buf 1) as [fc|]; [|reflexivity].
  destruct ((1 <=? fc) && (fc <=? 6)); [reflexivity|].
  destruct ((fc =? 7) || (fc =? 11) || (fc =? 12) || (fc =? 17)); [reflexivity|].
  destruct ((fc =? 15) || (fc =? 16)); [reflexivity|].
  destruct (fc =? 22); [reflexivity|]. destruct (fc =? 24); [reflexivity|]. destruct (fc =? 23); reflexivity.
Qed.

Lemma rsp_pdu_len_rule buf : rsp_pdu_len buf = match nth_error buf 1 with None => Val None | Some fc => apply_rule (rsp_rule fc) buf end.
Proof.
  unfold rsp_pdu_len, rsp_rule. destruct (nth_error buf 1) as [fc|] eqn:H1; [|reflexivity].
  destruct (((1 <=? fc) && (fc <=? 4)) || (fc =? 12) || (fc =? 17) || (fc =? 23)); [reflexivity|].
  destruct ((fc =? 5) || (fc =? 6) || (fc =? 11) || (fc =? 15) || (fc =? 16)); [reflexivity|].
  destruct (fc =? 7); [reflexivity|]. destruct (fc =? 22); [reflexivity|].
  destruct (fc =? 24).
  - cbn [apply_rule]. destruct buf as [|a [|b [|h [|l rest]]]]; reflexivity.
  - destruct ((129 <=? fc) && (fc <=? 171)); reflexivity.
Qed.

Definition len_rule_eqb (a b : len_rule) : bool :=
  match a, b with
  | LConst x, LConst y | LCount x, LCount y | LCount16 x, LCount16 y => x =? y
  | LInvalid, LInvalid => true
  | _, _ => false
  end.
Lemma len_rule_eqb_eq a b : len_rule_eqb a b = true -> a = b.
Proof. destruct a, b; cbn; intros H; try discriminate; try reflexivity; apply N.eqb_eq in H; subst; reflexivity. Qed.

Theorem req_len_table_model_ok : forall fc, fc < 256 -> lookup_len req_len_table_model fc = req_rule fc.
Proof.
  assert (H : forallb (fun fc => len_rule_eqb (lookup_len req_len_table_model fc) (req_rule fc)) bytes256 = true) by (vm_compute; reflexivity).
  intros fc Hb. rewrite forallb_forall in H. apply len_rule_eqb_eq. apply H. apply bytes256_all. exact Hb.
Qed.
Theorem rsp_len_table_model_ok : forall fc, fc < 256 -> lookup_len rsp_len_table_model fc = rsp_rule fc.
Proof.
  assert (H : forallb (fun fc => len_rule_eqb (lookup_len rsp_len_table_model fc) (rsp_rule fc)) bytes256 = true) by (vm_compute; reflexivity).
  intros fc Hb. rewrite forallb_forall in H. apply len_rule_eqb_eq. apply H. apply bytes256_all. exact Hb.
Qed.

Lemma nth_error_byte_ok l i x : bytes_ok l = true -> nth_error l i = Some x -> x < 256.
Proof.
  revert i. induction l as [|a l IH]; intros i Hok Hn; [destruct i; discriminate|].
  cbn in Hok. apply andb_prop in Hok. destruct Hok as [Ha Hl]. unfold byte_ok in Ha.
  destruct i; cbn in Hn; [injection Hn as <-; lia|eapply IH; eauto].
Qed.

(* any table with the same expansion as the model's gives the model's length function on byte strings *)
Lemma expand_len_eq t1 t2 fc : expand_len t1 = expand_len t2 -> fc < 256 -> lookup_len t1 fc = lookup_len t2 fc.
Proof.
  intros He Hb. unfold expand_len in He.
  assert (Hn : nth_error (map (lookup_len t1) bytes256) (N.to_nat fc) = nth_error (map (lookup_len t2) bytes256) (N.to_nat fc)) by (rewrite He; reflexivity).
  rewrite !nth_error_map in Hn.
  assert (Hb' : nth_error bytes256 (N.to_nat fc) = Some fc).
  { unfold bytes256. rewrite nth_error_map. rewrite nth_error_nth' with (d := O) by (rewrite seq_length; lia).
    rewrite seq_nth by lia. cbn. f_equal. lia. }
  rewrite Hb' in Hn. cbn in Hn. congruence.
Qed.

Theorem interp_req_len t buf : expand_len t = expand_len req_len_table_model -> bytes_ok buf = true ->
  interp_len t buf = req_pdu_len buf.
Proof.
  intros He Hok. rewrite req_pdu_len_rule. unfold interp_len. destruct (nth_error buf 1) as [fc|] eqn:H1; [|reflexivity].
  pose proof (nth_error_byte_ok _ _ _ Hok H1) as Hb.
  rewrite (expand_len_eq _ _ fc He Hb), (req_len_table_model_ok fc Hb). reflexivity.
Qed.
Theorem interp_rsp_len t buf : expand_len t = expand_len rsp_len_table_model -> bytes_ok buf = true ->
  interp_len t buf = rsp_pdu_len buf.
Proof.
  intros He Hok. rewrite rsp_pdu_len_rule. unfold interp_len. destruct (nth_error buf 1) as [fc|] eqn:H1; [|reflexivity].
  pose proof (nth_error_byte_ok _ _ _ Hok H1) as Hb.
  rewrite (expand_len_eq _ _ fc He Hb), (rsp_len_table_model_ok fc Hb). reflexivity.
Qed.

(* ---- sizes ---- *)
Lemma packed_size_items {A} (bs : list A) : packed_size bs = (len bs + 7) / 8.
Proof. reflexivity. Qed.

Theorem req_size_table_model_ok r : size_by req_size_table_model (req_variant r) (req_items r) = Some (req_size r).
Proof. destruct r; vm_compute size_by; cbn [req_size req_items]; rewrite ?packed_size_items; try reflexivity; f_equal; lia. Qed.
Theorem rsp_size_table_model_ok r : size_by rsp_size_table_model (rsp_variant r) (rsp_items r) = Some (rsp_size r).
Proof. destruct r; vm_compute size_by; cbn [rsp_size rsp_items]; rewrite ?packed_size_items; try reflexivity; f_equal; lia. Qed.

Lemma req_variant_in r : In (req_variant r) variant_names.
Proof. destruct r; vm_compute; tauto. Qed.
Lemma rsp_variant_in r : In (rsp_variant r) variant_names.
Proof. destruct r; vm_compute; tauto. Qed.

Lemma expand_size_eq t1 t2 n : expand_size t1 = expand_size t2 -> In n variant_names -> lookup_size t1 n = lookup_size t2 n.
Proof.
  unfold expand_size. generalize variant_names as l. induction l as [|x l IH]; intros He Hin; [destruct Hin|].
  cbn [map] in He. injection He as H1 H2. destruct Hin as [<-|Hin]; [exact H1|apply IH; assumption].
Qed.

Theorem size_by_req t r : expand_size t = expand_size req_size_table_model ->
  size_by t (req_variant r) (req_items r) = Some (req_size r).
Proof. intros He. unfold size_by. rewrite (expand_size_eq _ _ _ He (req_variant_in r)). apply req_size_table_model_ok. Qed.
Theorem size_by_rsp t r : expand_size t = expand_size rsp_size_table_model ->
  size_by t (rsp_variant r) (rsp_items r) = Some (rsp_size r).
Proof. intros He. unfold size_by. rewrite (expand_size_eq _ _ _ He (rsp_variant_in r)). apply rsp_size_table_model_ok. Qed.

(* ---- the PDU encoders as put programs ---- *)
Lemma bind_val {A B} (a : A) (f : A -> outcome B) : bind (Val a) f = f a.
Proof. reflexivity. Qed.

Ltac enc_cases :=
  repeat match goal with
         | |- context [u16_len ?m ?n] => destruct (u16_len m n); cbn [bind]
         | |- context [u8_len ?m ?n] => destruct (u8_len m n); cbn [bind]
         | |- context [if ?c then _ else _] => destruct c; cbn [bind]
         end.

Theorem req_enc_prog_model_ok m r :
  run_enc req_enc_prog_model m (req_variant r) (fc_value (req_fc r)) (req_fields r) = Some (enc_req m r).
Proof.
  destruct r; unfold run_enc; vm_compute lookup_prog; cbn [option_map run_puts run_put eval_pexp req_fields nth_error fv_len bind enc_req req_fc fc_value];
    rewrite ?packed_size_items; enc_cases; cbn [app]; rewrite ?app_nil_r, <- ?app_assoc; try reflexivity.
Qed.

Theorem rsp_enc_prog_model_ok m r :
  run_enc rsp_enc_prog_model m (rsp_variant r) (fc_value (rsp_fc r)) (rsp_fields r) = Some (enc_rsp m r).
Proof.
  destruct r; unfold run_enc; vm_compute lookup_prog; cbn [option_map run_puts run_put eval_pexp rsp_fields nth_error fv_len bind enc_rsp rsp_fc fc_value];
    rewrite ?packed_size_items; enc_cases; cbn [app]; rewrite ?app_nil_r, <- ?app_assoc; try reflexivity.
Qed.

Lemma expand_progs_eq t1 t2 n : expand_progs t1 = expand_progs t2 -> In n variant_names -> lookup_prog t1 n = lookup_prog t2 n.
Proof.
  unfold expand_progs. generalize variant_names as l. induction l as [|x l IH]; intros He Hin; [destruct Hin|].
  cbn [map] in He. injection He as H1 H2. destruct Hin as [<-|Hin]; [exact H1|apply IH; assumption].
Qed.

(* a table that agrees with the model's on every variant name encodes every request / response exactly as enc_req / enc_rsp do *)
Theorem run_enc_req t m r : expand_progs t = expand_progs req_enc_prog_model ->
  run_enc t m (req_variant r) (fc_value (req_fc r)) (req_fields r) = Some (enc_req m r).
Proof. intros He. unfold run_enc. rewrite (expand_progs_eq _ _ _ He (req_variant_in r)). apply req_enc_prog_model_ok. Qed.
Theorem run_enc_rsp t m r : expand_progs t = expand_progs rsp_enc_prog_model ->
  run_enc t m (rsp_variant r) (fc_value (rsp_fc r)) (rsp_fields r) = Some (enc_rsp m r).
Proof. intros He. unfold run_enc. rewrite (expand_progs_eq _ _ _ He (rsp_variant_in r)). apply rsp_enc_prog_model_ok. Qed.

(* ---- the frame encoders ---- *)
Lemma enc_req_never_fails m r k : enc_req m r <> Fail k.
Proof.
  destruct r; cbn [enc_req]; try discriminate;
    unfold u16_len, u8_len; repeat match goal with |- context [if ?c then _ else _] => destruct c end; cbn [bind]; try discriminate;
    repeat match goal with |- context [if ?c then _ else _] => destruct c; cbn [bind] end; discriminate.
Qed.
Lemma enc_rsp_never_fails m r k : enc_rsp m r <> Fail k.
Proof.
  destruct r; cbn [enc_rsp]; try discriminate;
    unfold u16_len, u8_len; repeat match goal with |- context [if ?c then _ else _] => destruct c end; cbn [bind]; try discriminate;
    repeat match goal with |- context [if ?c then _ else _] => destruct c; cbn [bind] end; discriminate.
Qed.
Lemma enc_rr_never_fails m rr k : enc_rr m rr <> Fail k.
Proof.
  destruct rr as [r|e]; cbn [enc_rr]; [apply enc_rsp_never_fails|].
  unfold enc_exc. repeat match goal with |- context [if ?c then _ else _] => destruct c end; discriminate.
Qed.

Theorem rtu_toks_agree m h size pdu : (forall k, pdu <> Fail k) ->
  enc_agrees (run_toks m h 0 size pdu rtu_frame_toks [] 0) (_ <- size ;; p <- pdu ;; Val (rtu_frame (snd h) p)).
Proof.
  intros Hp. unfold rtu_frame_toks. destruct size as [n|k|]; cbn [run_toks bind enc_agrees snd]; try reflexivity.
  destruct pdu as [bs|k|]; cbn [bind enc_agrees snd app]; try reflexivity; try (exfalso; eapply Hp; reflexivity).
Qed.

Theorem tcp_toks_agree m h size pdu : (forall k, pdu <> Fail k) ->
  enc_agrees (run_toks m h 0 size pdu tcp_frame_toks [] 0) (sz <- size ;; l <- u16_len m (sz + 1) ;; p <- pdu ;; Val (mbap h l ++ p)).
Proof.
  intros Hp. unfold tcp_frame_toks. destruct size as [n|k|]; cbn [run_toks bind enc_agrees snd]; try reflexivity.
  assert (Hu : forall e, u16_len m (n + 1) <> Fail e) by (intros e; unfold u16_len; repeat match goal with |- context [if ?c then _ else _] => destruct c end; discriminate).
  destruct (u16_len m (n + 1)) as [l|e|]; cbn [bind enc_agrees snd]; try reflexivity; try (exfalso; eapply Hu; reflexivity).
  destruct pdu as [bs|k|]; cbn [bind enc_agrees snd app]; try reflexivity; try (exfalso; eapply Hp; reflexivity);
    unfold mbap; cbn [app]; rewrite <- ?app_assoc; reflexivity.
Qed.

(* a program whose normal form is the model's: the code's encoder agrees with the model's *)
Definition run_frame (ps : list fop) (m : mode) (h : hdr) (pid : N) (size : outcome N) (pdu : outcome (list N)) : option (list N * outcome unit) :=
  option_map (fun ts => run_toks m h pid size pdu ts [] 0) (compile_frame ps false false false).

Theorem rtu_client_frame_agrees ps m h r : compile_frame ps false false false = Some rtu_frame_toks ->
  exists run, run_frame ps m h 0 (req_size_chk r) (enc_req m r) = Some run /\ enc_agrees run (rtu_client_enc m h r).
Proof. intros Hc. unfold run_frame. rewrite Hc. eexists. split; [reflexivity|]. apply rtu_toks_agree. apply enc_req_never_fails. Qed.
Theorem rtu_server_frame_agrees ps m h rr : compile_frame ps false false false = Some rtu_frame_toks ->
  exists run, run_frame ps m h 0 (rr_size_chk rr) (enc_rr m rr) = Some run /\ enc_agrees run (rtu_server_enc m h rr).
Proof. intros Hc. unfold run_frame. rewrite Hc. eexists. split; [reflexivity|]. apply rtu_toks_agree. apply enc_rr_never_fails. Qed.
Theorem tcp_client_frame_agrees ps m h r : compile_frame ps false false false = Some tcp_frame_toks ->
  exists run, run_frame ps m h 0 (req_size_chk r) (enc_req m r) = Some run /\ enc_agrees run (tcp_client_enc m h r).
Proof. intros Hc. unfold run_frame. rewrite Hc. eexists. split; [reflexivity|]. apply tcp_toks_agree. apply enc_req_never_fails. Qed.
Theorem tcp_server_frame_agrees ps m h rr : compile_frame ps false false false = Some tcp_frame_toks ->
  exists run, run_frame ps m h 0 (rr_size_chk rr) (enc_rr m rr) = Some run /\ enc_agrees run (tcp_server_enc m h rr).
Proof. intros Hc. unfold run_frame. rewrite Hc. eexists. split; [reflexivity|]. apply tcp_toks_agree. apply enc_rr_never_fails. Qed.
