(* SlicesClient.v -- the replies consumed by the calls of ANY client history (completed, failed, mismatching,
   abandoned calls, slave changes, disconnects; any reply bytes, any fragmentation, any faults) are carried by
   pairwise disjoint contiguous slices of the bytes the transport delivered, in stream order.  The per-call
   clearing of the receive buffer and the draining after an error only ever DROP bytes. *)
From Coq Require Import Lia.
From TM Require Import Base Frame Pdu Crc RtuCodec TcpCodec Framed Client BaseLemmas FramedProofs RtuProofs
  ClientProofs Histories Slices.

(* what the client has received but not yet consumed, plus what its transport will still deliver *)
Definition stream (st : cstate) : list N := rbuf (rst st) ++ sdata (rq st).

Theorem call_seg p m st req bg : bytes_ok (stream st) = true ->
  exists d, match call_reply p m st req bg with
            | Some i => exists f, client_slice p f i /\ stream st = d ++ f ++ stream (snd (call p m st req bg))
            | None => stream st = d ++ stream (snd (call p m st req bg))
            end.
Proof.
  intros Hok. unfold call_reply, call, req_hdr, cleared, stream in *.
  destruct (framed st); cbn [negb].
  2:{ exists []. reflexivity. }
  match goal with |- context [send ?f ?w ?b] => destruct (send f w b) as [[[sr w1] bg1] pn] end.
  assert (Hdrop : forall w2 t2, exists d, rbuf (rst st) ++ sdata (rq st)
            = d ++ stream (upd st (mkR [] (reof (rst st)) (rreadable (rst st)) (rerrored (rst st))) w2 (rq st) t2)).
  { intros. exists (rbuf (rst st)). reflexivity. }
  destruct pn; [destruct sr; apply Hdrop|].
  destruct sr; try apply Hdrop.
  assert (Hq : bytes_ok (sdata (rq st)) = true) by exact (bytes_ok_tail _ _ Hok).
  assert (Hok0 : bytes_ok (rbuf (mkR [] (reof (rst st)) (rreadable (rst st)) (rerrored (rst st))) ++ sdata (rq st)) = true).
  { cbn [rbuf app]. exact Hq. }
  match goal with |- context [next ?d ?s ?q ?b] => destruct (next d s q b) as [[[nr r1] q1] bg2] eqn:Hn end.
  destruct (next_seg _ _ (client_dec_seg p) _ _ _ _ _ _ _ Hok0 Hn) as [d Hs]. cbn [rbuf app] in Hs.
  destruct nr as [[rh rr]|k| | | |]; cbn [seg_res] in Hs.
  - destruct Hs as [f [HR Hs]]. exists (rbuf (rst st) ++ d), f. split; [exact HR|].
    rewrite Hs, <- app_assoc.
    destruct (negb (hdr_eqb _ rh)); [reflexivity|]. destruct (negb (_ =? _)); [reflexivity|]. destruct rr; reflexivity.
  - match goal with |- context [next ?d ?s ?q ?b] => destruct (next d s q b) as [[[nr2 r2] q2] bg3] eqn:Hn2 end.
    assert (Hok1 : bytes_ok (rbuf r1 ++ sdata q1) = true).
    { rewrite Hs in Hq. exact (bytes_ok_tail _ _ Hq). }
    destruct (next_suffix _ _ (client_dec_seg p) _ _ _ _ _ _ _ Hok1 Hn2) as [d2 Hs2].
    exists (rbuf (rst st) ++ d ++ d2). cbn [snd]. unfold stream, upd. cbn [rst rq].
    rewrite Hs, Hs2, <- !app_assoc. reflexivity.
  - exists (rbuf (rst st) ++ d). cbn [snd]. unfold stream, upd. cbn [rst rq]. rewrite Hs, <- app_assoc. reflexivity.
  - exists (rbuf (rst st) ++ d). cbn [snd]. unfold stream, upd. cbn [rst rq]. rewrite Hs, <- app_assoc. reflexivity.
  - exists (rbuf (rst st) ++ d). cbn [snd]. unfold stream, upd. cbn [rst rq]. rewrite Hs, <- app_assoc. reflexivity.
  - exists (rbuf (rst st) ++ d). cbn [snd]. unfold stream, upd. cbn [rst rq]. rewrite Hs, <- app_assoc. reflexivity.
Qed.

(* the replies consumed over a history, in call order, and the bytes its operations make the transport deliver *)
Fixpoint replies (p : proto) (m : mode) (st : cstate) (ops : list op) : list (hdr * rsp_result) :=
  match ops with
  | [] => []
  | o :: ops' =>
      (match o with
       | OCall _ req bg w f r => match call_reply p m (push st w f r) req bg with Some i => [i] | None => [] end
       | _ => []
       end) ++ replies p m (run_op p m st o) ops'
  end.

Fixpoint delivered (ops : list op) : list N :=
  match ops with
  | [] => []
  | OCall _ _ _ _ _ r :: ops' => sdata r ++ delivered ops'
  | _ :: ops' => delivered ops'
  end.

Lemma stream_push st w f r : stream (push st w f r) = stream st ++ sdata r.
Proof. unfold stream, push. cbn [rst rq]. rewrite sdata_app, app_assoc. reflexivity. Qed.

Theorem history_slices p m : forall ops st,
  bytes_ok (stream st ++ delivered ops) = true ->
  Slices (client_slice p) (stream st ++ delivered ops) (replies p m st ops) (stream (run_ops p m st ops)).
Proof.
  induction ops as [|o ops IH]; intros st Hok.
  - cbn [delivered replies run_ops fold_left]. rewrite app_nil_r. apply (Sl_nil _ []).
  - unfold run_ops. cbn [fold_left]. fold (run_ops p m (run_op p m st o) ops).
    destruct o as [t req bg w f r|s|sd].
    + cbn [delivered replies]. cbn [delivered] in Hok.
      assert (Hst : run_op p m st (OCall t req bg w f r) = snd (call p m (push st w f r) req bg)).
      { cbn [run_op]. destruct t; [apply typed_state|reflexivity]. }
      rewrite Hst. set (st0 := push st w f r).
      assert (Hs0 : stream st ++ sdata r ++ delivered ops = stream st0 ++ delivered ops).
      { unfold st0. rewrite stream_push, <- app_assoc. reflexivity. }
      rewrite Hs0 in *.
      destruct (call_seg p m st0 req bg (bytes_ok_head _ _ Hok)) as [d Hc].
      destruct (call_reply p m st0 req bg) as [i|].
      * destruct Hc as [fr [HR Hc]]. rewrite Hc in *. rewrite <- !app_assoc in *. cbn [app].
        constructor; [exact HR|]. apply IH. exact (bytes_ok_tail _ _ (bytes_ok_tail _ _ Hok)).
      * rewrite Hc in *. rewrite <- app_assoc in *. cbn [app]. apply Slices_drop. apply IH.
        exact (bytes_ok_tail _ _ Hok).
    + cbn [delivered replies app run_op]. apply (IH (set_slave st s)). exact Hok.
    + cbn [delivered replies app run_op].
      assert (Hd : stream (snd (disconnect (push_sd st sd))) = stream st).
      { unfold disconnect, push_sd, stream. cbn [framed]. destruct (negb (framed st)); [reflexivity|].
        cbn [sq]. destruct (shutdown (sq st ++ sd)) as [[r0 q0] dn]. reflexivity. }
      rewrite <- Hd in *. apply IH. exact Hok.
Qed.

(* what each consumed reply means for its caller is [call_classify]; in particular over RTU every reply
   returned to a caller (as value, exception or mismatch) is slave :: pdu ++ CRC-16/MODBUS(slave :: pdu),
   a contiguous slice of the received stream, and the slices of successive calls do not overlap *)
Corollary rtu_reply_is_crc_valid_slice f i : client_slice RTU f i ->
  exists pdu, f = (snd (fst i) :: pdu) ++ crc2 (snd (fst i) :: pdu) /\ dec_rsp_pdu pdu = Val (snd i).
Proof. intros [pdu [[Hf _] Hd]]. exists pdu. split; [exact Hf|exact Hd]. Qed.
