(* Abandon.v -- C16/C12: whatever an earlier call did -- completed, failed, was abandoned at any poll, left any
   fragment of its reply in the receive buffer -- the next call on a transport that stays open performs a
   normal exchange.  The missing piece beside [call_preserves_clean] and [call_keeps_framed]: a call sets the
   end-of-stream flag of the framing layer only if the transport signalled end of stream. *)
From Coq Require Import ZArith Lia ZifyBool ZifyNat ZifyN.
From TM Require Import Base Frame Pdu RtuCodec TcpCodec Framed Client BaseLemmas FramedProofs FramedMore ClientProofs Histories.
Ltac Zify.zify_post_hook ::= Z.div_mod_to_equations.

Definition is_eof_event (e : revt) : bool := match e with REof | RData [] => true | _ => false end.
Definition no_eof (q : list revt) : Prop := forall e, In e q -> is_eof_event e = false.

Lemma attempt_reof {I} (dec : list N -> list N * dres I) st : reof st = false ->
  match attempt dec st with inl (_, st') => reof st' = false | inr st' => reof st' = false end.
Proof.
  intros He. unfold attempt. destruct (rreadable st); [|exact He]. rewrite He.
  destruct (dec (rbuf st)) as [b' [|i|k|]]; reflexivity.
Qed.

Lemma next_reof {I} (dec : list N -> list N * dres I) : forall evs st bg,
  reof st = false -> no_eof evs ->
  let '(_, st', evs', _) := next dec st evs bg in reof st' = false /\ no_eof evs'.
Proof.
  induction evs as [|e evs IH]; intros st bg He Hn; rewrite next_eq.
  - destruct (rerrored st); [split; [exact He|exact Hn]|].
    pose proof (attempt_reof dec st He) as Ha. destruct (attempt dec st) as [[r st']|st']; split; assumption.
  - destruct (rerrored st); [split; [exact He|exact Hn]|].
    pose proof (attempt_reof dec st He) as Ha. destruct (attempt dec st) as [[r st']|st']; [split; assumption|].
    assert (Hn' : no_eof evs) by (intros x Hx; apply Hn; right; exact Hx).
    pose proof (Hn e (or_introl eq_refl)) as Hee.
    destruct e as [c| |k|].
    + destruct c as [|x c]; [discriminate Hee|]. apply IH; [reflexivity|exact Hn'].
    + discriminate Hee.
    + split; [exact Ha|exact Hn'].
    + destruct (spend bg) as [bg'|]; [apply IH; assumption|split; assumption].
Qed.

Theorem call_keeps_stream_open p m st req bg : reof (rst st) = false -> no_eof (rq st) ->
  reof (rst (snd (call p m st req bg))) = false /\ no_eof (rq (snd (call p m st req bg))).
Proof.
  intros He Hn. unfold call.
  destruct (framed st); cbn [negb]; [|split; assumption].
  match goal with |- context [send ?f ?w ?b] => destruct (send f w b) as [[[r w1] bg1] pn] end.
  destruct pn; [destruct r; cbn; split; assumption|].
  destruct r; try (cbn; split; assumption).
  match goal with |- context [next ?d ?s ?q ?b] => pose proof (next_reof d q s b He Hn) as Hx; destruct (next d s q b) as [[[nr r1] q1] bg2] end.
  destruct Hx as [He1 Hn1].
  destruct nr as [[rh rr]|k| | | |]; try (cbn; split; assumption).
  - destruct (negb _); [cbn; split; assumption|]. destruct (negb _); [cbn; split; assumption|]. destruct rr; cbn; split; assumption.
  - match goal with |- context [next ?d ?s ?q ?b] => pose proof (next_reof d q s b He1 Hn1) as Hy; destruct (next d s q b) as [[[nr2 r2] q2] bg3] end.
    destruct Hy. cbn. split; assumption.
Qed.

(* the invariant of a client on a transport that stays open *)
Definition usable (st : cstate) : Prop := framed st = true /\ clean st /\ reof (rst st) = false /\ no_eof (rq st).

Theorem call_keeps_usable p m st req bg : usable st -> usable (snd (call p m st req bg)).
Proof.
  intros (Hf & Hc & He & Hn). destruct (call_keeps_stream_open p m st req bg He Hn) as [He' Hn'].
  destruct (call_keeps_framed p m st req bg) as [Hf' _].
  repeat split; [rewrite Hf'; exact Hf|apply call_preserves_clean; exact Hc|exact He'|exact Hn'].
Qed.

Lemma no_eof_app a b : no_eof a -> no_eof b -> no_eof (a ++ b).
Proof. intros Ha Hb e Hi. apply in_app_or in Hi. destruct Hi; [apply Ha|apply Hb]; assumption. Qed.
Lemma no_eof_datas cs : Forall nonempty cs -> no_eof (datas cs).
Proof.
  intros Hf e Hi. unfold datas in Hi. apply in_map_iff in Hi. destruct Hi as (c & <- & Hc).
  rewrite Forall_forall in Hf. specialize (Hf c Hc). destruct c; [unfold nonempty in Hf; congruence|reflexivity].
Qed.

(* any history of calls (each with its own write / flush / read scripts that never signal end of stream),
   slave changes: still usable *)
Definition op_no_eof (o : op) : Prop := match o with OCall _ _ _ _ _ r => no_eof r | OSlave _ => True | ODisc _ => False end.

Lemma push_usable st w f r : usable st -> no_eof r -> usable (push st w f r).
Proof. intros (Hf & Hc & He & Hn) Hr. repeat split; try assumption. cbn. apply no_eof_app; assumption. Qed.

Theorem history_usable p m : forall ops st, usable st -> Forall op_no_eof ops -> usable (run_ops p m st ops).
Proof.
  induction ops as [|o ops IH]; intros st Hu Ha; [exact Hu|].
  inversion Ha as [|? ? Ho Hr]; subst. cbn [run_ops fold_left]. apply IH; [|exact Hr].
  destruct o as [t req bg w f r|s|sd]; cbn [run_op op_no_eof] in *.
  - destruct t; [rewrite typed_state|]; apply call_keeps_usable; apply push_usable; assumption.
  - destruct Hu as (Hf & Hc & He & Hn). repeat split; assumption.
  - contradiction.
Qed.

(* THE STATEMENT: after ANY such history -- calls that completed, failed, were abandoned at any poll index in the write,
   flush or read phase, with any fragments of replies read and left behind -- a call whose request gets written and whose
   matching reply is then delivered (after whatever unread events are still queued, in any chunking, followed by any
   surplus) returns that reply *)
Theorem exchange_after_any_history p m ops st0 req bg f rr cs rest w bg1 ws fs :
  usable st0 -> Forall op_no_eof ops ->
  let st := push (run_ops p m st0 ops) ws fs (datas cs) in
  send (client_enc p m (req_hdr p st) req) (wio_ st) bg = (SOk, w, bg1, false) ->
  rq (run_ops p m st0 ops) = [] ->
  Forall nonempty cs -> concat cs = f ++ rest -> client_valid p f (req_hdr p st, rr) ->
  fc_value (rr_fc rr) = fc_value (req_fc req) ->
  fst (call p m st req bg) = match rr with RROk r => CROk r | RRExc e => CRExc (exr_exception e) end.
Proof.
  intros Hu Ha st Hs Hq Hne Hcat Hv Hfc.
  pose proof (history_usable p m ops st0 Hu Ha) as (Hf & Hc & He & Hn).
  apply (exchange_returns_reply p m st req bg f rr cs rest w bg1); try assumption.
  unfold st, push. cbn [rq]. rewrite Hq. reflexivity.
Qed.
