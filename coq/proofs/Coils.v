(* Coils.v -- packing and unpacking of coils (encode_packed_coils / decode_packed_coils). *)
From Coq Require Import ZArith Lia ZifyBool ZifyNat ZifyN.
From TM Require Import Base Frame Pdu BaseLemmas.
Ltac Zify.zify_post_hook ::= Z.div_mod_to_equations.

Lemma pack_ind (P : list bool -> Prop) :
  P [] ->
  (forall bs, (0 < length bs < 8)%nat -> P bs) ->
  (forall b0 b1 b2 b3 b4 b5 b6 b7 r, P r -> P (b0 :: b1 :: b2 :: b3 :: b4 :: b5 :: b6 :: b7 :: r)) ->
  forall bs, P bs.
Proof.
  intros H0 Hs H8 bs. remember (length bs) as n eqn:Hn. revert bs Hn.
  induction n as [n IH] using lt_wf_ind. intros bs Hn.
  destruct bs as [|b0 [|b1 [|b2 [|b3 [|b4 [|b5 [|b6 [|b7 r]]]]]]]];
    try (apply H0); try (apply Hs; cbn [length]; lia).
  apply H8. apply (IH (length r)); [cbn [length] in Hn; lia|reflexivity].
Qed.

Lemma byte_bits_val8 b0 b1 b2 b3 b4 b5 b6 b7 :
  byte_bits (bits_val [b0; b1; b2; b3; b4; b5; b6; b7]) = [b0; b1; b2; b3; b4; b5; b6; b7].
Proof. destruct b0, b1, b2, b3, b4, b5, b6, b7; reflexivity. Qed.

Lemma byte_bits_val_short bs : (length bs < 8)%nat ->
  byte_bits (bits_val bs) = bs ++ repeat false (8 - length bs).
Proof.
  intros H.
  destruct bs as [|b0 [|b1 [|b2 [|b3 [|b4 [|b5 [|b6 [|b7 r]]]]]]]]; cbn [length] in H; try lia;
    repeat match goal with b : bool |- _ => destruct b end; reflexivity.
Qed.

Lemma bits_val_lt bs : (length bs <= 8)%nat -> bits_val bs < 256.
Proof.
  intros H.
  destruct bs as [|b0 [|b1 [|b2 [|b3 [|b4 [|b5 [|b6 [|b7 [|b8 r]]]]]]]]]; cbn [length] in H; try lia;
    repeat match goal with b : bool |- _ => destruct b end; cbn; lia.
Qed.

Lemma pack_coils_short bs : (0 < length bs < 8)%nat -> pack_coils bs = [bits_val bs].
Proof.
  intros H. destruct bs as [|b0 [|b1 [|b2 [|b3 [|b4 [|b5 [|b6 [|b7 r]]]]]]]]; cbn [length] in H; try lia; reflexivity.
Qed.

Definition pad_len (n : nat) : nat := ((8 - n mod 8) mod 8)%nat.

Lemma all_bits_pack : forall bs, all_bits (pack_coils bs) = bs ++ repeat false (pad_len (length bs)).
Proof.
  apply pack_ind.
  - reflexivity.
  - intros bs H. rewrite pack_coils_short by exact H. unfold all_bits. cbn [flat_map]. rewrite app_nil_r.
    rewrite byte_bits_val_short by lia. f_equal. f_equal. unfold pad_len.
    rewrite (Nat.mod_small (length bs)) by lia. rewrite Nat.mod_small by lia. reflexivity.
  - intros b0 b1 b2 b3 b4 b5 b6 b7 r IH. cbn [pack_coils]. unfold all_bits in *. cbn [flat_map].
    rewrite byte_bits_val8. rewrite IH. cbn [app].
    replace (pad_len (length (b0 :: b1 :: b2 :: b3 :: b4 :: b5 :: b6 :: b7 :: r))) with (pad_len (length r)); [reflexivity|].
    unfold pad_len. cbn [length].
    replace (S (S (S (S (S (S (S (S (length r))))))))) with (length r + 1 * 8)%nat by lia.
    rewrite Nat.mod_add by lia. reflexivity.
Qed.

Lemma length_pack : forall bs, length (pack_coils bs) = ((length bs + 7) / 8)%nat.
Proof.
  apply pack_ind.
  - reflexivity.
  - intros bs H. rewrite pack_coils_short by exact H. cbn [length].
    apply Nat.div_unique with (r := (length bs - 1)%nat); lia.
  - intros b0 b1 b2 b3 b4 b5 b6 b7 r IH. cbn [pack_coils length]. rewrite IH.
    replace (S (S (S (S (S (S (S (S (length r)))))))) + 7)%nat with ((length r + 7) + 1 * 8)%nat by lia.
    rewrite Nat.div_add by lia. lia.
Qed.

Lemma len_pack bs : len (pack_coils bs) = packed_size bs.
Proof.
  unfold len, packed_size. rewrite length_pack. unfold len.
  rewrite Nat2N.inj_div. f_equal. lia.
Qed.

Lemma bytes_ok_pack : forall bs, bytes_ok (pack_coils bs) = true.
Proof.
  apply pack_ind.
  - reflexivity.
  - intros bs H. rewrite pack_coils_short by exact H. cbn [bytes_ok forallb]. rewrite andb_true_r.
    apply byte_ok_lt. apply bits_val_lt. lia.
  - intros b0 b1 b2 b3 b4 b5 b6 b7 r IH. cbn [pack_coils bytes_ok forallb]. fold (bytes_ok (pack_coils r)). rewrite IH, andb_true_r.
    apply byte_ok_lt. apply bits_val_lt. cbn. lia.
Qed.

Lemma length_all_bits l : length (all_bits l) = (8 * length l)%nat.
Proof. induction l as [|b l IH]; [reflexivity|]. unfold all_bits in *. cbn [flat_map]. rewrite app_length, IH. cbn [byte_bits length]. lia. Qed.

(* unpacking exactly the packed coils gives them back; unpacking all bits gives them padded *)
Lemma unpack_pack bs : unpack_coils (pack_coils bs) (len bs) = Val bs.
Proof.
  unfold unpack_coils. rewrite len_pack. unfold packed_size.
  destruct (N.ltb_spec (8 * ((len bs + 7) / 8)) (len bs)) as [H|H]; [lia|].
  rewrite all_bits_pack. rewrite len_length. rewrite firstn_app, Nat.sub_diag, firstn_all. cbn [firstn]. rewrite app_nil_r. reflexivity.
Qed.

Lemma unpack_pack_all bs :
  unpack_coils (pack_coils bs) (packed_size bs * 8) = Val (bs ++ repeat false (pad_len (length bs))).
Proof.
  unfold unpack_coils. rewrite len_pack.
  destruct (N.ltb_spec (8 * packed_size bs) (packed_size bs * 8)) as [H|H]; [lia|].
  rewrite all_bits_pack. f_equal. apply firstn_all2.
  rewrite app_length, repeat_length. unfold packed_size, pad_len. unfold len.
  pose proof (Nat.mod_upper_bound (length bs) 8 ltac:(lia)).
  pose proof (Nat.div_mod (length bs) 8 ltac:(lia)).
  assert (Hq : N.to_nat ((N.of_nat (length bs) + 7) / 8 * 8) = (((length bs + 7) / 8) * 8)%nat).
  { rewrite N2Nat.inj_mul, N2Nat.inj_div. f_equal. f_equal. lia. }
  rewrite Hq.
  remember (length bs mod 8)%nat as m. remember (length bs / 8)%nat as d.
  destruct (Nat.eq_dec m 0) as [->|Hm].
  - replace (length bs + 7)%nat with (7 + d * 8)%nat by lia. rewrite Nat.div_add by lia. cbn. lia.
  - replace (length bs + 7)%nat with ((m - 1) + (d + 1) * 8)%nat by lia. rewrite Nat.div_add by lia.
    rewrite (Nat.div_small (m - 1)) by lia. rewrite (Nat.mod_small (8 - m)) by lia. lia.
Qed.

Lemma unpack_no_panic bytes count : count <= 8 * len bytes -> unpack_coils bytes count <> Panic.
Proof. intros H. unfold unpack_coils. destruct (N.ltb_spec (8 * len bytes) count); [lia|discriminate]. Qed.
