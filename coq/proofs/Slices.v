(* Slices.v -- stream-level conservation for the framed read half, for ARBITRARY bytes:
   whatever the transport delivers, in whatever fragmentation, and however the individual [next]
   calls end (item, error, end of stream, pending, abandoned), the items handed up over ANY number
   of calls are carried by pairwise disjoint contiguous slices of the received byte stream, in stream
   order; everything between them was dropped, nothing was invented or delivered twice.
   Instantiated for the RTU decoders (slice = slave :: pdu ++ CRC-16 of both: property C04), the MBAP
   decoder (property C05), the server loop (requests handed to the service) and client histories
   (replies consumed by calls, with the per-call clearing of the receive buffer). *)
From Coq Require Import Lia.
From TM Require Import Base Frame Pdu Crc RtuCodec TcpCodec Framed Client Server BaseLemmas FramedProofs RtuProofs.

(* the bytes a read script will deliver *)
Fixpoint sdata (q : list revt) : list N :=
  match q with
  | [] => []
  | RData c :: q' => c ++ sdata q'
  | _ :: q' => sdata q'
  end.

Lemma sdata_app a b : sdata (a ++ b) = sdata a ++ sdata b.
Proof.
  induction a as [|e a IH]; [reflexivity|]. destruct e; cbn [app sdata]; rewrite IH; [|reflexivity..].
  rewrite app_assoc. reflexivity.
Qed.

Lemma sdata_datas cs : sdata (datas cs) = concat cs.
Proof. induction cs as [|c cs IH]; [reflexivity|]. cbn [datas map sdata concat]. fold (datas cs). rewrite IH. reflexivity. Qed.

Section Seg.
  Context {I : Type}.
  Variable dec : list N -> list N * dres I.
  Variable R : list N -> I -> Prop.          (* "these bytes are a frame carrying this item" *)

  (* one decoder call splits its buffer into dropped bytes, at most one frame, and the rest *)
  Definition dec_seg := forall buf b' r, bytes_ok buf = true -> dec buf = (b', r) ->
    exists d, match r with
              | DSome i => exists f, R f i /\ buf = d ++ f ++ b'
              | _ => buf = d ++ b'
              end.
  Hypothesis Hseg : dec_seg.

  Definition seg_res (r : nres I) (s d s' : list N) : Prop :=
    match r with
    | NItem i => exists f, R f i /\ s = d ++ f ++ s'
    | _ => s = d ++ s'
    end.

  Lemma decode_eof_seg : forall buf b' r, bytes_ok buf = true -> decode_eof dec buf = (b', r) ->
    exists d, match r with
              | DSome i => exists f, R f i /\ buf = d ++ f ++ b'
              | _ => buf = d ++ b'
              end.
  Proof.
    intros buf b' r Hok H. unfold decode_eof in H. destruct (dec buf) as [b1 r1] eqn:Hd.
    destruct (Hseg _ _ _ Hok Hd) as [d Hs].
    destruct r1 as [|i|k|].
    - destruct b1; injection H as <- <-; exists d; exact Hs.
    - injection H as <- <-. exists d. exact Hs.
    - injection H as <- <-. exists d. exact Hs.
    - injection H as <- <-. exists d. exact Hs.
  Qed.

  Lemma attempt_seg st : bytes_ok (rbuf st) = true ->
    match attempt dec st with
    | inl (r, st') => exists d, seg_res r (rbuf st) d (rbuf st')
    | inr st' => exists d, rbuf st = d ++ rbuf st'
    end.
  Proof.
    intros Hok. unfold attempt. destruct (rreadable st); [|exists []; reflexivity].
    destruct (reof st).
    - destruct (decode_eof dec (rbuf st)) as [b' r] eqn:Hd.
      destruct (decode_eof_seg _ _ _ Hok Hd) as [d Hs]. destruct r; exists d; exact Hs.
    - destruct (dec (rbuf st)) as [b' r] eqn:Hd.
      destruct (Hseg _ _ _ Hok Hd) as [d Hs]. destruct r; exists d; exact Hs.
  Qed.

  Lemma bytes_ok_tail a b : bytes_ok (a ++ b) = true -> bytes_ok b = true.
  Proof. rewrite bytes_ok_app. intros H. apply andb_prop in H. tauto. Qed.
  Lemma bytes_ok_head a b : bytes_ok (a ++ b) = true -> bytes_ok a = true.
  Proof. rewrite bytes_ok_app. intros H. apply andb_prop in H. tauto. Qed.

  (* one call of StreamExt::next, any script, any budget *)
  Theorem next_seg : forall evs st bg r st' evs' bg',
      bytes_ok (rbuf st ++ sdata evs) = true ->
      next dec st evs bg = (r, st', evs', bg') ->
      exists d, seg_res r (rbuf st ++ sdata evs) d (rbuf st' ++ sdata evs').
  Proof.
    induction evs as [|e evs IH]; intros st bg r st' evs' bg' Hok H; rewrite next_eq in H.
    - destruct (rerrored st).
      { injection H as <- <- <- <-. exists []. reflexivity. }
      pose proof (attempt_seg st (bytes_ok_head _ _ Hok)) as Ha.
      destruct (attempt dec st) as [[r1 st1]|st1].
      + injection H as <- <- <- <-. destruct Ha as [d Ha]. exists d. cbn [sdata]. rewrite !app_nil_r.
        exact Ha.
      + injection H as <- <- <- <-. destruct Ha as [d Ha]. exists d. cbn [seg_res sdata]. rewrite !app_nil_r. exact Ha.
    - destruct (rerrored st).
      { injection H as <- <- <- <-. exists []. reflexivity. }
      pose proof (attempt_seg st (bytes_ok_head _ _ Hok)) as Ha.
      destruct (attempt dec st) as [[r1 st1]|st1].
      + injection H as <- <- <- <-. destruct Ha as [d Ha]. exists d.
        destruct r1 as [i|k| | | |]; cbn [seg_res] in *;
          try (rewrite Ha, <- app_assoc; reflexivity).
        destruct Ha as [f [HR Ha]]. exists f. split; [exact HR|]. rewrite Ha, <- !app_assoc. reflexivity.
      + destruct Ha as [d0 Ha].
        assert (Hok1 : bytes_ok (rbuf st1 ++ sdata (e :: evs)) = true).
        { rewrite Ha, <- app_assoc in Hok. exact (bytes_ok_tail _ _ Hok). }
        assert (Hlift : forall st2 evs2 (r2 : nres I) d2,
                   seg_res r2 (rbuf st1 ++ sdata (e :: evs)) d2 (rbuf st2 ++ sdata evs2) ->
                   exists d, seg_res r2 (rbuf st ++ sdata (e :: evs)) d (rbuf st2 ++ sdata evs2)).
        { intros st2 evs2 r2 d2 Hs. exists (d0 ++ d2). rewrite Ha.
          destruct r2 as [i|k| | | |]; cbn [seg_res] in *; try (rewrite <- !app_assoc, Hs; reflexivity).
          destruct Hs as [f [HR Hs]]. exists f. split; [exact HR|]. rewrite <- !app_assoc, Hs. reflexivity. }
        destruct e as [c| |k|].
        * (* data *)
          destruct c as [|c0 c].
          -- destruct (reof st1) eqn:He.
             ++ injection H as <- <- <- <-. apply (Hlift st1 evs NEnd []). reflexivity.
             ++ cbn [sdata app] in Hok1.
                destruct (IH (mkR (rbuf st1) true true false) bg r st' evs' bg' Hok1 H) as [d2 Hs].
                apply (Hlift st' evs' r d2). exact Hs.
          -- assert (Hok2 : bytes_ok (rbuf (mkR (rbuf st1 ++ c0 :: c) false true false) ++ sdata evs) = true).
             { cbn [rbuf]. cbn [sdata] in Hok1. rewrite <- app_assoc. exact Hok1. }
             destruct (IH _ bg r st' evs' bg' Hok2 H) as [d2 Hs].
             apply (Hlift st' evs' r d2). cbn [rbuf] in Hs. cbn [sdata]. rewrite <- app_assoc in Hs. exact Hs.
        * (* eof *)
          destruct (reof st1) eqn:He.
          -- injection H as <- <- <- <-. apply (Hlift st1 evs NEnd []). reflexivity.
          -- cbn [sdata] in Hok1.
             destruct (IH (mkR (rbuf st1) true true false) bg r st' evs' bg' Hok1 H) as [d2 Hs].
             apply (Hlift st' evs' r d2). exact Hs.
        * (* read error *)
          injection H as <- <- <- <-. apply (Hlift _ evs (NErr k) []). reflexivity.
        * (* pending *)
          destruct (spend bg) as [bg1|].
          -- cbn [sdata] in Hok1. destruct (IH st1 bg1 r st' evs' bg' Hok1 H) as [d2 Hs].
             apply (Hlift st' evs' r d2). exact Hs.
          -- injection H as <- <- <- <-. apply (Hlift st1 evs NAbandon []). reflexivity.
  Qed.

  (* whatever the outcome, what is left is a suffix of what was there: nothing is invented *)
  Corollary next_suffix evs st bg r st' evs' bg' :
      bytes_ok (rbuf st ++ sdata evs) = true ->
      next dec st evs bg = (r, st', evs', bg') ->
      exists d, rbuf st ++ sdata evs = d ++ rbuf st' ++ sdata evs'.
  Proof.
    intros Hok H. destruct (next_seg _ _ _ _ _ _ _ Hok H) as [d Hs].
    destruct r as [i|k| | | |]; cbn [seg_res] in Hs; try (exists d; exact Hs).
    destruct Hs as [f [_ Hs]]. exists (d ++ f). rewrite <- app_assoc. exact Hs.
  Qed.

  (* ---- many calls ---- *)
  (* [Slices s is r]: the stream s is  d0 ++ f1 ++ d1 ++ f2 ++ ... ++ fn ++ dn ++ r  with R fk ik *)
  Inductive Slices : list N -> list I -> list N -> Prop :=
  | Sl_nil d r : Slices (d ++ r) [] r
  | Sl_cons d f i s is r : R f i -> Slices s is r -> Slices (d ++ f ++ s) (i :: is) r.

  Lemma Slices_drop d s is r : Slices s is r -> Slices (d ++ s) is r.
  Proof.
    intros H. destruct H as [d0 r|d0 f i s is r HR Hs].
    - rewrite app_assoc. constructor.
    - rewrite app_assoc. constructor; assumption.
  Qed.

  Lemma Slices_more s is r x : Slices s is r -> Slices (s ++ x) is (r ++ x).
  Proof.
    induction 1 as [d r|d f i s is r HR Hs IH].
    - rewrite <- app_assoc. constructor.
    - rewrite <- !app_assoc. constructor; assumption.
  Qed.

  Lemma Slices_trans s is1 m is2 r : Slices s is1 m -> Slices m is2 r -> Slices s (is1 ++ is2) r.
  Proof.
    induction 1 as [d m|d f i s is m HR Hs IH]; intros H2.
    - apply Slices_drop. exact H2.
    - cbn [app]. constructor; [exact HR|]. apply IH. exact H2.
  Qed.

  Lemma Slices_suffix s is r : Slices s is r -> exists d, s = d ++ r.
  Proof.
    induction 1 as [d r|d f i s is r HR Hs [d' IH]].
    - exists d. reflexivity.
    - exists (d ++ f ++ d'). rewrite IH, <- !app_assoc. reflexivity.
  Qed.

  (* total length of the slices never exceeds the stream: slices are disjoint *)
  Fixpoint n_calls (n : nat) (st : rstate) (evs : list revt) : list I * rstate * list revt :=
    match n with
    | O => ([], st, evs)
    | S k =>
        match next dec st evs None with
        | (r, st', evs', _) =>
            let '(is, s, e) := n_calls k st' evs' in
            (match r with NItem i => i :: is | _ => is end, s, e)
        end
    end.

  Theorem n_calls_slices : forall n st evs is s e,
      bytes_ok (rbuf st ++ sdata evs) = true ->
      n_calls n st evs = (is, s, e) ->
      Slices (rbuf st ++ sdata evs) is (rbuf s ++ sdata e).
  Proof.
    induction n as [|n IH]; intros st evs is s e Hok H; cbn [n_calls] in H.
    - injection H as <- <- <-. apply (Sl_nil []).
    - destruct (next dec st evs None) as [[[r st1] evs1] bg1] eqn:Hn.
      destruct (n_calls n st1 evs1) as [[is1 s1] e1] eqn:Hc. injection H as <- <- <-.
      destruct (next_seg _ _ _ _ _ _ _ Hok Hn) as [d Hs].
      assert (Hok1 : bytes_ok (rbuf st1 ++ sdata evs1) = true).
      { destruct (next_suffix _ _ _ _ _ _ _ Hok Hn) as [d' Hd]. rewrite Hd in Hok. exact (bytes_ok_tail _ _ Hok). }
      specialize (IH _ _ _ _ _ Hok1 Hc).
      destruct r as [i|k| | | |]; cbn [seg_res] in Hs; try (rewrite Hs; apply Slices_drop; exact IH).
      destruct Hs as [f [HR Hs]]. rewrite Hs. constructor; assumption.
  Qed.
End Seg.

Arguments Slices {I} R _ _ _.

(* a relation that only gets weaker keeps the slices *)
Lemma Slices_weaken {I J} (R : list N -> I -> Prop) (R' : list N -> J -> Prop) (g : I -> J) :
  (forall f i, R f i -> R' f (g i)) -> forall s is r, Slices R s is r -> Slices R' s (map g is) r.
Proof.
  intros HR s is r H. induction H as [d r|d f i s is r Hf Hs IH]; cbn [map]; constructor; auto.
Qed.

(* ---- the RTU frame layer: every item is slave :: pdu ++ CRC-16/MODBUS (low byte first) ---- *)
Definition rtu_slice (f : list N) (i : N * list N) : Prop := f = rtu_frame (fst i) (snd i).

Lemma rtu_frame_dec_seg tbl : tbl [] = Val None -> (forall b, tbl b <> Panic) -> dec_seg (rtu_frame_dec tbl) rtu_slice.
Proof.
  intros Hnil Hnp buf b' r Hok. unfold rtu_frame_dec. generalize MAX_RETRIES as fuel. intros fuel H.
  destruct (decode_loop tbl fuel buf []) as [[b dr] r0] eqn:Hd. injection H as <- <-.
  destruct (decode_loop_segments tbl Hnil Hnp _ _ _ _ _ _ Hok Hd) as [d [_ [_ Hm]]].
  exists d. destruct r0 as [|[s p]| |]; try exact Hm. exists (rtu_frame s p). split; [reflexivity|exact Hm].
Qed.

(* ---- the MBAP layer: every item is header (protocol id 0, length = |pdu| + 1) ++ pdu ---- *)
Definition mbap_slice (f : list N) (i : hdr * list N) : Prop :=
  exists t1 t2 l1 l2, f = t1 :: t2 :: 0 :: 0 :: l1 :: l2 :: snd (fst i) :: snd i
    /\ fst (fst i) = of_be16 t1 t2 /\ of_be16 l1 l2 = len (snd i) + 1.

Lemma of_be16_zero a b : of_be16 a b = 0 -> a = 0 /\ b = 0.
Proof. unfold of_be16. lia. Qed.

Lemma adu_decode_seg : dec_seg adu_decode mbap_slice.
Proof.
  intros buf b' r Hok H. unfold adu_decode in H.
  destruct buf as [|t1 [|t2 [|p1 [|p2 [|l1 [|l2 [|uid rest]]]]]]];
    try (injection H as <- <-; exists []; reflexivity).
  destruct (of_be16 l1 l2 =? 0) eqn:Hz; [injection H as <- <-; exists []; reflexivity|].
  apply N.eqb_neq in Hz.
  match type of H with context [?a <? ?b] => destruct (N.ltb_spec a b) as [Hs|Hs] end;
    [injection H as <- <-; exists []; reflexivity|].
  destruct (of_be16 p1 p2 =? 0) eqn:Hp; cbn [negb] in H.
  - injection H as <- <-. exists []. cbn [app].
    exists (t1 :: t2 :: p1 :: p2 :: l1 :: l2 :: uid :: firstn (N.to_nat (of_be16 l1 l2 - 1)) rest).
    apply N.eqb_eq in Hp. apply of_be16_zero in Hp. destruct Hp as [-> ->].
    split.
    + exists t1, t2, l1, l2. cbn [fst snd]. repeat split.
      unfold HEADER_LEN in Hs. rewrite !len_cons in Hs.
      unfold len. rewrite firstn_length_le; [lia|]. unfold len in Hs. lia.
    + cbn [app]. rewrite firstn_skipn. reflexivity.
  - injection H as <- <-. exists [t1; t2; p1; p2; l1; l2; uid]. reflexivity.
Qed.

(* ---- lifting through the PDU decoders ---- *)
Section Lift.
  Context {H A B : Type}.
  Variable inner : list N -> list N * dres (H * A).
  Variable pd : A -> outcome B.
  Variable dec : list N -> list N * dres (H * B).
  Variable Ri : list N -> H * A -> Prop.
  Hypothesis dec_eq : forall buf, dec buf =
    match inner buf with
    | (b, DSome (h, a)) => match pd a with Val v => (b, DSome (h, v)) | Fail k => (b, DErr k) | Panic => (b, DPanic) end
    | (b, DNone) => (b, DNone)
    | (b, DErr k) => (b, DErr k)
    | (b, DPanic) => (b, DPanic)
    end.
  Definition lifted_slice (f : list N) (i : H * B) : Prop := exists a, Ri f (fst i, a) /\ pd a = Val (snd i).

  Lemma lifted_seg : dec_seg inner Ri -> dec_seg dec lifted_slice.
  Proof.
    intros Hs buf b' r Hok H0. rewrite dec_eq in H0. destruct (inner buf) as [b r0] eqn:Hi.
    destruct (Hs _ _ _ Hok Hi) as [d Hm].
    destruct r0 as [|[h a]|k|].
    - injection H0 as <- <-. exists d. exact Hm.
    - destruct Hm as [f [HR Hm]]. destruct (pd a) as [v|k|] eqn:Hp; injection H0 as <- <-.
      + exists d, f. split; [|exact Hm]. exists a. split; assumption.
      + exists (d ++ f). rewrite <- app_assoc. exact Hm.
      + exists (d ++ f). rewrite <- app_assoc. exact Hm.
    - injection H0 as <- <-. exists d. exact Hm.
    - injection H0 as <- <-. exists d. exact Hm.
  Qed.
End Lift.

(* a header-level slice relation shared by the four stream decoders: what the frame bytes are, given the
   header and the PDU *)
Definition frame_bytes (p : proto) (f : list N) (h : hdr) (pdu : list N) : Prop :=
  match p with
  | TCP => mbap_slice f (h, pdu)
  | RTU => f = rtu_frame (snd h) pdu /\ fst h = 0
  end.

Definition server_slice (p : proto) (f : list N) (i : hdr * request) : Prop :=
  exists pdu, frame_bytes p f (fst i) pdu /\ dec_req pdu = Val (snd i).
Definition client_slice (p : proto) (f : list N) (i : hdr * rsp_result) : Prop :=
  exists pdu, frame_bytes p f (fst i) pdu /\ dec_rsp_pdu pdu = Val (snd i).

Definition rtu_hdr_dec (tbl : list N -> outcome (option N)) (buf : list N) : list N * dres (hdr * list N) :=
  match rtu_frame_dec tbl buf with
  | (b, DSome (s, pdu)) => (b, DSome ((0, s), pdu))
  | (b, DNone) => (b, DNone) | (b, DErr k) => (b, DErr k) | (b, DPanic) => (b, DPanic)
  end.
Definition rtu_hdr_slice (f : list N) (i : hdr * list N) : Prop := f = rtu_frame (snd (fst i)) (snd i) /\ fst (fst i) = 0.

Lemma rtu_hdr_seg tbl : tbl [] = Val None -> (forall b, tbl b <> Panic) -> dec_seg (rtu_hdr_dec tbl) rtu_hdr_slice.
Proof.
  intros Hnil Hnp buf b' r Hok. unfold rtu_hdr_dec. destruct (rtu_frame_dec tbl buf) as [b r0] eqn:Hd. intros H.
  destruct (rtu_frame_dec_seg tbl Hnil Hnp _ _ _ Hok Hd) as [d Hm].
  destruct r0 as [|[s pdu]|k|]; injection H as <- <-; exists d; try exact Hm.
  destruct Hm as [f [HR Hm]]. exists f. split; [|exact Hm]. split; [exact HR|reflexivity].
Qed.

Lemma tcp_server_dec_seg : dec_seg tcp_server_dec (lifted_slice dec_req mbap_slice).
Proof. apply (lifted_seg adu_decode dec_req tcp_server_dec mbap_slice); [|exact adu_decode_seg]. intros buf. reflexivity. Qed.
Lemma tcp_client_dec_seg : dec_seg tcp_client_dec (lifted_slice dec_rsp_pdu mbap_slice).
Proof. apply (lifted_seg adu_decode dec_rsp_pdu tcp_client_dec mbap_slice); [|exact adu_decode_seg]. intros buf. reflexivity. Qed.
Lemma rtu_server_dec_seg : dec_seg rtu_server_dec (lifted_slice dec_req rtu_hdr_slice).
Proof.
  apply (lifted_seg (rtu_hdr_dec req_pdu_len) dec_req rtu_server_dec rtu_hdr_slice);
    [|exact (rtu_hdr_seg req_pdu_len req_pdu_len_nil req_pdu_len_no_panic)].
  intros buf. unfold rtu_server_dec, rtu_hdr_dec. destruct (rtu_frame_dec req_pdu_len buf) as [b [|[s p]|k|]]; reflexivity.
Qed.
Lemma rtu_client_dec_seg : dec_seg rtu_client_dec (lifted_slice dec_rsp_pdu rtu_hdr_slice).
Proof.
  apply (lifted_seg (rtu_hdr_dec rsp_pdu_len) dec_rsp_pdu rtu_client_dec rtu_hdr_slice);
    [|exact (rtu_hdr_seg rsp_pdu_len rsp_pdu_len_nil rsp_pdu_len_no_panic)].
  intros buf. unfold rtu_client_dec, rtu_hdr_dec. destruct (rtu_frame_dec rsp_pdu_len buf) as [b [|[s p]|k|]]; reflexivity.
Qed.

Lemma dec_seg_weaken {I} (dec : list N -> list N * dres I) (R R' : list N -> I -> Prop) :
  (forall f i, R f i -> R' f i) -> dec_seg dec R -> dec_seg dec R'.
Proof.
  intros HR Hs buf b' r Hok H. destruct (Hs buf b' r Hok H) as [d Hm]. exists d.
  destruct r as [|i|k|]; try exact Hm. destruct Hm as [f [Hf Hm]]. exists f. split; [apply HR; exact Hf|exact Hm].
Qed.

Lemma server_dec_seg p : dec_seg (server_dec p) (server_slice p).
Proof.
  destruct p; cbn [server_dec].
  - apply (dec_seg_weaken _ _ _ (fun f i (H : lifted_slice dec_req mbap_slice f i) => H)). exact tcp_server_dec_seg.
  - apply (dec_seg_weaken _ _ _ (fun f i (H : lifted_slice dec_req rtu_hdr_slice f i) => H)). exact rtu_server_dec_seg.
Qed.

Lemma client_dec_seg p : dec_seg (client_dec p) (client_slice p).
Proof.
  destruct p; cbn [client_dec].
  - apply (dec_seg_weaken _ _ _ (fun f i (H : lifted_slice dec_rsp_pdu mbap_slice f i) => H)). exact tcp_client_dec_seg.
  - apply (dec_seg_weaken _ _ _ (fun f i (H : lifted_slice dec_rsp_pdu rtu_hdr_slice f i) => H)). exact rtu_client_dec_seg.
Qed.

(* ---- the server loop: the requests handed to the service, in order, are carried by disjoint slices
   of the received stream, for ANY bytes, fragmentation, service behaviour and write behaviour ---- *)
Fixpoint calls (t : list tev) : list (N * request) :=
  match t with
  | [] => []
  | TCall s r :: t' => (s, r) :: calls t'
  | _ :: t' => calls t'
  end.

Lemma calls_app a b : calls (a ++ b) = calls a ++ calls b.
Proof. induction a as [|e a IH]; [reflexivity|]. destruct e; cbn [app calls]; rewrite IH; reflexivity. Qed.
Lemma calls_wrote bs : calls (wrote bs) = [].
Proof. destruct bs; reflexivity. Qed.

Definition call_slice (p : proto) (f : list N) (c : N * request) : Prop :=
  exists tid, server_slice p f ((tid, fst c), snd c).

Theorem process_slices p m : forall fuel r w q svc,
  bytes_ok (rbuf r ++ sdata q) = true ->
  exists rest, Slices (call_slice p) (rbuf r ++ sdata q) (calls (process fuel p m r w q svc)) rest.
Proof.
  induction fuel as [|fuel IH]; intros r w q svc Hok; cbn [process].
  - exists (rbuf r ++ sdata q). apply (Sl_nil _ []).
  - destruct (next (server_dec p) r q None) as [[[nr r1] q1] bg1] eqn:Hn.
    destruct (next_seg _ _ (server_dec_seg p) _ _ _ _ _ _ _ Hok Hn) as [d Hs].
    assert (Hnone : forall t, calls t = [] -> exists rest, Slices (call_slice p) (rbuf r ++ sdata q) (calls t) rest).
    { intros t ->. exists (rbuf r ++ sdata q). apply (Sl_nil _ []). }
    destruct nr as [[h req]|k| | | |]; try (apply Hnone; reflexivity).
    cbn [seg_res] in Hs. destruct Hs as [f [HR Hs]].
    assert (Hok1 : bytes_ok (rbuf r1 ++ sdata q1) = true).
    { rewrite Hs in Hok. exact (bytes_ok_tail _ _ (bytes_ok_tail _ _ Hok)). }
    assert (Hcs : call_slice p f (snd h, req)).
    { exists (fst h). cbn [fst snd]. destruct h. exact HR. }
    assert (Hhead : forall t, (exists rest, Slices (call_slice p) (rbuf r1 ++ sdata q1) (calls t) rest) ->
                      exists rest, Slices (call_slice p) (rbuf r ++ sdata q) (calls (TCall (snd h) req :: t)) rest).
    { intros t [rest Ht]. exists rest. cbn [calls]. rewrite Hs. constructor; assumption. }
    assert (Hstop : forall a x, calls [x] = [] ->
                      exists rest, Slices (call_slice p) (rbuf r1 ++ sdata q1) (calls (wrote a ++ [x])) rest).
    { intros a x Hx. rewrite calls_app, calls_wrote, Hx. exists (rbuf r1 ++ sdata q1). apply (Sl_nil _ []). }
    apply Hhead.
    destruct (match svc with [] => SDecline | x :: _ => x end) as [rsp| |code].
    + destruct (send _ _ None) as [[[sr w1] bg2] pn].
      destruct sr, pn; try (apply Hstop; reflexivity).
      rewrite calls_app, calls_wrote. cbn [app]. apply IH. exact Hok1.
    + apply IH. exact Hok1.
    + destruct (send _ _ None) as [[[sr w1] bg2] pn].
      destruct sr, pn; try (apply Hstop; reflexivity).
      rewrite calls_app, calls_wrote. cbn [app]. apply IH. exact Hok1.
Qed.

Corollary serve_conn_slices p m q wq fq svc : bytes_ok (sdata q) = true ->
  exists rest, Slices (call_slice p) (sdata q) (calls (serve_conn p m q wq fq svc)) rest.
Proof. intros Hok. unfold serve_conn. apply (process_slices p m _ rstate0). exact Hok. Qed.

(* what a slice is, spelled out per framing *)
Lemma rtu_call_slice f c : call_slice RTU f c ->
  exists pdu, f = fst c :: pdu ++ crc2 (fst c :: pdu) /\ dec_req pdu = Val (snd c).
Proof. intros [tid [pdu [[Hf _] Hd]]]. exists pdu. split; [exact Hf|exact Hd]. Qed.

Lemma tcp_call_slice f c : call_slice TCP f c ->
  exists t1 t2 l1 l2 pdu, f = t1 :: t2 :: 0 :: 0 :: l1 :: l2 :: fst c :: pdu
    /\ of_be16 l1 l2 = len pdu + 1 /\ dec_req pdu = Val (snd c).
Proof.
  intros [tid [pdu [[t1 [t2 [l1 [l2 [Hf [_ Hl]]]]]] Hd]]]. exists t1, t2, l1, l2, pdu. cbn [fst snd] in *. auto.
Qed.

Lemma tcp_client_slice f i : client_slice TCP f i ->
  exists t1 t2 l1 l2 pdu, f = t1 :: t2 :: 0 :: 0 :: l1 :: l2 :: snd (fst i) :: pdu
    /\ fst (fst i) = of_be16 t1 t2 /\ of_be16 l1 l2 = len pdu + 1 /\ dec_rsp_pdu pdu = Val (snd i).
Proof.
  intros [pdu [[t1 [t2 [l1 [l2 [Hf [Ht Hl]]]]]] Hd]]. exists t1, t2, l1, l2, pdu. cbn [fst snd] in *. auto.
Qed.
