(* PduReencode.v -- whatever a decoder accepts re-encodes to a PDU that decodes to the same
   value (C08), and accepted modelled PDUs are prefix-free. *)
From Coq Require Import ZArith Lia ZifyBool ZifyNat ZifyN.
From TM Require Import Base Frame Pdu BaseLemmas Coils Spec PduDecode PduEncode.
Ltac Zify.zify_post_hook ::= Z.div_mod_to_equations.

Lemma packed_size_firstn_all_bits q data : q <= 8 * len data ->
  packed_size (firstn (N.to_nat q) (all_bits data)) <= len data.
Proof.
  intros H. unfold packed_size. unfold len at 1. rewrite firstn_length, length_all_bits. unfold len in *. lia.
Qed.

Lemma len_words_of data : len data mod 2 = 0 -> len (words_of data) * 2 = len data.
Proof.
  intros H. unfold len in *. rewrite length_words_of.
  pose proof (Nat.div_mod (length data) 2 ltac:(lia)).
  assert ((length data mod 2)%nat = 0%nat) by lia. lia.
Qed.

Ltac split_and H :=
  repeat match type of H with _ && _ = true => let H' := fresh "Hc" in apply andb_prop in H; destruct H as [H H'] end.

(* size and canonicity of accepted request values *)
Theorem wf_req_value_fits bs v : wf_req bs = Some v -> len bs <= 253 -> req_size v <= 253 /\ canonical_req v = true.
Proof.
  intros H Hl. destruct bs as [|fc r]; [discriminate|]. unfold wf_req in H.
  destruct (fc =? 1) eqn:E1; [destruct r as [|a1 [|a2 [|q1 [|q2 [|x r]]]]]; inversion H; subst; cbn; split; [lia|reflexivity]|].
  destruct (fc =? 2) eqn:E2; [destruct r as [|a1 [|a2 [|q1 [|q2 [|x r]]]]]; inversion H; subst; cbn; split; [lia|reflexivity]|].
  destruct (fc =? 3) eqn:E3; [destruct r as [|a1 [|a2 [|q1 [|q2 [|x r]]]]]; inversion H; subst; cbn; split; [lia|reflexivity]|].
  destruct (fc =? 4) eqn:E4; [destruct r as [|a1 [|a2 [|q1 [|q2 [|x r]]]]]; inversion H; subst; cbn; split; [lia|reflexivity]|].
  destruct (fc =? 6) eqn:E6; [destruct r as [|a1 [|a2 [|q1 [|q2 [|x r]]]]]; inversion H; subst; cbn; split; [lia|reflexivity]|].
  destruct (fc =? 5) eqn:E5.
  { destruct r as [|a1 [|a2 [|q1 [|q2 [|x r]]]]]; try discriminate.
    destruct (_ =? 65280); [inversion H; subst; cbn; split; [lia|reflexivity]|].
    destruct (_ =? 0); inversion H; subst; cbn; split; [lia|reflexivity]. }
  destruct (fc =? 15) eqn:E15.
  { destruct r as [|a1 [|a2 [|q1 [|q2 [|bc data]]]]]; try discriminate.
    match type of H with context [if ?c then _ else _] => destruct c eqn:Hc end; [|discriminate]. inversion H; subst. split_and Hc.
    cbn [req_size canonical_req]. split; [|reflexivity].
    pose proof (packed_size_firstn_all_bits (u16 q1 q2) data ltac:(lia)). rewrite !len_cons in Hl. lia. }
  destruct (fc =? 16) eqn:E16.
  { destruct r as [|a1 [|a2 [|q1 [|q2 [|bc data]]]]]; try discriminate.
    match type of H with context [if ?c then _ else _] => destruct c eqn:Hc end; [|discriminate]. inversion H; subst. split_and Hc.
    cbn [req_size canonical_req]. split; [|reflexivity].
    pose proof (len_words_of data ltac:(lia)). rewrite !len_cons in Hl. lia. }
  destruct (fc =? 17) eqn:E17; [destruct r; inversion H; subst; cbn; split; [lia|reflexivity]|].
  destruct (fc =? 22) eqn:E22; [destruct r as [|a1 [|a2 [|x1 [|x2 [|y1 [|y2 [|z r]]]]]]]; inversion H; subst; cbn; split; [lia|reflexivity]|].
  destruct (fc =? 23) eqn:E23.
  { destruct r as [|a1 [|a2 [|q1 [|q2 [|w1 [|w2 [|n1 [|n2 [|bc data]]]]]]]]]; try discriminate.
    match type of H with context [if ?c then _ else _] => destruct c eqn:Hc end; [|discriminate]. inversion H; subst. split_and Hc.
    cbn [req_size canonical_req]. split; [|reflexivity].
    pose proof (len_words_of data ltac:(lia)). rewrite !len_cons in Hl. lia. }
  destruct (fc <? 128) eqn:Hf; [|discriminate]. inversion H; subst. cbn [req_size canonical_req].
  rewrite len_cons in Hl. split; [lia|]. rewrite Hf. cbn [andb].
  unfold modelled_fc. rewrite E1, E2, E3, E4, E5, E6, E15, E16, E17, E22, E23. reflexivity.
Qed.

Theorem req_reencode bs v : dec_req bs = Val v -> len bs <= 253 -> dec_req (spec_req_pdu v) = Val v.
Proof.
  intros H Hl. pose proof (req_wf_dec bs) as Hw. destruct (wf_req bs) as [v'|] eqn:Hwf; cbn in Hw.
  - assert (v' = v) by congruence. subst v'. destruct (wf_req_value_fits bs v Hwf Hl) as [Hs Hc].
    apply dec_req_spec_pdu; assumption.
  - destruct Hw as [k Hk]. congruence.
Qed.

(* ---- responses ---- *)
Lemma pad_len_mult8 n : pad_len (8 * n) = 0%nat.
Proof. unfold pad_len. rewrite Nat.mul_comm, Nat.mod_mul by lia. reflexivity. Qed.

Theorem wf_rsp_value_fits bs v : wf_rsp bs = Some v -> len bs <= 253 ->
  rsp_size v <= 253 /\ canonical_rsp v = true /\ pad_rsp v = v.
Proof.
  intros H Hl. destruct bs as [|fc r]; [discriminate|]. unfold wf_rsp in H.
  assert (Hbits : forall mk, (forall b, rsp_size (mk b) = 2 + packed_size b) -> (forall b, canonical_rsp (mk b) = true) ->
            (forall b, pad_rsp (mk b) = mk (pad_bits b)) ->
            wf_bits mk (fc :: r) r = Some v -> rsp_size v <= 253 /\ canonical_rsp v = true /\ pad_rsp v = v).
  { intros mk Hsz Hcan Hpad Hw. unfold wf_bits in Hw. destruct r as [|bc data]; [discriminate|].
    match type of Hw with context [if ?c then _ else _] => destruct c eqn:Hc end; [|discriminate]. inversion Hw; subst. split_and Hc.
    rewrite Hsz, Hcan, Hpad. split; [|split; [reflexivity|]].
    - unfold packed_size, len at 1. rewrite length_all_bits. rewrite !len_cons in Hl. unfold len in *. lia.
    - unfold pad_bits. rewrite length_all_bits, pad_len_mult8. cbn [repeat]. rewrite app_nil_r. reflexivity. }
  assert (Hwords : forall mk, (forall b, rsp_size (mk b) = 2 + len b * 2) -> (forall b, canonical_rsp (mk b) = true) ->
            (forall b, pad_rsp (mk b) = mk b) ->
            wf_words mk (fc :: r) r = Some v -> rsp_size v <= 253 /\ canonical_rsp v = true /\ pad_rsp v = v).
  { intros mk Hsz Hcan Hpad Hw. unfold wf_words in Hw. destruct r as [|bc data]; [discriminate|].
    match type of Hw with context [if ?c then _ else _] => destruct c eqn:Hc end; [|discriminate]. inversion Hw; subst. split_and Hc.
    rewrite Hsz, Hcan, Hpad. split; [|split; reflexivity].
    pose proof (len_words_of data ltac:(lia)). rewrite !len_cons in Hl. lia. }
  destruct (fc =? 1) eqn:E1; [apply (Hbits RspReadCoils); auto|].
  destruct (fc =? 2) eqn:E2; [apply (Hbits RspReadDiscreteInputs); auto|].
  destruct (fc =? 3) eqn:E3; [apply (Hwords RspReadHoldingRegisters); auto|].
  destruct (fc =? 4) eqn:E4; [apply (Hwords RspReadInputRegisters); auto|].
  destruct (fc =? 23) eqn:E23; [apply (Hwords RspReadWriteMultipleRegisters); auto|].
  clear Hbits Hwords.
  destruct (fc =? 5) eqn:E5.
  { destruct r as [|a1 [|a2 [|q1 [|q2 [|x r]]]]]; try discriminate.
    destruct (_ =? 65280); [inversion H; subst; cbn; repeat split; lia|].
    destruct (_ =? 0); inversion H; subst; cbn; repeat split; lia. }
  destruct (fc =? 6) eqn:E6; [destruct r as [|a1 [|a2 [|q1 [|q2 [|x r]]]]]; inversion H; subst; cbn; repeat split; lia|].
  destruct (fc =? 15) eqn:E15; [destruct r as [|a1 [|a2 [|q1 [|q2 [|x r]]]]]; inversion H; subst; cbn; repeat split; lia|].
  destruct (fc =? 16) eqn:E16; [destruct r as [|a1 [|a2 [|q1 [|q2 [|x r]]]]]; inversion H; subst; cbn; repeat split; lia|].
  destruct (fc =? 17) eqn:E17.
  { destruct r as [|bc [|id [|st d]]]; try discriminate.
    match type of H with context [if ?c then _ else _] => destruct c eqn:Hc end; [|discriminate]. inversion H; subst. split_and Hc.
    cbn [rsp_size canonical_rsp pad_rsp]. rewrite !len_cons in Hl. repeat split; lia. }
  destruct (fc =? 22) eqn:E22; [destruct r as [|a1 [|a2 [|x1 [|x2 [|y1 [|y2 [|z r]]]]]]]; inversion H; subst; cbn; repeat split; lia|].
  inversion H; subst. cbn [rsp_size canonical_rsp pad_rsp]. rewrite len_cons in Hl. split; [lia|]. split; [|reflexivity].
  unfold modelled_fc. rewrite E1, E2, E3, E4, E5, E6, E15, E16, E17, E22, E23. reflexivity.
Qed.

Theorem rsp_reencode bs v : dec_rsp bs = Val v -> len bs <= 253 -> dec_rsp (spec_rsp_pdu v) = Val v.
Proof.
  intros H Hl. pose proof (rsp_wf_dec bs) as Hw. destruct (wf_rsp bs) as [v'|] eqn:Hwf; cbn in Hw.
  - assert (v' = v) by congruence. subst v'. destruct (wf_rsp_value_fits bs v Hwf Hl) as (Hs & Hc & Hp).
    rewrite <- Hp at 2. apply dec_rsp_spec_pdu; assumption.
  - destruct Hw as [k Hk]. congruence.
Qed.

(* decoded responses are canonical: the variant is determined by the numeric function code
   (used for the typed client methods: their unreachable!() is indeed unreachable) *)
Theorem dec_rsp_variant bs v : dec_rsp bs = Val v ->
  match v with RspCustom fc _ => modelled_fc fc = false | _ => True end /\ hd_error bs = Some (fc_value (rsp_fc v)).
Proof.
  intros H. pose proof (rsp_wf_dec bs) as Hw. destruct (wf_rsp bs) as [v'|] eqn:Hwf; cbn in Hw; [|destruct Hw; congruence].
  assert (v' = v) by congruence. subst v'. clear H Hw.
  destruct bs as [|fc r]; [discriminate|]. unfold wf_rsp in Hwf. cbn [hd_error].
  destruct (N.eqb_spec fc 1) as [->|N1]; [unfold wf_bits in Hwf; destruct r; [discriminate|]; destruct (_ && _); inversion Hwf; subst; split; [exact I|reflexivity]|].
  destruct (N.eqb_spec fc 2) as [->|N2]; [unfold wf_bits in Hwf; destruct r; [discriminate|]; destruct (_ && _); inversion Hwf; subst; split; [exact I|reflexivity]|].
  destruct (N.eqb_spec fc 3) as [->|N3]; [unfold wf_words in Hwf; destruct r; [discriminate|]; destruct (_ && _); inversion Hwf; subst; split; [exact I|reflexivity]|].
  destruct (N.eqb_spec fc 4) as [->|N4]; [unfold wf_words in Hwf; destruct r; [discriminate|]; destruct (_ && _); inversion Hwf; subst; split; [exact I|reflexivity]|].
  destruct (N.eqb_spec fc 23) as [->|N23]; [unfold wf_words in Hwf; destruct r; [discriminate|]; destruct (_ && _); inversion Hwf; subst; split; [exact I|reflexivity]|].
  destruct (N.eqb_spec fc 5) as [->|N5].
  { destruct r as [|a1 [|a2 [|q1 [|q2 [|x r]]]]]; try discriminate.
    destruct (_ =? 65280); [inversion Hwf; subst; split; [exact I|reflexivity]|].
    destruct (_ =? 0); inversion Hwf; subst; split; [exact I|reflexivity]. }
  destruct (N.eqb_spec fc 6) as [->|N6]; [destruct r as [|a1 [|a2 [|q1 [|q2 [|x r]]]]]; inversion Hwf; subst; split; [exact I|reflexivity]|].
  destruct (N.eqb_spec fc 15) as [->|N15]; [destruct r as [|a1 [|a2 [|q1 [|q2 [|x r]]]]]; inversion Hwf; subst; split; [exact I|reflexivity]|].
  destruct (N.eqb_spec fc 16) as [->|N16]; [destruct r as [|a1 [|a2 [|q1 [|q2 [|x r]]]]]; inversion Hwf; subst; split; [exact I|reflexivity]|].
  destruct (N.eqb_spec fc 17) as [->|N17].
  { destruct r as [|bc [|id [|st d]]]; try discriminate. destruct (_ && _); inversion Hwf; subst; split; [exact I|reflexivity]. }
  destruct (N.eqb_spec fc 22) as [->|N22]; [destruct r as [|a1 [|a2 [|x1 [|x2 [|y1 [|y2 [|z r]]]]]]]; inversion Hwf; subst; split; [exact I|reflexivity]|].
  inversion Hwf; subst. split; [|reflexivity]. unfold modelled_fc.
  repeat match goal with H : fc <> _ |- _ => apply N.eqb_neq in H; rewrite H; clear H end. reflexivity.
Qed.

(* ---- prefix-freeness of the accepted PDUs of modelled function codes ---- *)
Lemma len_app_gt {A} (d x : list A) : x <> [] -> len d < len (d ++ x).
Proof. intros H. rewrite len_app. destruct x; [congruence|]. rewrite len_cons. lia. Qed.

Theorem wf_req_prefix_free bs v x : wf_req bs = Some v -> modelled_fc (hd 0 bs) = true -> x <> [] ->
  wf_req (bs ++ x) = None.
Proof.
  intros H Hm Hx. destruct bs as [|fc r]; [discriminate|]. cbn [hd] in Hm. cbn [app]. unfold wf_req in *.
  destruct x as [|x0 x]; [congruence|].
  destruct (fc =? 1) eqn:E1; [destruct r as [|a1 [|a2 [|q1 [|q2 [|z r]]]]]; try discriminate; reflexivity|].
  destruct (fc =? 2) eqn:E2; [destruct r as [|a1 [|a2 [|q1 [|q2 [|z r]]]]]; try discriminate; reflexivity|].
  destruct (fc =? 3) eqn:E3; [destruct r as [|a1 [|a2 [|q1 [|q2 [|z r]]]]]; try discriminate; reflexivity|].
  destruct (fc =? 4) eqn:E4; [destruct r as [|a1 [|a2 [|q1 [|q2 [|z r]]]]]; try discriminate; reflexivity|].
  destruct (fc =? 6) eqn:E6; [destruct r as [|a1 [|a2 [|q1 [|q2 [|z r]]]]]; try discriminate; reflexivity|].
  destruct (fc =? 5) eqn:E5; [destruct r as [|a1 [|a2 [|q1 [|q2 [|z r]]]]]; try discriminate; reflexivity|].
  destruct (fc =? 15) eqn:E15.
  { destruct r as [|a1 [|a2 [|q1 [|q2 [|bc data]]]]]; try discriminate. cbn [app].
    match type of H with context [if ?c then _ else _] => destruct c eqn:Hc end; [|discriminate]. split_and Hc.
    pose proof (len_app_gt data (x0 :: x) ltac:(discriminate)).
    replace (len (data ++ x0 :: x) =? bc) with false by lia. rewrite andb_false_r. reflexivity. }
  destruct (fc =? 16) eqn:E16.
  { destruct r as [|a1 [|a2 [|q1 [|q2 [|bc data]]]]]; try discriminate. cbn [app].
    match type of H with context [if ?c then _ else _] => destruct c eqn:Hc end; [|discriminate]. split_and Hc.
    pose proof (len_app_gt data (x0 :: x) ltac:(discriminate)).
    replace (len (data ++ x0 :: x) =? bc) with false by lia. rewrite andb_false_r. reflexivity. }
  destruct (fc =? 17) eqn:E17; [destruct r; try discriminate; reflexivity|].
  destruct (fc =? 22) eqn:E22; [destruct r as [|a1 [|a2 [|x1 [|x2 [|y1 [|y2 [|z r]]]]]]]; try discriminate; reflexivity|].
  destruct (fc =? 23) eqn:E23.
  { destruct r as [|a1 [|a2 [|q1 [|q2 [|w1 [|w2 [|n1 [|n2 [|bc data]]]]]]]]]; try discriminate. cbn [app].
    match type of H with context [if ?c then _ else _] => destruct c eqn:Hc end; [|discriminate]. split_and Hc.
    pose proof (len_app_gt data (x0 :: x) ltac:(discriminate)).
    replace (len (data ++ x0 :: x) =? bc) with false by lia. rewrite andb_false_r. reflexivity. }
  unfold modelled_fc in Hm. rewrite E1, E2, E3, E4, E5, E6, E15, E16, E17, E22, E23 in Hm. discriminate.
Qed.

Theorem wf_rsp_prefix_free bs v x : wf_rsp bs = Some v -> modelled_fc (hd 0 bs) = true -> x <> [] ->
  wf_rsp (bs ++ x) = None.
Proof.
  intros H Hm Hx. destruct bs as [|fc r]; [discriminate|]. cbn [hd] in Hm. cbn [app]. unfold wf_rsp in *.
  destruct x as [|x0 x]; [congruence|].
  assert (Hbits : forall mk, wf_bits mk (fc :: r) r = Some v -> wf_bits mk (fc :: r ++ x0 :: x) (r ++ x0 :: x) = None).
  { intros mk Hw. unfold wf_bits in *. destruct r as [|bc data]; [discriminate|]. cbn [app].
    match type of Hw with context [if ?c then _ else _] => destruct c eqn:Hc end; [|discriminate]. split_and Hc.
    pose proof (len_app_gt data (x0 :: x) ltac:(discriminate)).
    replace (len (data ++ x0 :: x) =? bc) with false by lia. rewrite andb_false_r. reflexivity. }
  assert (Hwords : forall mk, wf_words mk (fc :: r) r = Some v -> wf_words mk (fc :: r ++ x0 :: x) (r ++ x0 :: x) = None).
  { intros mk Hw. unfold wf_words in *. destruct r as [|bc data]; [discriminate|]. cbn [app].
    match type of Hw with context [if ?c then _ else _] => destruct c eqn:Hc end; [|discriminate]. split_and Hc.
    pose proof (len_app_gt data (x0 :: x) ltac:(discriminate)).
    replace (len (data ++ x0 :: x) =? bc) with false by lia. rewrite andb_false_r. reflexivity. }
  destruct (fc =? 1) eqn:E1; [apply Hbits; exact H|].
  destruct (fc =? 2) eqn:E2; [apply Hbits; exact H|].
  destruct (fc =? 3) eqn:E3; [apply Hwords; exact H|].
  destruct (fc =? 4) eqn:E4; [apply Hwords; exact H|].
  destruct (fc =? 23) eqn:E23; [apply Hwords; exact H|].
  clear Hbits Hwords.
  destruct (fc =? 5) eqn:E5; [destruct r as [|a1 [|a2 [|q1 [|q2 [|z r]]]]]; try discriminate; reflexivity|].
  destruct (fc =? 6) eqn:E6; [destruct r as [|a1 [|a2 [|q1 [|q2 [|z r]]]]]; try discriminate; reflexivity|].
  destruct (fc =? 15) eqn:E15; [destruct r as [|a1 [|a2 [|q1 [|q2 [|z r]]]]]; try discriminate; reflexivity|].
  destruct (fc =? 16) eqn:E16; [destruct r as [|a1 [|a2 [|q1 [|q2 [|z r]]]]]; try discriminate; reflexivity|].
  destruct (fc =? 17) eqn:E17.
  { destruct r as [|bc [|id [|st d]]]; try discriminate. cbn [app].
    match type of H with context [if ?c then _ else _] => destruct c eqn:Hc end; [|discriminate]. split_and Hc.
    pose proof (len_app_gt d (x0 :: x) ltac:(discriminate)).
    replace (len (d ++ x0 :: x) + 2 =? bc) with false by lia. rewrite !andb_false_r. reflexivity. }
  destruct (fc =? 22) eqn:E22; [destruct r as [|a1 [|a2 [|x1 [|x2 [|y1 [|y2 [|z r]]]]]]]; try discriminate; reflexivity|].
  unfold modelled_fc in Hm. rewrite E1, E2, E3, E4, E5, E6, E15, E16, E17, E22, E23 in Hm. discriminate.
Qed.

(* ---- raw custom data ---- *)
Theorem custom_request_unchanged fc d :
  fc < 0x80 -> modelled_fc fc = false -> dec_req (fc :: d) = Val (ReqCustom fc d).
Proof.
  intros H1 H2. pose proof (req_wf_dec (fc :: d)) as H. rewrite (wf_custom_req fc d H1 H2) in H. exact H.
Qed.
Theorem custom_response_unchanged fc d :
  modelled_fc fc = false -> dec_rsp (fc :: d) = Val (RspCustom fc d).
Proof.
  intros H2. pose proof (rsp_wf_dec (fc :: d)) as H. rewrite (wf_custom_rsp fc d H2) in H. exact H.
Qed.
Theorem request_codes_below_0x80 fc d v : 0x80 <= fc -> dec_req (fc :: d) <> Val v.
Proof.
  intros Hfc Hv. pose proof (req_wf_dec (fc :: d)) as H.
  assert (Hw : wf_req (fc :: d) = None).
  { unfold wf_req.
    destruct (N.eqb_spec fc 1); [lia|]. destruct (N.eqb_spec fc 2); [lia|]. destruct (N.eqb_spec fc 3); [lia|].
    destruct (N.eqb_spec fc 4); [lia|]. destruct (N.eqb_spec fc 6); [lia|]. destruct (N.eqb_spec fc 5); [lia|].
    destruct (N.eqb_spec fc 15); [lia|]. destruct (N.eqb_spec fc 16); [lia|]. destruct (N.eqb_spec fc 17); [lia|].
    destruct (N.eqb_spec fc 22); [lia|]. destruct (N.eqb_spec fc 23); [lia|].
    destruct (N.ltb_spec fc 128); [lia|]. reflexivity. }
  rewrite Hw in H. unfold verdict in H. destruct H as [k Hk]. congruence.
Qed.
