(* PduEncode.v -- the encoders of Pdu.v produce the spec encodings; sizes; round trips. *)
From Coq Require Import ZArith Lia ZifyBool ZifyNat ZifyN.
From TM Require Import Base Frame Pdu BaseLemmas Coils Spec PduDecode.
Ltac Zify.zify_post_hook ::= Z.div_mod_to_equations.

Lemma word_bytes_be16 w : w < 65536 -> word_bytes w = be16 w.
Proof. intros H. unfold word_bytes, be16, hi8, lo8. f_equal. lia. Qed.
Lemma u16_word_bytes w : u16 (w / 256) (w mod 256) = w.
Proof. unfold u16. lia. Qed.
Lemma flat_word_bytes ws : words_ok ws = true -> flat_map word_bytes ws = be16s ws.
Proof.
  induction ws as [|w ws IH]; intros H; [reflexivity|].
  cbn [words_ok forallb] in H. apply andb_prop in H. destruct H as [Hw Hws]. apply word_ok_lt in Hw.
  unfold be16s. cbn [flat_map]. rewrite word_bytes_be16 by exact Hw. fold (be16s ws). rewrite IH by exact Hws. reflexivity.
Qed.
Lemma words_of_flat ws : words_of (flat_map word_bytes ws) = ws.
Proof.
  induction ws as [|w ws IH]; [reflexivity|].
  cbn [flat_map word_bytes app words_of]. change (of_be16 (w / 256) (w mod 256)) with (u16 (w / 256) (w mod 256)).
  rewrite u16_word_bytes, IH. reflexivity.
Qed.
Lemma len_flat_word_bytes ws : len (flat_map word_bytes ws) = 2 * len ws.
Proof. induction ws as [|w ws IH]; [reflexivity|]. cbn [flat_map word_bytes app]. rewrite !len_cons. rewrite IH. lia. Qed.

(* ---- packed coils: the indexed spec equals the chunked implementation ---- *)
Lemma spec_byte_shift b0 b1 b2 b3 b4 b5 b6 b7 r i :
  spec_byte (b0 :: b1 :: b2 :: b3 :: b4 :: b5 :: b6 :: b7 :: r) (S i) = spec_byte r i.
Proof. unfold spec_byte. replace (8 * S i)%nat with (8 + 8 * i)%nat by lia. reflexivity. Qed.

Lemma spec_pack_eq : forall bs, spec_pack bs = pack_coils bs.
Proof.
  apply pack_ind.
  - reflexivity.
  - intros bs H. rewrite pack_coils_short by exact H.
    destruct bs as [|c0 [|c1 [|c2 [|c3 [|c4 [|c5 [|c6 [|c7 r]]]]]]]]; cbn [length] in H; try lia; reflexivity.
  - intros b0 b1 b2 b3 b4 b5 b6 b7 r IH. cbn [pack_coils]. unfold spec_pack. cbn [length].
    replace (S (S (S (S (S (S (S (S (length r)))))))) + 7)%nat with ((length r + 7) + 1 * 8)%nat by lia.
    rewrite Nat.div_add by lia. rewrite Nat.add_1_r. cbn [seq map]. f_equal.
    rewrite <- seq_shift, map_map. rewrite <- IH. unfold spec_pack. apply map_ext.
    intros i. apply spec_byte_shift.
Qed.

(* ---- size bounds implied by the 253-byte limit ---- *)
Lemma packed_size_bound {A} (bs : list A) n : packed_size bs <= n -> len bs <= 8 * n.
Proof. unfold packed_size. lia. Qed.

(* ---- encoders = spec (C01.1 / C02.1 / C09.3) ---- *)
Theorem enc_req_spec m r : req_ok r = true -> req_size r <= 253 ->
  enc_req m r = Val (spec_req_pdu r) /\ len (spec_req_pdu r) = req_size r.
Proof.
  intros Hok Hsz. destruct r; cbn [req_ok] in Hok; cbn [req_size] in Hsz;
    repeat match goal with H : _ && _ = true |- _ => apply andb_prop in H; destruct H end;
    repeat match goal with H : word_ok _ = true |- _ => apply word_ok_lt in H end;
    cbn [enc_req spec_req_pdu req_size];
    try (rewrite ?word_bytes_be16 by assumption; split; [reflexivity|]; unfold be16; cbn [app]; rewrite ?len_cons, ?len_nil; lia).
  - (* write single coil *) destruct b; rewrite ?word_bytes_be16 by assumption; (split; [reflexivity|unfold be16; cbn [app]; rewrite ?len_cons, ?len_nil; lia]).
  - (* write multiple coils *)
    assert (Hb : packed_size bs <= 247) by lia. pose proof (packed_size_bound bs 247 Hb) as Hn.
    unfold u16_len, u8_len. destruct (N.ltb_spec 65535 (len bs)); [lia|]. destruct (N.ltb_spec 255 (packed_size bs)); [lia|].
    cbn [bind]. rewrite spec_pack_eq, len_pack. rewrite !word_bytes_be16 by lia. split; [reflexivity|].
    unfold be16. cbn [app]. rewrite !len_cons, len_pack. lia.
  - (* write multiple registers *)
    unfold u16_len, u8_len. destruct (N.ltb_spec 65535 (len ws)); [lia|]. destruct (N.ltb_spec 255 (len ws * 2)); [lia|].
    cbn [bind]. rewrite flat_word_bytes by assumption. rewrite !word_bytes_be16 by lia. rewrite (N.mul_comm 2). split; [reflexivity|].
    unfold be16. cbn [app]. rewrite !len_cons, len_be16s. lia.
  - (* read/write multiple registers *)
    unfold u16_len, u8_len. destruct (N.ltb_spec 65535 (len ws)); [lia|]. destruct (N.ltb_spec 255 (len ws * 2)); [lia|].
    cbn [bind]. rewrite flat_word_bytes by assumption. rewrite !word_bytes_be16 by lia. rewrite (N.mul_comm 2). split; [reflexivity|].
    unfold be16. cbn [app]. rewrite !len_cons, len_be16s. lia.
Qed.

Theorem enc_rsp_spec m r : rsp_ok r = true -> rsp_size r <= 253 ->
  enc_rsp m r = Val (spec_rsp_pdu r) /\ len (spec_rsp_pdu r) = rsp_size r.
Proof.
  intros Hok Hsz. destruct r; cbn [rsp_ok] in Hok; cbn [rsp_size] in Hsz;
    repeat match goal with H : _ && _ = true |- _ => apply andb_prop in H; destruct H end;
    repeat match goal with H : word_ok _ = true |- _ => apply word_ok_lt in H end;
    cbn [enc_rsp spec_rsp_pdu rsp_size];
    try (rewrite ?word_bytes_be16 by assumption; split; [reflexivity|]; unfold be16; cbn [app]; rewrite ?len_cons, ?len_nil; lia).
  - unfold u8_len. destruct (N.ltb_spec 255 (packed_size bs)); [lia|]. cbn [bind]. rewrite spec_pack_eq, len_pack.
    split; [reflexivity|]. cbn [app]. rewrite !len_cons, len_pack. lia.
  - unfold u8_len. destruct (N.ltb_spec 255 (packed_size bs)); [lia|]. cbn [bind]. rewrite spec_pack_eq, len_pack.
    split; [reflexivity|]. cbn [app]. rewrite !len_cons, len_pack. lia.
  - destruct b; rewrite ?word_bytes_be16 by assumption; (split; [reflexivity|unfold be16; cbn [app]; rewrite ?len_cons, ?len_nil; lia]).
  - unfold u8_len. destruct (N.ltb_spec 255 (len ws * 2)); [lia|]. cbn [bind]. rewrite flat_word_bytes by assumption. rewrite (N.mul_comm 2).
    split; [reflexivity|]. cbn [app]. rewrite !len_cons, len_be16s. lia.
  - unfold u8_len. destruct (N.ltb_spec 255 (len ws * 2)); [lia|]. cbn [bind]. rewrite flat_word_bytes by assumption. rewrite (N.mul_comm 2).
    split; [reflexivity|]. cbn [app]. rewrite !len_cons, len_be16s. lia.
  - unfold u8_len. destruct (N.ltb_spec 255 (len d)); [lia|]. cbn [bind]. destruct (N.ltb_spec 255 (2 + len d)); [lia|]. cbn [bind].
    split; [reflexivity|]. cbn [app]. rewrite !len_cons. lia.
  - unfold u8_len. destruct (N.ltb_spec 255 (len ws * 2)); [lia|]. cbn [bind]. rewrite flat_word_bytes by assumption. rewrite (N.mul_comm 2).
    split; [reflexivity|]. cbn [app]. rewrite !len_cons, len_be16s. lia.
Qed.

Theorem enc_exc_spec m f e : fc_value f < 0x80 ->
  enc_exc m {| exr_function := f; exr_exception := e |} = Val (spec_exc_pdu (fc_value f) (ex_value e)).
Proof.
  intros H. unfold enc_exc, spec_exc_pdu. cbn [exr_function exr_exception].
  destruct (N.leb_spec 128 (fc_value f)); [lia|]. reflexivity.
Qed.

(* ---- round trips: decode (encode v) = v (C01.2 / C02.2 / C08.4) ---- *)
Definition canonical_req (r : request) : bool :=
  match r with
  | ReqCustom fc _ => (fc <? 0x80) && negb (modelled_fc fc)
  | _ => true
  end.
Definition canonical_rsp (r : response) : bool :=
  match r with
  | RspCustom fc _ => negb (modelled_fc fc)
  | _ => true
  end.

Lemma wf_custom_req fc d : fc < 0x80 -> modelled_fc fc = false -> wf_req (fc :: d) = Some (ReqCustom fc d).
Proof.
  intros Hlt Hm. unfold modelled_fc in Hm. unfold wf_req.
  repeat match type of Hm with _ || _ = false => apply orb_false_elim in Hm; destruct Hm as [Hm ?] end.
  repeat match goal with H : (fc =? _) = false |- _ => rewrite H; clear H end.
  replace (fc <? 128) with true by lia. reflexivity.
Qed.
Lemma wf_custom_rsp fc d : modelled_fc fc = false -> wf_rsp (fc :: d) = Some (RspCustom fc d).
Proof.
  intros Hm. unfold modelled_fc in Hm. unfold wf_rsp.
  repeat match type of Hm with _ || _ = false => apply orb_false_elim in Hm; destruct Hm as [Hm ?] end.
  repeat match goal with H : (fc =? _) = false |- _ => rewrite H; clear H end.
  reflexivity.
Qed.

Lemma wf_req_0F a1 a2 q1 q2 bc data :
  wf_req (0x0F :: a1 :: a2 :: q1 :: q2 :: bc :: data) =
  if (len (0x0F :: a1 :: a2 :: q1 :: q2 :: bc :: data) <=? 253) && (len data =? bc) && (u16 q1 q2 <=? 8 * bc)
  then Some (ReqWriteMultipleCoils (u16 a1 a2) (firstn (N.to_nat (u16 q1 q2)) (all_bits data))) else None.
Proof. reflexivity. Qed.
Lemma wf_req_10 a1 a2 q1 q2 bc data :
  wf_req (0x10 :: a1 :: a2 :: q1 :: q2 :: bc :: data) =
  if (len (0x10 :: a1 :: a2 :: q1 :: q2 :: bc :: data) <=? 253) && (bc =? 2 * u16 q1 q2) && (len data =? bc)
  then Some (ReqWriteMultipleRegisters (u16 a1 a2) (words_of data)) else None.
Proof. reflexivity. Qed.
Lemma wf_req_17 a1 a2 q1 q2 w1 w2 n1 n2 bc data :
  wf_req (0x17 :: a1 :: a2 :: q1 :: q2 :: w1 :: w2 :: n1 :: n2 :: bc :: data) =
  if (len (0x17 :: a1 :: a2 :: q1 :: q2 :: w1 :: w2 :: n1 :: n2 :: bc :: data) <=? 253) && (bc =? 2 * u16 n1 n2) && (len data =? bc)
  then Some (ReqReadWriteMultipleRegisters (u16 a1 a2) (u16 q1 q2) (u16 w1 w2) (words_of data)) else None.
Proof. reflexivity. Qed.

Theorem wf_req_spec_pdu r : req_size r <= 253 -> canonical_req r = true -> wf_req (spec_req_pdu r) = Some r.
Proof.
  intros Hsz Hc. destruct r; cbn [req_size] in Hsz; cbn [canonical_req] in Hc.
  - cbn. rewrite !u16_word_bytes. reflexivity.
  - cbn. rewrite !u16_word_bytes. reflexivity.
  - destruct b; cbn; rewrite !u16_word_bytes; reflexivity.
  - (* write multiple coils *)
    assert (Hb : packed_size bs <= 247) by lia. pose proof (packed_size_bound bs 247 Hb) as Hn.
    cbn [spec_req_pdu word_bytes app]. rewrite spec_pack_eq, len_pack. rewrite wf_req_0F.
    rewrite !u16_word_bytes.
    replace (len (15 :: a / 256 :: a mod 256 :: len bs / 256 :: len bs mod 256 :: packed_size bs :: pack_coils bs) <=? 253) with true
      by (rewrite !len_cons, len_pack; lia).
    replace (len (pack_coils bs) =? packed_size bs) with true by (rewrite len_pack; lia).
    replace (len bs <=? 8 * packed_size bs) with true by (unfold packed_size; lia).
    cbn [andb]. rewrite all_bits_pack. rewrite len_length. rewrite firstn_app, Nat.sub_diag, firstn_all. cbn [firstn]. rewrite app_nil_r. reflexivity.
  - cbn. rewrite !u16_word_bytes. reflexivity.
  - cbn. rewrite !u16_word_bytes. reflexivity.
  - cbn. rewrite !u16_word_bytes. reflexivity.
  - (* write multiple registers *)
    cbn [spec_req_pdu word_bytes app]. rewrite wf_req_10. rewrite !u16_word_bytes.
    replace (len (16 :: a / 256 :: a mod 256 :: len ws / 256 :: len ws mod 256 :: 2 * len ws :: flat_map word_bytes ws) <=? 253) with true
      by (rewrite !len_cons, len_flat_word_bytes; lia).
    replace (2 * len ws =? 2 * len ws) with true by lia.
    replace (len (flat_map word_bytes ws) =? 2 * len ws) with true by (rewrite len_flat_word_bytes; lia).
    cbn [andb]. rewrite words_of_flat. reflexivity.
  - reflexivity.
  - cbn. rewrite !u16_word_bytes. reflexivity.
  - (* read/write multiple registers *)
    cbn [spec_req_pdu word_bytes app]. rewrite wf_req_17. rewrite !u16_word_bytes.
    replace (len (23 :: ra / 256 :: ra mod 256 :: rq / 256 :: rq mod 256 :: wa / 256 :: wa mod 256 :: len ws / 256 :: len ws mod 256 :: 2 * len ws :: flat_map word_bytes ws) <=? 253) with true
      by (rewrite !len_cons, len_flat_word_bytes; lia).
    replace (2 * len ws =? 2 * len ws) with true by lia.
    replace (len (flat_map word_bytes ws) =? 2 * len ws) with true by (rewrite len_flat_word_bytes; lia).
    cbn [andb]. rewrite words_of_flat. reflexivity.
  - apply andb_prop in Hc. destruct Hc as [H1 H2]. apply wf_custom_req; [lia|]. destruct (modelled_fc fc); [discriminate|reflexivity].
Qed.

Theorem dec_req_spec_pdu r : req_size r <= 253 -> canonical_req r = true -> dec_req (spec_req_pdu r) = Val r.
Proof.
  intros Hsz Hc. pose proof (req_wf_dec (spec_req_pdu r)) as H. rewrite (wf_req_spec_pdu r Hsz Hc) in H. exact H.
Qed.

Lemma wf_rsp_bits fc bc data mk :
  wf_bits mk (fc :: bc :: data) (bc :: data) =
  if (len (fc :: bc :: data) <=? 253) && (len data =? bc) then Some (mk (all_bits data)) else None.
Proof. reflexivity. Qed.
Lemma wf_rsp_words fc bc data mk :
  wf_words mk (fc :: bc :: data) (bc :: data) =
  if (len (fc :: bc :: data) <=? 253) && (bc mod 2 =? 0) && (len data =? bc) then Some (mk (words_of data)) else None.
Proof. reflexivity. Qed.
Lemma wf_rsp_01 r : wf_rsp (0x01 :: r) = wf_bits RspReadCoils (0x01 :: r) r. Proof. reflexivity. Qed.
Lemma wf_rsp_02 r : wf_rsp (0x02 :: r) = wf_bits RspReadDiscreteInputs (0x02 :: r) r. Proof. reflexivity. Qed.
Lemma wf_rsp_03 r : wf_rsp (0x03 :: r) = wf_words RspReadHoldingRegisters (0x03 :: r) r. Proof. reflexivity. Qed.
Lemma wf_rsp_04 r : wf_rsp (0x04 :: r) = wf_words RspReadInputRegisters (0x04 :: r) r. Proof. reflexivity. Qed.
Lemma wf_rsp_17 r : wf_rsp (0x17 :: r) = wf_words RspReadWriteMultipleRegisters (0x17 :: r) r. Proof. reflexivity. Qed.
Lemma wf_rsp_11 bc id st d :
  wf_rsp (0x11 :: bc :: id :: st :: d) =
  if (len (0x11 :: bc :: id :: st :: d) <=? 253) && (2 <=? bc) && (len d + 2 =? bc) && ((st =? 0x00) || (st =? 0xFF))
  then Some (RspReportServerId id (st =? 0xFF) d) else None.
Proof. reflexivity. Qed.

Lemma bits_rt fc mk bs : 2 + packed_size bs <= 253 ->
  wf_bits mk (fc :: len (spec_pack bs) :: spec_pack bs) (len (spec_pack bs) :: spec_pack bs) = Some (mk (pad_bits bs)).
Proof.
  intros H. rewrite wf_rsp_bits. rewrite spec_pack_eq.
  replace (len (fc :: len (pack_coils bs) :: pack_coils bs) <=? 253) with true by (rewrite !len_cons, len_pack; lia).
  replace (len (pack_coils bs) =? len (pack_coils bs)) with true by lia.
  cbn [andb]. rewrite all_bits_pack. reflexivity.
Qed.
Lemma words_rt fc mk ws : 2 + len ws * 2 <= 253 ->
  wf_words mk (fc :: 2 * len ws :: flat_map word_bytes ws) (2 * len ws :: flat_map word_bytes ws) = Some (mk ws).
Proof.
  intros H. rewrite wf_rsp_words.
  replace (len (fc :: 2 * len ws :: flat_map word_bytes ws) <=? 253) with true by (rewrite !len_cons, len_flat_word_bytes; lia).
  replace ((2 * len ws) mod 2 =? 0) with true by lia.
  replace (len (flat_map word_bytes ws) =? 2 * len ws) with true by (rewrite len_flat_word_bytes; lia).
  cbn [andb]. rewrite words_of_flat. reflexivity.
Qed.

Theorem wf_rsp_spec_pdu r : rsp_size r <= 253 -> canonical_rsp r = true -> wf_rsp (spec_rsp_pdu r) = Some (pad_rsp r).
Proof.
  intros Hsz Hc. destruct r; cbn [rsp_size] in Hsz; cbn [canonical_rsp] in Hc; cbn [pad_rsp].
  - cbn [spec_rsp_pdu app]. rewrite wf_rsp_01. apply bits_rt. exact Hsz.
  - cbn [spec_rsp_pdu app]. rewrite wf_rsp_02. apply bits_rt. exact Hsz.
  - destruct b; cbn; rewrite !u16_word_bytes; reflexivity.
  - cbn. rewrite !u16_word_bytes. reflexivity.
  - cbn [spec_rsp_pdu app]. rewrite wf_rsp_04. apply words_rt. exact Hsz.
  - cbn [spec_rsp_pdu app]. rewrite wf_rsp_03. apply words_rt. exact Hsz.
  - cbn. rewrite !u16_word_bytes. reflexivity.
  - cbn. rewrite !u16_word_bytes. reflexivity.
  - cbn [spec_rsp_pdu app]. rewrite wf_rsp_11.
    replace (len (17 :: 2 + len d :: id :: (if run then 255 else 0) :: d) <=? 253) with true by (rewrite !len_cons; lia).
    replace (2 <=? 2 + len d) with true by lia. replace (len d + 2 =? 2 + len d) with true by lia.
    destruct run; reflexivity.
  - cbn. rewrite !u16_word_bytes. reflexivity.
  - cbn [spec_rsp_pdu app]. rewrite wf_rsp_17. apply words_rt. exact Hsz.
  - apply wf_custom_rsp. destruct (modelled_fc fc); [discriminate|reflexivity].
Qed.

Theorem dec_rsp_spec_pdu r : rsp_size r <= 253 -> canonical_rsp r = true -> dec_rsp (spec_rsp_pdu r) = Val (pad_rsp r).
Proof.
  intros Hsz Hc. pose proof (rsp_wf_dec (spec_rsp_pdu r)) as H. rewrite (wf_rsp_spec_pdu r Hsz Hc) in H. exact H.
Qed.

(* exception PDUs: [fc + 0x80; code] decodes to the code pair, numerically *)
Theorem dec_exc_spec fc code : fc < 0x80 -> code < 256 ->
  exists e, dec_exc (spec_exc_pdu fc code) = Val e /\ fc_value (exr_function e) = fc_value (fc_new fc) /\ exr_exception e = ex_new code.
Proof.
  intros Hf Hc. unfold spec_exc_pdu. rewrite dec_exc_char.
  destruct (N.ltb_spec (fc + 128) 128); [lia|].
  eexists. split; [reflexivity|]. cbn [exr_function exr_exception]. replace (fc + 128 - 128) with fc by lia. split; reflexivity.
Qed.
