From Coq Require Import Lia Bool.
From TM Require Import Base Frame Pdu Framed Client Text Tables TypedTab BaseLemmas TablesProofs.

Theorem typed_table_model_ok req r : typed_post_by typed_table_model req r = typed_post req r.
Proof.
  destruct req, r; unfold typed_post_by; vm_compute lookup_typed; cbv iota beta;
    try (vm_compute leqb; cbv iota; cbn [apply_post req_fields rsp_fields nth_error typed_post ef_val fv_same forallb fst snd]; rewrite ?andb_true_r, ?andb_assoc; reflexivity).
Qed.

Lemma expand_typed_eq t1 t2 n : expand_typed t1 = expand_typed t2 -> In n variant_names -> lookup_typed t1 n = lookup_typed t2 n.
Proof.
  unfold expand_typed. generalize variant_names as l. induction l as [|x l IH]; intros He Hin; [destruct Hin|].
  cbn [map] in He. injection He as H1 H2. destruct Hin as [<-|Hin]; [exact H1|apply IH; assumption].
Qed.

(* any table with the same row for every request variant post-processes every reply exactly as typed_post does *)
Theorem typed_post_by_table t req r : expand_typed t = expand_typed typed_table_model -> typed_post_by t req r = typed_post req r.
Proof.
  intros He. rewrite <- typed_table_model_ok. unfold typed_post_by. rewrite (expand_typed_eq _ _ _ He (req_variant_in req)). reflexivity.
Qed.
