(* C06, the converse directions: which replies produce which outcome, exactly.  Everything follows from
   [call_classify] (ClientProofs.v): the outcome of a call that consumed a reply is [classify] of that
   reply, and a call that consumed none is neither a success nor a protocol error. *)
From Coq Require Import List NArith Bool Lia.
From TM Require Import Base Frame Pdu RtuCodec TcpCodec Framed Client BaseLemmas FramedProofs FramedMore ClientProofs.

(* success <=> the consumed reply has the request's header and numerically its function code *)
Theorem call_success_iff p m st req bg :
  is_success (fst (call p m st req bg)) = true <->
  exists rr, call_reply p m st req bg = Some (req_hdr p st, rr)
             /\ fc_value (rr_fc rr) = fc_value (req_fc req).
Proof.
  split.
  - intros Hs. destruct (call_success_only_if p m st req bg Hs) as [rr [H1 [H2 _]]]. exists rr. auto.
  - intros [rr [H1 H2]]. rewrite (call_returns_answer p m st req bg rr H1 H2). destruct rr; reflexivity.
Qed.

(* a header-mismatch error <=> a reply was consumed whose header differs; it carries exactly that reply *)
Theorem call_header_mismatch_iff p m st req bg rr :
  fst (call p m st req bg) = CRHeaderMismatch rr <->
  exists rh, call_reply p m st req bg = Some (rh, rr) /\ rh <> req_hdr p st.
Proof.
  split.
  - intros Hc. pose proof (call_classify p m st req bg) as H.
    destruct (call_reply p m st req bg) as [[rh rr']|].
    + rewrite H in Hc. unfold classify in Hc.
      destruct (hdr_eqb (req_hdr p st) rh) eqn:Hh; cbn [negb] in Hc.
      * destruct (fc_value (req_fc req) =? fc_value (rr_fc rr'))%N; cbn [negb] in Hc; [destruct rr'|]; discriminate.
      * injection Hc as ->. exists rh. split; [reflexivity|].
        intros ->. assert (hdr_eqb (req_hdr p st) (req_hdr p st) = true) as E by (apply hdr_eqb_eq; reflexivity). congruence.
    + rewrite Hc in H. contradiction.
  - intros [rh [H1 H2]]. exact (call_header_mismatch p m st req bg rh rr H1 H2).
Qed.

(* a function-code-mismatch error <=> a reply with the request's header but another code was consumed;
   it carries the request's function code and exactly that reply *)
Theorem call_fc_mismatch_iff p m st req bg f rr :
  fst (call p m st req bg) = CRFcMismatch f rr <->
  (f = req_fc req /\ call_reply p m st req bg = Some (req_hdr p st, rr)
   /\ fc_value (rr_fc rr) <> fc_value (req_fc req)).
Proof.
  split.
  - intros Hc. pose proof (call_classify p m st req bg) as H.
    destruct (call_reply p m st req bg) as [[rh rr']|].
    + rewrite H in Hc. unfold classify in Hc.
      destruct (hdr_eqb (req_hdr p st) rh) eqn:Hh; cbn [negb] in Hc; [|discriminate].
      apply hdr_eqb_eq in Hh. subst rh.
      destruct (N.eqb_spec (fc_value (req_fc req)) (fc_value (rr_fc rr'))) as [E|E]; cbn [negb] in Hc.
      * destruct rr'; discriminate.
      * injection Hc as <- <-. repeat split. congruence.
    + rewrite Hc in H. contradiction.
  - intros [-> [H1 H2]]. exact (call_fc_mismatch p m st req bg rr H1 H2).
Qed.

(* the four reply-driven outcomes exclude one another and exhaust the calls that consumed a reply *)
Theorem call_reply_outcome_cases p m st req bg rh rr :
  call_reply p m st req bg = Some (rh, rr) ->
  let c := fst (call p m st req bg) in
  (rh <> req_hdr p st /\ c = CRHeaderMismatch rr) \/
  (rh = req_hdr p st /\ fc_value (rr_fc rr) <> fc_value (req_fc req) /\ c = CRFcMismatch (req_fc req) rr) \/
  (rh = req_hdr p st /\ fc_value (rr_fc rr) = fc_value (req_fc req)
   /\ c = match rr with RROk r => CROk r | RRExc e => CRExc (exr_exception e) end).
Proof.
  intros Hr c. subst c.
  destruct (hdr_eqb (req_hdr p st) rh) eqn:Hh.
  - apply hdr_eqb_eq in Hh. subst rh. right.
    destruct (N.eq_dec (fc_value (rr_fc rr)) (fc_value (req_fc req))) as [E|E].
    + right. repeat split; [exact E|]. exact (call_returns_answer p m st req bg rr Hr E).
    + left. repeat split; [exact E|]. exact (call_fc_mismatch p m st req bg rr Hr E).
  - left. assert (rh <> req_hdr p st) as Hne.
    { intros ->. assert (hdr_eqb (req_hdr p st) (req_hdr p st) = true) as E by (apply hdr_eqb_eq; reflexivity). congruence. }
    split; [exact Hne|]. exact (call_header_mismatch p m st req bg rh rr Hr Hne).
Qed.
