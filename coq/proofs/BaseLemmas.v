(* BaseLemmas.v -- arithmetic and list facts about bytes, words, cursor readers. *)
From Coq Require Import ZArith Lia ZifyBool ZifyNat ZifyN.
From TM Require Import Base.
Ltac Zify.zify_post_hook ::= Z.div_mod_to_equations.

Lemma len_nil {A} : len (@nil A) = 0.
Proof. reflexivity. Qed.
Lemma len_cons {A} (x : A) l : len (x :: l) = 1 + len l.
Proof. unfold len. cbn [length]. lia. Qed.
Lemma len_app {A} (a b : list A) : len (a ++ b) = len a + len b.
Proof. unfold len. rewrite app_length. lia. Qed.
Lemma len_length {A} (l : list A) : N.to_nat (len l) = length l.
Proof. unfold len. lia. Qed.

Lemma hi8_lt w : hi8 w < 256.
Proof. unfold hi8. lia. Qed.
Lemma lo8_lt w : lo8 w < 256.
Proof. unfold lo8. lia. Qed.
Lemma of_be16_hi_lo w : w < 65536 -> of_be16 (hi8 w) (lo8 w) = w.
Proof. unfold of_be16, hi8, lo8. intros H. lia. Qed.
Lemma of_be16_lt h l : h < 256 -> l < 256 -> of_be16 h l < 65536.
Proof. unfold of_be16. lia. Qed.
Lemma hi_lo_of_be16 h l : h < 256 -> l < 256 -> hi8 (of_be16 h l) = h /\ lo8 (of_be16 h l) = l.
Proof. unfold of_be16, hi8, lo8. intros. split; lia. Qed.

Lemma byte_ok_lt b : byte_ok b = true <-> b < 256.
Proof. unfold byte_ok. lia. Qed.
Lemma word_ok_lt w : word_ok w = true <-> w < 65536.
Proof. unfold word_ok. lia. Qed.

Lemma bytes_ok_app a b : bytes_ok (a ++ b) = bytes_ok a && bytes_ok b.
Proof. unfold bytes_ok. apply forallb_app. Qed.
Lemma bytes_ok_be16 w : bytes_ok (be16 w) = true.
Proof. unfold be16, bytes_ok. cbn [forallb]. pose proof (hi8_lt w). pose proof (lo8_lt w). unfold byte_ok. lia. Qed.
Lemma bytes_ok_be16s ws : bytes_ok (be16s ws) = true.
Proof.
  induction ws as [|w ws IH]; [reflexivity|]. unfold be16s in *. cbn [flat_map].
  rewrite bytes_ok_app, bytes_ok_be16, IH. reflexivity.
Qed.

Lemma length_be16s ws : length (be16s ws) = (2 * length ws)%nat.
Proof. induction ws as [|w ws IH]; [reflexivity|]. unfold be16s in *. cbn [flat_map be16 app length]. rewrite IH. lia. Qed.
Lemma len_be16s ws : len (be16s ws) = 2 * len ws.
Proof. unfold len. rewrite length_be16s. lia. Qed.

(* ---- cursor readers ---- *)
Lemma rd16_be16 w r : w < 65536 -> rd16 (be16 w ++ r) = Val (w, r).
Proof. intros H. unfold be16. cbn [app rd16]. rewrite of_be16_hi_lo by exact H. reflexivity. Qed.

Lemma rd16s_be16s ws r : words_ok ws = true -> rd16s (length ws) (be16s ws ++ r) = Val (ws, r).
Proof.
  induction ws as [|w ws IH]; intros H; [reflexivity|].
  cbn [words_ok forallb] in H. apply andb_prop in H. destruct H as [Hw Hws].
  apply word_ok_lt in Hw.
  unfold be16s. cbn [flat_map length rd16s]. rewrite <- app_assoc. rewrite rd16_be16 by exact Hw.
  cbn [bind]. fold (be16s ws). rewrite IH by exact Hws. reflexivity.
Qed.

(* words spelled by a byte list of even length *)
Fixpoint words_of (l : list N) : list N :=
  match l with h :: lo :: r => of_be16 h lo :: words_of r | _ => [] end.

Lemma rd16s_exact : forall n l, length l = (2 * n)%nat -> rd16s n l = Val (words_of l, []).
Proof.
  induction n as [|n IH]; intros l Hl.
  - destruct l; [reflexivity|discriminate].
  - destruct l as [|h [|lo r]]; cbn [length] in Hl; try lia.
    cbn [rd16s rd16 bind words_of]. rewrite IH by lia. reflexivity.
Qed.
Lemma rd16s_short : forall n l, (length l < 2 * n)%nat -> rd16s n l = Fail KUnexpectedEof.
Proof.
  induction n as [|n IH]; intros l Hl; [lia|].
  destruct l as [|h [|lo r]]; cbn [rd16s rd16 bind]; auto.
  cbn [length] in Hl. rewrite IH by lia. reflexivity.
Qed.
Lemma rd16s_long : forall n l, (2 * n < length l)%nat -> exists ws x r, rd16s n l = Val (ws, x :: r).
Proof.
  induction n as [|n IH]; intros l Hl.
  - destruct l as [|x r]; [cbn in Hl; lia|]. exists [], x, r. reflexivity.
  - destruct l as [|h [|lo r]]; cbn [length] in Hl; try lia.
    destruct (IH r ltac:(lia)) as (ws & x & r' & Hw). exists (of_be16 h lo :: ws), x, r'.
    cbn [rd16s rd16 bind]. rewrite Hw. reflexivity.
Qed.
Lemma rd16s_no_panic : forall n l, rd16s n l <> Panic.
Proof.
  induction n as [|n IH]; intros l; [discriminate|].
  destruct l as [|h [|lo r]]; cbn [rd16s rd16 bind]; try discriminate.
  specialize (IH r). destruct (rd16s n r) as [[ws r']| |]; cbn [bind]; congruence.
Qed.

Lemma rd8s_exact : forall n l, length l = n -> rd8s n l = Val (l, []).
Proof.
  induction n as [|n IH]; intros l Hl.
  - destruct l; [reflexivity|discriminate].
  - destruct l as [|b r]; cbn [length] in Hl; try lia.
    cbn [rd8s rd8 bind]. rewrite IH by lia. reflexivity.
Qed.
Lemma rd8s_short : forall n l, (length l < n)%nat -> rd8s n l = Fail KUnexpectedEof.
Proof.
  induction n as [|n IH]; intros l Hl; [lia|].
  destruct l as [|b r]; cbn [rd8s rd8 bind]; auto. cbn [length] in Hl. rewrite IH by lia. reflexivity.
Qed.
Lemma rd8s_long : forall n l, (n < length l)%nat -> exists bs x r, rd8s n l = Val (bs, x :: r).
Proof.
  induction n as [|n IH]; intros l Hl.
  - destruct l as [|x r]; [cbn in Hl; lia|]. exists [], x, r. reflexivity.
  - destruct l as [|b r]; cbn [length] in Hl; try lia.
    destruct (IH r ltac:(lia)) as (bs & x & r' & Hw). exists (b :: bs), x, r'. cbn [rd8s rd8 bind]. rewrite Hw. reflexivity.
Qed.

Lemma words_of_be16s ws : words_ok ws = true -> words_of (be16s ws) = ws.
Proof.
  induction ws as [|w ws IH]; intros H; [reflexivity|].
  cbn [words_ok forallb] in H. apply andb_prop in H. destruct H as [Hw Hws]. apply word_ok_lt in Hw.
  unfold be16s. cbn [flat_map be16 app words_of]. fold (be16s ws). rewrite of_be16_hi_lo by exact Hw. rewrite IH by exact Hws. reflexivity.
Qed.
Lemma words_of_ok : forall l, bytes_ok l = true -> words_ok (words_of l) = true.
Proof.
  fix IH 1. intros l H. destruct l as [|h [|lo r]]; try reflexivity.
  cbn [bytes_ok forallb] in H. apply andb_prop in H. destruct H as [Hh H]. apply andb_prop in H. destruct H as [Hl H].
  cbn [words_of words_ok forallb]. apply byte_ok_lt in Hh. apply byte_ok_lt in Hl.
  pose proof (of_be16_lt h lo Hh Hl). fold (words_ok (words_of r)). rewrite (IH r H).
  unfold word_ok. lia.
Qed.
Lemma length_words_of : forall l, length (words_of l) = (length l / 2)%nat.
Proof.
  fix IH 1. intros l. destruct l as [|h [|lo r]]; try reflexivity.
  cbn [words_of length]. rewrite IH.
  change (S (S (length r))) with (2 + length r)%nat.
  replace (2 + length r)%nat with (length r + 1 * 2)%nat by lia. rewrite Nat.div_add by lia. lia.
Qed.
Lemma be16s_words_of : forall l, bytes_ok l = true -> Nat.even (length l) = true -> be16s (words_of l) = l.
Proof.
  fix IH 1. intros l H He. destruct l as [|h [|lo r]]; try reflexivity; [discriminate|].
  cbn [bytes_ok forallb] in H. apply andb_prop in H. destruct H as [Hh H]. apply andb_prop in H. destruct H as [Hl H].
  apply byte_ok_lt in Hh. apply byte_ok_lt in Hl.
  cbn [words_of]. unfold be16s. cbn [flat_map be16 app]. fold (be16s (words_of r)).
  destruct (hi_lo_of_be16 h lo Hh Hl) as [-> ->]. rewrite IH; auto.
Qed.
