(* Proofs for C19: codes and slave ids convert without loss. *)
From Coq Require Import String Lia.
From TM Require Import Base Frame Pdu Slave Text Sweep.

(* ---- spec tables (Modbus Application Protocol V1.1b3), written independently of fc_new ---- *)
Definition spec_fc_table : list (N * function_code) :=
  [(0x01, FcReadCoils); (0x02, FcReadDiscreteInputs); (0x03, FcReadHoldingRegisters);
   (0x04, FcReadInputRegisters); (0x05, FcWriteSingleCoil); (0x06, FcWriteSingleRegister);
   (0x07, FcReadExceptionStatus); (0x08, FcDiagnostics); (0x0B, FcGetCommEventCounter);
   (0x0C, FcGetCommEventLog); (0x0F, FcWriteMultipleCoils); (0x10, FcWriteMultipleRegisters);
   (0x11, FcReportServerId); (0x14, FcReadFileRecord); (0x15, FcWriteFileRecord);
   (0x16, FcMaskWriteRegister); (0x17, FcReadWriteMultipleRegisters); (0x18, FcReadFifoQueue);
   (0x2B, FcEncapsulatedInterfaceTransport)].
Definition spec_ex_table : list (N * exception_code) :=
  [(0x01, ExIllegalFunction); (0x02, ExIllegalDataAddress); (0x03, ExIllegalDataValue);
   (0x04, ExServerDeviceFailure); (0x05, ExAcknowledge); (0x06, ExServerDeviceBusy);
   (0x08, ExMemoryParityError); (0x0A, ExGatewayPathUnavailable); (0x0B, ExGatewayTargetDevice)].

Fixpoint lookup {A} (b : N) (t : list (N * A)) : option A :=
  match t with [] => None | (k, v) :: r => if k =? b then Some v else lookup b r end.

Definition fc_eqb (a b : function_code) : bool :=
  match a, b with
  | FcCustom x, FcCustom y => x =? y
  | FcCustom _, _ | _, FcCustom _ => false
  | _, _ => fc_value a =? fc_value b
  end.
Lemma fc_eqb_eq a b : fc_eqb a b = true -> a = b.
Proof.
  destruct a, b; cbn; intros H; try reflexivity; try discriminate.
  apply N.eqb_eq in H. subst. reflexivity.
Qed.
Definition ex_eqb (a b : exception_code) : bool :=
  match a, b with
  | ExCustom x, ExCustom y => x =? y
  | ExCustom _, _ | _, ExCustom _ => false
  | _, _ => ex_value a =? ex_value b
  end.
Lemma ex_eqb_eq a b : ex_eqb a b = true -> a = b.
Proof.
  destruct a, b; cbn; intros H; try reflexivity; try discriminate.
  apply N.eqb_eq in H. subst. reflexivity.
Qed.

Definition spec_fc (b : N) : function_code :=
  match lookup b spec_fc_table with Some f => f | None => FcCustom b end.
Definition spec_ex (b : N) : exception_code :=
  match lookup b spec_ex_table with Some f => f | None => ExCustom b end.

Lemma fc_roundtrip : forall b, b < 256 -> fc_value (fc_new b) = b.
Proof.
  intros b Hb. apply N.eqb_eq.
  exact (sweep (fun b => fc_value (fc_new b) =? b) 256 ltac:(vm_compute; reflexivity) b Hb).
Qed.
Lemma ex_roundtrip : forall b, b < 256 -> ex_value (ex_new b) = b.
Proof.
  intros b Hb. apply N.eqb_eq.
  exact (sweep (fun b => ex_value (ex_new b) =? b) 256 ltac:(vm_compute; reflexivity) b Hb).
Qed.
Lemma fc_named : forall b, b < 256 -> fc_new b = spec_fc b.
Proof.
  intros b Hb. apply fc_eqb_eq.
  exact (sweep (fun b => fc_eqb (fc_new b) (spec_fc b)) 256 ltac:(vm_compute; reflexivity) b Hb).
Qed.
Lemma ex_named : forall b, b < 256 -> ex_new b = spec_ex b.
Proof.
  intros b Hb. apply ex_eqb_eq.
  exact (sweep (fun b => ex_eqb (ex_new b) (spec_ex b)) 256 ltac:(vm_compute; reflexivity) b Hb).
Qed.
(* each spec-named code maps to its named constructor and back (19 + 9 table rows) *)
Lemma fc_table_rows : forall b f, In (b, f) spec_fc_table -> fc_new b = f /\ fc_value f = b.
Proof.
  intros b f H. cbn in H.
  repeat (destruct H as [H|H]; [injection H as <- <-; split; reflexivity|]). contradiction.
Qed.
Lemma ex_table_rows : forall b e, In (b, e) spec_ex_table -> ex_new b = e /\ ex_value e = b.
Proof.
  intros b f H. cbn in H.
  repeat (destruct H as [H|H]; [injection H as <- <-; split; reflexivity|]). contradiction.
Qed.

(* ---- the function code of a value is the first byte of its encoding ---- *)
Lemma req_first_byte : forall m r bs, enc_req m r = Val bs -> hd_error bs = Some (fc_value (req_fc r)).
Proof.
  intros m r bs H. destruct r; cbn in H;
    repeat match type of H with
           | context [u16_len ?m ?n] => destruct (u16_len m n); cbn in H; try discriminate
           | context [u8_len ?m ?n] => destruct (u8_len m n); cbn in H; try discriminate
           end; injection H as <-; reflexivity.
Qed.
Lemma rsp_first_byte : forall m r bs, enc_rsp m r = Val bs -> hd_error bs = Some (fc_value (rsp_fc r)).
Proof.
  intros m r bs H. destruct r; cbn in H;
    repeat match type of H with
           | context [u8_len ?m ?n] => destruct (u8_len m n); cbn in H; try discriminate
           | context [if ?c then _ else _] => destruct c; cbn in H; try discriminate
           end; injection H as <-; reflexivity.
Qed.

(* ---- slave ids ---- *)
Definition hex_lower_digit (d : N) : N := if d <? 10 then 48 + d else 87 + d.
(* hexadecimal spelling without leading zeros, at most 4 digits (n < 65536) *)
Definition hex_spelling (dig : N -> N) (n : N) : list N :=
  if n <? 16 then [dig n]
  else if n <? 256 then [dig (n / 16); dig (n mod 16)]
  else if n <? 4096 then [dig (n / 256); dig ((n / 16) mod 16); dig (n mod 16)]
  else [dig (n / 4096); dig ((n / 256) mod 16); dig ((n / 16) mod 16); dig (n mod 16)].
Definition zeros (k : N) : list N := repeat 48 (N.to_nat k).
Definition dec_form (z n : N) : list N := zeros z ++ show_dec n.
Definition hex_form (dig : N -> N) (z n : N) : list N := [48; 120] ++ zeros z ++ hex_spelling dig n.

Definition opt_N_eqb (a b : option N) : bool :=
  match a, b with Some x, Some y => x =? y | None, None => true | _, _ => false end.
Lemma opt_N_eqb_eq a b : opt_N_eqb a b = true -> a = b.
Proof. destruct a, b; cbn; intros H; try discriminate; try reflexivity. apply N.eqb_eq in H. congruence. Qed.

Definition expected (n : N) : option N := if n <? 256 then Some n else None.

Definition parse_check (n : N) : bool :=
  forallb (fun z =>
    opt_N_eqb (slave_parse (dec_form z n)) (expected n) &&
    opt_N_eqb (slave_parse (hex_form hex_lower_digit z n)) (expected n) &&
    opt_N_eqb (slave_parse (hex_form hex_digit_upper z n)) (expected n)) [0; 1; 2].

Lemma slave_parse_all : forall n, n < 65536 -> parse_check n = true.
Proof. exact (sweep parse_check 65536 ltac:(vm_compute; reflexivity)). Qed.

Lemma slave_parse_spellings : forall n z, n < 65536 -> z <= 2 ->
  slave_parse (dec_form z n) = expected n /\
  slave_parse (hex_form hex_lower_digit z n) = expected n /\
  slave_parse (hex_form hex_digit_upper z n) = expected n.
Proof.
  intros n z Hn Hz. pose proof (slave_parse_all n Hn) as H. unfold parse_check in H.
  rewrite forallb_forall in H.
  assert (Hin : In z [0; 1; 2]).
  { assert (Hz3 : z = 0 \/ z = 1 \/ z = 2) by lia. destruct Hz3 as [-> | [-> | ->]]; cbn; auto. }
  specialize (H z Hin). apply andb_prop in H. destruct H as [H H3]. apply andb_prop in H. destruct H as [H1 H2].
  repeat split; apply opt_N_eqb_eq; assumption.
Qed.

Definition display_spec (n : N) : list N :=
  show_dec n ++ s2l " (0x" ++ (if n <? 16 then [48] else []) ++ hex_spelling hex_digit_upper n ++ s2l ")".

Definition display_check (n : N) : bool :=
  list_eqb N.eqb (slave_display n) (display_spec n)
  && opt_N_eqb (slave_parse (show_dec n)) (Some n)
  && opt_N_eqb (slave_parse ([48; 120] ++ (if n <? 16 then [48] else []) ++ hex_spelling hex_digit_upper n)) (Some n).

Lemma list_eqb_N_eq : forall a b, list_eqb N.eqb a b = true -> a = b.
Proof.
  induction a as [|x a IH]; destruct b as [|y b]; cbn; intros H; try discriminate; try reflexivity.
  apply andb_prop in H. destruct H as [H1 H2]. apply N.eqb_eq in H1. f_equal; auto.
Qed.

Lemma slave_display_all : forall n, n < 256 -> display_check n = true.
Proof. exact (sweep display_check 256 ltac:(vm_compute; reflexivity)). Qed.

Definition partition_check (n : N) : bool :=
  let b := slave_is_broadcast n in let s := slave_is_single_device n in let r := slave_is_reserved n in
  (b && negb s && negb r) || (negb b && s && negb r) || (negb b && negb s && r).
Lemma slave_partition_all : forall n, n < 256 -> partition_check n = true.
Proof. exact (sweep partition_check 256 ltac:(vm_compute; reflexivity)). Qed.
