(* ServerProofs.v -- the server's request/response loop: on a stream of valid frames, under every
   chunking, [process] does exactly what [served] does on the list of decoded requests (C07, C01.5,
   C02.3, C09.2), and how a connection ends (C14). *)
From Coq Require Import ZArith Lia ZifyBool ZifyNat ZifyN.
From TM Require Import Base Frame Pdu RtuCodec TcpCodec Framed Client Server BaseLemmas FramedProofs FramedMore
  TcpProofs RtuProofs StreamProofs.
Ltac Zify.zify_post_hook ::= Z.div_mod_to_equations.

Definition server_valid (p : proto) : list N -> hdr * request -> Prop :=
  match p with TCP => valid_req_frame | RTU => valid_rtu_req end.
Lemma server_H1 p f i x : server_valid p f i -> server_dec p (f ++ x) = (x, DSome i).
Proof. destruct p; [apply tcp_server_H1|apply rtu_server_H1]. Qed.
Lemma server_H2 p f i q : server_valid p f i -> proper_prefix q f -> server_dec p q = (q, DNone).
Proof. destruct p; [apply tcp_server_H2|apply rtu_server_H2]. Qed.
Lemma server_valid_nonempty p f i : server_valid p f i -> f <> [].
Proof. destruct p; [apply valid_req_frame_nonempty|apply valid_rtu_req_nonempty]. Qed.
Lemma server_dec_nil p : server_dec p [] = ([], DNone).
Proof. destruct p; reflexivity. Qed.

(* what the service's answer becomes on the wire (OptionalResponsePdu) *)
Definition reply_of (req : request) (rep : svc_reply) : option rsp_result :=
  match rep with
  | SDecline => None
  | SReply r => Some (RROk r)
  | SExc c => Some (RRExc {| exr_function := req_fc req; exr_exception := c |})
  end.

(* the loop body over the list of decoded requests: one service invocation per request, in order, then
   at most one send of the reply framed under that request's own header, completed before the next
   request is looked at *)
Fixpoint served (p : proto) (m : mode) (is : list (hdr * request)) (svc : list svc_reply) (w : wio)
         (cont : list svc_reply -> wio -> list tev) : list tev :=
  match is with
  | [] => cont svc w
  | (h, req) :: is' =>
      TCall (snd h) req ::
      match reply_of req (match svc with [] => SDecline | x :: _ => x end) with
      | None => served p m is' (tl svc) w cont
      | Some rr =>
          match send (server_enc p m h rr) (mkW (wbuf w) (wq w) (fq w) []) None with
          | (_, w1, _, true) => wrote (accepted w1) ++ [TPanic]
          | (SOk, w1, _, _) => wrote (accepted w1) ++ served p m is' (tl svc) w1 cont
          | (SErr k, w1, _, _) => wrote (accepted w1) ++ [TReport k]
          | (_, w1, _, _) => wrote (accepted w1) ++ [TWaiting]
          end
      end
  end.

Lemma process_step_item p m fuel r w q svc h req r1 q1 bg :
  next (server_dec p) r q None = (NItem (h, req), r1, q1, bg) ->
  process (S fuel) p m r w q svc =
  TCall (snd h) req ::
  match reply_of req (match svc with [] => SDecline | x :: _ => x end) with
  | None => process fuel p m r1 w q1 (tl svc)
  | Some rr =>
      match send (server_enc p m h rr) (mkW (wbuf w) (wq w) (fq w) []) None with
      | (_, w1, _, true) => wrote (accepted w1) ++ [TPanic]
      | (SOk, w1, _, _) => wrote (accepted w1) ++ process fuel p m r1 w1 q1 (tl svc)
      | (SErr k, w1, _, _) => wrote (accepted w1) ++ [TReport k]
      | (_, w1, _, _) => wrote (accepted w1) ++ [TWaiting]
      end
  end.
Proof.
  intros Hn. cbn [process]. rewrite Hn.
  destruct svc as [|rep svc']; [reflexivity|]. destruct rep as [rsp| |c]; cbn [reply_of tl]; try reflexivity.
Qed.

(* the central theorem: byte stream of valid frames, ANY chunking, ANY write/flush scripts, any
   service behaviour, any events after the frames *)
Theorem process_serves p m : forall fs is cs b rd tl svc w fuel,
  Forall2 (server_valid p) fs is -> Forall nonempty cs ->
  b ++ concat cs = concat fs -> (rd = false -> b = []) ->
  process (length fs + fuel) p m (mkR b false rd false) w (datas cs ++ tl) svc =
  served p m is svc w (fun svc' w' =>
    process fuel p m (mkR [] false (match fs with [] => rd | _ => true end) false) w' tl svc').
Proof.
  induction fs as [|f fs IH]; intros is cs b rd tl svc w fuel Hv Hne Heq Hinv.
  - inversion Hv; subst. cbn [concat] in Heq. destruct cs as [|c cs].
    + cbn [concat] in Heq. rewrite app_nil_r in Heq. subst b. reflexivity.
    + exfalso. inversion Hne as [|? ? Hc _]; subst. destruct c; [unfold nonempty in Hc; congruence|].
      apply (f_equal (@length N)) in Heq. rewrite app_length in Heq. cbn in Heq. rewrite app_length in Heq. cbn in Heq. lia.
  - inversion Hv as [|? [h req] ? is' Hvf Hvr]; subst. cbn [concat] in Heq.
    destruct (next_item_tl (server_dec p) (server_valid p) (server_H1 p) (server_H2 p) cs b rd f (h, req) (concat fs) None tl Hvf Hne Heq)
      as (b' & cs' & Hn & Hr & Hf).
    { intros Hrd. rewrite (Hinv Hrd). exists f. split; [eapply server_valid_nonempty; eauto|reflexivity]. }
    cbn [length Nat.add]. rewrite (process_step_item p m _ _ w _ svc h req _ _ _ Hn). cbn [served].
    f_equal.
    assert (Hrec : forall w1 svc1, process (length fs + fuel) p m (mkR b' false true false) w1 (datas cs' ++ tl) svc1 =
              served p m is' svc1 w1 (fun svc' w' => process fuel p m (mkR [] false true false) w' tl svc')).
    { intros w1 svc1. rewrite (IH is' cs' b' true tl svc1 w1 fuel Hvr Hf Hr ltac:(discriminate)).
      destruct fs; reflexivity. }
    destruct (reply_of req _) as [rr|].
    + destruct (send _ _ _) as [[[r w1] bg1] pn]. destruct pn; [destruct r; reflexivity|].
      destruct r; try reflexivity. rewrite Hrec. reflexivity.
    + apply Hrec.
Qed.

(* ---- how a connection ends once all complete frames have been served ---- *)
Lemma next_readable_empty {I} (dec : list N -> list N * dres I) evs bg rd :
  dec [] = ([], DNone) -> next dec (mkR [] false rd false) evs bg = next dec (mkR [] false false false) evs bg.
Proof.
  intros Hd. destruct rd; [|reflexivity]. rewrite next_eq. unfold attempt. cbn [rerrored rreadable reof rbuf]. rewrite Hd.
  rewrite (next_eq dec (mkR [] false false false)). unfold attempt. cbn [rerrored rreadable]. reflexivity.
Qed.

(* nothing more arrives: the connection task keeps waiting *)
Lemma end_waiting p m fuel rd w svc : process (S fuel) p m (mkR [] false rd false) w [] svc = [TWaiting].
Proof.
  cbn [process]. rewrite (next_readable_empty (server_dec p) [] None rd (server_dec_nil p)).
  rewrite next_eq. cbn. reflexivity.
Qed.

(* the peer closes on a frame boundary: silent end, no report *)
Lemma end_clean_close p m fuel rd w svc tl : process (S fuel) p m (mkR [] false rd false) w (REof :: tl) svc = [TClosed].
Proof.
  cbn [process]. rewrite (next_readable_empty (server_dec p) _ None rd (server_dec_nil p)).
  rewrite next_eq. unfold attempt. cbn [rerrored rreadable reof rbuf].
  rewrite next_eq. unfold attempt, decode_eof. cbn [rerrored rreadable reof rbuf]. rewrite (server_dec_nil p). reflexivity.
Qed.

(* a read error: exactly one report, nothing else *)
Lemma end_read_error p m fuel rd w svc k tl : process (S fuel) p m (mkR [] false rd false) w (RErr k :: tl) svc = [TReport k].
Proof.
  cbn [process]. rewrite (next_readable_empty (server_dec p) _ None rd (server_dec_nil p)).
  rewrite next_eq. cbn. reflexivity.
Qed.

(* the stream ends inside a frame (after >= 1 byte of it): exactly one report *)
Lemma end_inside_frame p m fuel rd w svc f i cs tl :
  server_valid p f i -> Forall nonempty cs -> concat cs <> [] -> proper_prefix (concat cs) f ->
  process (S fuel) p m (mkR [] false rd false) w (datas cs ++ REof :: tl) svc = [TReport (KOther 0)].
Proof.
  intros Hv Hne Hnz Hp. cbn [process]. rewrite (next_readable_empty (server_dec p) _ None rd (server_dec_nil p)).
  destruct (next_prefix_then_eof (server_dec p) (server_valid p) (server_H2 p) cs [] f i None tl Hv Hne Hp) as (st' & Hn).
  rewrite Hn. cbn [app]. destruct (concat cs); [congruence|reflexivity].
Qed.

(* a read error inside a frame: exactly one report *)
Lemma end_error_inside_frame p m fuel rd w svc f i cs tl k :
  server_valid p f i -> Forall nonempty cs -> proper_prefix (concat cs) f ->
  process (S fuel) p m (mkR [] false rd false) w (datas cs ++ RErr k :: tl) svc = [TReport k].
Proof.
  intros Hv Hne Hp. cbn [process]. rewrite (next_readable_empty (server_dec p) _ None rd (server_dec_nil p)).
  destruct (next_prefix_then_err (server_dec p) (server_valid p) (server_H2 p) cs [] f i None k tl Hv Hne Hp) as (st' & Hn).
  rewrite Hn. reflexivity.
Qed.

(* ---- reading [served]: default transport (accepts everything): one reply frame per answered request ---- *)
Definition w_default (w : wio) : Prop := wbuf w = [] /\ wq w = [] /\ fq w = [].

Lemma send_default f w : w_default w -> f <> [] ->
  send (Val f) (mkW (wbuf w) (wq w) (fq w) []) None = (SOk, mkW [] [] [] f, None, false).
Proof.
  intros (Hb & Hq & Hf) Hne. rewrite Hb, Hq, Hf. unfold send. cbn [wbuf len length]. change (BACKPRESSURE <=? N.of_nat 0) with false.
  cbv iota. cbn [wbuf wq fq accepted app]. unfold poll_flush. cbn [wbuf accepted wq fq].
  destruct f as [|x f]; [congruence|]. cbn [flush_w app flush_f]. reflexivity.
Qed.

Lemma send_fail k w : w_default w -> send (Fail k) (mkW (wbuf w) (wq w) (fq w) []) None = (SErr k, mkW [] [] [] [], None, false).
Proof. intros (Hb & Hq & Hf). rewrite Hb, Hq, Hf. reflexivity. Qed.

(* the trace in the default-transport case, as a plain function of requests and service answers *)
Fixpoint trace_default (p : proto) (m : mode) (is : list (hdr * request)) (svc : list svc_reply) (fin : list tev) : list tev :=
  match is with
  | [] => fin
  | (h, req) :: is' =>
      TCall (snd h) req ::
      match reply_of req (match svc with [] => SDecline | x :: _ => x end) with
      | None => trace_default p m is' (tl svc) fin
      | Some rr =>
          match server_enc p m h rr with
          | Val f => TWrote f :: trace_default p m is' (tl svc) fin
          | Fail k => [TReport k]
          | Panic => [TPanic]
          end
      end
  end.

Lemma served_default p m fin : forall is svc w,
  w_default w ->
  (forall h req rr f, In (h, req) is -> server_enc p m h rr = Val f -> f <> []) ->
  served p m is svc w (fun _ _ => fin) = trace_default p m is svc fin.
Proof.
  induction is as [|[h req] is IH]; intros svc w Hw Hne; [reflexivity|].
  cbn [served trace_default]. f_equal.
  destruct (reply_of req _) as [rr|].
  - destruct (server_enc p m h rr) as [f|k|] eqn:He.
    + assert (Hf : f <> []) by (eapply Hne; [left; reflexivity|exact He]).
      rewrite (send_default f w Hw Hf). cbn [accepted]. destruct f as [|n0 f0]; [congruence|]. cbn [wrote app]. f_equal.
      apply IH; [repeat split; reflexivity|]. intros; eapply Hne; [right; eassumption|eassumption].
    + rewrite (send_fail k w Hw). reflexivity.
    + destruct Hw as (Hb & Hq & Hf). rewrite Hb, Hq, Hf. reflexivity.
  - apply IH; [exact Hw|]. intros; eapply Hne; [right; eassumption|eassumption].
Qed.
