(* TypedProofs.v -- the typed client methods (C20). *)
From Coq Require Import ZArith Lia ZifyBool ZifyNat ZifyN.
From TM Require Import Base Frame Pdu RtuCodec TcpCodec Framed Client BaseLemmas Spec PduDecode PduReencode
  FramedProofs FramedMore ClientProofs.
Ltac Zify.zify_post_hook ::= Z.div_mod_to_equations.

(* the ten typed methods issue exactly these requests *)
Definition is_typed_req (r : request) : bool :=
  match r with ReqReportServerId | ReqCustom _ _ => false | _ => true end.

(* a typed read that reports success returns exactly the requested number of items, taken in order
   from the reply *)
Theorem typed_read_exact_bits req r bs :
  typed_post req r = TRBits bs ->
  exists a q rb, (req = ReqReadCoils a q /\ r = RspReadCoils rb \/ req = ReqReadDiscreteInputs a q /\ r = RspReadDiscreteInputs rb)
                 /\ len bs = q /\ bs = firstn (N.to_nat q) rb.
Proof.
  intros H. destruct req, r; cbn [typed_post] in H; unfold echo in H; try discriminate;
    try (match type of H with context [if ?c then _ else _] => destruct c eqn:Hc end; try discriminate).
  - injection H as <-. exists a, q, bs0. split; [left; auto|]. split; [|reflexivity].
    unfold len in *. rewrite firstn_length. lia.
  - injection H as <-. exists a, q, bs0. split; [right; auto|]. split; [|reflexivity].
    unfold len in *. rewrite firstn_length. lia.
Qed.

Theorem typed_read_exact_words req r ws :
  typed_post req r = TRWords ws ->
  exists q, ((exists a, req = ReqReadInputRegisters a q /\ r = RspReadInputRegisters ws
                        \/ req = ReqReadHoldingRegisters a q /\ r = RspReadHoldingRegisters ws)
             \/ (exists ra wa wws, req = ReqReadWriteMultipleRegisters ra q wa wws /\ r = RspReadWriteMultipleRegisters ws))
            /\ len ws = q.
Proof.
  intros H. destruct req, r; cbn [typed_post] in H; unfold echo in H; try discriminate;
    try (match type of H with context [if ?c then _ else _] => destruct c eqn:Hc end; try discriminate);
    injection H as <-.
  - exists q. split; [left; exists a; left; auto|lia].
  - exists q. split; [left; exists a; right; auto|lia].
  - exists rq. split; [right; eauto|lia].
Qed.

(* a typed write reports success only for a reply of its own kind (which echoes the request) *)
Theorem typed_write_own_kind req r :
  typed_post req r = TRUnit ->
  match req, r with
  | ReqWriteSingleCoil a b, RspWriteSingleCoil a' b' => a = a' /\ b = b'
  | ReqWriteMultipleCoils a bs, RspWriteMultipleCoils a' q => a = a' /\ len bs = q
  | ReqWriteSingleRegister a w, RspWriteSingleRegister a' w' => a = a' /\ w = w'
  | ReqWriteMultipleRegisters a ws, RspWriteMultipleRegisters a' q => a = a' /\ len ws = q
  | ReqMaskWriteRegister a x y, RspMaskWriteRegister a' x' y' => a = a' /\ x = x' /\ y = y'
  | _, _ => False
  end.
Proof.
  intros H. destruct req, r; cbn [typed_post] in H; unfold echo in H; try discriminate;
    try (match type of H with context [if ?c then _ else _] => destruct c eqn:Hc end; try discriminate).
  - apply andb_prop in Hc. destruct Hc as [H1 H2]. apply N.eqb_eq in H1. apply Bool.eqb_prop in H2. auto.
  - apply andb_prop in Hc. destruct Hc as [H1 H2]. split; lia.
  - apply andb_prop in Hc. destruct Hc as [H1 H2]. split; lia.
  - apply andb_prop in Hc. destruct Hc as [H1 H2]. split; lia.
  - apply andb_prop in Hc. destruct Hc as [Hc H3]. apply andb_prop in Hc. destruct Hc as [H1 H2]. repeat split; lia.
Qed.

(* for every reply the decoder can produce and the call accepts (numerically the request's function
   code), post-processing returns a result: the unreachable!() arm is unreachable, no panic *)
Theorem typed_post_no_panic req r bs :
  is_typed_req req = true -> dec_rsp bs = Val r -> fc_value (rsp_fc r) = fc_value (req_fc req) ->
  typed_post req r <> TRErr CRPanic.
Proof.
  intros Ht Hd Hfc. destruct (dec_rsp_variant bs r Hd) as [Hcan _].
  destruct req; cbn [is_typed_req] in Ht; try discriminate;
    destruct r; cbn [rsp_fc req_fc fc_value] in Hfc; try discriminate;
      try (cbn [typed_post]; unfold echo; repeat match goal with |- context [if ?c then _ else _] => destruct c end; discriminate);
      (* custom responses carrying a modelled code cannot come out of the decoder *)
      try (subst fc; cbn in Hcan; discriminate).
Qed.

(* the typed method as a whole never panics when the call itself does not *)
Theorem typed_result_shape p m st req bg :
  fst (typed p m st req bg) =
  match fst (call p m st req bg) with
  | CROk r => typed_post req r
  | CRExc e => TRExc e
  | c => TRErr c
  end.
Proof. unfold typed. destruct (call p m st req bg) as [[] st']; reflexivity. Qed.
