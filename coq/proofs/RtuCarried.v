(* RtuCarried.v -- which frames the RTU length tables carry: the frame's PDU length is inferred
   from every prefix that is long enough, and nothing is inferred before. *)
From Coq Require Import ZArith Lia ZifyBool ZifyNat ZifyN.
From TM Require Import Base Frame Pdu Crc RtuCodec BaseLemmas Coils Spec PduEncode FramedProofs RtuProofs.
Ltac Zify.zify_post_hook ::= Z.div_mod_to_equations.

Lemma nth_error_app_l {A} (l x : list A) i : (i < length l)%nat -> nth_error (l ++ x) i = nth_error l i.
Proof. intros H. apply nth_error_app1. exact H. Qed.

(* q is a prefix of the frame or the frame followed by something: q agrees with the frame *)
Lemma agree (frame q : list N) i :
  (prefix q frame \/ exists x, q = frame ++ x) -> (i < length q)%nat -> (i < length frame)%nat ->
  nth_error q i = nth_error frame i.
Proof.
  intros [[y ->]|[x ->]] Hq Hf.
  - symmetry. apply nth_error_app_l. exact Hq.
  - apply nth_error_app_l. exact Hf.
Qed.
Lemma short_none {A} (q : list A) i : (length q <= i)%nat -> nth_error q i = None.
Proof. apply nth_error_None. Qed.

Section Rows.
  Variable tbl : list N -> outcome (option N).

  (* a table row that gives a fixed length for function code fc *)
  Lemma carried_fixed s fc rest n :
    (forall q, nth_error q 1 = Some fc -> tbl q = Val (Some n)) ->
    (forall q, nth_error q 1 = None -> tbl q = Val None) ->
    len (fc :: rest) = n -> carried tbl s (fc :: rest).
  Proof.
    intros Hrow Hnone Hlen q Hq.
    destruct (Nat.le_gt_cases (length q) 1) as [Hs|Hl].
    - left. split; [apply Hnone, short_none; exact Hs|]. rewrite len_cons in *. unfold len. lia.
    - right. rewrite Hlen. apply Hrow.
      rewrite (agree (rtu_frame s (fc :: rest)) q 1 Hq Hl); [reflexivity|]. cbn. lia.
  Qed.

  (* a table row that reads a byte count at index k of the frame and infers k + count *)
  Lemma carried_counted s fc rest k bc :
    (forall q, nth_error q 1 = Some fc -> tbl q = Val (option_map (fun c => N.of_nat k + c) (nth_error q k))) ->
    (forall q, nth_error q 1 = None -> tbl q = Val None) ->
    (2 <= k)%nat -> nth_error (s :: fc :: rest) k = Some bc -> len (fc :: rest) = N.of_nat k + bc ->
    carried tbl s (fc :: rest).
  Proof.
    intros Hrow Hnone Hk Hbc Hlen q Hq.
    assert (Hkf : (k < length (s :: fc :: rest))%nat) by (apply nth_error_Some; congruence).
    assert (Hkf' : (k < 2 + length rest)%nat) by (cbn [length] in Hkf; lia).
    destruct (Nat.le_gt_cases (length q) 1) as [Hs|Hl].
    - left. split; [apply Hnone, short_none; exact Hs|]. rewrite len_cons in *. unfold len. lia.
    - assert (H1 : nth_error q 1 = Some fc).
      { rewrite (agree (rtu_frame s (fc :: rest)) q 1 Hq Hl); [reflexivity|]. cbn. lia. }
      rewrite (Hrow q H1).
      destruct (Nat.le_gt_cases (length q) k) as [Hsk|Hlk].
      + left. rewrite (short_none q k Hsk). split; [reflexivity|]. rewrite len_cons. unfold len. lia.
      + right. rewrite (agree (rtu_frame s (fc :: rest)) q k Hq Hlk).
        * unfold rtu_frame. change (s :: (fc :: rest) ++ crc2 (s :: fc :: rest)) with ((s :: fc :: rest) ++ crc2 (s :: fc :: rest)).
          rewrite nth_error_app_l by exact Hkf. rewrite Hbc. cbn [option_map]. rewrite Hlen. reflexivity.
        * unfold rtu_frame. cbn [length]. rewrite app_length. cbn [length]. lia.
  Qed.
End Rows.

(* ---- request table ---- *)
Lemma req_row_none q : nth_error q 1 = None -> req_pdu_len q = Val None.
Proof. intros H. unfold req_pdu_len. rewrite H. reflexivity. Qed.
Lemma rsp_row_none q : nth_error q 1 = None -> rsp_pdu_len q = Val None.
Proof. intros H. unfold rsp_pdu_len. rewrite H. reflexivity. Qed.

Ltac row fc := let q := fresh "qq" in let H := fresh "Hqq" in intros q H; unfold req_pdu_len, rsp_pdu_len; rewrite H; reflexivity.

Lemma nth_word_bytes_skip w l k : nth_error (word_bytes w ++ l) (S (S k)) = nth_error l k.
Proof. reflexivity. Qed.

(* every typed request that fits 253 bytes, and the custom requests 0x07 / 0x0B / 0x0C (no data) and
   0x18 (two data bytes), are carried by the RTU request table *)
Definition rtu_req_supported (r : request) : bool :=
  match r with
  | ReqCustom fc d => (((fc =? 0x07) || (fc =? 0x0B) || (fc =? 0x0C)) && (len d =? 0)) || ((fc =? 0x18) && (len d =? 2))
  | _ => true
  end.

Theorem req_carried s r : req_size r <= 253 -> rtu_req_supported r = true -> carried req_pdu_len s (spec_req_pdu r).
Proof.
  intros Hsz Hsup. destruct r; cbn [req_size] in Hsz; cbn [rtu_req_supported] in Hsup; cbn [spec_req_pdu word_bytes app].
  - apply carried_fixed with (n := 5); [row 1|apply req_row_none|reflexivity].
  - apply carried_fixed with (n := 5); [row 2|apply req_row_none|reflexivity].
  - apply carried_fixed with (n := 5); [row 5|apply req_row_none|destruct b; reflexivity].
  - (* 0x0F *)
    apply carried_counted with (k := 6%nat) (bc := len (spec_pack bs)); [row 15|apply req_row_none|lia|reflexivity|].
    rewrite !len_cons. lia.
  - apply carried_fixed with (n := 5); [row 4|apply req_row_none|reflexivity].
  - apply carried_fixed with (n := 5); [row 3|apply req_row_none|reflexivity].
  - apply carried_fixed with (n := 5); [row 6|apply req_row_none|reflexivity].
  - (* 0x10 *)
    apply carried_counted with (k := 6%nat) (bc := 2 * len ws); [row 16|apply req_row_none|lia|reflexivity|].
    rewrite !len_cons, len_flat_word_bytes. lia.
  - apply carried_fixed with (n := 1); [row 17|apply req_row_none|reflexivity].
  - apply carried_fixed with (n := 7); [row 22|apply req_row_none|reflexivity].
  - (* 0x17 *)
    apply carried_counted with (k := 10%nat) (bc := 2 * len ws); [row 23|apply req_row_none|lia|reflexivity|].
    rewrite !len_cons, len_flat_word_bytes. lia.
  - (* custom *)
    apply orb_prop in Hsup. destruct Hsup as [H|H]; apply andb_prop in H; destruct H as [Hfc Hd].
    + apply carried_fixed with (n := 1); [|apply req_row_none|rewrite len_cons; lia].
      apply orb_prop in Hfc. destruct Hfc as [Hfc|Hfc]; [apply orb_prop in Hfc; destruct Hfc as [Hfc|Hfc]|];
        apply N.eqb_eq in Hfc; subst fc; row 0.
    + apply N.eqb_eq in Hfc. subst fc. apply carried_fixed with (n := 3); [row 24|apply req_row_none|rewrite len_cons; lia].
Qed.

(* ---- response table ---- *)
Definition rtu_rsp_supported (r : response) : bool :=
  match r with
  | RspCustom fc d =>
      ((fc =? 0x07) && (len d =? 1)) || ((fc =? 0x0B) && (len d =? 4))
      || ((fc =? 0x0C) && match d with bc :: rest => len rest =? bc | [] => false end)
      || ((fc =? 0x18) && match d with h :: l :: rest => len rest =? u16 h l | _ => false end)
  | _ => true
  end.

Theorem rsp_carried s r : rsp_size r <= 253 -> rtu_rsp_supported r = true -> carried rsp_pdu_len s (spec_rsp_pdu r).
Proof.
  intros Hsz Hsup. destruct r; cbn [rsp_size] in Hsz; cbn [rtu_rsp_supported] in Hsup; cbn [spec_rsp_pdu word_bytes app].
  - apply carried_counted with (k := 2%nat) (bc := len (spec_pack bs)); [row 1|apply rsp_row_none|lia|reflexivity|rewrite !len_cons; lia].
  - apply carried_counted with (k := 2%nat) (bc := len (spec_pack bs)); [row 2|apply rsp_row_none|lia|reflexivity|rewrite !len_cons; lia].
  - apply carried_fixed with (n := 5); [row 5|apply rsp_row_none|destruct b; reflexivity].
  - apply carried_fixed with (n := 5); [row 15|apply rsp_row_none|reflexivity].
  - apply carried_counted with (k := 2%nat) (bc := 2 * len ws); [row 4|apply rsp_row_none|lia|reflexivity|rewrite !len_cons, len_flat_word_bytes; lia].
  - apply carried_counted with (k := 2%nat) (bc := 2 * len ws); [row 3|apply rsp_row_none|lia|reflexivity|rewrite !len_cons, len_flat_word_bytes; lia].
  - apply carried_fixed with (n := 5); [row 6|apply rsp_row_none|reflexivity].
  - apply carried_fixed with (n := 5); [row 16|apply rsp_row_none|reflexivity].
  - apply carried_counted with (k := 2%nat) (bc := 2 + len d); [row 17|apply rsp_row_none|lia|reflexivity|rewrite !len_cons; lia].
  - apply carried_fixed with (n := 7); [row 22|apply rsp_row_none|reflexivity].
  - apply carried_counted with (k := 2%nat) (bc := 2 * len ws); [row 23|apply rsp_row_none|lia|reflexivity|rewrite !len_cons, len_flat_word_bytes; lia].
  - (* custom responses of the serial-line codes *)
    repeat match type of Hsup with _ || _ = true => apply orb_prop in Hsup; destruct Hsup as [Hsup|Hsup] end;
      apply andb_prop in Hsup; destruct Hsup as [Hfc Hd]; apply N.eqb_eq in Hfc; subst fc.
    + apply carried_fixed with (n := 2); [row 7|apply rsp_row_none|rewrite len_cons; lia].
    + apply carried_fixed with (n := 5); [row 11|apply rsp_row_none|rewrite len_cons; lia].
    + destruct d as [|bc rest]; [discriminate|].
      apply carried_counted with (k := 2%nat) (bc := bc); [row 12|apply rsp_row_none|lia|reflexivity|rewrite !len_cons; lia].
    + (* 0x18: 3 + big-endian count at frame offsets 2..3 *)
      destruct d as [|h [|l rest]]; try discriminate.
      intros q Hq.
      destruct (Nat.le_gt_cases (length q) 1) as [Hs|Hl1].
      * left. split; [apply rsp_row_none, short_none; exact Hs|]. rewrite !len_cons. unfold len. lia.
      * assert (H1 : nth_error q 1 = Some 24).
        { rewrite (agree (rtu_frame s (24 :: h :: l :: rest)) q 1 Hq Hl1); [reflexivity|]. cbn. lia. }
        unfold rsp_pdu_len. rewrite H1. change (((1 <=? 24) && (24 <=? 4)) || (24 =? 12) || (24 =? 17) || (24 =? 23)) with false.
        cbv iota. change ((24 =? 5) || (24 =? 6) || (24 =? 11) || (24 =? 15) || (24 =? 16)) with false. cbv iota.
        change (24 =? 7) with false. change (24 =? 22) with false. change (24 =? 24) with true. cbv iota.
        destruct (Nat.le_gt_cases (length q) 3) as [Hs3|Hl3].
        -- left. split; [|rewrite !len_cons; unfold len; lia].
           destruct q as [|q0 [|q1 [|q2 [|q3 q4]]]]; try reflexivity. cbn [length] in Hs3. lia.
        -- right.
           assert (H2 : nth_error q 2 = Some h).
           { rewrite (agree (rtu_frame s (24 :: h :: l :: rest)) q 2 Hq); [reflexivity|lia|cbn; lia]. }
           assert (H3 : nth_error q 3 = Some l).
           { rewrite (agree (rtu_frame s (24 :: h :: l :: rest)) q 3 Hq); [reflexivity|lia|cbn; lia]. }
           destruct q as [|q0 [|q1 [|q2 [|q3 q4]]]]; cbn [length] in Hl3; try lia.
           cbn in H2, H3. injection H2 as ->. injection H3 as ->.
           change (of_be16 h l) with (u16 h l). rewrite !len_cons. f_equal. f_equal. lia.
Qed.

(* exception responses of function codes 0x01..0x2B are carried (table rows 0x81..=0xAB) *)
Theorem exc_carried s fc code : 1 <= fc -> fc <= 0x2B -> carried rsp_pdu_len s (spec_exc_pdu fc code).
Proof.
  intros H1 H2. unfold spec_exc_pdu. apply carried_fixed with (n := 2); [|apply rsp_row_none|reflexivity].
  intros q H. unfold rsp_pdu_len. rewrite H.
  repeat match goal with |- context [if ?c then _ else _] =>
    first [replace c with false by lia | replace c with true by lia; reflexivity] end.
Qed.
