(* Bounds.v -- bounded buffering of the RTU decoders (property C03, "never buffers more than one maximal
   frame"): the resynchronising decoder returns "need more input" (DNone, which is what makes the framing
   layer read again and grow its buffer) only while the buffer is shorter than the longest frame its length
   table can announce plus the at most 19 bytes one call can drop.  Beyond that bound every call makes
   progress: it hands up a frame or reports an error. *)
From Coq Require Import Lia ZifyBool ZifyNat ZifyN.
From TM Require Import Base Frame Pdu Crc RtuCodec BaseLemmas RtuProofs.

Lemma nth_error_byte l i x : bytes_ok l = true -> nth_error l i = Some x -> x < 256.
Proof.
  revert i. induction l as [|a l IH]; intros i Hok Hn; [destruct i; discriminate|].
  apply bytes_ok_cons in Hok. destruct Hok as [Ha Hl].
  destruct i; cbn in Hn; [injection Hn as <-; exact Ha|eapply IH; eauto].
Qed.

Lemma nth_error_none_len {A} (l : list A) i : nth_error l i = None -> len l <= N.of_nat i.
Proof. intros H. apply nth_error_None in H. unfold len. lia. Qed.

Section Bound.
  Variable tbl : list N -> outcome (option N).
  Variable B : N.     (* longest announced frame: pdu length + 3 *)
  (* the table asks for more input only on short buffers, and never announces more than B - 3 PDU bytes *)
  Hypothesis tbl_none : forall buf, bytes_ok buf = true -> tbl buf = Val None -> len buf < B.
  Hypothesis tbl_some : forall buf n, bytes_ok buf = true -> tbl buf = Val (Some n) -> n + 3 <= B.

  Lemma decode_loop_bounded : forall fuel buf dr b' dr' r, bytes_ok buf = true ->
      B + N.of_nat fuel <= len buf + 1 ->
      decode_loop tbl fuel buf dr = (b', dr', r) -> r <> DNone.
  Proof.
    induction fuel as [|f IH]; intros buf dr b' dr' r Hok Hlen H; cbn [decode_loop] in H.
    - injection H as <- <- <-. discriminate.
    - assert (Hrec : forall x buf', buf = x :: buf' -> decode_loop tbl f buf' (dr ++ [x]) = (b', dr', r) -> r <> DNone).
      { intros x buf' -> Hd. apply bytes_ok_cons in Hok. destruct Hok as [_ Hok'].
        eapply IH; [exact Hok'| |exact Hd]. rewrite len_cons in Hlen. lia. }
      destruct (tbl buf) as [[n|]| |] eqn:Ht.
      + pose proof (tbl_some _ _ Hok Ht) as Hn.
        unfold frame_decode in H.
        destruct (N.ltb_spec (len buf) (n + 3)) as [Hs|Hs]; [lia|].
        destruct (skipn (S (N.to_nat n)) buf) as [|c1 [|c2 rest]] eqn:Hsk.
        * exfalso. apply (f_equal (@length N)) in Hsk. rewrite skipn_length in Hsk. unfold len in Hs. cbn in Hsk. lia.
        * exfalso. apply (f_equal (@length N)) in Hsk. rewrite skipn_length in Hsk. unfold len in Hs. cbn in Hsk. lia.
        * destruct (check_crc _ c1 c2).
          -- injection H as <- <- <-. discriminate.
          -- destruct buf as [|x buf']; [injection H as <- <- <-; discriminate|]. eapply Hrec; eauto.
      + pose proof (tbl_none _ Hok Ht). lia.
      + destruct buf as [|x buf']; [injection H as <- <- <-; discriminate|]. eapply Hrec; eauto.
      + injection H as <- <- <-. discriminate.
  Qed.

  Lemma rtu_frame_dec_bounded buf b r : bytes_ok buf = true -> B + 19 <= len buf ->
      rtu_frame_dec tbl buf = (b, r) -> r <> DNone.
  Proof.
    intros Hok Hlen. unfold rtu_frame_dec.
    assert (Hf : B + N.of_nat MAX_RETRIES <= len buf + 1) by (unfold MAX_RETRIES; lia).
    revert Hf. generalize MAX_RETRIES as fuel. intros fuel Hf H.
    destruct (decode_loop tbl fuel buf []) as [[b0 d0] r0] eqn:Hd. injection H as <- <-.
    eapply decode_loop_bounded; eauto.
  Qed.
End Bound.

Lemma val_some_inj {A} (a n : A) : @Val (option A) (Some a) = Val (Some n) -> n = a.
Proof. congruence. Qed.

(* requests: the longest announced PDU is 10 + 255 bytes (function 0x17) *)
Lemma req_tbl_none buf : bytes_ok buf = true -> req_pdu_len buf = Val None -> len buf < 268.
Proof.
  intros Hok. unfold req_pdu_len.
  destruct (nth_error buf 1) as [fc|] eqn:H1; [|intros _; apply nth_error_none_len in H1; lia].
  destruct ((1 <=? fc) && (fc <=? 6)); [discriminate|].
  destruct ((fc =? 7) || (fc =? 11) || (fc =? 12) || (fc =? 17)); [discriminate|].
  destruct ((fc =? 15) || (fc =? 16)).
  { destruct (nth_error buf 6) eqn:H6; [discriminate|]. intros _. apply nth_error_none_len in H6. lia. }
  destruct (fc =? 22); [discriminate|]. destruct (fc =? 24); [discriminate|].
  destruct (fc =? 23); [|discriminate].
  destruct (nth_error buf 10) eqn:H10; [discriminate|]. intros _. apply nth_error_none_len in H10. lia.
Qed.

Lemma req_tbl_some buf n : bytes_ok buf = true -> req_pdu_len buf = Val (Some n) -> n + 3 <= 268.
Proof.
  intros Hok. unfold req_pdu_len.
  destruct (nth_error buf 1) as [fc|] eqn:H1; [|discriminate].
  destruct ((1 <=? fc) && (fc <=? 6)); [intros H; apply val_some_inj in H; subst n; lia|].
  destruct ((fc =? 7) || (fc =? 11) || (fc =? 12) || (fc =? 17)); [intros H; apply val_some_inj in H; subst n; lia|].
  destruct ((fc =? 15) || (fc =? 16)).
  { destruct (nth_error buf 6) as [bc|] eqn:H6; [|discriminate]. unfold option_map. intros H; apply val_some_inj in H; subst n.
    pose proof (nth_error_byte _ _ _ Hok H6). lia. }
  destruct (fc =? 22); [intros H; apply val_some_inj in H; subst n; lia|]. destruct (fc =? 24); [intros H; apply val_some_inj in H; subst n; lia|].
  destruct (fc =? 23); [|discriminate].
  destruct (nth_error buf 10) as [bc|] eqn:H10; [|discriminate]. unfold option_map. intros H; apply val_some_inj in H; subst n.
  pose proof (nth_error_byte _ _ _ Hok H10). lia.
Qed.

(* responses: the longest announced PDU is 3 + 65535 bytes (function 0x18, 16-bit byte count) *)
Lemma rsp_tbl_none buf : bytes_ok buf = true -> rsp_pdu_len buf = Val None -> len buf < 65541.
Proof.
  intros Hok. unfold rsp_pdu_len.
  destruct (nth_error buf 1) as [fc|] eqn:H1; [|intros _; apply nth_error_none_len in H1; lia].
  destruct (((1 <=? fc) && (fc <=? 4)) || (fc =? 12) || (fc =? 17) || (fc =? 23)).
  { destruct (nth_error buf 2) eqn:H2; [discriminate|]. intros _. apply nth_error_none_len in H2. lia. }
  destruct ((fc =? 5) || (fc =? 6) || (fc =? 11) || (fc =? 15) || (fc =? 16)); [discriminate|].
  destruct (fc =? 7); [discriminate|]. destruct (fc =? 22); [discriminate|].
  destruct (fc =? 24).
  { destruct buf as [|a [|b [|h [|l rest]]]]; try discriminate; intros _; rewrite ?len_cons; cbn; lia. }
  destruct ((129 <=? fc) && (fc <=? 171)); discriminate.
Qed.

Lemma rsp_tbl_some buf n : bytes_ok buf = true -> rsp_pdu_len buf = Val (Some n) -> n + 3 <= 65541.
Proof.
  intros Hok. unfold rsp_pdu_len.
  destruct (nth_error buf 1) as [fc|] eqn:H1; [|discriminate].
  destruct (((1 <=? fc) && (fc <=? 4)) || (fc =? 12) || (fc =? 17) || (fc =? 23)).
  { destruct (nth_error buf 2) as [bc|] eqn:H2; [|discriminate]. unfold option_map. intros H; apply val_some_inj in H; subst n.
    pose proof (nth_error_byte _ _ _ Hok H2). lia. }
  destruct ((fc =? 5) || (fc =? 6) || (fc =? 11) || (fc =? 15) || (fc =? 16)); [intros H; apply val_some_inj in H; subst n; lia|].
  destruct (fc =? 7); [intros H; apply val_some_inj in H; subst n; lia|]. destruct (fc =? 22); [intros H; apply val_some_inj in H; subst n; lia|].
  destruct (fc =? 24).
  { destruct buf as [|a [|b [|h [|l rest]]]]; try discriminate. intros H; apply val_some_inj in H; subst n.
    assert (h < 256) by (apply (nth_error_byte _ 2 _ Hok); reflexivity).
    assert (l < 256) by (apply (nth_error_byte _ 3 _ Hok); reflexivity).
    unfold of_be16. lia. }
  destruct ((129 <=? fc) && (fc <=? 171)); [intros H; apply val_some_inj in H; subst n; lia|discriminate].
Qed.

Theorem rtu_request_buffer_bound buf b r : bytes_ok buf = true -> 287 <= len buf ->
  rtu_frame_dec req_pdu_len buf = (b, r) -> r <> DNone.
Proof. intros Hok Hl. apply (rtu_frame_dec_bounded req_pdu_len 268 req_tbl_none req_tbl_some buf b r Hok). lia. Qed.

Theorem rtu_response_buffer_bound buf b r : bytes_ok buf = true -> 65560 <= len buf ->
  rtu_frame_dec rsp_pdu_len buf = (b, r) -> r <> DNone.
Proof. intros Hok Hl. apply (rtu_frame_dec_bounded rsp_pdu_len 65541 rsp_tbl_none rsp_tbl_some buf b r Hok). lia. Qed.

(* the same for the codecs the framing layer actually drives *)
Theorem rtu_server_dec_buffer_bound buf b r : bytes_ok buf = true -> 287 <= len buf ->
  rtu_server_dec buf = (b, r) -> r <> DNone.
Proof.
  intros Hok Hl. unfold rtu_server_dec. destruct (rtu_frame_dec req_pdu_len buf) as [b0 r0] eqn:Hd.
  pose proof (rtu_request_buffer_bound _ _ _ Hok Hl Hd) as Hn.
  destruct r0 as [|[s pdu]|k|]; [congruence| | |]; try (intros H; injection H as <- <-; discriminate).
  destruct (dec_req pdu); intros H; injection H as <- <-; discriminate.
Qed.

Theorem rtu_client_dec_buffer_bound buf b r : bytes_ok buf = true -> 65560 <= len buf ->
  rtu_client_dec buf = (b, r) -> r <> DNone.
Proof.
  intros Hok Hl. unfold rtu_client_dec. destruct (rtu_frame_dec rsp_pdu_len buf) as [b0 r0] eqn:Hd.
  pose proof (rtu_response_buffer_bound _ _ _ Hok Hl Hd) as Hn.
  destruct r0 as [|[s pdu]|k|]; [congruence| | |]; try (intros H; injection H as <- <-; discriminate).
  destruct (dec_rsp_pdu pdu); intros H; injection H as <- <-; discriminate.
Qed.

(* ---- the record of skipped bytes never holds more than 256 entries, whatever is skipped ---- *)
Lemma record_skip_bounded rec b : len rec <= MAX_FRAME_LEN -> len (record_skip rec b) <= MAX_FRAME_LEN.
Proof.
  unfold record_skip, MAX_FRAME_LEN. intros H. destruct (N.leb_spec 256 (len rec)); rewrite len_app; cbn; lia.
Qed.

Lemma record_fold_bounded : forall dropped rec, len rec <= MAX_FRAME_LEN ->
  len (fold_left record_skip dropped rec) <= MAX_FRAME_LEN.
Proof.
  induction dropped as [|b d IH]; intros rec H; [exact H|]. cbn [fold_left]. apply IH. apply record_skip_bounded. exact H.
Qed.

Theorem record_after_bounded {I} rec dropped (r : dres I) : len rec <= MAX_FRAME_LEN ->
  len (record_after rec dropped r) <= MAX_FRAME_LEN.
Proof.
  intros H. unfold record_after. destruct r; try (apply record_fold_bounded; exact H). unfold MAX_FRAME_LEN. cbn. lia.
Qed.

(* over any sequence of decoder calls (each with whatever it dropped and however it ended), starting empty *)
Theorem record_always_bounded {I} : forall (calls : list (list N * dres I)) rec, len rec <= MAX_FRAME_LEN ->
  len (fold_left (fun rc c => record_after rc (fst c) (snd c)) calls rec) <= MAX_FRAME_LEN.
Proof.
  induction calls as [|c cs IH]; intros rec H; [exact H|]. cbn [fold_left]. apply IH. apply record_after_bounded. exact H.
Qed.
