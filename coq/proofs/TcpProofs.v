(* TcpProofs.v -- MBAP framing: H1/H2 of the fragmentation theorem for the TCP decoders,
   header errors, emitted header fields. *)
From Coq Require Import ZArith Lia ZifyBool ZifyNat ZifyN.
From TM Require Import Base Frame Pdu RtuCodec TcpCodec Framed BaseLemmas Coils FramedProofs.
Ltac Zify.zify_post_hook ::= Z.div_mod_to_equations.

Definition tcp_frame (tid uid : N) (pdu : list N) : list N := mbap (tid, uid) (len pdu + 1) ++ pdu.

Definition hdr_ok (tid uid : N) (pdu : list N) : Prop :=
  tid < 65536 /\ uid < 256 /\ 1 <= len pdu /\ len pdu <= 65534.

Lemma tcp_frame_shape tid uid pdu :
  tcp_frame tid uid pdu = hi8 tid :: lo8 tid :: 0 :: 0 :: hi8 (len pdu + 1) :: lo8 (len pdu + 1) :: uid :: pdu.
Proof. reflexivity. Qed.

Lemma firstn_len_app {A} (a b : list A) : firstn (N.to_nat (len a)) (a ++ b) = a.
Proof. rewrite len_length. rewrite firstn_app, Nat.sub_diag, firstn_all. cbn. apply app_nil_r. Qed.
Lemma skipn_len_app {A} (a b : list A) : skipn (N.to_nat (len a)) (a ++ b) = b.
Proof. rewrite len_length. rewrite skipn_app, Nat.sub_diag, skipn_all. reflexivity. Qed.

(* H1 for the MBAP layer *)
Lemma adu_decode_frame tid uid pdu x : hdr_ok tid uid pdu ->
  adu_decode (tcp_frame tid uid pdu ++ x) = (x, DSome ((tid, uid), pdu)).
Proof.
  intros (Ht & Hu & Hl1 & Hl2). rewrite tcp_frame_shape. cbn [app]. unfold adu_decode.
  rewrite (of_be16_hi_lo (len pdu + 1)) by lia.
  destruct (N.eqb_spec (len pdu + 1) 0); [lia|].
  replace (len pdu + 1 - 1) with (len pdu) by lia.
  set (buf := hi8 tid :: _).
  assert (Hb : len buf = 7 + len pdu + len x) by (subst buf; rewrite !len_cons, len_app; lia).
  unfold HEADER_LEN. destruct (N.ltb_spec (len buf) (7 + len pdu)); [lia|].
  change (of_be16 0 0 =? 0) with true. cbn [negb].
  rewrite skipn_len_app, firstn_len_app. rewrite of_be16_hi_lo by lia. reflexivity.
Qed.

(* H2 for the MBAP layer *)
Lemma adu_decode_prefix tid uid pdu p : hdr_ok tid uid pdu ->
  proper_prefix p (tcp_frame tid uid pdu) -> adu_decode p = (p, DNone).
Proof.
  intros (Ht & Hu & Hl1 & Hl2) [y [Hy Hf]]. rewrite tcp_frame_shape in Hf.
  assert (Hlen : len p < 7 + len pdu).
  { apply (f_equal (@len N)) in Hf. rewrite !len_cons, len_app in Hf. destruct y; [congruence|]. rewrite len_cons in Hf. lia. }
  destruct p as [|p1 [|p2 [|p3 [|p4 [|p5 [|p6 [|p7 rest]]]]]]]; try reflexivity.
  cbn [app] in Hf. injection Hf as <- <- <- <- <- <- <- Hrest.
  unfold adu_decode. rewrite (of_be16_hi_lo (len pdu + 1)) by lia.
  destruct (N.eqb_spec (len pdu + 1) 0); [lia|].
  replace (len pdu + 1 - 1) with (len pdu) by lia. unfold HEADER_LEN.
  match goal with |- context [len ?b <? _] => destruct (N.ltb_spec (len b) (7 + len pdu)) as [|Hge] end; [reflexivity|lia].
Qed.

(* ---- server and client decoders ---- *)
Definition valid_req_frame (f : list N) (i : hdr * request) : Prop :=
  exists tid uid pdu, hdr_ok tid uid pdu /\ f = tcp_frame tid uid pdu /\ dec_req pdu = Val (snd i) /\ fst i = (tid, uid).
Definition valid_rsp_frame (f : list N) (i : hdr * rsp_result) : Prop :=
  exists tid uid pdu, hdr_ok tid uid pdu /\ f = tcp_frame tid uid pdu /\ dec_rsp_pdu pdu = Val (snd i) /\ fst i = (tid, uid).

Lemma tcp_server_H1 f i x : valid_req_frame f i -> tcp_server_dec (f ++ x) = (x, DSome i).
Proof.
  intros (tid & uid & pdu & Hh & -> & Hd & Hi). unfold tcp_server_dec. rewrite adu_decode_frame by exact Hh.
  rewrite Hd. destruct i as [h r]. cbn in *. subst h. reflexivity.
Qed.
Lemma tcp_server_H2 f i p : valid_req_frame f i -> proper_prefix p f -> tcp_server_dec p = (p, DNone).
Proof.
  intros (tid & uid & pdu & Hh & -> & Hd & Hi) Hp. unfold tcp_server_dec. rewrite (adu_decode_prefix tid uid pdu p Hh Hp). reflexivity.
Qed.
Lemma tcp_client_H1 f i x : valid_rsp_frame f i -> tcp_client_dec (f ++ x) = (x, DSome i).
Proof.
  intros (tid & uid & pdu & Hh & -> & Hd & Hi). unfold tcp_client_dec. rewrite adu_decode_frame by exact Hh.
  rewrite Hd. destruct i as [h r]. cbn in *. subst h. reflexivity.
Qed.
Lemma tcp_client_H2 f i p : valid_rsp_frame f i -> proper_prefix p f -> tcp_client_dec p = (p, DNone).
Proof.
  intros (tid & uid & pdu & Hh & -> & Hd & Hi) Hp. unfold tcp_client_dec. rewrite (adu_decode_prefix tid uid pdu p Hh Hp). reflexivity.
Qed.

(* ---- invalid headers are errors, never items ---- *)
Lemma adu_decode_len0 t1 t2 p1 p2 uid rest :
  adu_decode (t1 :: t2 :: p1 :: p2 :: 0 :: 0 :: uid :: rest) = (t1 :: t2 :: p1 :: p2 :: 0 :: 0 :: uid :: rest, DErr KInvalidData).
Proof. reflexivity. Qed.

Lemma adu_decode_bad_protocol t1 t2 p1 p2 l1 l2 uid rest :
  of_be16 p1 p2 <> 0 ->
  forall b r, adu_decode (t1 :: t2 :: p1 :: p2 :: l1 :: l2 :: uid :: rest) = (b, r) -> forall i, r <> DSome i.
Proof.
  intros Hp b r H i ->. unfold adu_decode in H.
  destruct (of_be16 l1 l2 =? 0); [discriminate|].
  destruct (_ <? _); [discriminate|].
  destruct (N.eqb_spec (of_be16 p1 p2) 0); [contradiction|]. cbn [negb] in H. discriminate.
Qed.

Lemma adu_decode_bad_protocol_complete t1 t2 p1 p2 l1 l2 uid rest :
  of_be16 p1 p2 <> 0 -> of_be16 l1 l2 <> 0 -> 7 + (of_be16 l1 l2 - 1) <= 7 + len rest ->
  adu_decode (t1 :: t2 :: p1 :: p2 :: l1 :: l2 :: uid :: rest) = (rest, DErr KInvalidData).
Proof.
  intros Hp Hl Hc. unfold adu_decode.
  destruct (N.eqb_spec (of_be16 l1 l2) 0); [contradiction|].
  unfold HEADER_LEN. rewrite !len_cons.
  match goal with |- context [?a <? ?b] => destruct (N.ltb_spec a b) end; [lia|].
  destruct (N.eqb_spec (of_be16 p1 p2) 0); [contradiction|]. reflexivity.
Qed.

(* ---- emitted frames ---- *)
Lemma tcp_client_enc_shape m h r bs : fst h < 65536 -> tcp_client_enc m h r = Val bs ->
  exists pdu, enc_req m r = Val pdu /\ len pdu <= 253 /\ bs = tcp_frame (fst h) (snd h) pdu.
Proof.
  intros Ht H. unfold tcp_client_enc, req_size_chk, MAX_PDU_SIZE in H.
  destruct (N.ltb_spec 253 (req_size r)) as [|Hs]; [discriminate|]. cbn [bind] in H.
  unfold u16_len in H. destruct (N.ltb_spec 65535 (req_size r + 1)); [lia|]. cbn [bind] in H.
  destruct (enc_req m r) as [pdu| |] eqn:He; try discriminate. cbn [bind] in H. injection H as <-.
  exists pdu. split; [reflexivity|].
  (* the encoded length is the computed size for every request, whatever its fields *)
  assert (Hl : len pdu = req_size r).
  { destruct r; cbn [enc_req] in He;
      repeat match type of He with
             | context [u16_len ?m ?n] => unfold u16_len in He; destruct (65535 <? n); [destruct (dbg m); [discriminate|]|]; cbn [bind] in He
             | context [u8_len ?m ?n] => unfold u8_len in He; destruct (255 <? n); [destruct (dbg m); [discriminate|]|]; cbn [bind] in He
             end; injection He as <-; cbn [req_size]; unfold be16; cbn [app]; rewrite ?len_cons, ?len_app, ?len_nil, ?len_be16s, ?len_pack; lia. }
  split; [lia|]. unfold tcp_frame. rewrite Hl. destruct h. reflexivity.
Qed.
