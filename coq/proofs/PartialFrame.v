(* PartialFrame.v -- "never success built from a partial frame" (C13) and "the stream ends inside a frame" (C14) for
   ARBITRARY buffer contents, not only for proper prefixes of well-formed frames:
   a receive buffer is PARTIAL when the decoder has accepted its beginning as the start of a frame (the length table /
   the MBAP length field announce n bytes) and fewer bytes than announced have arrived.  Whatever the bytes are --
   in particular when the payload received so far CONTAINS a complete, CRC-correct frame of its own -- the decoder
   delivers nothing, and an end of stream or a read error at that point ends the call with a transport error
   (the client) resp. the connection with one report (the server). *)
From Coq Require Import Lia.
From TM Require Import Base Frame Pdu Crc RtuCodec TcpCodec Framed Client Server BaseLemmas FramedProofs FramedMore
  ClientProofs Histories ServerProofs.

Definition pfx (q d : list N) := exists y, d = q ++ y.

(* ---- RTU: the length table has accepted the header (or still waits for it) and the frame is incomplete ---- *)
Section Rtu.
  Variable pdu_len : list N -> outcome (option N).

  Definition rtu_partial (d : list N) : Prop :=
    pdu_len d = Val None \/ exists n, pdu_len d = Val (Some n) /\ len d < n + 3.

  Lemma rtu_partial_undecided d : rtu_partial d -> rtu_frame_dec pdu_len d = (d, DNone).
  Proof.
    unfold rtu_frame_dec. assert (Hpos : (0 < MAX_RETRIES)%nat) by (unfold MAX_RETRIES; lia). revert Hpos.
    generalize MAX_RETRIES as fuel. intros fuel Hpos [H|(n & H & Hl)].
    - destruct fuel as [|fuel]; [lia|]. cbn [decode_loop]. rewrite H. reflexivity.
    - destruct fuel as [|fuel]; [lia|]. cbn [decode_loop]. rewrite H. unfold frame_decode.
      destruct (N.ltb_spec (len d) (n + 3)) as [_|Hge]; [reflexivity|lia].
  Qed.
End Rtu.

Ltac split_ifs :=
  repeat match goal with
         | H : context [if ?c then _ else _] |- _ => destruct c eqn:?
         | |- context [if ?c then _ else _] => destruct c eqn:?
         end.

(* the length tables look at the first four bytes only: a shorter buffer is told to wait or gets the same answer *)
Lemma rsp_pdu_len_mono q y n : rsp_pdu_len (q ++ y) = Val (Some n) -> rsp_pdu_len q = Val None \/ rsp_pdu_len q = Val (Some n).
Proof.
  destruct q as [|a [|fc [|b2 [|b3 q']]]]; cbn [app]; unfold rsp_pdu_len; cbn [nth_error]; intros H.
  - left. reflexivity.
  - left. reflexivity.
  - split_ifs; cbn [option_map]; auto; try discriminate.
  - destruct y as [|y0 y]; split_ifs; cbn [option_map] in *; auto; try discriminate.
  - split_ifs; cbn [option_map] in *; auto; try discriminate.
Qed.
Lemma rsp_pdu_len_mono_none q y : rsp_pdu_len (q ++ y) = Val None -> rsp_pdu_len q = Val None.
Proof.
  destruct q as [|a [|fc [|b2 [|b3 q']]]]; cbn [app]; unfold rsp_pdu_len; cbn [nth_error]; intros H.
  - reflexivity.
  - reflexivity.
  - split_ifs; cbn [option_map]; auto; try discriminate.
  - destruct y as [|y0 y]; split_ifs; cbn [option_map] in *; auto; try discriminate.
  - split_ifs; cbn [option_map] in *; auto; try discriminate.
Qed.

Lemma nth_error_pfx {A} (q y : list A) k x : nth_error q k = Some x -> nth_error (q ++ y) k = Some x.
Proof. intros H. rewrite nth_error_app1; [exact H|]. apply nth_error_Some. congruence. Qed.

Lemma req_pdu_len_mono q y n : req_pdu_len (q ++ y) = Val (Some n) -> req_pdu_len q = Val None \/ req_pdu_len q = Val (Some n).
Proof.
  unfold req_pdu_len. destruct (nth_error q 1) as [fc|] eqn:E1; [|auto].
  rewrite (nth_error_pfx q y 1 fc E1).
  destruct (nth_error q 6) as [b6|] eqn:E6; [rewrite (nth_error_pfx q y 6 b6 E6)|];
  (destruct (nth_error q 10) as [b10|] eqn:E10; [rewrite (nth_error_pfx q y 10 b10 E10)|]);
  intros H; split_ifs; cbn [option_map] in *; auto; try discriminate.
Qed.
Lemma req_pdu_len_mono_none q y : req_pdu_len (q ++ y) = Val None -> req_pdu_len q = Val None.
Proof.
  unfold req_pdu_len. destruct (nth_error q 1) as [fc|] eqn:E1; [|auto].
  rewrite (nth_error_pfx q y 1 fc E1).
  destruct (nth_error q 6) as [b6|] eqn:E6; [rewrite (nth_error_pfx q y 6 b6 E6)|];
  (destruct (nth_error q 10) as [b10|] eqn:E10; [rewrite (nth_error_pfx q y 10 b10 E10)|]);
  intros H; split_ifs; cbn [option_map] in *; auto; try discriminate.
Qed.

Lemma rtu_partial_prefix pdu_len q y :
  (forall q y n, pdu_len (q ++ y) = Val (Some n) -> pdu_len q = Val None \/ pdu_len q = Val (Some n)) ->
  (forall q y, pdu_len (q ++ y) = Val None -> pdu_len q = Val None) ->
  rtu_partial pdu_len (q ++ y) -> rtu_partial pdu_len q.
Proof.
  intros M1 M2 [H|(n & H & Hl)].
  - left. eapply M2; eauto.
  - destruct (M1 _ _ _ H) as [H'|H']; [left; exact H'|]. right. exists n. split; [exact H'|]. rewrite len_app in Hl. lia.
Qed.

(* ---- Modbus TCP: fewer than 7 bytes, or an accepted length field announcing more than has arrived ---- *)
Definition tcp_partial (d : list N) : Prop :=
  len d < 7 \/ exists t1 t2 p1 p2 l1 l2 uid rest,
      d = t1 :: t2 :: p1 :: p2 :: l1 :: l2 :: uid :: rest /\ of_be16 l1 l2 <> 0 /\ len d < 7 + (of_be16 l1 l2 - 1).

Lemma short_or_header (q : list N) : len q < 7 \/ exists a1 a2 a3 a4 a5 a6 a7 q', q = a1 :: a2 :: a3 :: a4 :: a5 :: a6 :: a7 :: q'.
Proof.
  destruct q as [|a1 [|a2 [|a3 [|a4 [|a5 [|a6 [|a7 q']]]]]]]; try (left; unfold len; cbn [length]; lia).
  right. do 8 eexists. reflexivity.
Qed.

Lemma tcp_partial_undecided d : tcp_partial d -> adu_decode d = (d, DNone).
Proof.
  intros [H|(t1 & t2 & p1 & p2 & l1 & l2 & uid & rest & -> & Hz & Hl)].
  - destruct (short_or_header d) as [_|(a1 & a2 & a3 & a4 & a5 & a6 & a7 & q' & ->)].
    + destruct d as [|a1 [|a2 [|a3 [|a4 [|a5 [|a6 [|a7 q']]]]]]]; try reflexivity.
      exfalso. unfold len in H. cbn [length] in H. lia.
    + exfalso. unfold len in H. cbn [length] in H. lia.
  - unfold adu_decode. destruct (N.eqb_spec (of_be16 l1 l2) 0) as [E|_]; [congruence|].
    unfold HEADER_LEN. destruct (N.ltb_spec (len (t1 :: t2 :: p1 :: p2 :: l1 :: l2 :: uid :: rest)) (7 + (of_be16 l1 l2 - 1))) as [_|Hge]; [reflexivity|lia].
Qed.

Lemma tcp_partial_prefix q y : tcp_partial (q ++ y) -> tcp_partial q.
Proof.
  intros H. destruct (short_or_header q) as [Hs|(a1 & a2 & a3 & a4 & a5 & a6 & a7 & q' & ->)]; [left; exact Hs|].
  destruct H as [H|(t1 & t2 & p1 & p2 & l1 & l2 & uid & rest & Hd & Hz & Hl)].
  - exfalso. rewrite len_app in H. unfold len in H. cbn [length] in H. lia.
  - right. cbn [app] in Hd. injection Hd as -> -> -> -> -> -> -> Hr.
    do 8 eexists. split; [reflexivity|]. split; [exact Hz|].
    rewrite len_app in Hl. lia.
Qed.

(* ---- both protocols, client and server side ---- *)
Definition partial_cli (p : proto) (d : list N) : Prop := match p with TCP => tcp_partial d | RTU => rtu_partial rsp_pdu_len d end.
Definition partial_srv (p : proto) (d : list N) : Prop := match p with TCP => tcp_partial d | RTU => rtu_partial req_pdu_len d end.

Lemma partial_cli_prefix p q y : partial_cli p (q ++ y) -> partial_cli p q.
Proof. destruct p; [apply tcp_partial_prefix|apply rtu_partial_prefix; [apply rsp_pdu_len_mono|apply rsp_pdu_len_mono_none]]. Qed.
Lemma partial_srv_prefix p q y : partial_srv p (q ++ y) -> partial_srv p q.
Proof. destruct p; [apply tcp_partial_prefix|apply rtu_partial_prefix; [apply req_pdu_len_mono|apply req_pdu_len_mono_none]]. Qed.

Lemma partial_cli_undecided p d : partial_cli p d -> client_dec p d = (d, DNone).
Proof.
  destruct p; cbn [partial_cli client_dec]; intros H.
  - unfold tcp_client_dec. rewrite (tcp_partial_undecided d H). reflexivity.
  - unfold rtu_client_dec. rewrite (rtu_partial_undecided rsp_pdu_len d H). reflexivity.
Qed.
Lemma partial_srv_undecided p d : partial_srv p d -> server_dec p d = (d, DNone).
Proof.
  destruct p; cbn [partial_srv server_dec]; intros H.
  - unfold tcp_server_dec. rewrite (tcp_partial_undecided d H). reflexivity.
  - unfold rtu_server_dec. rewrite (rtu_partial_undecided req_pdu_len d H). reflexivity.
Qed.

Lemma pfx_of_extended (d q y : list N) z : y <> [] -> d ++ [z] = q ++ y -> exists x, d = q ++ x.
Proof.
  intros Hy H. destruct (app_split d [z] q y H) as [Hx|(y2 & Hy2 & Hq)]; [exact Hx|].
  exfalso. subst q. rewrite <- app_assoc in H. apply app_inv_head in H.
  apply (f_equal (@length N)) in H. rewrite app_length in H. cbn [length] in H.
  destruct y2; [congruence|]. destruct y; [congruence|]. cbn [length] in H. lia.
Qed.

(* every proper prefix of (d ++ [z]) is a prefix of d: a partial buffer is "a frame none of whose proper prefixes decodes" *)
Definition cli_undecided (p : proto) (f : list N) (_ : hdr * rsp_result) : Prop :=
  forall q, proper_prefix q f -> client_dec p q = (q, DNone).
Definition srv_undecided (p : proto) (f : list N) (_ : hdr * request) : Prop :=
  forall q, proper_prefix q f -> server_dec p q = (q, DNone).

Lemma cli_undecided_of_partial p d i : partial_cli p d -> cli_undecided p (d ++ [0]) i.
Proof.
  intros H q (y & Hy & Hf). destruct (pfx_of_extended d q y 0 Hy Hf) as [x ->].
  apply partial_cli_undecided. eapply partial_cli_prefix; eauto.
Qed.
Lemma srv_undecided_of_partial p d i : partial_srv p d -> srv_undecided p (d ++ [0]) i.
Proof.
  intros H q (y & Hy & Hf). destruct (pfx_of_extended d q y 0 Hy Hf) as [x ->].
  apply partial_srv_undecided. eapply partial_srv_prefix; eauto.
Qed.

Definition some_rsp : hdr * rsp_result := ((0, 0), RRExc {| exr_function := FcReadCoils; exr_exception := ExIllegalFunction |}).

(* C13: the bytes received when the stream ends / fails form a partial frame (ANY such bytes, any chunking):
   the call returns a transport error -- never success, never a panic *)
Theorem partial_then_fault_is_transport_error p m st req bg cs tl w bg1 (e : revt) :
  framed st = true -> clean st -> reof (rst st) = false -> rreadable (rst st) = false ->
  send (client_enc p m (req_hdr p st) req) (wio_ st) bg = (SOk, w, bg1, false) ->
  Forall nonempty cs -> partial_cli p (concat cs) ->
  rq st = datas cs ++ e :: tl -> (e = REof \/ exists k, e = RErr k) ->
  exists k, fst (call p m st req bg) = CRTransport k.
Proof.
  intros Hf Hc He Hr Hs Hne Hp Hq Hev. unfold call. rewrite Hf. cbn [negb]. fold (req_hdr p st). rewrite Hs.
  unfold clean in Hc. rewrite Hc, He, Hr, Hq.
  pose proof (cli_undecided_of_partial p (concat cs) some_rsp Hp) as Hv.
  assert (Hpp : proper_prefix ([] ++ concat cs) (concat cs ++ [0])) by (exists [0]; split; [discriminate|reflexivity]).
  assert (H2 : forall f i q, cli_undecided p f i -> proper_prefix q f -> client_dec p q = (q, DNone)) by (intros f i q H; apply H).
  destruct Hev as [->|[k ->]].
  - destruct (next_prefix_then_eof (client_dec p) (cli_undecided p) H2 cs [] _ some_rsp bg1 tl Hv Hne Hpp) as (st' & Hn).
    rewrite Hn. cbn [app]. destruct (concat cs).
    + eexists. reflexivity.
    + match goal with |- context [next ?d ?s ?q ?b] => destruct (next d s q b) as [[[nr2 r2] q2] bg3] end. eexists. reflexivity.
  - destruct (next_prefix_then_err (client_dec p) (cli_undecided p) H2 cs [] _ some_rsp bg1 k tl Hv Hne Hpp) as (st' & Hn).
    rewrite Hn. match goal with |- context [next ?d ?s ?q ?b] => destruct (next d s q b) as [[[nr2 r2] q2] bg3] end. eexists. reflexivity.
Qed.

(* a partial outer frame whose payload is a complete, CRC-correct reply of its own: still partial *)
Example embedded_reply_is_partial :
  partial_cli RTU [0x59; 0x01; 0x0c; 0x00; 0x59; 0x01; 0x01; 0xc9; 0x82; 0xbe; 0x58]
  /\ rtu_client_dec [0x59; 0x01; 0x01; 0xc9; 0x82; 0xbe] = ([], DSome ((0, 0x59), RROk (RspReadCoils [true; false; false; true; false; false; true; true]))).
Proof. split; [right; exists 14; split; [reflexivity|reflexivity]|vm_compute; reflexivity]. Qed.

(* C14: the stream ends / fails inside a frame -- the bytes received form a partial request frame, whatever they are:
   exactly one report, no service invocation, nothing written *)
Definition some_req : hdr * request := ((0, 0), ReqReadCoils 0 1).

Theorem end_inside_partial_frame p m fuel rd w svc cs tl :
  Forall nonempty cs -> concat cs <> [] -> partial_srv p (concat cs) ->
  process (S fuel) p m (mkR [] false rd false) w (datas cs ++ REof :: tl) svc = [TReport (KOther 0)].
Proof.
  intros Hne Hnz Hp. cbn [process]. rewrite (ServerProofs.next_readable_empty (server_dec p) _ None rd (ServerProofs.server_dec_nil p)).
  pose proof (srv_undecided_of_partial p (concat cs) some_req Hp) as Hv.
  assert (Hpp : proper_prefix ([] ++ concat cs) (concat cs ++ [0])) by (exists [0]; split; [discriminate|reflexivity]).
  assert (H2 : forall f i q, srv_undecided p f i -> proper_prefix q f -> server_dec p q = (q, DNone)) by (intros f i q H; apply H).
  destruct (next_prefix_then_eof (server_dec p) (srv_undecided p) H2 cs [] _ some_req None tl Hv Hne Hpp) as (st' & Hn).
  rewrite Hn. cbn [app]. destruct (concat cs); [congruence|reflexivity].
Qed.

Theorem error_inside_partial_frame p m fuel rd w svc cs tl k :
  Forall nonempty cs -> partial_srv p (concat cs) ->
  process (S fuel) p m (mkR [] false rd false) w (datas cs ++ RErr k :: tl) svc = [TReport k].
Proof.
  intros Hne Hp. cbn [process]. rewrite (ServerProofs.next_readable_empty (server_dec p) _ None rd (ServerProofs.server_dec_nil p)).
  pose proof (srv_undecided_of_partial p (concat cs) some_req Hp) as Hv.
  assert (Hpp : proper_prefix ([] ++ concat cs) (concat cs ++ [0])) by (exists [0]; split; [discriminate|reflexivity]).
  assert (H2 : forall f i q, srv_undecided p f i -> proper_prefix q f -> server_dec p q = (q, DNone)) by (intros f i q H; apply H).
  destruct (next_prefix_then_err (server_dec p) (srv_undecided p) H2 cs [] _ some_req None k tl Hv Hne Hpp) as (st' & Hn).
  rewrite Hn. reflexivity.
Qed.
