(* StreamProofs.v -- the four stream decoders (TCP/RTU x client/server) satisfy the hypotheses
   of the fragmentation theorem; consequences for whole streams. *)
From Coq Require Import ZArith Lia.
From TM Require Import Base Frame Pdu Crc RtuCodec TcpCodec Framed BaseLemmas FramedProofs TcpProofs RtuProofs.

Definition valid_rtu_req (f : list N) (i : hdr * request) : Prop :=
  exists s pdu, f = rtu_frame s pdu /\ carried req_pdu_len s pdu /\ dec_req pdu = Val (snd i) /\ fst i = (0, s).
Definition valid_rtu_rsp (f : list N) (i : hdr * rsp_result) : Prop :=
  exists s pdu, f = rtu_frame s pdu /\ carried rsp_pdu_len s pdu /\ dec_rsp_pdu pdu = Val (snd i) /\ fst i = (0, s).

Lemma rtu_server_H1 f i x : valid_rtu_req f i -> rtu_server_dec (f ++ x) = (x, DSome i).
Proof.
  intros (s & pdu & -> & Hc & Hd & Hi). unfold rtu_server_dec, rtu_frame_dec, MAX_RETRIES.
  rewrite (H1_loop req_pdu_len req_pdu_len_no_panic s pdu x 19 [] Hc). rewrite Hd. destruct i as [h r]. cbn in *. subst h. reflexivity.
Qed.
Lemma rtu_server_H2 f i p : valid_rtu_req f i -> proper_prefix p f -> rtu_server_dec p = (p, DNone).
Proof.
  intros (s & pdu & -> & Hc & Hd & Hi) Hp. unfold rtu_server_dec, rtu_frame_dec, MAX_RETRIES.
  rewrite (H2_loop req_pdu_len req_pdu_len_no_panic s pdu p 19 [] Hc Hp). reflexivity.
Qed.
Lemma rtu_client_H1 f i x : valid_rtu_rsp f i -> rtu_client_dec (f ++ x) = (x, DSome i).
Proof.
  intros (s & pdu & -> & Hc & Hd & Hi). unfold rtu_client_dec, rtu_frame_dec, MAX_RETRIES.
  rewrite (H1_loop rsp_pdu_len rsp_pdu_len_no_panic s pdu x 19 [] Hc). rewrite Hd. destruct i as [h r]. cbn in *. subst h. reflexivity.
Qed.
Lemma rtu_client_H2 f i p : valid_rtu_rsp f i -> proper_prefix p f -> rtu_client_dec p = (p, DNone).
Proof.
  intros (s & pdu & -> & Hc & Hd & Hi) Hp. unfold rtu_client_dec, rtu_frame_dec, MAX_RETRIES.
  rewrite (H2_loop rsp_pdu_len rsp_pdu_len_no_panic s pdu p 19 [] Hc Hp). reflexivity.
Qed.

Lemma rtu_frame_nonempty s p : rtu_frame s p <> [].
Proof. discriminate. Qed.
Lemma tcp_frame_nonempty t u p : tcp_frame t u p <> [].
Proof. discriminate. Qed.

Lemma valid_req_frame_nonempty f i : valid_req_frame f i -> f <> [].
Proof. intros (t & u & p & _ & -> & _). apply tcp_frame_nonempty. Qed.
Lemma valid_rsp_frame_nonempty f i : valid_rsp_frame f i -> f <> [].
Proof. intros (t & u & p & _ & -> & _). apply tcp_frame_nonempty. Qed.
Lemma valid_rtu_req_nonempty f i : valid_rtu_req f i -> f <> [].
Proof. intros (s & p & -> & _). apply rtu_frame_nonempty. Qed.
Lemma valid_rtu_rsp_nonempty f i : valid_rtu_rsp f i -> f <> [].
Proof. intros (s & p & -> & _). apply rtu_frame_nonempty. Qed.

(* ---- whole streams, any chunking ---- *)
Theorem tcp_server_stream fs is cs :
  Forall2 valid_req_frame fs is -> Forall nonempty cs -> concat cs = concat fs ->
  exists st' cs', take_items tcp_server_dec (length fs) rstate0 (datas cs) = Some (is, st', datas cs') /\ rbuf st' ++ concat cs' = [].
Proof. apply (frames_any_chunking tcp_server_dec valid_req_frame tcp_server_H1 tcp_server_H2 valid_req_frame_nonempty). Qed.

Theorem tcp_client_stream fs is cs :
  Forall2 valid_rsp_frame fs is -> Forall nonempty cs -> concat cs = concat fs ->
  exists st' cs', take_items tcp_client_dec (length fs) rstate0 (datas cs) = Some (is, st', datas cs') /\ rbuf st' ++ concat cs' = [].
Proof. apply (frames_any_chunking tcp_client_dec valid_rsp_frame tcp_client_H1 tcp_client_H2 valid_rsp_frame_nonempty). Qed.

Theorem rtu_server_stream fs is cs :
  Forall2 valid_rtu_req fs is -> Forall nonempty cs -> concat cs = concat fs ->
  exists st' cs', take_items rtu_server_dec (length fs) rstate0 (datas cs) = Some (is, st', datas cs') /\ rbuf st' ++ concat cs' = [].
Proof. apply (frames_any_chunking rtu_server_dec valid_rtu_req rtu_server_H1 rtu_server_H2 valid_rtu_req_nonempty). Qed.

Theorem rtu_client_stream fs is cs :
  Forall2 valid_rtu_rsp fs is -> Forall nonempty cs -> concat cs = concat fs ->
  exists st' cs', take_items rtu_client_dec (length fs) rstate0 (datas cs) = Some (is, st', datas cs') /\ rbuf st' ++ concat cs' = [].
Proof. apply (frames_any_chunking rtu_client_dec valid_rtu_rsp rtu_client_H1 rtu_client_H2 valid_rtu_rsp_nonempty). Qed.

(* nothing early: while the current frame is incomplete nothing is delivered and nothing is lost *)
Theorem tcp_server_nothing_early cs b rd f i :
  valid_req_frame f i -> Forall nonempty cs -> proper_prefix (b ++ concat cs) f ->
  exists st', next tcp_server_dec (mkR b false rd false) (datas cs) None = (NWait, st', [], None) /\ rbuf st' = b ++ concat cs.
Proof. apply (next_incomplete tcp_server_dec valid_req_frame tcp_server_H2). Qed.
Theorem tcp_client_nothing_early cs b rd f i :
  valid_rsp_frame f i -> Forall nonempty cs -> proper_prefix (b ++ concat cs) f ->
  exists st', next tcp_client_dec (mkR b false rd false) (datas cs) None = (NWait, st', [], None) /\ rbuf st' = b ++ concat cs.
Proof. apply (next_incomplete tcp_client_dec valid_rsp_frame tcp_client_H2). Qed.
Theorem rtu_server_nothing_early cs b rd f i :
  valid_rtu_req f i -> Forall nonempty cs -> proper_prefix (b ++ concat cs) f ->
  exists st', next rtu_server_dec (mkR b false rd false) (datas cs) None = (NWait, st', [], None) /\ rbuf st' = b ++ concat cs.
Proof. apply (next_incomplete rtu_server_dec valid_rtu_req rtu_server_H2). Qed.
