(* DecProgProofs.v -- the model's read programs interpret to the model's decoders, for every byte string; and any table
   that agrees with the model's arm for each of the 256 function code bytes (and has no other keys) decodes like it *)
From Coq Require Import Lia.
From TM Require Import Base Frame Pdu Text Tables DecProg BaseLemmas TablesProofs.

Lemma lookup_arm_skip t k a fc : k <> fc -> lookup_arm ((k, a) :: t) fc = lookup_arm t fc.
Proof. intros H. cbn [lookup_arm]. destruct (N.eqb_spec k fc); [contradiction|reflexivity]. Qed.
Lemma lookup_arm_hit t k a : lookup_arm ((k, a) :: t) k = Some a.
Proof. cbn [lookup_arm]. rewrite N.eqb_refl. reflexivity. Qed.

Ltac red_step := cbn [bind run_dstmts run_arm fst snd app pick map nth_error eval_dcond eval_dexp getN].
Ltac step :=
  red_step;
  match goal with
  | |- ?a = ?a => reflexivity
  | |- context [mk_req ?n ?l] => let v := eval vm_compute in (mk_req n l) in change (mk_req n l) with v; cbv iota
  | |- context [mk_rsp ?n ?l] => let v := eval vm_compute in (mk_rsp n l) in change (mk_rsp n l) with v; cbv iota
  | |- context [if ?c then _ else _] => destruct c
  | |- context [bind ?o _] => lazymatch o with bind _ _ => fail | _ => idtac end; destruct o as [x|k|]; [try destruct x| |]
  end.
Ltac solve_arm := unfold two16, three16, rsp_bits, rsp_words, run_arm, dec_rsp_bits, dec_rsp_words; repeat step.
Ltac disp fc k :=
  let H := fresh "Hk" in
  destruct (N.eqb_spec fc k) as [->|H];
  [rewrite lookup_arm_hit | rewrite lookup_arm_skip by (let E := fresh in intro E; apply H; symmetry; exact E)].

Theorem req_dec_prog_model_ok bs : run_req_dec req_dec_prog_model 0x80 bs = dec_req bs.
Proof.
  unfold run_req_dec, dec_req. destruct (rd8 bs) as [[fc r]|k|]; cbn [bind]; try reflexivity.
  unfold req_dec_prog_model.
  disp fc 1; [solve_arm|]. disp fc 2; [solve_arm|]. disp fc 5; [solve_arm|].
  disp fc 15; [solve_arm|]. disp fc 4; [solve_arm|]. disp fc 3; [solve_arm|]. disp fc 6; [solve_arm|].
  disp fc 16; [solve_arm|]. disp fc 17; [solve_arm|]. disp fc 22; [solve_arm|]. disp fc 23; [solve_arm|].
  cbn [lookup_arm]. reflexivity.
Qed.

Theorem rsp_dec_prog_model_ok bs : run_rsp_dec rsp_dec_prog_model bs = dec_rsp bs.
Proof.
  unfold run_rsp_dec, dec_rsp. destruct (rd8 bs) as [[fc r]|k|]; cbn [bind]; try reflexivity.
  unfold rsp_dec_prog_model.
  disp fc 1; [solve_arm|]. disp fc 2; [solve_arm|]. disp fc 5; [solve_arm|].
  disp fc 15; [solve_arm|]. disp fc 4; [solve_arm|]. disp fc 3; [solve_arm|]. disp fc 6; [solve_arm|].
  disp fc 16; [solve_arm|]. disp fc 17; [solve_arm|]. disp fc 22; [solve_arm|]. disp fc 23; [solve_arm|].
  cbn [lookup_arm]. reflexivity.
Qed.

(* ---- lifting to any table with the same arms ---- *)
Definition keys_small (t : dec_table) : bool := forallb (fun ka => fst ka <? 256) t.

Lemma lookup_arm_big t fc : keys_small t = true -> 256 <= fc -> lookup_arm t fc = None.
Proof.
  induction t as [|[k a] t IH]; intros Hs Hb; [reflexivity|].
  cbn [keys_small forallb fst] in Hs. apply andb_prop in Hs. destruct Hs as [Hk Hs].
  cbn [lookup_arm]. destruct (N.eqb_spec k fc) as [->|_]; [apply N.ltb_lt in Hk; lia|]. apply IH; assumption.
Qed.

Lemma expand_arms_eq t1 t2 fc : expand_arms t1 = expand_arms t2 -> fc < 256 -> lookup_arm t1 fc = lookup_arm t2 fc.
Proof.
  intros He Hb. unfold expand_arms in He.
  assert (Hn : nth_error (map (lookup_arm t1) bytes256) (N.to_nat fc) = nth_error (map (lookup_arm t2) bytes256) (N.to_nat fc)) by (rewrite He; reflexivity).
  rewrite !nth_error_map in Hn.
  assert (Hb' : nth_error bytes256 (N.to_nat fc) = Some fc).
  { unfold bytes256. rewrite nth_error_map. rewrite nth_error_nth' with (d := O) by (rewrite seq_length; lia).
    rewrite seq_nth by lia. cbn. f_equal. lia. }
  rewrite Hb' in Hn. cbn in Hn. congruence.
Qed.

Lemma lookup_arm_same t1 t2 fc : expand_arms t1 = expand_arms t2 -> keys_small t1 = true -> keys_small t2 = true ->
  lookup_arm t1 fc = lookup_arm t2 fc.
Proof.
  intros He H1 H2. destruct (N.lt_ge_cases fc 256) as [Hb|Hb]; [apply expand_arms_eq; assumption|].
  rewrite (lookup_arm_big t1 fc H1 Hb), (lookup_arm_big t2 fc H2 Hb). reflexivity.
Qed.

Lemma req_model_keys_small : keys_small req_dec_prog_model = true. Proof. reflexivity. Qed.
Lemma rsp_model_keys_small : keys_small rsp_dec_prog_model = true. Proof. reflexivity. Qed.

Theorem run_req_dec_is_dec_req t lim bs :
  expand_arms t = expand_arms req_dec_prog_model -> keys_small t = true -> lim = 0x80 -> run_req_dec t lim bs = dec_req bs.
Proof.
  intros He Hs ->. rewrite <- req_dec_prog_model_ok. unfold run_req_dec.
  destruct (rd8 bs) as [[fc r]|k|]; cbn [bind]; try reflexivity.
  rewrite (lookup_arm_same _ _ fc He Hs req_model_keys_small). reflexivity.
Qed.
Theorem run_rsp_dec_is_dec_rsp t bs :
  expand_arms t = expand_arms rsp_dec_prog_model -> keys_small t = true -> run_rsp_dec t bs = dec_rsp bs.
Proof.
  intros He Hs. rewrite <- rsp_dec_prog_model_ok. unfold run_rsp_dec.
  destruct (rd8 bs) as [[fc r]|k|]; cbn [bind]; try reflexivity.
  rewrite (lookup_arm_same _ _ fc He Hs rsp_model_keys_small). reflexivity.
Qed.
