(* FramedMore.v -- further facts about the framed halves: conservation of bytes on the write half,
   where items and latched errors can come from on the read half. *)
From Coq Require Import ZArith Lia.
From TM Require Import Base RtuCodec Framed BaseLemmas FramedProofs.

(* ---- write half: accepted ++ still-buffered is conserved; SOk means everything went out ---- *)
Lemma flush_w_conserve : forall wq wbuf acc bg r wbuf' acc' wq' bg',
  flush_w wbuf acc wq bg = (r, wbuf', acc', wq', bg') ->
  acc' ++ wbuf' = acc ++ wbuf /\ (r = SOk -> wbuf' = []) /\ r <> SWait.
Proof.
  induction wq as [|e wq IH]; intros wbuf acc bg r wbuf' acc' wq' bg' H.
  - destruct wbuf as [|b wbuf]; cbn [flush_w] in H; injection H as <- <- <- <- <-.
    + repeat split; auto. discriminate.
    + rewrite app_nil_r. repeat split; auto. discriminate.
  - destruct wbuf as [|b wbuf]; cbn [flush_w] in H.
    + injection H as <- <- <- <- <-. repeat split; auto. discriminate.
    + destruct e as [n| |k|].
      * destruct (n =? 0).
        -- injection H as <- <- <- <- <-. repeat split; auto; discriminate.
        -- apply IH in H. destruct H as (H1 & H2 & H3). repeat split; auto.
           rewrite H1, <- app_assoc, firstn_skipn. reflexivity.
      * injection H as <- <- <- <- <-. repeat split; auto; discriminate.
      * injection H as <- <- <- <- <-. repeat split; auto; discriminate.
      * destruct (spend bg) as [bg1|].
        -- apply IH in H. exact H.
        -- injection H as <- <- <- <- <-. repeat split; auto; discriminate.
Qed.

Lemma flush_f_not_wait : forall fq bg r fq' bg', flush_f fq bg = (r, fq', bg') -> r <> SWait.
Proof.
  induction fq as [|e fq IH]; intros bg r fq' bg' H; cbn [flush_f] in H.
  - injection H as <- <- <-. discriminate.
  - destruct e as [|k|].
    + injection H as <- <- <-. discriminate.
    + injection H as <- <- <-. discriminate.
    + destruct (spend bg) as [bg1|]; [eapply IH; eauto|injection H as <- <- <-; discriminate].
Qed.

Lemma poll_flush_conserve w bg r w' bg' :
  poll_flush w bg = (r, w', bg') ->
  accepted w' ++ wbuf w' = accepted w ++ wbuf w /\ (r = SOk -> wbuf w' = []) /\ r <> SWait.
Proof.
  unfold poll_flush. destruct (flush_w (wbuf w) (accepted w) (wq w) bg) as [[[[r1 b1] a1] q1] bg1] eqn:Hw.
  apply flush_w_conserve in Hw. destruct Hw as (H1 & H2 & H3).
  destruct r1.
  - destruct (flush_f (fq w) bg1) as [[r2 f2] bg2] eqn:Hf. intros H. injection H as <- <- <-. cbn [accepted wbuf].
    split; [exact H1|]. split; [intros _; apply H2; reflexivity|]. eapply flush_f_not_wait; eauto.
  - intros H. injection H as <- <- <-. cbn. repeat split; auto; discriminate.
  - congruence.
  - intros H. injection H as <- <- <-. cbn. repeat split; auto; discriminate.
Qed.

(* SinkExt::send: the bytes handed to the transport plus the bytes still buffered grow by exactly the
   encoded frame, or by nothing if the item was never encoded *)
Lemma send_conserve frame w bg r w' bg' pn :
  send frame w bg = (r, w', bg', pn) ->
  exists fr, (fr = [] \/ frame = Val fr) /\ accepted w' ++ wbuf w' = accepted w ++ wbuf w ++ fr
             /\ (r = SOk -> pn = false -> frame = Val fr /\ wbuf w' = []) /\ r <> SWait.
Proof.
  unfold send.
  destruct (BACKPRESSURE <=? len (wbuf w)) eqn:Hbp.
  - destruct (poll_flush w bg) as [[r1 w1] bg1] eqn:Hp. apply poll_flush_conserve in Hp. destruct Hp as (H1 & H2 & H3).
    destruct r1.
    + destruct frame as [f|k|].
      * destruct (poll_flush (mkW (wbuf w1 ++ f) (wq w1) (fq w1) (accepted w1)) bg1) as [[r2 w2] bg2] eqn:Hp2.
        apply poll_flush_conserve in Hp2. cbn [accepted wbuf] in Hp2. destruct Hp2 as (G1 & G2 & G3).
        intros H. injection H as <- <- <- <-. exists f. split; [auto|]. split.
        -- rewrite G1, app_assoc, H1, <- app_assoc. reflexivity.
        -- split; [intros Hr _; split; [reflexivity|apply G2; exact Hr]|exact G3].
      * intros H. injection H as <- <- <- <-. exists []. rewrite app_nil_r. repeat split; auto; try discriminate.
      * intros H. injection H as <- <- <- <-. exists []. rewrite app_nil_r. repeat split; auto; try discriminate.
    + intros H. injection H as <- <- <- <-. exists []. rewrite app_nil_r. repeat split; auto; try discriminate.
    + congruence.
    + intros H. injection H as <- <- <- <-. exists []. rewrite app_nil_r. repeat split; auto; try discriminate.
  - destruct frame as [f|k|].
    + destruct (poll_flush (mkW (wbuf w ++ f) (wq w) (fq w) (accepted w)) bg) as [[r2 w2] bg2] eqn:Hp2.
      apply poll_flush_conserve in Hp2. cbn [accepted wbuf] in Hp2. destruct Hp2 as (G1 & G2 & G3).
      intros H. injection H as <- <- <- <-. exists f. split; [auto|]. split; [rewrite G1, app_assoc; reflexivity|].
      split; [intros Hr _; split; [reflexivity|apply G2; exact Hr]|exact G3].
    + intros H. injection H as <- <- <- <-. exists []. rewrite app_nil_r. repeat split; auto; try discriminate.
    + intros H. injection H as <- <- <- <-. exists []. rewrite app_nil_r. repeat split; auto; try discriminate.
Qed.

(* the panic flag of [send] is raised only by a panicking encoder *)
Lemma send_panic_flag frame w bg r w' bg' : send frame w bg = (r, w', bg', true) -> frame = Panic.
Proof.
  unfold send. destruct (BACKPRESSURE <=? len (wbuf w)).
  - destruct (poll_flush w bg) as [[r1 w1] bg1]. destruct r1; try (intros H; discriminate).
    destruct frame as [f|k|]; [|intros H; discriminate|reflexivity].
    destruct (poll_flush _ bg1) as [[r2 w2] bg2]. intros H. discriminate.
  - destruct frame as [f|k|]; [|intros H; discriminate|reflexivity].
    destruct (poll_flush _ bg) as [[r2 w2] bg2]. intros H. discriminate.
Qed.

(* a failing encoder leaves the write half untouched (no back-pressure flush pending) *)
Lemma send_encode_error k w bg : len (wbuf w) < BACKPRESSURE -> send (Fail k) w bg = (SErr k, w, bg, false).
Proof. intros H. unfold send. destruct (N.leb_spec BACKPRESSURE (len (wbuf w))); [lia|]. reflexivity. Qed.

(* ---- read half ---- *)
Section Read.
  Context {I : Type}.
  Variable dec : list N -> list N * dres I.

  (* the error latch is set only by a call that returns an error *)
  Lemma next_latch : forall evs st bg r st' evs' bg',
    next dec st evs bg = (r, st', evs', bg') -> rerrored st' = true -> exists k, r = NErr k.
  Proof.
    induction evs as [|e evs IH]; intros st bg r st' evs' bg' H He; rewrite next_eq in H.
    - destruct (rerrored st) eqn:Hst; [injection H as <- <- <- <-; discriminate|].
      unfold attempt in H. destruct (rreadable st).
      + destruct (reof st).
        * unfold decode_eof in H. destruct (dec (rbuf st)) as [b' [|i|k|]]; try (injection H as <- <- <- <-; cbn in He; try discriminate; eauto; fail).
          destruct b'; injection H as <- <- <- <-; cbn in He; try discriminate; eauto.
        * destruct (dec (rbuf st)) as [b' [|i|k|]]; injection H as <- <- <- <-; cbn in He; try discriminate; eauto.
      + injection H as <- <- <- <-. congruence.
    - destruct (rerrored st) eqn:Hst; [injection H as <- <- <- <-; discriminate|].
      unfold attempt in H.
      assert (Hgo : forall st1, rerrored st1 = false ->
                match e :: evs with
                | [] => (NWait, st1, [], bg)
                | RPend :: evs' => match spend bg with None => (NAbandon, st1, evs', bg) | Some bg' => next dec st1 evs' bg' end
                | RErr k :: evs' => (NErr k, mkR (rbuf st1) (reof st1) (rreadable st1) true, evs', bg)
                | REof :: evs' | RData [] :: evs' => if reof st1 then (NEnd, st1, evs', bg) else next dec (mkR (rbuf st1) true true false) evs' bg
                | RData c :: evs' => next dec (mkR (rbuf st1 ++ c) false true false) evs' bg
                end = (r, st', evs', bg') -> exists k, r = NErr k).
      { intros st1 Hs1 Hm. destruct e as [c| |k|].
        - destruct c as [|c0 c]; [destruct (reof st1); [injection Hm as <- <- <- <-; congruence|eapply IH; eauto]|eapply IH; eauto].
        - destruct (reof st1); [injection Hm as <- <- <- <-; congruence|eapply IH; eauto].
        - injection Hm as <- <- <- <-. eauto.
        - destruct (spend bg); [eapply IH; eauto|injection Hm as <- <- <- <-; congruence]. }
      destruct (rreadable st).
      + destruct (reof st).
        * unfold decode_eof in H. destruct (dec (rbuf st)) as [b' [|i|k|]]; try (injection H as <- <- <- <-; cbn in He; try discriminate; eauto; fail).
          destruct b'; injection H as <- <- <- <-; cbn in He; try discriminate; eauto.
        * destruct (dec (rbuf st)) as [b' [|i|k|]]; try (injection H as <- <- <- <-; cbn in He; try discriminate; eauto; fail).
          eapply Hgo; [|exact H]. reflexivity.
      + eapply Hgo; [|exact H]. exact Hst.
  Qed.

  (* an error returned by [next] always leaves the latch set *)
  Lemma next_err_latches : forall evs st bg k st' evs' bg',
    next dec st evs bg = (NErr k, st', evs', bg') -> rerrored st' = true.
  Proof.
    induction evs as [|e evs IH]; intros st bg k0 st' evs' bg' H; rewrite next_eq in H.
    - destruct (rerrored st); [discriminate|]. unfold attempt in H. destruct (rreadable st); [|discriminate].
      destruct (reof st).
      + unfold decode_eof in H. destruct (dec (rbuf st)) as [b' [|i|k1|]]; try discriminate.
        * destruct b'; [discriminate|]. injection H as _ <- _ _. reflexivity.
        * injection H as _ <- _ _. reflexivity.
      + destruct (dec (rbuf st)) as [b' [|i|k1|]]; try discriminate. injection H as _ <- _ _. reflexivity.
    - destruct (rerrored st); [discriminate|]. unfold attempt in H.
      assert (Hgo : forall st1,
            match e :: evs with
            | [] => (NWait, st1, [], bg)
            | RPend :: evs' => match spend bg with None => (NAbandon, st1, evs', bg) | Some bg' => next dec st1 evs' bg' end
            | RErr k :: evs' => (NErr k, mkR (rbuf st1) (reof st1) (rreadable st1) true, evs', bg)
            | REof :: evs' | RData [] :: evs' => if reof st1 then (NEnd, st1, evs', bg) else next dec (mkR (rbuf st1) true true false) evs' bg
            | RData c :: evs' => next dec (mkR (rbuf st1 ++ c) false true false) evs' bg
            end = (NErr k0, st', evs', bg') -> rerrored st' = true).
      { intros st1 Hm. destruct e as [c| |k1|].
        - destruct c as [|c0 c]; [destruct (reof st1); [discriminate|eapply IH; eauto]|eapply IH; eauto].
        - destruct (reof st1); [discriminate|eapply IH; eauto].
        - injection Hm as _ <- _ _. reflexivity.
        - destruct (spend bg); [eapply IH; eauto|discriminate]. }
      destruct (rreadable st).
      + destruct (reof st).
        * unfold decode_eof in H. destruct (dec (rbuf st)) as [b' [|i|k1|]]; try discriminate.
          -- destruct b'; [discriminate|]. injection H as _ <- _ _. reflexivity.
          -- injection H as _ <- _ _. reflexivity.
        * destruct (dec (rbuf st)) as [b' [|i|k1|]]; try discriminate.
          -- eapply Hgo; exact H.
          -- injection H as _ <- _ _. reflexivity.
      + eapply Hgo; exact H.
  Qed.

  (* polling a latched stream once clears the latch without consuming any event *)
  Lemma next_unlatch st evs bg : rerrored st = true ->
    next dec st evs bg = (NEnd, mkR (rbuf st) (reof st) false false, evs, bg).
  Proof. intros H. rewrite next_eq, H. reflexivity. Qed.

  (* every item comes out of the decoder *)
  Lemma next_item_from_dec : forall evs st bg i st' evs' bg',
    next dec st evs bg = (NItem i, st', evs', bg') -> exists buf b', dec buf = (b', DSome i).
  Proof.
    assert (Hatt : forall st i st', attempt dec st = inl (NItem i, st') -> exists buf b', dec buf = (b', DSome i)).
    { intros st i st' H. unfold attempt in H. destruct (rreadable st); [|discriminate].
      destruct (reof st).
      - unfold decode_eof in H. destruct (dec (rbuf st)) as [b' [|j|k|]] eqn:Hd; try discriminate.
        + destruct b'; discriminate.
        + injection H as <- _. eauto.
      - destruct (dec (rbuf st)) as [b' [|j|k|]] eqn:Hd; try discriminate. injection H as <- _. eauto. }
    induction evs as [|e evs IH]; intros st bg i st' evs' bg' H; rewrite next_eq in H.
    - destruct (rerrored st); [discriminate|]. destruct (attempt dec st) as [[r s]|s] eqn:Ha.
      + injection H as -> <- <- <-. eapply Hatt; eauto.
      + discriminate.
    - destruct (rerrored st); [discriminate|]. destruct (attempt dec st) as [[r s]|s] eqn:Ha.
      + injection H as -> <- <- <-. eapply Hatt; eauto.
      + destruct e as [c| |k|].
        * destruct c as [|c0 c]; [destruct (reof s); [discriminate|eapply IH; eauto]|eapply IH; eauto].
        * destruct (reof s); [discriminate|eapply IH; eauto].
        * discriminate.
        * destruct (spend bg); [eapply IH; eauto|discriminate].
  Qed.
End Read.
