(* Totality.v -- no decoder, client call or server loop ever panics, for ANY input (C03); the server
   loop terminates within a fuel bound linear in the input (C03.3). *)
From Coq Require Import ZArith Lia ZifyBool ZifyNat ZifyN.
From TM Require Import Base Frame Pdu Crc RtuCodec TcpCodec Framed Client Server BaseLemmas Spec PduDecode
  FramedProofs FramedMore RtuProofs ClientProofs ServerProofs TypedProofs EndToEnd.
Ltac Zify.zify_post_hook ::= Z.div_mod_to_equations.

(* ---- stream decoders: never a panic, and the buffer never grows ---- *)
Lemma frame_decode_len buf n b r : frame_decode buf n = (b, r) ->
  (length b <= length buf)%nat /\ (forall s p, r = FSome s p -> (length b < length buf)%nat).
Proof.
  unfold frame_decode. destruct (len buf <? n + 3).
  - intros H. injection H as <- <-. split; [lia|discriminate].
  - destruct (skipn (S (N.to_nat n)) buf) as [|c1 [|c2 rest]] eqn:Hs.
    + intros H. injection H as <- <-. split; [lia|discriminate].
    + intros H. injection H as <- <-. split; [lia|discriminate].
    + pose proof (skipn_length (S (N.to_nat n)) buf) as Hl. rewrite Hs in Hl. cbn [length] in Hl.
      destruct (check_crc _ c1 c2); intros H; injection H as <- <-.
      * split; [lia|intros; lia].
      * split; [lia|discriminate].
Qed.

Section Loop.
  Variable pdu_len : list N -> outcome (option N).
  Hypothesis pdu_len_nil : pdu_len [] = Val None.
  Hypothesis pdu_len_no_panic : forall b, pdu_len b <> Panic.

  Lemma decode_loop_total : forall fuel buf dr b dr' r, decode_loop pdu_len fuel buf dr = (b, dr', r) ->
    r <> DPanic /\ (length b <= length buf)%nat /\ (forall i, r = DSome i -> (length b < length buf)%nat).
  Proof.
    induction fuel as [|f IH]; intros buf dr b dr' r H; cbn [decode_loop] in H.
    - injection H as <- <- <-. repeat split; try lia; discriminate.
    - assert (Hrec : forall x buf', buf = x :: buf' -> decode_loop pdu_len f buf' (dr ++ [x]) = (b, dr', r) ->
                r <> DPanic /\ (length b <= length buf)%nat /\ (forall i, r = DSome i -> (length b < length buf)%nat)).
      { intros x buf' -> Hd. destruct (IH _ _ _ _ _ Hd) as (H1 & H2 & H3). cbn [length].
        split; [exact H1|]. split; [lia|]. intros i Hi. specialize (H3 i Hi). lia. }
      destruct (pdu_len buf) as [[n|]| |] eqn:Hp.
      + destruct (frame_decode buf n) as [b1 [|s p|]] eqn:Hf.
        * injection H as <- <- <-. destruct (frame_decode_len _ _ _ _ Hf). repeat split; auto; discriminate.
        * injection H as <- <- <-. destruct (frame_decode_len _ _ _ _ Hf) as [H1 H2]. repeat split; auto; try discriminate.
          intros _ _. eapply H2. reflexivity.
        * destruct buf as [|x buf']; [rewrite pdu_len_nil in Hp; discriminate|]. eapply Hrec; eauto.
      + injection H as <- <- <-. repeat split; try lia; discriminate.
      + destruct buf as [|x buf']; [rewrite pdu_len_nil in Hp; discriminate|]. eapply Hrec; eauto.
      + exfalso. eapply pdu_len_no_panic; eauto.
  Qed.
End Loop.

Definition dec_total {I} (dec : list N -> list N * dres I) : Prop :=
  forall buf b r, dec buf = (b, r) ->
    r <> DPanic /\ (length b <= length buf)%nat /\ (forall i, r = DSome i -> (length b < length buf)%nat).

Lemma adu_decode_total : dec_total adu_decode.
Proof.
  intros buf b r H. unfold adu_decode in H.
  destruct buf as [|t1 [|t2 [|p1 [|p2 [|l1 [|l2 [|uid rest]]]]]]];
    try (injection H as <- <-; split; [discriminate|]; split; [lia|discriminate]).
  destruct (of_be16 l1 l2 =? 0).
  { injection H as <- <-. split; [discriminate|]. split; [lia|discriminate]. }
  destruct (len (t1 :: t2 :: p1 :: p2 :: l1 :: l2 :: uid :: rest) <? HEADER_LEN + (of_be16 l1 l2 - 1)).
  { injection H as <- <-. split; [discriminate|]. split; [lia|discriminate]. }
  destruct (negb (of_be16 p1 p2 =? 0)); injection H as <- <-; cbn [length].
  - split; [discriminate|]. split; [lia|discriminate].
  - split; [discriminate|]. rewrite skipn_length. split; [lia|intros; lia].
Qed.

Lemma lift_total {A I} (inner : list N -> list N * dres (hdr * A)) (pd : A -> outcome I) (dec : list N -> list N * dres (hdr * I)) :
  dec_total inner -> (forall a, pd a <> Panic) ->
  (forall buf, dec buf = match inner buf with
                          | (b, DSome (h, a)) => match pd a with Val r => (b, DSome (h, r)) | Fail k => (b, DErr k) | Panic => (b, DPanic) end
                          | (b, DNone) => (b, DNone) | (b, DErr k) => (b, DErr k) | (b, DPanic) => (b, DPanic) end) ->
  dec_total dec.
Proof.
  intros Hi Hp Hd buf b r H. rewrite Hd in H. destruct (inner buf) as [b0 r0] eqn:Hin.
  destruct (Hi _ _ _ Hin) as (H1 & H2 & H3).
  destruct r0 as [|[h a]|k|].
  - injection H as <- <-. split; [discriminate|]. split; [exact H2|discriminate].
  - specialize (Hp a). destruct (pd a) as [v|k|].
    + injection H as <- <-. split; [discriminate|]. split; [exact H2|]. intros _ _. eapply H3. reflexivity.
    + injection H as <- <-. split; [discriminate|]. split; [exact H2|discriminate].
    + congruence.
  - injection H as <- <-. split; [discriminate|]. split; [exact H2|discriminate].
  - congruence.
Qed.

Lemma tcp_server_dec_total : dec_total tcp_server_dec.
Proof. apply (lift_total adu_decode dec_req); [apply adu_decode_total|apply dec_req_no_panic|reflexivity]. Qed.
Lemma tcp_client_dec_total : dec_total tcp_client_dec.
Proof. apply (lift_total adu_decode dec_rsp_pdu); [apply adu_decode_total|apply dec_rsp_pdu_no_panic|reflexivity]. Qed.

Lemma rtu_frame_dec_total tbl : tbl [] = Val None -> (forall b, tbl b <> Panic) ->
  dec_total (fun buf => match rtu_frame_dec tbl buf with (b, DSome (s, p)) => (b, DSome ((0, s), p)) | (b, DNone) => (b, DNone) | (b, DErr k) => (b, DErr k) | (b, DPanic) => (b, DPanic) end).
Proof.
  intros Hn Hp buf b r. unfold rtu_frame_dec. generalize MAX_RETRIES as fuel. intros fuel H.
  destruct (decode_loop tbl fuel buf []) as [[b0 d0] r0] eqn:Hl.
  destruct (decode_loop_total tbl Hn Hp _ _ _ _ _ _ Hl) as (H1 & H2 & H3).
  destruct r0 as [|[s p]|k|]; injection H as <- <-.
  - split; [discriminate|]. split; [exact H2|discriminate].
  - split; [discriminate|]. split; [exact H2|]. intros _ _. eapply H3. reflexivity.
  - split; [discriminate|]. split; [exact H2|discriminate].
  - congruence.
Qed.

Lemma rtu_server_dec_total : dec_total rtu_server_dec.
Proof.
  apply (lift_total _ dec_req rtu_server_dec (rtu_frame_dec_total req_pdu_len req_pdu_len_nil req_pdu_len_no_panic) dec_req_no_panic).
  intros buf. unfold rtu_server_dec. destruct (rtu_frame_dec req_pdu_len buf) as [b [|[s p]|k|]]; reflexivity.
Qed.
Lemma rtu_client_dec_total : dec_total rtu_client_dec.
Proof.
  apply (lift_total _ dec_rsp_pdu rtu_client_dec (rtu_frame_dec_total rsp_pdu_len rsp_pdu_len_nil rsp_pdu_len_no_panic) dec_rsp_pdu_no_panic).
  intros buf. unfold rtu_client_dec. destruct (rtu_frame_dec rsp_pdu_len buf) as [b [|[s p]|k|]]; reflexivity.
Qed.

Lemma client_dec_total p : dec_total (client_dec p).
Proof. destruct p; [apply tcp_client_dec_total|apply rtu_client_dec_total]. Qed.
Lemma server_dec_total p : dec_total (server_dec p).
Proof. destruct p; [apply tcp_server_dec_total|apply rtu_server_dec_total]. Qed.

(* ---- the framed read half over a total decoder: never NPanic, and an item strictly decreases
   buffered bytes + bytes still in the script + number of script events ---- *)
Definition mu (r : rstate) (q : list revt) : nat := (length (rbuf r) + rev_bytes q + length q)%nat.

Section Read.
  Context {I : Type}.
  Variable dec : list N -> list N * dres I.
  Hypothesis Hdec : dec_total dec.

  Lemma decode_eof_total buf b r : decode_eof dec buf = (b, r) ->
    r <> DPanic /\ (length b <= length buf)%nat /\ (forall i, r = DSome i -> (length b < length buf)%nat).
  Proof.
    unfold decode_eof. destruct (dec buf) as [b0 r0] eqn:Hd. destruct (Hdec _ _ _ Hd) as (H1 & H2 & H3).
    destruct r0 as [|i|k|]; try (intros H; injection H as <- <-; repeat split; auto; fail).
    destruct b0; intros H; injection H as <- <-; repeat split; auto; discriminate.
  Qed.

  Ltac arith3 := unfold mu in *; cbn [rbuf rev_bytes length] in *; rewrite ?app_length in *; cbn [length] in *; lia.
  Ltac solve3 := split; [discriminate|]; split; [arith3|first [discriminate|intros; arith3]].

  Lemma next_total : forall evs st bg r st' evs' bg',
    next dec st evs bg = (r, st', evs', bg') ->
    r <> NPanic /\ (mu st' evs' <= mu st evs)%nat /\ (forall i, r = NItem i -> (mu st' evs' < mu st evs)%nat).
  Proof.
    induction evs as [|e evs IH]; intros st bg r st' evs' bg' H; rewrite next_eq in H.
    - destruct (rerrored st); [injection H as <- <- <- <-; solve3|].
      unfold attempt in H. destruct (rreadable st).
      + destruct (reof st).
        * destruct (decode_eof dec (rbuf st)) as [b0 r0] eqn:Hd. destruct (decode_eof_total _ _ _ Hd) as (H1 & H2 & H3).
          destruct r0 as [|i|k|]; try congruence; injection H as <- <- <- <-; try solve3.
          pose proof (H3 i eq_refl). solve3.
        * destruct (dec (rbuf st)) as [b0 r0] eqn:Hd. destruct (Hdec _ _ _ Hd) as (H1 & H2 & H3).
          destruct r0 as [|i|k|]; try congruence; injection H as <- <- <- <-; try solve3.
          pose proof (H3 i eq_refl). solve3.
      + injection H as <- <- <- <-. solve3.
    - destruct (rerrored st); [injection H as <- <- <- <-; solve3|].
      unfold attempt in H.
      assert (Hgo : forall st1, (length (rbuf st1) <= length (rbuf st))%nat ->
                match e :: evs with
                | [] => (NWait, st1, [], bg)
                | RPend :: evs' => match spend bg with None => (NAbandon, st1, evs', bg) | Some bg' => next dec st1 evs' bg' end
                | RErr k :: evs' => (NErr k, mkR (rbuf st1) (reof st1) (rreadable st1) true, evs', bg)
                | REof :: evs' | RData [] :: evs' => if reof st1 then (NEnd, st1, evs', bg) else next dec (mkR (rbuf st1) true true false) evs' bg
                | RData c :: evs' => next dec (mkR (rbuf st1 ++ c) false true false) evs' bg
                end = (r, st', evs', bg') ->
                r <> NPanic /\ (mu st' evs' <= mu st (e :: evs))%nat /\ (forall i, r = NItem i -> (mu st' evs' < mu st (e :: evs))%nat)).
      { intros st1 Hle Hm. destruct e as [c| |k|].
        - destruct c as [|c0 c].
          + destruct (reof st1).
            * injection Hm as <- <- <- <-. solve3.
            * destruct (IH _ _ _ _ _ _ Hm) as (G1 & G2 & G3). split; [exact G1|]. split; [arith3|]. intros i Hi. specialize (G3 i Hi). arith3.
          + destruct (IH _ _ _ _ _ _ Hm) as (G1 & G2 & G3). split; [exact G1|]. split; [arith3|]. intros i Hi. specialize (G3 i Hi). arith3.
        - destruct (reof st1).
          + injection Hm as <- <- <- <-. solve3.
          + destruct (IH _ _ _ _ _ _ Hm) as (G1 & G2 & G3). split; [exact G1|]. split; [arith3|]. intros i Hi. specialize (G3 i Hi). arith3.
        - injection Hm as <- <- <- <-. solve3.
        - destruct (spend bg).
          + destruct (IH _ _ _ _ _ _ Hm) as (G1 & G2 & G3). split; [exact G1|]. split; [arith3|]. intros i Hi. specialize (G3 i Hi). arith3.
          + injection Hm as <- <- <- <-. solve3. }
      destruct (rreadable st).
      + destruct (reof st).
        * destruct (decode_eof dec (rbuf st)) as [b0 r0] eqn:Hd. destruct (decode_eof_total _ _ _ Hd) as (H1 & H2 & H3).
          destruct r0 as [|i|k|]; try congruence; injection H as <- <- <- <-; try solve3.
          pose proof (H3 i eq_refl). solve3.
        * destruct (dec (rbuf st)) as [b0 r0] eqn:Hd. destruct (Hdec _ _ _ Hd) as (H1 & H2 & H3).
          destruct r0 as [|i|k|]; try congruence.
          -- apply (Hgo (mkR b0 false false false)); [exact H2|exact H].
          -- injection H as <- <- <- <-. pose proof (H3 i eq_refl). solve3.
          -- injection H as <- <- <- <-. solve3.
      + apply (Hgo st); [lia|exact H].
  Qed.
End Read.

(* ---- the client call never panics ---- *)
Theorem call_no_panic p m st req bg : fst (call p m st req bg) <> CRPanic.
Proof.
  unfold call. destruct (framed st); cbn [negb]; [|discriminate].
  destruct (send _ _ _) as [[[r w1] bg1] pn] eqn:Hs.
  assert (Hpn : pn = false).
  { destruct pn; [|reflexivity]. exfalso. apply send_panic_flag in Hs. eapply client_enc_no_panic; eauto. }
  subst pn. destruct r; try discriminate.
  destruct (next _ _ _ _) as [[[nr r1] q1] bg2] eqn:Hn.
  destruct (next_total (client_dec p) (client_dec_total p) _ _ _ _ _ _ _ Hn) as (Hnp & _).
  destruct nr as [[rh rr]|k| | | |]; try discriminate; try congruence.
  - destruct (negb _); [cbn; discriminate|]. destruct (negb _); [cbn; discriminate|]. destruct rr; cbn; discriminate.
  - destruct (next (client_dec p) r1 q1 (Some 0%nat)) as [[[nr2 r2] q2] bg3]. cbn. discriminate.
Qed.

(* a successful reply was produced by the response decoder *)
Lemma client_item_decoded p buf b h r : client_dec p buf = (b, DSome (h, RROk r)) -> exists pdu, dec_rsp pdu = Val r.
Proof.
  assert (Hpdu : forall pdu, dec_rsp_pdu pdu = Val (RROk r) -> exists pdu', dec_rsp pdu' = Val r).
  { intros pdu H. unfold dec_rsp_pdu in H. destruct pdu as [|f t]; [discriminate|]. cbn [rd8 bind] in H.
    destruct (f <? 128).
    - destruct (dec_rsp (f :: t)) as [v| |] eqn:Hd; cbn in H; try discriminate. injection H as <-. eauto.
    - destruct (dec_exc (f :: t)); cbn in H; discriminate. }
  destruct p; cbn [client_dec]; unfold tcp_client_dec, rtu_client_dec; intros H.
  - destruct (adu_decode buf) as [b0 [|[h0 pdu]|k|]]; try discriminate.
    destruct (dec_rsp_pdu pdu) as [rr| |] eqn:Hd; try discriminate. injection H as _ _ ->. eauto.
  - destruct (rtu_frame_dec rsp_pdu_len buf) as [b0 [|[s pdu]|k|]]; try discriminate.
    destruct (dec_rsp_pdu pdu) as [rr| |] eqn:Hd; try discriminate. injection H as _ _ ->. eauto.
Qed.

(* the typed methods never panic: for every transport behaviour and every reply a server can send *)
Theorem typed_no_panic p m st req bg : is_typed_req req = true -> fst (typed p m st req bg) <> TRErr CRPanic.
Proof.
  intros Ht. rewrite typed_result_shape.
  pose proof (call_no_panic p m st req bg) as Hnp.
  destruct (fst (call p m st req bg)) eqn:Hc; try discriminate; try congruence.
  (* CROk r: r came out of the response decoder and carries the request's function code *)
  assert (Hs : is_success (fst (call p m st req bg)) = true) by (rewrite Hc; reflexivity).
  destruct (call_success_only_if p m st req bg Hs) as (rr & Hr & Hfc & Hres).
  rewrite Hc in Hres. destruct rr as [r0|e]; [|discriminate]. injection Hres as ->.
  unfold call_reply in Hr. destruct (framed st); [|discriminate]. cbn [negb] in Hr.
  destruct (send _ _ _) as [[[sr w1] bg1] pn]. destruct sr; try discriminate. destruct pn; [discriminate|].
  destruct (next _ _ _ _) as [[[nr r1] q1] bg2] eqn:Hn. destruct nr as [i| | | | |]; try discriminate. injection Hr as ->.
  destruct (next_item_from_dec (client_dec p) _ _ _ _ _ _ _ Hn) as (buf & b' & Hd).
  destruct (client_item_decoded p buf b' _ r0 Hd) as (pdu & Hp).
  eapply typed_post_no_panic; eauto.
Qed.

(* ---- the server loop never panics and terminates ---- *)
Theorem process_total p m : forall fuel r w q svc,
  ~ In TPanic (process fuel p m r w q svc) /\ ((mu r q < fuel)%nat -> ~ In TOutOfFuel (process fuel p m r w q svc)).
Proof.
  induction fuel as [|fuel IH]; intros r w q svc.
  - cbn. split; [intros [H|[]]; discriminate|lia].
  - cbn [process]. destruct (next (server_dec p) r q None) as [[[nr r1] q1] bg1] eqn:Hn.
    destruct (next_total (server_dec p) (server_dec_total p) _ _ _ _ _ _ _ Hn) as (Hnp & Hle & Hlt).
    destruct nr as [[h req]|k| | | |]; try congruence;
      try (split; [intros [H|[]]; discriminate|intros _ [H|[]]; discriminate]).
    assert (Hmu : (mu r q < S fuel)%nat -> (mu r1 q1 < fuel)%nat) by (specialize (Hlt _ eq_refl); lia).
    (* the request came out of the request decoder: its function code is below 0x80 *)
    destruct (next_item_from_dec (server_dec p) _ _ _ _ _ _ _ Hn) as (buf & b' & Hd).
    assert (Hfc : fc_value (req_fc req) < 0x80).
    { destruct p; cbn [server_dec] in Hd; unfold tcp_server_dec, rtu_server_dec in Hd.
      - destruct (adu_decode buf) as [b0 [|[h0 pdu]|k|]]; try discriminate.
        destruct (dec_req pdu) as [rq| |] eqn:Hq; try discriminate. injection Hd as _ _ ->. eapply dec_req_fc_lt; eauto.
      - destruct (rtu_frame_dec req_pdu_len buf) as [b0 [|[s pdu]|k|]]; try discriminate.
        destruct (dec_req pdu) as [rq| |] eqn:Hq; try discriminate. injection Hd as _ _ ->. eapply dec_req_fc_lt; eauto. }
    set (rep := match svc with [] => SDecline | x :: _ => x end).
    destruct rep as [rsp| |c] eqn:Hrep.
    + (* reply *)
      pose proof (server_enc_no_panic p m h req (SReply rsp) (RROk rsp) Hfc eq_refl) as Hse.
      destruct (send _ _ _) as [[[sr w1] bg2] pn] eqn:Hs.
      assert (Hpn : pn = false).
      { destruct pn; [|reflexivity]. exfalso. apply send_panic_flag in Hs. congruence. }
      subst pn. destruct (IH r1 w1 q1 (tl svc)) as [I1 I2].
      split.
      * intros [H|H]; [discriminate|]. destruct sr; apply in_app_or in H; destruct H as [H|H];
          try (unfold wrote in H; destruct (accepted w1); destruct H as [H|[]]; discriminate; fail);
          try (unfold wrote in H; destruct (accepted w1); [destruct H|destruct H as [H|[]]; discriminate]; fail);
          try (destruct H as [H|[]]; discriminate); auto.
      * intros Hm [H|H]; [discriminate|]. destruct sr; apply in_app_or in H; destruct H as [H|H];
          try (unfold wrote in H; destruct (accepted w1); [destruct H|destruct H as [H|[]]; discriminate]; fail);
          try (destruct H as [H|[]]; discriminate). apply (I2 (Hmu Hm) H).
    + (* decline *)
      destruct (IH r1 w q1 (tl svc)) as [I1 I2]. split.
      * intros [H|H]; [discriminate|auto].
      * intros Hm [H|H]; [discriminate|]. apply (I2 (Hmu Hm) H).
    + (* exception *)
      pose proof (server_enc_no_panic p m h req (SExc c) _ Hfc eq_refl) as Hse.
      destruct (send _ _ _) as [[[sr w1] bg2] pn] eqn:Hs.
      assert (Hpn : pn = false).
      { destruct pn; [|reflexivity]. exfalso. apply send_panic_flag in Hs. congruence. }
      subst pn. destruct (IH r1 w1 q1 (tl svc)) as [I1 I2].
      split.
      * intros [H|H]; [discriminate|]. destruct sr; apply in_app_or in H; destruct H as [H|H];
          try (unfold wrote in H; destruct (accepted w1); [destruct H|destruct H as [H|[]]; discriminate]; fail);
          try (destruct H as [H|[]]; discriminate); auto.
      * intros Hm [H|H]; [discriminate|]. destruct sr; apply in_app_or in H; destruct H as [H|H];
          try (unfold wrote in H; destruct (accepted w1); [destruct H|destruct H as [H|[]]; discriminate]; fail);
          try (destruct H as [H|[]]; discriminate). apply (I2 (Hmu Hm) H).
Qed.

(* with the fuel the runner uses, the loop always terminates by itself *)
Theorem serve_conn_terminates p m q wq fq svc :
  ~ In TOutOfFuel (serve_conn p m q wq fq svc) /\ ~ In TPanic (serve_conn p m q wq fq svc).
Proof.
  unfold serve_conn. destruct (process_total p m (process_fuel q) rstate0 (mkW [] wq fq []) q svc) as [H1 H2].
  split; [apply H2; unfold mu, process_fuel; cbn; lia|exact H1].
Qed.
