(* Spec.v -- the specification side of the PDU theorems, written by shape from the Modbus
   Application Protocol and the property statements, independently of the decoders/encoders
   of model/Pdu.v: wire encodings and boolean well-formedness classifiers with their value. *)
From TM Require Import Base Frame Pdu BaseLemmas Coils.

(* ---- spec encodings ---- *)
(* byte i of the packed coils holds coils 8i .. 8i+7, least significant bit first *)
Definition spec_byte (bs : list bool) (i : nat) : N := bits_val (firstn 8 (skipn (8 * i) bs)).
Definition spec_pack (bs : list bool) : list N := map (spec_byte bs) (seq 0 ((length bs + 7) / 8)).

Definition word_bytes (w : N) : list N := [w / 256; w mod 256].

Definition spec_req_pdu (r : request) : list N :=
  match r with
  | ReqReadCoils a q => [0x01] ++ word_bytes a ++ word_bytes q
  | ReqReadDiscreteInputs a q => [0x02] ++ word_bytes a ++ word_bytes q
  | ReqReadHoldingRegisters a q => [0x03] ++ word_bytes a ++ word_bytes q
  | ReqReadInputRegisters a q => [0x04] ++ word_bytes a ++ word_bytes q
  | ReqWriteSingleCoil a b => [0x05] ++ word_bytes a ++ (if b then [0xFF; 0x00] else [0x00; 0x00])
  | ReqWriteSingleRegister a w => [0x06] ++ word_bytes a ++ word_bytes w
  | ReqWriteMultipleCoils a bs =>
      [0x0F] ++ word_bytes a ++ word_bytes (len bs) ++ [len (spec_pack bs)] ++ spec_pack bs
  | ReqWriteMultipleRegisters a ws =>
      [0x10] ++ word_bytes a ++ word_bytes (len ws) ++ [2 * len ws] ++ flat_map word_bytes ws
  | ReqReportServerId => [0x11]
  | ReqMaskWriteRegister a am om => [0x16] ++ word_bytes a ++ word_bytes am ++ word_bytes om
  | ReqReadWriteMultipleRegisters ra rq wa ws =>
      [0x17] ++ word_bytes ra ++ word_bytes rq ++ word_bytes wa ++ word_bytes (len ws) ++ [2 * len ws]
      ++ flat_map word_bytes ws
  | ReqCustom fc d => fc :: d
  end.

Definition spec_rsp_pdu (r : response) : list N :=
  match r with
  | RspReadCoils bs => [0x01; len (spec_pack bs)] ++ spec_pack bs
  | RspReadDiscreteInputs bs => [0x02; len (spec_pack bs)] ++ spec_pack bs
  | RspReadHoldingRegisters ws => [0x03; 2 * len ws] ++ flat_map word_bytes ws
  | RspReadInputRegisters ws => [0x04; 2 * len ws] ++ flat_map word_bytes ws
  | RspReadWriteMultipleRegisters ws => [0x17; 2 * len ws] ++ flat_map word_bytes ws
  | RspWriteSingleCoil a b => [0x05] ++ word_bytes a ++ (if b then [0xFF; 0x00] else [0x00; 0x00])
  | RspWriteMultipleCoils a q => [0x0F] ++ word_bytes a ++ word_bytes q
  | RspWriteMultipleRegisters a q => [0x10] ++ word_bytes a ++ word_bytes q
  | RspWriteSingleRegister a w => [0x06] ++ word_bytes a ++ word_bytes w
  | RspReportServerId id run d => [0x11; 2 + len d; id; if run then 0xFF else 0x00] ++ d
  | RspMaskWriteRegister a am om => [0x16] ++ word_bytes a ++ word_bytes am ++ word_bytes om
  | RspCustom fc d => fc :: d
  end.

Definition spec_exc_pdu (fc code : N) : list N := [fc + 0x80; code].

(* a value as the client sees it: bit vectors padded with false to whole bytes *)
Definition pad_bits (bs : list bool) : list bool := bs ++ repeat false (pad_len (length bs)).
Definition pad_rsp (r : response) : response :=
  match r with
  | RspReadCoils bs => RspReadCoils (pad_bits bs)
  | RspReadDiscreteInputs bs => RspReadDiscreteInputs (pad_bits bs)
  | _ => r
  end.

(* ---- classifiers: Some v = well-formed with meaning v, None = ill-formed ---- *)
Definition u16 (h l : N) : N := h * 256 + l.

Definition fixed4 (mk : N -> N -> request) (r : list N) : option request :=
  match r with [a1; a2; q1; q2] => Some (mk (u16 a1 a2) (u16 q1 q2)) | _ => None end.

Definition wf_req (bs : list N) : option request :=
  match bs with
  | [] => None
  | fc :: r =>
      if fc =? 0x01 then fixed4 ReqReadCoils r
      else if fc =? 0x02 then fixed4 ReqReadDiscreteInputs r
      else if fc =? 0x03 then fixed4 ReqReadHoldingRegisters r
      else if fc =? 0x04 then fixed4 ReqReadInputRegisters r
      else if fc =? 0x06 then fixed4 ReqWriteSingleRegister r
      else if fc =? 0x05 then
        match r with
        | [a1; a2; v1; v2] =>
            if u16 v1 v2 =? 0xFF00 then Some (ReqWriteSingleCoil (u16 a1 a2) true)
            else if u16 v1 v2 =? 0x0000 then Some (ReqWriteSingleCoil (u16 a1 a2) false)
            else None
        | _ => None
        end
      else if fc =? 0x0F then
        match r with
        | a1 :: a2 :: q1 :: q2 :: bc :: data =>
            if (len bs <=? 253) && (len data =? bc) && (u16 q1 q2 <=? 8 * bc)
            then Some (ReqWriteMultipleCoils (u16 a1 a2) (firstn (N.to_nat (u16 q1 q2)) (all_bits data)))
            else None
        | _ => None
        end
      else if fc =? 0x10 then
        match r with
        | a1 :: a2 :: q1 :: q2 :: bc :: data =>
            if (len bs <=? 253) && (bc =? 2 * u16 q1 q2) && (len data =? bc)
            then Some (ReqWriteMultipleRegisters (u16 a1 a2) (words_of data))
            else None
        | _ => None
        end
      else if fc =? 0x11 then match r with [] => Some ReqReportServerId | _ => None end
      else if fc =? 0x16 then
        match r with
        | [a1; a2; x1; x2; y1; y2] => Some (ReqMaskWriteRegister (u16 a1 a2) (u16 x1 x2) (u16 y1 y2))
        | _ => None
        end
      else if fc =? 0x17 then
        match r with
        | a1 :: a2 :: q1 :: q2 :: w1 :: w2 :: n1 :: n2 :: bc :: data =>
            if (len bs <=? 253) && (bc =? 2 * u16 n1 n2) && (len data =? bc)
            then Some (ReqReadWriteMultipleRegisters (u16 a1 a2) (u16 q1 q2) (u16 w1 w2) (words_of data))
            else None
        | _ => None
        end
      else if fc <? 0x80 then Some (ReqCustom fc r)
      else None
  end.

Definition wf_bits (mk : list bool -> response) (bs r : list N) : option response :=
  match r with
  | bc :: data => if (len bs <=? 253) && (len data =? bc) then Some (mk (all_bits data)) else None
  | _ => None
  end.
Definition wf_words (mk : list N -> response) (bs r : list N) : option response :=
  match r with
  | bc :: data => if (len bs <=? 253) && (bc mod 2 =? 0) && (len data =? bc) then Some (mk (words_of data)) else None
  | _ => None
  end.
Definition fixed4r (mk : N -> N -> response) (r : list N) : option response :=
  match r with [a1; a2; q1; q2] => Some (mk (u16 a1 a2) (u16 q1 q2)) | _ => None end.

Definition wf_rsp (bs : list N) : option response :=
  match bs with
  | [] => None
  | fc :: r =>
      if fc =? 0x01 then wf_bits RspReadCoils bs r
      else if fc =? 0x02 then wf_bits RspReadDiscreteInputs bs r
      else if fc =? 0x03 then wf_words RspReadHoldingRegisters bs r
      else if fc =? 0x04 then wf_words RspReadInputRegisters bs r
      else if fc =? 0x17 then wf_words RspReadWriteMultipleRegisters bs r
      else if fc =? 0x05 then
        match r with
        | [a1; a2; v1; v2] =>
            if u16 v1 v2 =? 0xFF00 then Some (RspWriteSingleCoil (u16 a1 a2) true)
            else if u16 v1 v2 =? 0x0000 then Some (RspWriteSingleCoil (u16 a1 a2) false)
            else None
        | _ => None
        end
      else if fc =? 0x06 then fixed4r RspWriteSingleRegister r
      else if fc =? 0x0F then fixed4r RspWriteMultipleCoils r
      else if fc =? 0x10 then fixed4r RspWriteMultipleRegisters r
      else if fc =? 0x11 then
        match r with
        | bc :: id :: st :: d =>
            if (len bs <=? 253) && (2 <=? bc) && (len d + 2 =? bc) && ((st =? 0x00) || (st =? 0xFF))
            then Some (RspReportServerId id (st =? 0xFF) d)
            else None
        | _ => None
        end
      else if fc =? 0x16 then
        match r with
        | [a1; a2; x1; x2; y1; y2] => Some (RspMaskWriteRegister (u16 a1 a2) (u16 x1 x2) (u16 y1 y2))
        | _ => None
        end
      else Some (RspCustom fc r)
  end.

(* the function codes the library gives a typed meaning *)
Definition modelled_fc (fc : N) : bool :=
  (fc =? 0x01) || (fc =? 0x02) || (fc =? 0x03) || (fc =? 0x04) || (fc =? 0x05) || (fc =? 0x06)
  || (fc =? 0x0F) || (fc =? 0x10) || (fc =? 0x11) || (fc =? 0x16) || (fc =? 0x17).
