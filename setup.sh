#!/bin/sh
# Build the whole framework offline from files on disk: full .vo build of the Coq development
# (model, proofs, property theorems, extraction), the OCaml driver, the Rust harness (debug+release).
set -e
cd "$(dirname "$0")"
export CARGO_NET_OFFLINE=true CARGO_TARGET_DIR="$(pwd)/.cache/target"
mkdir -p .cache/ocaml .cache/target evidence replays
python3 tools/translate.py "${VERIF_REPO:-/repo}" coq/gen/Generated.v >/dev/null
( cd coq && coq_makefile -f _CoqProject -o Makefile >/dev/null && timeout 3300 make -j16 )
cp coq/model.ml coq/model.mli ocaml/driver.ml .cache/ocaml/
( cd .cache/ocaml && ocamlfind ocamlopt -w -a model.mli model.ml driver.ml -o driver )
[ -f harness/Cargo.lock ] || cp /repo/Cargo.lock harness/Cargo.lock
( cd harness && cargo build --offline && cargo build --offline --release )
echo "setup done"
