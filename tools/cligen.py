"""cligen -- helpers to build client / server scenario lines and to parse their results."""
import mb

KINDS = ["Other", "ConnectionReset", "ConnectionAborted", "ConnectionRefused", "PermissionDenied", "AddrInUse",
         "AlreadyExists", "NotFound", "Unsupported", "OutOfMemory", "HostUnreachable", "AddrNotAvailable",
         "UnexpectedEof", "InvalidData", "InvalidInput", "BrokenPipe", "NotConnected", "WriteZero", "TimedOut", "Interrupted", "WouldBlock"]
CLOSED_FAMILY = {"BrokenPipe", "ConnectionAborted", "ConnectionReset", "UnexpectedEof", "NotConnected"}


def frame(proto, tid, uid, pdu):
    return mb.tcp_frame(tid, uid, pdu) if proto == "tcp" else mb.rtu_frame(uid, pdu)


def call_op(req, W="-", F="-", R="-", drop="-", typed=False):
    return "%s %s %s %s %s %s" % ("typed" if typed else "call", mb.show_req(req) if not isinstance(req, str) else req, W, F, R, drop)


def cli_line(proto, slave, ops):
    return "CLI %s %d %s" % (proto, slave, " ; ".join(ops))


def split_results(s):
    return (s or "").split(" ; ")


def res_and_w(op_result):
    """'OK:... w=hex' -> (result, bytes)"""
    if " w=" in op_result:
        r, w = op_result.rsplit(" w=", 1)
        w = w.split(" q=")[0]
        return r, mb.unhex(w)
    return op_result, b""


def unread(op_result):
    """number of read events still queued in the transport after the op (None if not reported)"""
    if " q=" in op_result:
        try:
            return int(op_result.rsplit(" q=", 1)[1])
        except ValueError:
            return None
    return None


def exc_pdu(fc, code):
    return bytes([(fc + 0x80) & 0xFF, code])


def show_rr_rsp(rsp):
    return "R:" + mb.show_rsp(rsp)


def rtu_supported_req(req):
    """does the RTU request length table carry this request's frame?"""
    k = req[0]
    if k != "CU":
        return True
    fc, d = req[1], req[2]
    return (fc in (0x07, 0x0B, 0x0C) and len(d) == 0) or (fc == 0x18 and len(d) == 2)


def rtu_supported_rsp_pdu(pdu):
    """does the RTU response length table infer exactly len(pdu) for this PDU?"""
    fc = pdu[0]
    n = len(pdu)
    if fc in (1, 2, 3, 4, 0x0C, 0x11, 0x17):
        return n >= 2 and n == 2 + pdu[1]
    if fc in (5, 6, 0x0B, 0x0F, 0x10):
        return n == 5
    if fc == 7:
        return n == 2
    if fc == 0x16:
        return n == 7
    if fc == 0x18:
        return n >= 3 and n == 3 + ((pdu[1] << 8) | pdu[2])
    if 0x81 <= fc <= 0xAB:
        return n == 2
    return False


def ser_case(parts, svc_tokens, exp_trace, end="w", abort=False, meta=None):
    """A case for the serial RTU server (`server::rtu::Server`) over a pty: the chunks `parts` are written to the line, the
    table service answers; `exp_trace` (spec side) tells the harness how many invocations / reply bytes to wait for.
    The model runs the equivalent `SRV rtu` line."""
    from vlib import Case
    ncalls = sum(1 for t in exp_trace if t.startswith("C:"))
    nbytes = sum(len(t[2:]) // 2 for t in exp_trace if t.startswith("W:"))
    rs = mb.rscript(parts)
    line = "SERSRV %s %s %d %d %s%s" % (rs, svc_tokens, ncalls, nbytes, end, " abort" if abort else "")
    m = dict(meta or {})
    m.update(ser=True, abort=abort, model_line="SRV rtu %s - - %s" % (rs, svc_tokens))
    return Case(line, m)
