#!/usr/bin/env python3
"""usage: tools/retry_mutant.py <name> <Cxx> [Cyy ...]
Re-runs the given checks against /repo with seeded/<name>/patch.diff applied (tools/try_mutant.sh restores /repo) and
records the new outcome in seeded/<name>/meta.json; a check that used to pass and now reports the change is noted in `history`."""
import json, os, re, subprocess, sys
V = os.path.dirname(os.path.dirname(os.path.abspath(__file__)))
name, checks = sys.argv[1], sys.argv[2:]
d = os.path.join(V, "seeded", name)
meta = json.load(open(os.path.join(d, "meta.json")))
r = subprocess.run([os.path.join(V, "tools/try_mutant.sh"), os.path.join(d, "patch.diff")] + checks, capture_output=True, text=True)
print(r.stdout[-2500:])
for l in r.stdout.split("\n"):
    m = re.match(r"^(C\d\d) rc=(\d+) ?(.*)", l)
    if not m:
        continue
    c, rc, line = m.group(1), int(m.group(2)), m.group(3)[:200]
    old = meta.get("checks_run", {}).get(c)
    new = "VIOLATION" if rc == 1 else "passed" if rc == 0 else "error"
    if old == "passed" and new == "VIOLATION":
        meta.setdefault("history", []).append("%s first passed on this change; the check was strengthened and now reports it" % c)
        new = "VIOLATION (after strengthening)"
    meta.setdefault("checks_run", {})[c] = new
    if rc != 0:
        meta.setdefault("detail", {})[c] = line
json.dump(meta, open(os.path.join(d, "meta.json"), "w"), indent=1)
print("updated", name, meta["checks_run"])
