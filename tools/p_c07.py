"""C07 -- the server answers every request once, in order, under the request's own header."""
from runner import Prop
from vlib import Case
import mb, cligen, vlib


def gen_pipeline(rng, proto, n):
    """returns (frames, hdrs, reqs, svc entries)"""
    frames, hdrs, reqs, svc = [], [], [], []
    for i in range(n):
        if i > 0 and rng.random() < 0.2:
            # the SAME request again, byte for byte (cyclic writes do that); an echoing reply then equals the request frame itself
            frames.append(frames[-1]); hdrs.append(hdrs[-1]); reqs.append(reqs[-1])
            svc.append(svc[-1] if rng.random() < 0.7 else ("exc", rng.randrange(256)))
            continue
        while True:
            req = mb.rnd_req(rng, rng.choice(["WSC", "WSR", "MWR"])) if rng.random() < 0.25 else mb.rnd_req(rng)
            if mb.spec_req_size(req) <= 253 and (proto == "tcp" or cligen.rtu_supported_req(req)) and (proto == "tcp" or mb.spec_req_size(req) <= 60):
                break
        cl = mb.classify_req(mb.spec_req_pdu(req))
        if cl[0] != "accept":
            req = ("RHR", 1, 1)
            cl = ("accept", req)
        creq = cl[1]
        tid, uid = rng.randrange(65536), rng.randrange(256)
        r = rng.random()
        if r < 0.55:
            rsp = mb.matching_rsp(rng, creq)
            if mb.spec_rsp_size(rsp) > 253 or (proto == "rtu" and False):
                rsp = ("WSR", 1, 2)
            svc.append(("rsp", rsp))
        elif r < 0.75:
            svc.append(("none",))
        else:
            svc.append(("exc", rng.randrange(256)))
        frames.append(cligen.frame(proto, tid, uid, mb.spec_req_pdu(req)))
        hdrs.append((tid if proto == "tcp" else 0, uid))
        reqs.append(creq)
    return frames, hdrs, reqs, svc


def svc_tok(e):
    return "r=" + mb.show_rsp(e[1]) if e[0] == "rsp" else ("x=%d" % e[1] if e[0] == "exc" else "n")


def expected_trace(proto, hdrs, reqs, svc):
    out = []
    for (tid, uid), req, e in zip(hdrs, reqs, svc):
        out.append("C:%d:%s" % (uid, mb.show_req(req)))
        if e[0] == "rsp":
            out.append("W:" + cligen.frame(proto, tid, uid, mb.spec_rsp_pdu(e[1])).hex())
        elif e[0] == "exc":
            out.append("W:" + cligen.frame(proto, tid, uid, bytes([mb.req_fc(req) + 0x80, e[1]])).hex())
    return out


class PROP(Prop):
    id = "C07"
    profiles = ["debug"]
    rule = ("pipelined request sequences (1..12 requests, every variant, random headers) with mixed answered / declined / failing service replies, "
            "delivered to the real TCP and RTU-over-TCP servers in one chunk, byte-wise, and under random chunkings; write scripts with small "
            "accepts and pendings; a write or flush fault of every kind (incl. Interrupted / WouldBlock) at a random offset of the reply stream (what was written must be a prefix of the replies in order); the same pipelines written to a pty served by the real serial RTU server (server::rtu, serve_until).  Oracle: the interleaved trace of service invocations and transport writes equals, per request in arrival "
            "order, one invocation followed by exactly one spec-encoded reply frame under the request's header (nothing when declined, "
            "fc|0x80 + code when the service failed).  non-trivial = pipeline with >= 2 requests or a split frame")

    def cases(self, rng, tier):
        cs = []
        n = 600 if tier == "quick" else 6000
        for proto in ("tcp", "rtu"):
            for _ in range(n):
                k = rng.choice([1, 1, 2, 3, 4, 6, 12])
                frames, hdrs, reqs, svc = gen_pipeline(rng, proto, k)
                stream = b"".join(frames)
                mode = rng.random()
                if mode < 0.25:
                    parts = [stream]
                elif mode < 0.4 and len(stream) < 200:
                    parts = [stream[i:i + 1] for i in range(len(stream))]
                elif mode < 0.55:
                    parts = frames
                else:
                    parts = mb.chunkings(stream, rng, 1)[0]
                W = rng.choice(["-", "-", "a1,a2,p,a3", "p,a5,p,a1000"])
                line = "SRV %s %s %s - %s" % (proto, mb.rscript(parts), W, ",".join(svc_tok(e) for e in svc))
                cs.append(Case(line, {"proto": proto, "exp": expected_trace(proto, hdrs, reqs, svc), "k": k, "nparts": len(parts)}))
                # the serial RTU server (its own copy of the loop) over a pty
                if proto == "rtu" and rng.random() < (0.35 if tier == "quick" else 0.2):
                    exp = expected_trace(proto, hdrs, reqs, svc)
                    cs.append(cligen.ser_case(parts, ",".join(svc_tok(e) for e in svc), exp, "w", abort=rng.random() < 0.2,
                                              meta={"proto": "serial", "exp": exp, "k": k, "nparts": len(parts)}))
            # a write fault of any kind (also the "transient" ones) at any point of the reply stream: whatever was written is a prefix
            # of the replies in request order -- no reply is started twice, none is written after the fault
            for _ in range(150 if tier == "quick" else 1500):
                k = rng.choice([1, 2, 3, 4])
                frames, hdrs, reqs, svc = gen_pipeline(rng, proto, k)
                exp = expected_trace(proto, hdrs, reqs, svc)
                replies = "".join(e[2:] for e in exp if e.startswith("W:"))
                total = len(replies) // 2
                if total == 0:
                    continue
                off = rng.randrange(total)
                fault = rng.choice(["e:Interrupted", "e:Interrupted", "e:WouldBlock", "e:TimedOut", "e:BrokenPipe", "e:Other", "z"])
                pre = []
                left = off
                while left > 0:
                    nacc = rng.randrange(1, left + 1)
                    pre.append("a%d" % nacc)
                    left -= nacc
                if rng.random() < 0.3:
                    pre = [x for e in pre for x in (e, "p")]
                W = ",".join(pre + [fault])
                F = rng.choice(["-", "-", "ok", "e:Interrupted"]) if fault != "z" else "-"
                line = "SRV %s %s %s %s %s" % (proto, mb.rscript([b"".join(frames)]), W, F, ",".join(svc_tok(e) for e in svc))
                cs.append(Case(line, {"proto": proto, "wf": True, "replies": replies, "off": off, "fault": fault, "k": k, "nparts": 1}))
        return cs

    def project(self, c, s):
        return vlib.ser_norm(s, c.meta.get("abort")) if c.meta.get("ser") else s

    def oracle(self, c):
        if c.meta.get("ser"):
            want = vlib.ser_norm(",".join(c.meta["exp"] + ["WAIT"]), c.meta.get("abort"))
            got = vlib.ser_norm(c.impl or "", c.meta.get("abort"))
            return None if got == want else "serial RTU server: got %s, want %s" % (got[:150], want[:150])
        tr = (c.impl or "").split(",")
        if "PANIC" in tr:
            return "panic"
        if c.meta.get("wf"):
            written = "".join(t[2:] for t in tr if t.startswith("W:"))
            if not c.meta["replies"].startswith(written):
                return "after a write fault (%s at offset %d) the bytes written %s... are not a prefix of the replies in request order %s..." % (
                    c.meta["fault"], c.meta["off"], written[:80], c.meta["replies"][:80])
            return None
        exp = c.meta["exp"] + ["WAIT"]
        if tr != exp:
            for i, (a, b) in enumerate(zip(tr, exp)):
                if a != b:
                    return "trace differs at event %d: got %s, want %s" % (i, a[:70], b[:70])
            return "trace length %d, want %d (%s)" % (len(tr), len(exp), tr[-1][:40])
        return None

    def nontrivial(self, c):
        return c.meta["k"] >= 2 or c.meta["nparts"] >= 2 or c.meta.get("wf", False)
