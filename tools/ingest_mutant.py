#!/usr/bin/env python3
"""usage: tools/ingest_mutant.py <name> <property> <dir with patch.diff, mutant_demo.rs, NOTES.md> [checks to run ...]
Confirms the change in a fresh scratch worktree (tools/confirm_mutant.sh), stores it under seeded/<name>/ and
runs the given checks (default: all) against /repo with the change applied (tools/try_mutant.sh restores /repo)."""
import json, os, re, shutil, subprocess, sys
V = os.path.dirname(os.path.dirname(os.path.abspath(__file__)))
name, prop, src = sys.argv[1], sys.argv[2], sys.argv[3]
checks = sys.argv[4:]
out = subprocess.run([os.path.join(V, "tools/confirm_mutant.sh"), name, src], capture_output=True, text=True).stdout.strip().split("\n")[-1]
conf = json.loads(out)
ok = ("ok." in conf["demo_without_change"] and "Finished" in conf["build_all_features"]
      and "90 passed; 0 failed" in conf["pinned_suite_with_change"] and "FAILED" in conf["demo_with_change"])
print("confirmed" if ok else "NOT CONFIRMED", conf)
if not ok:
    sys.exit(1)
d = os.path.join(V, "seeded", name)
os.makedirs(d, exist_ok=True)
for f in ("patch.diff", "mutant_demo.rs", "NOTES.md"):
    if os.path.exists(os.path.join(src, f)):
        shutil.copy(os.path.join(src, f), os.path.join(d, f))
r = subprocess.run([os.path.join(V, "tools/try_mutant.sh"), os.path.join(d, "patch.diff")] + checks, capture_output=True, text=True)
print(r.stdout[-3000:])
det = {}
for l in r.stdout.split("\n"):
    m = re.match(r"^(C\d\d) rc=(\d+) ?(.*)", l)
    if m:
        det[m.group(1)] = {"rc": int(m.group(2)), "line": m.group(3)[:200]}
notes = open(os.path.join(src, "NOTES.md")).read() if os.path.exists(os.path.join(src, "NOTES.md")) else ""
meta = dict(name=name, breaks_property=prop, origin="written by an independent sub-agent given only the property text and a scratch worktree",
            needs_to_manifest=(re.search(r"(?is)(trigger|manifest)[^\n]*\n(.{0,600})", notes) or [None, None, ""])[2].strip()[:600],
            confirmed_by_me=conf,
            confirm_cmd="tools/confirm_mutant.sh %s seeded/%s" % (name, name),
            demo_cmd="cp seeded/%s/mutant_demo.rs <worktree>/tests/ && cargo test --offline --all-features --test mutant_demo" % name,
            checks_run={k: ("VIOLATION" if v["rc"] == 1 else "passed" if v["rc"] == 0 else "error") for k, v in det.items()},
            detail={k: v["line"] for k, v in det.items() if v["rc"] != 0})
json.dump(meta, open(os.path.join(d, "meta.json"), "w"), indent=1)
print("stored", d, meta["checks_run"])
