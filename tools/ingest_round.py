#!/usr/bin/env python3
"""usage: tools/ingest_round.py <round dir> <id>=<name> [<id>=<name> ...]
For every <round dir>/<id>/_mutant (patch.diff, mutant_demo.rs, NOTES.md) written by an independent sub-agent:
confirms the change in a fresh scratch worktree (tools/confirm_mutant.sh), stores it under seeded/<name>/ and records which
checks reported it in the batch run of that round (<round dir>/results/<id>.txt, written by tools/batch_round.sh on a
repository snapshot).  Checks strengthened afterwards are re-run with tools/retry_mutant.py."""
import json, os, re, shutil, subprocess, sys
V = os.path.dirname(os.path.dirname(os.path.abspath(__file__)))
rnd = sys.argv[1]
for arg in sys.argv[2:]:
    pid, name = arg.split("=")
    src = os.path.join(rnd, pid, "_mutant")
    d = os.path.join(V, "seeded", name)
    if os.path.exists(os.path.join(d, "meta.json")):
        print("already stored", name)
        continue
    out = subprocess.run([os.path.join(V, "tools/confirm_mutant.sh"), name, src], capture_output=True, text=True).stdout.strip().split("\n")[-1]
    try:
        conf = json.loads(out)
    except ValueError:
        print("NOT CONFIRMED (no summary)", name, out[:200])
        continue
    ok = ("ok." in conf["demo_without_change"] and "Finished" in conf["build_all_features"]
          and "90 passed; 0 failed" in conf["pinned_suite_with_change"] and "FAILED" in conf["demo_with_change"])
    print(name, "confirmed" if ok else "NOT CONFIRMED", conf)
    if not ok:
        continue
    os.makedirs(d, exist_ok=True)
    for f in ("patch.diff", "mutant_demo.rs", "NOTES.md"):
        if os.path.exists(os.path.join(src, f)):
            shutil.copy(os.path.join(src, f), os.path.join(d, f))
    det = {}
    res = os.path.join(rnd, "results", pid + ".txt")
    if os.path.exists(res):
        for l in open(res):
            m = re.match(r"^(C\d\d) rc=(\d+) ?(.*)", l)
            if m:
                det[m.group(1)] = {"rc": int(m.group(2)), "line": m.group(3)[:200]}
    notes = open(os.path.join(src, "NOTES.md")).read() if os.path.exists(os.path.join(src, "NOTES.md")) else ""
    meta = dict(name=name, breaks_property=pid[:3], origin="written by an independent sub-agent given only the property text and a scratch worktree",
                needs_to_manifest=(re.search(r"(?is)##\s*trigger[^\n]*\n(.{0,600})", notes) or [None, ""])[1].strip()[:600],
                confirmed_by_me=conf,
                confirm_cmd="tools/confirm_mutant.sh %s seeded/%s" % (name, name),
                demo_cmd="cp seeded/%s/mutant_demo.rs <worktree>/tests/ && cargo test --offline --all-features --test mutant_demo" % name,
                checks_run={k: ("VIOLATION" if v["rc"] == 1 else "passed" if v["rc"] == 0 else "error") for k, v in det.items()},
                detail={k: v["line"] for k, v in det.items() if v["rc"] != 0},
                run_note="checks run by tools/batch_round.sh against a snapshot of the repository with the change applied")
    json.dump(meta, open(os.path.join(d, "meta.json"), "w"), indent=1)
    print("stored", d, {k: v for k, v in meta["checks_run"].items() if v != "passed"})
