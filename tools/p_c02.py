"""C02 -- responses and exceptions reach the caller exactly as the service produced them."""
from e2e import E2E, canon_req, st1_obs, expected_result, result_ok
from vlib import Case
import mb, cligen


class PROP(E2E):
    id = "C02"
    rule = ("end-to-end through the real client and the real TCP / RTU-over-TCP / serial RTU (pty) servers, stage by stage under re-chunking and directly over loopback sockets and a pty: every response variant (payload lengths empty..maximal, "
            "bit patterns around byte boundaries), all 256 exception code values (ExceptionCode::new(c) and raw Custom(c)), for typed and raw custom "
            "requests, random chunkings in both directions and all compositions of short frames; sequences of exchanges on one client whose (fragmented) replies differ in length; one TCP client through 65 600 exchanges (more than a cycle of the transaction id).  Oracle: the server writes exactly the spec "
            "encoding under the request's header; the client returns the value padded to whole bytes / the same numeric exception code; typed bit "
            "reads return exactly the requested count.  non-trivial = distinct (request, reply, chunking) with a reply")

    def scenarios(self, rng, tier):
        n = 700 if tier == "quick" else 7000
        for proto in ("tcp", "rtu"):
            # all 256 exception codes
            for code in range(256):
                req = mb.rnd_req(rng, rng.choice(["RC", "RHR", "WSR", "WMR", "MWR", "RSI"]))
                yield dict(proto=proto, slave=rng.randrange(256), req=req, reply=("exc", code))
                yield dict(proto=proto, slave=rng.randrange(256), req=req, reply=("excraw", code))
            # raw custom requests carrying named / modelled function codes, answered normally and by exceptions
            for fc, data in [(0x2B, b"\x0e\x01\x00"), (0x03, b"\x00\x00\x00\x01"), (0x07, b""), (0x08, b"\x00\x00\xab\xcd"), (0x14, b"\x00"), (0x18, b"\x00\x01"), (0x11, b""), (0x41, b"\x01")]:
                req = ("CU", fc, data)
                if proto == "rtu" and not cligen.rtu_supported_req(req) and fc not in (3, 0x11):
                    continue
                cr = canon_req(req)
                rsp = mb.matching_rsp(rng, cr) if cr and cr[0] != "CU" else ("CU", fc, b"\x01\x02" if fc != 7 else b"\x55")
                if proto == "rtu" and not cligen.rtu_supported_rsp_pdu(mb.spec_rsp_pdu(rsp)):
                    rsp = None
                if rsp:
                    yield dict(proto=proto, slave=rng.randrange(256), req=req, reply=("rsp", rsp))
                yield dict(proto=proto, slave=rng.randrange(256), req=req, reply=("exc", rng.randrange(1, 12)))
            # bit patterns at byte boundaries, typed reads
            for q in [0, 1, 7, 8, 9, 15, 16, 17, 2000, 2007, 2008]:
                for k in ("RC", "RDI"):
                    bits = [rng.random() < 0.5 for _ in range(q)]
                    yield dict(proto=proto, slave=rng.randrange(256), req=(k, rng.randrange(65536), q), reply=("rsp", (k, bits)), typed=rng.random() < 0.5)
            for _ in range(n):
                req = mb.rnd_req(rng)
                if mb.spec_req_size(req) > 253 or (proto == "rtu" and not cligen.rtu_supported_req(req)):
                    continue
                cr = canon_req(req)
                if cr is None:
                    continue
                r = rng.random()
                if r < 0.75:
                    rsp = mb.matching_rsp(rng, cr) if rng.random() < 0.8 else mb.rnd_rsp(rng, cr[0] if cr[0] != "CU" else None)
                    if rsp[0] == "CU" and cr[0] == "CU":
                        rsp = ("CU", cr[1], rsp[2])
                    if mb.spec_rsp_size(rsp) > 253:
                        continue
                    if proto == "rtu" and not cligen.rtu_supported_rsp_pdu(mb.spec_rsp_pdu(rsp)):
                        continue
                    reply = ("rsp", rsp)
                else:
                    reply = ("exc", rng.randrange(256))
                typed = req[0] not in ("CU", "RSI") and rng.random() < 0.4 and reply[0] == "rsp" and reply[1][0] == req[0]
                yield dict(proto=proto, slave=rng.randrange(256), req=req, reply=reply, typed=typed,
                           allcomp=(rng.random() < 0.02 and mb.spec_req_size(req) <= 5))

    def cases(self, rng, tier):
        cs = super().cases(rng, tier)
        # one client, several exchanges in a row whose replies differ in length (long fragmented reply, then a short one: exception,
        # write echo; and the other way round): every call gets the reply the service produced for it
        shapes = [(("RHR", 10, 20), ("RHR", list(range(100, 120)))), (("RC", 0, 100), ("RC", [True, False] * 52)), (("WSR", 7, 9), ("WSR", 7, 9)),
                  (("RHR", 1, 1), ("RHR", [0xBEEF])), (("RIR", 5, 60), ("RIR", list(range(60)))), (("WMR", 3, [1, 2, 3]), ("WMR", 3, 3)), (("RSI",), ("RSI", 9, True, b"abcdefgh"))]
        seqs = []
        for _ in range(150 if tier == "quick" else 1500):
            proto = rng.choice(["tcp", "rtu"])
            slave = rng.randrange(1, 248)
            ops, wants = [], []
            for j in range(rng.randrange(2, 5)):
                req, rsp = rng.choice(shapes)
                exc = rng.random() < 0.25
                pdu = cligen.exc_pdu(mb.req_fc(req), rng.randrange(1, 12)) if exc else mb.spec_rsp_pdu(rsp)
                fr = cligen.frame(proto, j, slave, pdu)
                parts = rng.choice([[fr], mb.chunkings(fr, rng, 1)[0], [fr[:3], fr[3:]], [fr[:k] for k in (4,)] + [fr[4:]]]) if len(fr) > 4 else [fr]
                if rng.random() < 0.3:
                    # the peer repeats the frame (or sends another well-formed one) in the same segment: what lies behind the reply a call
                    # has consumed is not the next call's reply
                    dup = rng.choice([fr, cligen.frame(proto, j, slave, mb.spec_rsp_pdu(("RHR", [0xAAAA, 0xBBBB])))])
                    parts = parts[:-1] + [parts[-1] + dup]
                ops.append(cligen.call_op(req, R=mb.rscript([p for p in parts if len(p)])))
                wants.append("EX:%d" % pdu[1] if exc else "OK:" + mb.show_rsp(mb.pad_rsp(rsp)))
            seqs.append(Case(cligen.cli_line(proto, slave, ops), {"stage": "seq", "wants": wants, "proto": proto}))
        # one TCP client for more than a whole cycle of the 16-bit transaction id: the 65 536th and later callers get their replies as well
        slave, ops, wants = rng.randrange(1, 248), [], []
        for j in range(65536 + 64):
            v = (j * 7) & 0xFFFF
            if j % 1000 == 999:
                ops.append(cligen.call_op(("RHR", j & 0xFFFF, 1), R="d" + cligen.frame("tcp", j & 0xFFFF, slave, cligen.exc_pdu(3, 6)).hex())); wants.append("EX:6")
            else:
                ops.append(cligen.call_op(("RHR", j & 0xFFFF, 1), R="d" + cligen.frame("tcp", j & 0xFFFF, slave, bytes([3, 2, v >> 8, v & 255])).hex())); wants.append("OK:RHR:%d" % v)
        seqs.append(Case(cligen.cli_line("tcp", slave, ops), {"stage": "seq", "wants": wants, "proto": "tcp"}))
        # server side: the transport accepts the reply only a few bytes per write (a TLS wrapper, a small pipe, a congested socket):
        # the peer still gets the whole reply the service produced, byte for byte
        for _ in range(80 if tier == "quick" else 800):
            proto = rng.choice(["tcp", "rtu"])
            req, rsp = rng.choice(shapes)
            if proto == "rtu" and not cligen.rtu_supported_req(req):
                continue
            slave, tid = rng.randrange(256), rng.randrange(65536)
            exc = rng.random() < 0.25
            svc = "x=%d" % rng.randrange(1, 12) if exc else "r=" + mb.show_rsp(rsp)
            reply = cligen.frame(proto, tid, slave, cligen.exc_pdu(mb.req_fc(req), int(svc[2:])) if exc else mb.spec_rsp_pdu(rsp))
            g = rng.choice([1, 2, 3, 5, 8])
            W = ",".join((["p"] if rng.random() < 0.3 else []) + ["a%d" % g] for _ in range((len(reply) + g - 1) // g + 1)) if False else ",".join(x for _ in range((len(reply) + g - 1) // g + 1) for x in ((["p"] if rng.random() < 0.3 else []) + ["a%d" % g]))
            seqs.append(Case("SRV %s d%s %s - %s" % (proto, cligen.frame(proto, tid, slave, mb.spec_req_pdu(req)).hex(), W, svc), {"stage": "srvpieces", "reply": reply.hex(), "proto": proto, "g": g}))
        step = max(1, len(cs) // (len(seqs) + 1))
        for i, d in enumerate(seqs):
            cs.insert(min(len(cs), (i + 1) * step + i), d)
        return cs

    def oracle(self, c):
        m = c.meta
        st = m.get("stage", 0)
        if "PANIC" in (c.impl or ""):
            return "panic"
        if st == "srvpieces":
            got = "".join(t[2:] for t in (c.impl or "").split(",") if t.startswith("W:"))
            return None if got == m["reply"] else "transport accepting %d byte(s) per write: the peer received %s, the reply the service produced is %s" % (m["g"], got[:80] or "nothing", m["reply"][:80])
        if st == "seq":
            rs = [cligen.res_and_w(x)[0] for x in cligen.split_results(c.impl)]
            for i, (got, want) in enumerate(zip(rs + ["<missing>"] * len(m["wants"]), m["wants"])):
                if got != want:
                    return "exchange %d of %d on one client: the caller got %s, the reply sent was %s" % (i + 1, len(m["wants"]), got[:70], want[:70])
            return None
        if st == "direct":
            obs = self.direct_obs(c)
            if len(obs) != len(m["ops"]):
                return "end-to-end run: %s" % (c.impl or "")[:100]
            for (res, seen), op in zip(obs, m["ops"]):
                want = expected_result(mb.parse_req(op["req"]), op["svc"], op["typed"])
                if not result_ok(res, want):
                    return "real client <-> real %s server: service produced %s for %s; the caller got %s, want %s" % (m["flavour"], op["svc"][:50], op["req"][:40], res[:70], str(want)[:70])
            return None
        req = mb.parse_req(m["req"])
        svc = m["svc"]
        if st == 1:
            frame = bytes.fromhex(m["frame"])
            hdr_tid = (frame[0] << 8 | frame[1]) if m["proto"] == "tcp" else 0
            if svc.startswith("r="):
                pdu = mb.spec_rsp_pdu(mb.parse_rsp(svc[2:]))
            else:
                pdu = bytes([(mb.req_fc(req) + 0x80) & 0xFF, int(svc[2:])])
            want = cligen.frame(m["proto"], hdr_tid, m["slave"], pdu).hex()
            _calls, ws = st1_obs(c)
            if ws != [want]:
                return "server wrote %s for service reply %s; spec frame is %s" % (ws[:2], svc[:60], want[:80])
            return None
        if st == 2:
            res, _ = cligen.res_and_w(cligen.split_results(c.impl)[-1])
            want = expected_result(req, svc, m["typed"])
            return None if result_ok(res, want) else "service produced %s for %s; the caller got %s, want %s" % (svc[:50], m["req"][:40], res[:70], str(want)[:70])
        return None

    def nontrivial(self, c):
        return c.meta.get("stage", 0) in (1, 2, "direct", "seq", "srvpieces")
