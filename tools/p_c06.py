"""C06 -- a client call succeeds only for the response that answers its request."""
from runner import Prop
from vlib import Case
import mb, cligen


def decoded_rr(pdu):
    """the reply as the library decodes it, in result syntax (None if undecodable)"""
    if pdu[0] >= 0x80:
        cl = mb.classify_exc(pdu)
        return "X:%d:%d" % cl[1] if cl[0] == "accept" else None
    cl = mb.classify_rsp(pdu)
    return "R:" + mb.show_rsp(cl[1]) if cl[0] == "accept" else None


class PROP(Prop):
    id = "C06"
    profiles = ["debug"]
    rule = ("requests of every variant incl. raw custom requests with every function code < 0x80; replies with every function / exception "
            "function byte, transaction ids (all low bytes; all 65536 in thorough), every unit/slave id, normal and exception, after random "
            "histories of earlier calls and set_slave, and after 65534..65536 earlier calls (request ids around the 16-bit wrap, answered under the "
            "same and the neighbouring ids); TCP and RTU.  Oracle: success => same header and numerically same function code; "
            "different header => header-mismatch error carrying the decoded reply; same header, other code => function-code-mismatch "
            "carrying it.  non-trivial = header or function code differs from the request")

    def cases(self, rng, tier):
        cs = []
        nrand = 4000 if tier == "quick" else 40000
        for proto in ("tcp", "rtu"):
            # every reply function byte against a fixed and a custom request
            for fcb in range(256):
                for req in [("RHR", 1, 1), ("CU", fcb & 0x7F, b"\x01\x02"), ("CU", 0x2B, b"\x0e\x01\x00"), ("CU", 3, b"\x00\x00\x00\x01")]:
                    self.one(cs, rng, proto, req, reply_fc=fcb, dtid=0, duid=0)
            # every tid low byte / all tids
            tids = range(65536) if tier == "thorough" else list(range(256)) + [rng.randrange(65536) for _ in range(300)]
            if proto == "tcp":
                for t in tids:
                    self.one(cs, rng, proto, ("RHR", 1, 1), reply_fc=None, tid_abs=t, duid=0)
            for u in range(256):
                self.one(cs, rng, proto, ("RC", 1, 8), reply_fc=None, dtid=0, uid_abs=u)
            for _ in range(nrand):
                req = mb.rnd_req(rng)
                if mb.spec_req_size(req) > 253:
                    continue
                self.one(cs, rng, proto, req, reply_fc=rng.choice([None, None, rng.randrange(256)]),
                         dtid=rng.choice([0, 0, 1, 0xFFFF, rng.randrange(65536)]), duid=rng.choice([0, 0, 1, rng.randrange(256)]),
                         history=rng.randrange(0, 4))
        # an earlier call that failed or was abandoned after the HEADER (and part of the PDU) of a frame had arrived -- a header that would
        # have matched the NEXT request -- and then a complete reply with another header: it is judged by its OWN header
        for _ in range(120 if tier == "quick" else 1200):
            slave = rng.randrange(256)
            nwords = rng.randrange(1, 6)
            reqb = ("RHR", rng.randrange(65536), nwords)
            pdu_frag = mb.spec_rsp_pdu(("RHR", [rng.randrange(65536) for _ in range(nwords)]))
            frag = cligen.frame("tcp", 1, slave, pdu_frag)                       # carries the header the second call will use
            k = rng.randrange(7, len(frag))
            first = rng.choice([cligen.call_op(("RHR", 5, 1), R="d%s,e:TimedOut" % frag[:k].hex()),
                                cligen.call_op(("RHR", 5, 1), R="d%s,p,p" % frag[:k].hex(), drop="1"),
                                cligen.call_op(("WSR", 5, 1), R="d%s,e:ConnectionReset" % frag[:k].hex())])
            pdu = mb.spec_rsp_pdu(("RHR", [rng.randrange(65536) for _ in range(nwords)]))
            rtid, ruid = rng.choice([((1 + rng.choice([1, 2, 0xFFFF])) & 0xFFFF, slave), (1, (slave + 1) & 0xFF), (0, slave)])
            fr = cligen.frame("tcp", rtid, ruid, pdu)
            parts = rng.choice([[fr], [fr[:7], fr[7:]], [fr[:k], fr[k:]]])
            cs.append(Case(cligen.cli_line("tcp", slave, [first, cligen.call_op(reqb, R=mb.rscript(parts))]),
                           {"hdr_eq": False, "req_fc": 3, "rsp_fc": 3, "exc": False, "rr": decoded_rr(pdu), "n": 2, "hdrfrag": k}))
        # at the wrap of the 16-bit transaction id: request ids 0xFFFE, 0xFFFF, 0x0000 (after 65534 / 65535 / 65536 earlier calls),
        # answered under the same id and under the neighbouring ids 0, 0xFFFF, id-1, id+1
        cheap = cligen.call_op(("RHR", 1, 1), R="e:Other")
        wrap = []
        for n in (65534, 65535, 65536) if tier == "thorough" else (65535, 65536):
            tid = n & 0xFFFF
            for rtid in sorted({tid, 0, 0xFFFF, (tid + 1) & 0xFFFF, (tid - 1) & 0xFFFF}):
                slave = rng.randrange(256)
                pdu = mb.spec_rsp_pdu(("RHR", [rng.randrange(65536)])) if rng.random() < 0.7 else cligen.exc_pdu(3, 2)
                fr = cligen.frame("tcp", rtid, slave, pdu)
                line = cligen.cli_line("tcp", slave, [cheap] * n + [cligen.call_op(("RHR", 9, 1), R="d" + fr.hex())])
                wrap.append(Case(line, {"hdr_eq": rtid == tid, "req_fc": 3, "rsp_fc": 3, "exc": pdu[0] >= 0x80, "rr": decoded_rr(pdu), "n": n + 1, "wrap": True}))
        step = max(1, len(cs) // (len(wrap) + 1))
        for i, w in enumerate(wrap):        # spread the long histories evenly over the shards
            cs.insert(min(len(cs), (i + 1) * step + i), w)
        return cs

    def one(self, cs, rng, proto, req, reply_fc=None, dtid=0, duid=0, tid_abs=None, uid_abs=None, history=0):
        slave = rng.randrange(256)
        slave0 = slave
        ops = []
        ncalls = 0
        for _ in range(history):
            if rng.random() < 0.4:
                slave = rng.randrange(256)
                ops.append("slave %d" % slave)
            else:
                hreq = rng.choice([("RHR", rng.randrange(100), 1), ("WSR", rng.randrange(100), 7), ("RC", 1, 8)])
                fr = cligen.frame(proto, ncalls, slave, mb.spec_rsp_pdu(mb.matching_rsp(rng, hreq)))
                how = rng.random()
                if how < 0.5:
                    ops.append(cligen.call_op(hreq, R="d" + fr.hex()))
                elif how < 0.75:
                    # abandoned while waiting for its reply (what a timeout does): its late reply is then a FOREIGN reply for the next call
                    # (no reply bytes at all for it: a stale fragment showing up later would garble the next reply's framing on RTU)
                    ops.append(cligen.call_op(hreq, R=rng.choice(["p", "p,p"]), drop=rng.choice(["0", "1"])))
                elif how < 0.9:
                    ops.append(cligen.call_op(hreq, R="e:TimedOut"))
                else:
                    ops.append(cligen.call_op(hreq, W="p,p", drop="0"))
                ncalls += 1
        tid = ncalls & 0xFFFF
        rtid = tid_abs if tid_abs is not None else (tid + dtid) & 0xFFFF
        ruid = uid_abs if uid_abs is not None else (slave + duid) & 0xFF
        if proto == "rtu":
            rtid = tid = 0
        fc = mb.req_fc(req)
        # reply PDU
        if reply_fc is None:
            rsp = mb.matching_rsp(rng, req)
            pdu = mb.spec_rsp_pdu(rsp)
            if rng.random() < 0.3:
                pdu = cligen.exc_pdu(fc, rng.randrange(256)) if fc < 0x80 else pdu
        elif reply_fc >= 0x80:
            pdu = bytes([reply_fc, rng.randrange(256)])
        else:
            k = mb.FC_REQ.get(reply_fc)
            if k:
                pdu = mb.spec_rsp_pdu(mb.matching_rsp(rng, mb.rnd_req(rng, k)))
            else:
                pdu = bytes([reply_fc]) + bytes(rng.randrange(256) for _ in range(rng.choice([0, 1, 2, 4])))
        if len(pdu) > 253:
            return
        if proto == "rtu" and not cligen.rtu_supported_rsp_pdu(pdu):
            return
        rr = decoded_rr(pdu)
        if rr is None:
            return
        fr = cligen.frame(proto, rtid, ruid, pdu)
        ops.append(cligen.call_op(req, R="d" + fr.hex()))
        cs.append(Case(cligen.cli_line(proto, slave0, ops),
                       {"hdr_eq": rtid == tid and ruid == slave, "req_fc": fc, "rsp_fc": pdu[0] & 0x7F if pdu[0] >= 0x80 else pdu[0],
                        "exc": pdu[0] >= 0x80, "rr": rr, "n": len(ops), "hist": history}))

    def oracle(self, c):
        rs = cligen.split_results(c.impl)
        res, _ = cligen.res_and_w(rs[-1])
        m = c.meta
        if "PANIC" in res:
            return "panic"
        same_fc = m["req_fc"] == m["rsp_fc"]
        if res.startswith("OK:") or res.startswith("EX:"):
            if not m["hdr_eq"]:
                return "call succeeded for a reply with a different header"
            if not same_fc:
                return "call succeeded for a reply with function code %d, request has %d" % (m["rsp_fc"], m["req_fc"])
            return None
        if not m["hdr_eq"]:
            want = "HM:" + m["rr"]
            return None if res == want else "different header: got %s, want %s" % (res[:70], want[:70])
        if not same_fc:
            want = "FM:%d:%s" % (m["req_fc"], m["rr"])
            return None if res == want else "other function code: got %s, want %s" % (res[:70], want[:70])
        return None   # the converse (same header and code => success) is C02's obligation

    def nontrivial(self, c):
        return (not c.meta["hdr_eq"]) or c.meta["req_fc"] != c.meta["rsp_fc"]
