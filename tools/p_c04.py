"""C04 -- RTU delivers only CRC-valid frames and emits only CRC-correct frames."""
from runner import Prop
from vlib import Case
import mb, cligen, rtugen


class PROP(Prop):
    id = "C04"
    profiles = ["debug"]
    rule = ("RTU server (RTU-over-TCP, injected transport) and RTU client: valid frames; EVERY single-bit flip of each frame; sampled (quick) / all "
            "(thorough, short frames) double-bit flips and bursts of <= 16 bits; all 65536 values of the CRC field of a frame (sampled in quick); "
            "random noise with embedded frames; bursts of 2..4 large pipelined frames (well over 256 bytes buffered at once, cut inside a frame); random chunkings.  Emitted request and response frames (also after write faults, abandoned calls, refused oversize requests, and the SAME request repeated after set_slave chose another device) checked with an independent table-driven "
            "CRC.  Oracle: every delivered (slave, request)/returned response corresponds to a CRC-valid contiguous slice of the injected stream, "
            "in stream order, non-overlapping; a damaged frame is never delivered.  non-trivial = stream containing a corrupted frame or noise")

    def cases(self, rng, tier):
        cs = []
        nfr = 12 if tier == "quick" else 60
        for _ in range(nfr):
            req = rtugen.rtu_req(rng)
            slave = rng.randrange(256)
            fr = mb.rtu_frame(slave, mb.spec_req_pdu(req))
            nxt = mb.rtu_frame(rng.randrange(256), b"\x11")
            self.srv(cs, [fr], rng, "valid")
            # structured damage of the CRC field: bytes transposed, complemented, off by one, zeroed, the CRC of a neighbouring slice
            c = fr[-2:]
            crc_prev = mb.crc16(fr[:-3]); crc_all = mb.crc16(fr)
            for bad in {bytes([c[1], c[0]]), bytes([c[0] ^ 0xFF, c[1] ^ 0xFF]), bytes([(c[0] + 1) & 0xFF, c[1]]), bytes([c[0], (c[1] + 1) & 0xFF]), b"\x00\x00", b"\xff\xff",
                        bytes([crc_prev & 0xFF, crc_prev >> 8]), bytes([crc_all & 0xFF, crc_all >> 8])} - {bytes(c)}:
                self.srv(cs, [fr[:-2] + bad + nxt] if rng.random() < 0.5 else [fr[:-2] + bad], rng, "crcfield")
            # single-bit flips
            for bit in range(len(fr) * 8):
                b = bytearray(fr); b[bit // 8] ^= 1 << (bit % 8)
                self.srv(cs, [bytes(b) + nxt] if rng.random() < 0.5 else [bytes(b)], rng, "flip1")
            # double-bit flips and bursts
            nbits = len(fr) * 8
            pairs = [(i, j) for i in range(nbits) for j in range(i + 1, nbits)]
            if not (tier == "thorough" and len(fr) <= 8):
                pairs = rng.sample(pairs, min(len(pairs), 150))
            for i, j in pairs:
                b = bytearray(fr); b[i // 8] ^= 1 << (i % 8); b[j // 8] ^= 1 << (j % 8)
                self.srv(cs, [bytes(b)], rng, "flip2")
            for _b in range(100 if tier == "quick" else 600):
                start = rng.randrange(nbits); ln = rng.randrange(2, 17)
                pat = rng.randrange(1, 1 << ln) | 1 | (1 << (ln - 1))
                b = bytearray(fr)
                for t in range(ln):
                    if pat >> t & 1 and start + t < nbits:
                        b[(start + t) // 8] ^= 1 << ((start + t) % 8)
                self.srv(cs, [bytes(b)], rng, "burst")
        # CRC field values
        fr = mb.rtu_frame(17, b"\x03\x00\x6b\x00\x03")
        vals = range(65536) if tier == "thorough" else sorted(set([fr[-2] | fr[-1] << 8] + [rng.randrange(65536) for _ in range(1500)]))
        for v in vals:
            self.srv(cs, [fr[:-2] + bytes([v & 0xFF, v >> 8])], rng, "crcfield", chunk=False)
        # noise with embedded frames
        for _ in range(300 if tier == "quick" else 3000):
            parts = []
            for _k in range(rng.randrange(1, 4)):
                parts.append(bytes(rng.randrange(256) for _ in range(rng.randrange(0, 12))))
                parts.append(mb.rtu_frame(rng.randrange(256), mb.spec_req_pdu(rtugen.rtu_req(rng))))
            self.srv(cs, [b"".join(parts)], rng, "noise")
        # long bursts: several LARGE frames pipelined so that far more than one maximal frame (256 bytes) is buffered at once, whole or cut
        # inside a frame, some with one frame damaged: every frame delivered is still a contiguous CRC-valid slice of what was received
        for _ in range(60 if tier == "quick" else 600):
            frames = []
            for _k in range(rng.randrange(2, 5)):
                big = rng.choice([("WMR", rng.randrange(65536), [rng.randrange(65536) for _ in range(rng.randrange(50, 124))]),
                                  ("WMC", rng.randrange(65536), [rng.random() < 0.5 for _ in range(rng.randrange(800, 1969))]),
                                  ("RWMR", rng.randrange(65536), rng.randrange(1, 126), rng.randrange(65536), [rng.randrange(65536) for _ in range(rng.randrange(40, 122))])])
                fr = mb.rtu_frame(rng.randrange(256), mb.spec_req_pdu(big))
                if rng.random() < 0.25:
                    b = bytearray(fr); bit = rng.randrange(16, len(fr) * 8); b[bit // 8] ^= 1 << (bit % 8); fr = bytes(b)
                frames.append(fr)
            data = b"".join(frames) + bytes(rng.randrange(256) for _ in range(rng.choice([0, 0, 9, 42])))
            cuts = rng.choice([[], [256], [257], [300], [len(frames[0]) + 107], sorted(rng.sample(range(1, len(data)), 2))])
            if rng.random() < 0.5:
                # an adversarial tail: bytes that would complete the first `c` bytes of the LAST frame to a CRC-correct frame of the announced
                # length if the rest of that frame were forgotten (c often = what fits into 256 bytes): the spliced frame never was on the wire
                head = b"".join(frames[:-1]); last = frames[-1]
                c = 256 - len(head) if 3 < 256 - len(head) < len(last) - 3 and rng.random() < 0.7 else rng.randrange(3, len(last) - 3)
                x = bytes(rng.randrange(256) for _ in range(len(last) - c - 2))
                crc = mb.crc16(last[:c] + x)
                data = head + last + x + bytes([crc & 0xFF, crc >> 8])
                cuts = [len(head) + len(last)]
            parts, prev = [], 0
            for c in [c for c in cuts if 0 < c < len(data)] + [len(data)]:
                parts.append(data[prev:c]); prev = c
            cs.append(Case("SRV rtu %s - - -" % mb.rscript([p for p in parts if p]), {"k": "srv_burst256", "stream": data.hex()}))
        # client side: replies, flips, noise
        for _ in range(60 if tier == "quick" else 400):
            req = mb.rnd_req(rng, rng.choice(["RC", "RHR", "WSR", "WSC", "MWR", "RIR"]))
            slave = rng.randrange(256)
            rsp = mb.matching_rsp(rng, req)
            if mb.spec_rsp_size(rsp) > 30:
                continue
            fr = mb.rtu_frame(slave, mb.spec_rsp_pdu(rsp))
            variants = [("valid", fr)]
            for bit in range(len(fr) * 8):
                b = bytearray(fr); b[bit // 8] ^= 1 << (bit % 8)
                variants.append(("flip1", bytes(b)))
            variants.append(("noise", bytes(rng.randrange(256) for _ in range(rng.randrange(1, 10))) + fr))
            c2 = fr[-2:]
            if c2[0] != c2[1]:
                variants.append(("crcswap", fr[:-2] + bytes([c2[1], c2[0]])))
            variants.append(("crccompl", fr[:-2] + bytes([c2[0] ^ 0xFF, c2[1] ^ 0xFF])))
            for kind, data in variants:
                parts = mb.chunkings(data, rng, 1)[0]
                cs.append(Case(cligen.cli_line("rtu", slave, [cligen.call_op(req, R=mb.rscript(parts))]),
                               {"k": "cli_" + kind, "stream": data.hex(), "slave": slave, "req": mb.show_req(req)}))
        # client side, after an EARLIER call ended inside a reply (read error or abandoned while receiving) and left its fragment to
        # the framing layer: a damaged frame that shares its tail and CRC with the interrupted reply (a retransmission with flipped bits
        # in the part already seen) must still be rejected; what is handed up is a CRC-valid slice of what THIS call received
        for _ in range(40 if tier == "quick" else 400):
            slave = rng.randrange(1, 248)
            req = ("RHR", rng.randrange(65536), 4)
            rsp = ("RHR", [rng.randrange(65536) for _ in range(4)])
            fr = mb.rtu_frame(slave, mb.spec_rsp_pdu(rsp))
            good = mb.rtu_frame(slave, mb.spec_rsp_pdu(("RHR", [rng.randrange(65536) for _ in range(4)])))
            for k in range(3, len(fr) - 2):
                if tier == "quick" and rng.random() < 0.5:
                    continue
                b = bytearray(fr)
                pos = rng.randrange(2, k)            # flip inside the part the first call had already received
                b[pos] ^= 1 << rng.randrange(8)
                dmg = bytes(b)
                first = rng.choice([cligen.call_op(req, R=mb.rscript([fr[:k]], ["e:TimedOut"])),
                                    cligen.call_op(req, R=mb.rscript([fr[:k]], ["p", "p"]), drop="1")])
                data = dmg + good
                second = cligen.call_op(req, R=mb.rscript(rng.choice([[data], [dmg, good], mb.chunkings(data, rng, 1)[0]])))
                cs.append(Case(cligen.cli_line("rtu", slave, [first, second]), {"k": "cli_stale", "stream": data.hex(), "slave": slave, "req": mb.show_req(req), "k1": k}))
        # LONG reply frames (Read FIFO Queue, function 0x18, announces its length in 16 bits: up to 64 KiB): the CRC covers ALL of it -- one
        # flipped bit anywhere, also far behind the first 256 bytes, and the frame is not delivered
        for _ in range(40 if tier == "quick" else 400):
            slave = rng.randrange(1, 248)
            nbytes = rng.choice([250, 254, 300, 600, 2000, 5000])
            payload = bytes(rng.randrange(256) for _ in range(nbytes))
            fr = mb.rtu_frame(slave, bytes([0x18]) + mb.be16(nbytes) + payload)
            good = rng.random() < 0.25
            data = fr
            if not good:
                b = bytearray(fr); bit = rng.randrange(8 * 3, 8 * (len(fr) - 2)) if rng.random() < 0.3 else rng.randrange(8 * 257, 8 * (len(fr) - 2)) if len(fr) > 300 else rng.randrange(8 * 3, 8 * (len(fr) - 2))
                b[bit // 8] ^= 1 << (bit % 8); data = bytes(b)
            parts = [data] if rng.random() < 0.5 else mb.chunkings(data, rng, 1)[0]
            cs.append(Case(cligen.cli_line("rtu", slave, [cligen.call_op(("CU", 0x18, b"\x00\x01"), R=mb.rscript(parts))]), {"k": "cli_long18", "good": good, "n": nbytes}))
        # emitted frames
        for _ in range(300 if tier == "quick" else 3000):
            req = mb.rnd_req(rng)
            if mb.spec_req_size(req) <= 253:
                cs.append(Case(cligen.cli_line("rtu", rng.randrange(256), [cligen.call_op(req)]), {"k": "emit_req"}))
            rsp = mb.rnd_rsp(rng)
            if mb.spec_rsp_size(rsp) <= 253:
                cs.append(Case("SRV rtu d%s - - r=%s" % (mb.rtu_frame(3, b"\x11").hex(), mb.show_rsp(rsp)), {"k": "emit_rsp"}))
            cs.append(Case("SRV rtu d%s - - x=%d" % (mb.rtu_frame(3, b"\x11").hex(), rng.randrange(256)), {"k": "emit_rsp"}))
        # emitted frames after an earlier call left bytes in the write buffer (write error, zero write, abandonment) or was refused by the encoder (oversized request)
        for _ in range(200 if tier == "quick" else 2000):
            slave = slave0 = rng.randrange(256)
            ops, frames = [], []
            prev = None
            for i in range(rng.randrange(2, 5)):
                # often: the SAME request again, after set_slave chose another device (the CRC covers the address byte too)
                if prev is not None and rng.random() < 0.4:
                    slave = rng.choice([slave ^ 1, rng.randrange(256), slave])
                    ops.append("slave %d" % slave)
                req = prev if prev is not None and rng.random() < 0.5 else mb.rnd_req(rng, rng.choice(["RC", "RHR", "WSR", "WSC", "MWR", "WMR", "RSI"]))
                if mb.spec_req_size(req) > 60:
                    req = ("RHR", 1, 1)
                prev = req
                mode = rng.choice(["ok", "ok", "werr", "abandon", "zero", "oversize"]) if i < 3 else "ok"
                if mode == "oversize":
                    # a request the encoder refuses (PDU > 253 bytes) transmits nothing and must leave nothing behind
                    big = rng.choice([("WMR", 7, [1] * rng.randrange(124, 140)), ("WMC", 7, [True] * rng.randrange(1977, 2100)),
                                      ("CU", 0x41, bytes(rng.randrange(253, 300))), ("RWMR", 1, 1, 2, [5] * rng.randrange(122, 130))])
                    ops.append(cligen.call_op(big))
                    continue
                fr = mb.rtu_frame(slave, mb.spec_req_pdu(req))
                frames.append(fr.hex())
                k = rng.randrange(0, len(fr))
                if mode == "ok":
                    ops.append(cligen.call_op(req, R="e:Other"))
                elif mode == "werr":
                    ops.append(cligen.call_op(req, W=("a%d," % k if k else "") + "e:Other"))
                elif mode == "zero":
                    ops.append(cligen.call_op(req, W=("a%d," % k if k else "") + "z"))
                else:
                    ops.append(cligen.call_op(req, W=("a%d," % k if k else "") + "p", drop="0"))
            cs.append(Case(cligen.cli_line("rtu", slave0, ops), {"k": "emit_hist", "frames": frames}))
        return cs

    def srv(self, cs, streams, rng, kind, chunk=True):
        data = b"".join(streams)
        parts = mb.chunkings(data, rng, 1)[0] if chunk and rng.random() < 0.7 else [data]
        cs.append(Case("SRV rtu %s - - -" % mb.rscript(parts), {"k": "srv_" + kind, "stream": data.hex()}))

    @staticmethod
    def crc_ok(h):
        b = bytes.fromhex(h)
        if len(b) < 4:
            return False
        c = mb.crc16(b[:-2])
        return b[-2] == (c & 0xFF) and b[-1] == (c >> 8)

    def oracle(self, c):
        m, r = c.meta, c.impl or ""
        if "PANIC" in r or "HUNG" in r:
            return "panic/hang"
        k = m["k"]
        if k.startswith("srv_"):
            stream = bytes.fromhex(m["stream"])
            calls = rtugen.parse_calls(r)
            msg = rtugen.find_slices(stream, calls, "req")
            if msg:
                return msg
            if k == "srv_valid" and len(calls) != 1:
                return "valid frame not delivered: %s" % r[:60]
            return None
        if k == "cli_long18":
            res, _ = cligen.res_and_w(r)
            if m["good"]:
                return None if res.startswith("OK:") else "an intact %d-byte FIFO reply was not delivered: %s" % (m["n"] + 7, res[:60])
            return None if not res.startswith("OK:") else "a %d-byte reply with one flipped bit was returned as data" % (m["n"] + 7)
        if k.startswith("cli_"):
            res, w = cligen.res_and_w(cligen.split_results(r)[-1])
            stream = bytes.fromhex(m["stream"])
            rr = None
            if res.startswith("OK:"):
                rr = mb.parse_rsp(res[3:])
            elif res.startswith("HM:R:") or res.startswith("FM:"):
                rr = mb.parse_rsp(res.split(":R:", 1)[1]) if ":R:" in res else None
            if rr is not None:
                # some slave id: search all
                ok = any(rtugen.find_slices(stream, [(s, rr)], "rsp") is None for s in set(stream))
                if not ok:
                    return "client handed up %s which is not a CRC-valid slice of the received stream" % res[:60]
            if k == "cli_valid" and not res.startswith("OK:"):
                return "valid reply not returned: %s" % res[:60]
            return None
        if k == "emit_req":
            res, w = cligen.res_and_w(r)
            return None if self.crc_ok(w.hex()) else "emitted request frame has a wrong CRC: %s" % w.hex()[:60]
        if k == "emit_hist":
            stream = b"".join(cligen.res_and_w(x)[1] for x in cligen.split_results(r))
            want = bytes.fromhex("".join(m["frames"]))
            if not want.startswith(stream):
                return "bytes transmitted over the client's lifetime %s are not a prefix of the CRC-correct frames %s" % (stream.hex()[:80], want.hex()[:80])
            # every complete 'slave .. crc' frame in the stream must carry its own CRC
            pos = 0
            for f in m["frames"]:
                n = len(f) // 2
                if pos + n <= len(stream) and not self.crc_ok(stream[pos:pos + n].hex()):
                    return "transmitted frame %s has a wrong CRC" % stream[pos:pos + n].hex()
                pos += n
            return None
        if k == "emit_rsp":
            ws = [t[2:] for t in r.split(",") if t.startswith("W:")]
            return None if len(ws) == 1 and self.crc_ok(ws[0]) else "emitted response frame missing or with a wrong CRC: %s" % r[:80]
        return None

    def nontrivial(self, c):
        return c.meta["k"] not in ("srv_valid", "cli_valid")

    def distribution(self, cases):
        d = {}
        for c in cases:
            d[c.meta["k"]] = d.get(c.meta["k"], 0) + 1
            if c.meta["k"].startswith("srv_") and "C:" in (c.impl or ""):
                d["delivered_" + c.meta["k"]] = d.get("delivered_" + c.meta["k"], 0) + 1
        return d
