"""mb -- the *spec side* in Python, written from the Modbus Application Protocol V1.1b3 and the
property statements, independently of the Coq model's code-shaped functions: token syntax,
spec encoders, spec classifiers (accept(value) / reject / unspecified), table-driven CRC."""

# ---------------------------------------------------------------- tokens
def hexs(bs):
    return "-" if len(bs) == 0 else bytes(bs).hex()


def unhex(s):
    return b"" if s == "-" else bytes.fromhex(s)


def bits(bs):
    return "-" if len(bs) == 0 else "".join("1" if b else "0" for b in bs)


def unbits(s):
    return [] if s == "-" else [c == "1" for c in s]


def words(ws):
    return "-" if len(ws) == 0 else ".".join(str(w) for w in ws)


def unwords(s):
    return [] if s == "-" else [int(x) for x in s.split(".")]


def show_req(r):
    k = r[0]
    if k in ("RC", "RDI", "RIR", "RHR", "WSR"):
        return "%s:%d:%d" % (k, r[1], r[2])
    if k == "WSC":
        return "WSC:%d:%d" % (r[1], 1 if r[2] else 0)
    if k == "WMC":
        return "WMC:%d:%s" % (r[1], bits(r[2]))
    if k == "WMR":
        return "WMR:%d:%s" % (r[1], words(r[2]))
    if k == "RSI":
        return "RSI"
    if k == "MWR":
        return "MWR:%d:%d:%d" % (r[1], r[2], r[3])
    if k == "RWMR":
        return "RWMR:%d:%d:%d:%s" % (r[1], r[2], r[3], words(r[4]))
    if k == "CU":
        return "CU:%d:%s" % (r[1], hexs(r[2]))
    raise ValueError(r)


def parse_req(s):
    f = s.split(":")
    k = f[0]
    if k in ("RC", "RDI", "RIR", "RHR", "WSR"):
        return (k, int(f[1]), int(f[2]))
    if k == "WSC":
        return (k, int(f[1]), f[2] == "1")
    if k == "WMC":
        return (k, int(f[1]), unbits(f[2]))
    if k == "WMR":
        return (k, int(f[1]), unwords(f[2]))
    if k == "RSI":
        return (k,)
    if k == "MWR":
        return (k, int(f[1]), int(f[2]), int(f[3]))
    if k == "RWMR":
        return (k, int(f[1]), int(f[2]), int(f[3]), unwords(f[4]))
    if k == "CU":
        return (k, int(f[1]), unhex(f[2]))
    raise ValueError(s)


def show_rsp(r):
    k = r[0]
    if k in ("RC", "RDI"):
        return "%s:%s" % (k, bits(r[1]))
    if k in ("RIR", "RHR", "RWMR"):
        return "%s:%s" % (k, words(r[1]))
    if k == "WSC":
        return "WSC:%d:%d" % (r[1], 1 if r[2] else 0)
    if k in ("WMC", "WSR", "WMR"):
        return "%s:%d:%d" % (k, r[1], r[2])
    if k == "RSI":
        return "RSI:%d:%d:%s" % (r[1], 1 if r[2] else 0, hexs(r[3]))
    if k == "MWR":
        return "MWR:%d:%d:%d" % (r[1], r[2], r[3])
    if k == "CU":
        return "CU:%d:%s" % (r[1], hexs(r[2]))
    raise ValueError(r)


def parse_rsp(s):
    f = s.split(":")
    k = f[0]
    if k in ("RC", "RDI"):
        return (k, unbits(f[1]))
    if k in ("RIR", "RHR", "RWMR"):
        return (k, unwords(f[1]))
    if k == "WSC":
        return (k, int(f[1]), f[2] == "1")
    if k in ("WMC", "WSR", "WMR"):
        return (k, int(f[1]), int(f[2]))
    if k == "RSI":
        return (k, int(f[1]), f[2] == "1", unhex(f[3]))
    if k == "MWR":
        return (k, int(f[1]), int(f[2]), int(f[3]))
    if k == "CU":
        return (k, int(f[1]), unhex(f[2]))
    raise ValueError(s)


REQ_FC = dict(RC=1, RDI=2, RHR=3, RIR=4, WSC=5, WSR=6, WMC=15, WMR=16, RSI=17, MWR=22, RWMR=23)
FC_REQ = {v: k for k, v in REQ_FC.items()}

# names of the Modbus Application Protocol V1.1b3 public function codes / exception codes
SPEC_FC = {1: "ReadCoils", 2: "ReadDiscreteInputs", 3: "ReadHoldingRegisters", 4: "ReadInputRegisters",
           5: "WriteSingleCoil", 6: "WriteSingleRegister", 7: "ReadExceptionStatus", 8: "Diagnostics",
           11: "GetCommEventCounter", 12: "GetCommEventLog", 15: "WriteMultipleCoils", 16: "WriteMultipleRegisters",
           17: "ReportServerId", 20: "ReadFileRecord", 21: "WriteFileRecord", 22: "MaskWriteRegister",
           23: "ReadWriteMultipleRegisters", 24: "ReadFifoQueue", 43: "EncapsulatedInterfaceTransport"}
SPEC_EX = {1: "IllegalFunction", 2: "IllegalDataAddress", 3: "IllegalDataValue", 4: "ServerDeviceFailure",
           5: "Acknowledge", 6: "ServerDeviceBusy", 8: "MemoryParityError", 10: "GatewayPathUnavailable",
           11: "GatewayTargetDevice"}


def req_fc(r):
    return r[1] if r[0] == "CU" else REQ_FC[r[0]]


def rsp_fc(r):
    return r[1] if r[0] == "CU" else REQ_FC[r[0]]


# ---------------------------------------------------------------- spec encoders
def be16(w):
    return bytes([(w >> 8) & 0xFF, w & 0xFF])


def pack_bits(bs):
    out = bytearray((len(bs) + 7) // 8)
    for i, b in enumerate(bs):
        if b:
            out[i // 8] |= 1 << (i % 8)
    return bytes(out)


def spec_req_pdu(r):
    """Modbus wire encoding of a request (big endian fields, coils LSB first)."""
    k = r[0]
    fc = bytes([req_fc(r)])
    if k in ("RC", "RDI", "RIR", "RHR", "WSR"):
        return fc + be16(r[1]) + be16(r[2])
    if k == "WSC":
        return fc + be16(r[1]) + (b"\xff\x00" if r[2] else b"\x00\x00")
    if k == "WMC":
        p = pack_bits(r[2])
        return fc + be16(r[1]) + be16(len(r[2])) + bytes([len(p)]) + p
    if k == "WMR":
        return fc + be16(r[1]) + be16(len(r[2])) + bytes([2 * len(r[2])]) + b"".join(be16(w) for w in r[2])
    if k == "RSI":
        return fc
    if k == "MWR":
        return fc + be16(r[1]) + be16(r[2]) + be16(r[3])
    if k == "RWMR":
        return fc + be16(r[1]) + be16(r[2]) + be16(r[3]) + be16(len(r[4])) + bytes([2 * len(r[4])]) + b"".join(be16(w) for w in r[4])
    if k == "CU":
        return fc + bytes(r[2])
    raise ValueError(r)


def spec_req_size(r):
    k = r[0]
    if k in ("RC", "RDI", "RIR", "RHR", "WSR", "WSC"):
        return 5
    if k == "WMC":
        return 6 + (len(r[2]) + 7) // 8
    if k == "WMR":
        return 6 + 2 * len(r[2])
    if k == "RSI":
        return 1
    if k == "MWR":
        return 7
    if k == "RWMR":
        return 10 + 2 * len(r[4])
    if k == "CU":
        return 1 + len(r[2])


def spec_rsp_pdu(r):
    k = r[0]
    fc = bytes([rsp_fc(r)])
    if k in ("RC", "RDI"):
        p = pack_bits(r[1])
        return fc + bytes([len(p)]) + p
    if k in ("RIR", "RHR", "RWMR"):
        return fc + bytes([2 * len(r[1])]) + b"".join(be16(w) for w in r[1])
    if k == "WSC":
        return fc + be16(r[1]) + (b"\xff\x00" if r[2] else b"\x00\x00")
    if k in ("WMC", "WSR", "WMR"):
        return fc + be16(r[1]) + be16(r[2])
    if k == "RSI":
        return fc + bytes([2 + len(r[3]), r[1], 0xFF if r[2] else 0]) + bytes(r[3])
    if k == "MWR":
        return fc + be16(r[1]) + be16(r[2]) + be16(r[3])
    if k == "CU":
        return fc + bytes(r[2])
    raise ValueError(r)


def spec_rsp_size(r):
    k = r[0]
    if k in ("RC", "RDI"):
        return 2 + (len(r[1]) + 7) // 8
    if k in ("RIR", "RHR", "RWMR"):
        return 2 + 2 * len(r[1])
    if k in ("WSC", "WMC", "WSR", "WMR"):
        return 5
    if k == "RSI":
        return 4 + len(r[3])
    if k == "MWR":
        return 7
    if k == "CU":
        return 1 + len(r[2])


def pad8(bs):
    bs = list(bs)
    return bs + [False] * (-len(bs) % 8)


def pad_rsp(r):
    """what the client sees for a response the service produced: bit vectors padded with false"""
    if r[0] in ("RC", "RDI"):
        return (r[0], pad8(r[1]))
    return r


# ---------------------------------------------------------------- spec classifiers (C08)
def unpack_bits(data, n):
    return [bool((data[i // 8] >> (i % 8)) & 1) for i in range(n)]


def u16(b, i):
    return (b[i] << 8) | b[i + 1]


def classify_req(b):
    """-> ('accept', value) | ('reject',) | ('unspecified',)"""
    if len(b) == 0:
        return ("reject",)
    fc = b[0]
    if fc >= 0x80:
        return ("reject",)
    if fc in (1, 2, 3, 4, 6):
        if len(b) != 5:
            return ("reject",)
        return ("accept", (FC_REQ[fc], u16(b, 1), u16(b, 3)))
    if fc == 5:
        if len(b) != 5 or u16(b, 3) not in (0x0000, 0xFF00):
            return ("reject",)
        return ("accept", ("WSC", u16(b, 1), u16(b, 3) == 0xFF00))
    if fc == 0x0F:
        if len(b) < 6 or len(b) > 253:
            return ("reject",)
        q, bc = u16(b, 3), b[5]
        if len(b) != 6 + bc or q > 8 * bc:
            return ("reject",)
        return ("accept", ("WMC", u16(b, 1), unpack_bits(b[6:], q)))
    if fc == 0x10:
        if len(b) < 6 or len(b) > 253:
            return ("reject",)
        q, bc = u16(b, 3), b[5]
        if bc != 2 * q or len(b) != 6 + bc:
            return ("reject",)
        return ("accept", ("WMR", u16(b, 1), [u16(b, 6 + 2 * i) for i in range(q)]))
    if fc == 0x11:
        return ("accept", ("RSI",)) if len(b) == 1 else ("reject",)
    if fc == 0x16:
        if len(b) != 7:
            return ("reject",)
        return ("accept", ("MWR", u16(b, 1), u16(b, 3), u16(b, 5)))
    if fc == 0x17:
        if len(b) < 10 or len(b) > 253:
            return ("reject",)
        wq, bc = u16(b, 7), b[9]
        if bc != 2 * wq or len(b) != 10 + bc:
            return ("reject",)
        return ("accept", ("RWMR", u16(b, 1), u16(b, 3), u16(b, 5), [u16(b, 10 + 2 * i) for i in range(wq)]))
    if len(b) > 253:
        return ("unspecified",)   # not a Modbus PDU at all; the statement is silent (see DESIGN.md, C08 notes)
    return ("accept", ("CU", fc, bytes(b[1:])))


def classify_rsp(b):
    if len(b) == 0:
        return ("reject",)
    fc = b[0]
    if fc in (1, 2):
        if len(b) < 2 or len(b) > 253 or len(b) != 2 + b[1]:
            return ("reject",)
        return ("accept", (FC_REQ[fc], unpack_bits(b[2:], 8 * b[1])))
    if fc in (3, 4, 0x17):
        if len(b) < 2 or len(b) > 253 or b[1] % 2 or len(b) != 2 + b[1]:
            return ("reject",)
        return ("accept", (FC_REQ[fc], [u16(b, 2 + 2 * i) for i in range(b[1] // 2)]))
    if fc == 5:
        if len(b) != 5 or u16(b, 3) not in (0x0000, 0xFF00):
            return ("reject",)
        return ("accept", ("WSC", u16(b, 1), u16(b, 3) == 0xFF00))
    if fc in (6, 0x0F, 0x10):
        if len(b) != 5:
            return ("reject",)
        return ("accept", (FC_REQ[fc], u16(b, 1), u16(b, 3)))
    if fc == 0x11:
        if len(b) < 4 or len(b) > 253 or b[1] < 2 or len(b) != 2 + b[1] or b[3] not in (0x00, 0xFF):
            return ("reject",)
        return ("accept", ("RSI", b[2], b[3] == 0xFF, bytes(b[4:])))
    if fc == 0x16:
        if len(b) != 7:
            return ("reject",)
        return ("accept", ("MWR", u16(b, 1), u16(b, 3), u16(b, 5)))
    # function codes the library does not model (incl. >= 0x80 through Response::try_from): raw custom
    if len(b) > 253:
        return ("unspecified",)
    return ("accept", ("CU", fc, bytes(b[1:])))


def classify_exc(b):
    if len(b) < 2 or b[0] < 0x80:
        return ("reject",)
    if len(b) > 2:
        return ("unspecified",)
    return ("accept", (b[0] - 0x80, b[1]))


# ---------------------------------------------------------------- CRC (table driven, reflected 0xA001)
_CRC_TABLE = []
for _i in range(256):
    _c = _i
    for _ in range(8):
        _c = (_c >> 1) ^ 0xA001 if _c & 1 else _c >> 1
    _CRC_TABLE.append(_c)


def crc16(data):
    c = 0xFFFF
    for x in data:
        c = (c >> 8) ^ _CRC_TABLE[(c ^ x) & 0xFF]
    return c


def rtu_frame(slave, pdu):
    body = bytes([slave]) + bytes(pdu)
    c = crc16(body)
    return body + bytes([c & 0xFF, c >> 8])


def tcp_frame(tid, uid, pdu):
    return be16(tid) + b"\x00\x00" + be16(len(pdu) + 1) + bytes([uid]) + bytes(pdu)


# ---------------------------------------------------------------- random values
def rnd_word(rng):
    return rng.choice([0, 1, 0x7FFF, 0x8000, 0xFFFF, 0xFF00, 0x00FF]) if rng.random() < 0.4 else rng.randrange(65536)


def rnd_len(rng, limit, past=0):
    """lengths biased to the boundaries 0, 1, limit-1, limit (and beyond if past>0)"""
    r = rng.random()
    if r < 0.15:
        return 0
    if r < 0.3:
        return 1
    if r < 0.45:
        return limit
    if r < 0.55:
        return max(0, limit - 1)
    if past and r < 0.65:
        return limit + rng.randrange(1, past + 1)
    return rng.randrange(0, limit + 1)


def rnd_req(rng, kind=None, oversize=0):
    k = kind or rng.choice(["RC", "RDI", "RIR", "RHR", "WSR", "WSC", "WMC", "WMR", "RSI", "MWR", "RWMR", "CU"])
    if k in ("RC", "RDI", "RIR", "RHR", "WSR"):
        return (k, rnd_word(rng), rnd_word(rng))
    if k == "WSC":
        return (k, rnd_word(rng), rng.random() < 0.5)
    if k == "WMC":
        n = rnd_len(rng, 1976, oversize)
        return (k, rnd_word(rng), [rng.random() < 0.5 for _ in range(n)])
    if k == "WMR":
        n = rnd_len(rng, 123, oversize)
        return (k, rnd_word(rng), [rnd_word(rng) for _ in range(n)])
    if k == "RSI":
        return (k,)
    if k == "MWR":
        return (k, rnd_word(rng), rnd_word(rng), rnd_word(rng))
    if k == "RWMR":
        n = rnd_len(rng, 121, oversize)
        return (k, rnd_word(rng), rnd_word(rng), rnd_word(rng), [rnd_word(rng) for _ in range(n)])
    if k == "CU":
        n = rnd_len(rng, 252, oversize)
        fc = rng.choice([0x07, 0x08, 0x0B, 0x0C, 0x14, 0x15, 0x18, 0x2B, 0x41, 0x64, 0x7F, 0x09, 0x00])
        return (k, fc, bytes(rng.randrange(256) for _ in range(n)))


def rnd_rsp(rng, kind=None, oversize=0):
    k = kind or rng.choice(["RC", "RDI", "RIR", "RHR", "WSR", "WSC", "WMC", "WMR", "RSI", "MWR", "RWMR", "CU"])
    if k in ("RC", "RDI"):
        n = rnd_len(rng, 2008, oversize)
        return (k, [rng.random() < 0.5 for _ in range(n)])
    if k in ("RIR", "RHR", "RWMR"):
        n = rnd_len(rng, 125, oversize)
        return (k, [rnd_word(rng) for _ in range(n)])
    if k == "WSC":
        return (k, rnd_word(rng), rng.random() < 0.5)
    if k in ("WMC", "WSR", "WMR"):
        return (k, rnd_word(rng), rnd_word(rng))
    if k == "RSI":
        n = rnd_len(rng, 249, oversize)
        return (k, rng.randrange(256), rng.random() < 0.5, bytes(rng.randrange(256) for _ in range(n)))
    if k == "MWR":
        return (k, rnd_word(rng), rnd_word(rng), rnd_word(rng))
    if k == "CU":
        n = rnd_len(rng, 252, oversize)
        fc = rng.choice([0x07, 0x08, 0x0B, 0x0C, 0x14, 0x15, 0x18, 0x2B, 0x41, 0x64, 0x7F, 0x09, 0x00])
        return (k, fc, bytes(rng.randrange(256) for _ in range(n)))


def matching_rsp(rng, req):
    """a plausible response to a request (right variant and counts)"""
    k = req[0]
    if k in ("RC", "RDI"):
        n = min(req[2], 2008)
        return (k, [rng.random() < 0.5 for _ in range(n)])
    if k in ("RIR", "RHR"):
        n = min(req[2], 125)
        return (k, [rnd_word(rng) for _ in range(n)])
    if k == "RWMR":
        n = min(req[2], 125)
        return (k, [rnd_word(rng) for _ in range(n)])
    if k == "WSC":
        return (k, req[1], req[2])
    if k == "WSR":
        return (k, req[1], req[2])
    if k == "WMC":
        return (k, req[1], len(req[2]) & 0xFFFF)
    if k == "WMR":
        return (k, req[1], len(req[2]) & 0xFFFF)
    if k == "RSI":
        return (k, rng.randrange(256), rng.random() < 0.5, bytes(rng.randrange(256) for _ in range(rng.randrange(0, 8))))
    if k == "MWR":
        return req
    if k == "CU":
        return (k, req[1], bytes(rng.randrange(256) for _ in range(rng.randrange(0, 8))))


def chunkings(data, rng, n):
    """n random compositions of `data` into non-empty chunks"""
    out = []
    for _ in range(n):
        cuts = sorted(set(rng.randrange(1, len(data)) for _ in range(rng.randrange(0, min(6, len(data))))) ) if len(data) > 1 else []
        parts = [data[i:j] for i, j in zip([0] + cuts, cuts + [len(data)])]
        out.append(parts)
    return out


def all_compositions(data):
    n = len(data)
    if n == 0:
        yield []
        return
    for mask in range(1 << (n - 1)):
        parts, start = [], 0
        for i in range(n - 1):
            if mask >> i & 1:
                parts.append(data[start:i + 1])
                start = i + 1
        parts.append(data[start:])
        yield parts


def rscript(parts, tail=()):
    ev = ["d" + bytes(p).hex() for p in parts if len(p)] + list(tail)
    return ",".join(ev) if ev else "-"
