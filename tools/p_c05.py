"""C05 -- Modbus TCP framing reassembles exact frames and rejects invalid MBAP headers."""
from runner import Prop
from vlib import Case
import mb, cligen


def small_req(rng):
    return mb.rnd_req(rng, rng.choice(["RSI", "RC", "RHR", "WSR", "WSC", "MWR"]))


class PROP(Prop):
    id = "C05"
    profiles = ["debug"]
    rule = ("server and client side of the real TCP framing: pipelined sequences of well-formed frames under random chunkings and ALL compositions "
            "of short streams (<= 12 bytes quick / 16 bytes thorough); every proper prefix of a frame alone (nothing may be delivered); every length "
            "field value 0..=65535 (sampled in quick) against short and exact payloads; protocol identifiers with every single bit set and random "
            "values; bare invalid headers (length 0, length 1, bad protocol id) as the last bytes on the line under all 64 compositions; header fields at extremes.  Emitted frames of generated requests/responses checked for protocol id 0 and length = PDU+1. "
            "Oracle: delivered (tid, unit, request) list == frames sent, in order, once; nothing from an incomplete frame or an invalid header. "
            "non-trivial = stream split into >= 2 reads, or an invalid header, or >= 2 frames")

    def cases(self, rng, tier):
        cs = []
        # --- server side: pipelines under chunkings
        n = 400 if tier == "quick" else 4000
        for _ in range(n):
            k = rng.choice([1, 2, 3, 5])
            frames, exp = [], []
            for i in range(k):
                req = small_req(rng)
                tid, uid = rng.choice([0, 1, 0xFFFF, rng.randrange(65536)]), rng.randrange(256)
                frames.append(mb.tcp_frame(tid, uid, mb.spec_req_pdu(req)))
                exp += ["C:%d:%s" % (uid, mb.show_req(req)), "W:" + mb.tcp_frame(tid, uid, b"\x11\x02\x07\xff").hex()]
            stream = b"".join(frames)
            for parts in mb.chunkings(stream, rng, 2) + [[stream[i:i + 1] for i in range(len(stream))]]:
                svc = ",".join(["r=RSI:7:1:-"] * k)
                cs.append(Case("SRV tcp %s - - %s" % (mb.rscript(parts), svc), {"k": "srv_pipe", "exp": exp + ["WAIT"], "nparts": len(parts), "nframes": k}))
        # --- all compositions of short streams (server: 8-byte RSI frame (+ a second frame in thorough); client: 9..11-byte replies)
        f1 = mb.tcp_frame(0x1234, 0x56, b"\x11")
        f2 = mb.tcp_frame(0xFFFF, 0x00, b"\x11")
        streams = [(f1, ["C:86:RSI", "WAIT"])]
        streams.append((f1 + f2[:4], ["C:86:RSI", "WAIT"]))
        if tier == "thorough":
            streams.append((f1 + f2, ["C:86:RSI", "C:0:RSI", "WAIT"]))
        for stream, exp in streams:
            for parts in mb.all_compositions(stream):
                cs.append(Case("SRV tcp %s - - -" % mb.rscript(parts), {"k": "srv_allcomp", "exp": exp, "nparts": len(parts), "nframes": len(exp) - 1}))
        reply = mb.tcp_frame(0, 9, b"\x03\x02\xab\xcd")          # 11 bytes
        for parts in mb.all_compositions(reply):
            cs.append(Case(cligen.cli_line("tcp", 9, [cligen.call_op(("RHR", 1, 1), R=mb.rscript(parts))]), {"k": "cli_allcomp", "want": "OK:RHR:43981", "nparts": len(parts)}))
        # --- nothing early: every proper prefix alone
        for _ in range(30 if tier == "quick" else 200):
            req = mb.rnd_req(rng)
            if mb.spec_req_size(req) > 253:
                continue
            fr = mb.tcp_frame(rng.randrange(65536), rng.randrange(256), mb.spec_req_pdu(req))
            for cut in (range(1, len(fr)) if len(fr) < 40 else sorted(set([1, 6, 7, 8, len(fr) - 1] + [rng.randrange(1, len(fr)) for _ in range(8)]))):
                cs.append(Case("SRV tcp d%s - - r=RSI:7:1:-" % fr[:cut].hex(), {"k": "srv_prefix", "exp": ["WAIT"], "nparts": 2}))
                cs.append(Case("SRV tcp d%s,eof - - r=RSI:7:1:-" % fr[:cut].hex(), {"k": "srv_prefix_eof", "nparts": 2}))
        # --- length field values
        lens = range(65536) if tier == "thorough" else sorted(set(list(range(0, 300)) + [65535, 65534, 32768, 256, 255, 254] + [rng.randrange(65536) for _ in range(300)]))
        for L in lens:
            for payload in (b"\x11", b"\x03\x00\x01\x00\x01"):
                hdr = mb.be16(5) + b"\x00\x00" + mb.be16(L) + b"\x09"
                cs.append(Case("SRV tcp d%s - - r=RSI:7:1:-" % (hdr + payload).hex(), {"k": "srv_len", "L": L, "p": len(payload), "payload": payload.hex(), "nparts": 1}))
                cs.append(Case(cligen.cli_line("tcp", 9, [cligen.call_op(("RHR", 1, 1), R="d" + (mb.be16(0) + b"\x00\x00" + mb.be16(L) + b"\x09" + b"\x03\x02\x00\x07").hex())]),
                               {"k": "cli_len", "L": L, "nparts": 1}))
        # --- a bare header as the last thing on the line (no PDU byte behind it): length 0, length 1 (empty PDU), bad protocol id with
        #     length 1 -- complete as soon as the 7th byte is there, under ALL compositions of the 7 bytes, after 0..2 good frames
        for L, pid, kind in ((0, 0, "zero"), (1, 0, "empty"), (1, 0x0100, "pid"), (0, 7, "zero")):
            hdr = mb.be16(0) + mb.be16(pid) + mb.be16(L) + b"\x09"
            comps = list(mb.all_compositions(hdr))
            for parts in comps:
                cs.append(Case("SRV tcp %s - - r=RSI:7:1:-" % mb.rscript(parts), {"k": "srv_bare", "kind": kind, "exp": [], "nparts": len(parts)}))
                cs.append(Case(cligen.cli_line("tcp", 9, [cligen.call_op(("RHR", 1, 1), R=mb.rscript(parts))]), {"k": "cli_bare", "kind": kind, "nparts": len(parts)}))
            for _ in range(6 if tier == "quick" else 40):
                good = mb.tcp_frame(rng.randrange(65536), 3, b"\x11")
                pre = good * rng.randrange(1, 3)
                exp = ["C:3:RSI", "W:" + mb.tcp_frame(int.from_bytes(good[:2], "big"), 3, b"\x11\x02\x07\xff").hex()] * (len(pre) // len(good))
                parts = mb.chunkings(pre + hdr, rng, 1)[0]
                cs.append(Case("SRV tcp %s - - r=RSI:7:1:-,r=RSI:7:1:-" % mb.rscript(parts), {"k": "srv_bare", "kind": kind, "exp": exp, "nparts": len(parts)}))
        # --- protocol identifier
        pids = [1 << i for i in range(16)] + [0xFFFF] + [rng.randrange(1, 65536) for _ in range(40)]
        for pid in pids:
            fr = mb.be16(7) + mb.be16(pid) + mb.be16(2) + b"\x01\x11"
            after = mb.tcp_frame(8, 1, b"\x11")
            for parts in ([fr + after], [fr[:3], fr[3:] + after], [fr[:7], fr[7:], after]):
                cs.append(Case("SRV tcp %s - - r=RSI:7:1:-,r=RSI:7:1:-" % mb.rscript(parts), {"k": "srv_pid", "nparts": len(parts)}))
            rfr = mb.be16(0) + mb.be16(pid) + mb.be16(5) + b"\x09\x03\x02\x00\x07"
            cs.append(Case(cligen.cli_line("tcp", 9, [cligen.call_op(("RHR", 1, 1), R="d" + rfr.hex())]), {"k": "cli_pid", "nparts": 1}))
            # the same reply split at every offset, its payload being bytes that would themselves pass for a frame answering the NEXT
            # call; then a further call with its own reply: the refused frame is refused as a whole (nothing of it is delivered later,
            # nothing is reported before it is complete) and the next call gets its own reply
            if pid in (1, 0x8000, 0xFFFF) or rng.random() < 0.1:
                forged = mb.tcp_frame(1, 9, b"\x03\x02\xde\xad")
                bad = mb.be16(0) + mb.be16(pid) + mb.be16(1 + len(forged)) + b"\x09" + forged
                own = mb.tcp_frame(1, 9, b"\x03\x02\x00\x2a")
                for cut in range(1, len(bad)):
                    ops = [cligen.call_op(("RHR", 1, 1), R=mb.rscript([bad[:cut], bad[cut:]])), cligen.call_op(("RHR", 2, 1), R="d" + own.hex())]
                    cs.append(Case(cligen.cli_line("tcp", 9, ops), {"k": "cli_pid_next", "nparts": 2, "cut": cut}))
        # --- emitted frames
        for _ in range(300 if tier == "quick" else 3000):
            req = mb.rnd_req(rng)
            if mb.spec_req_size(req) <= 253:
                cs.append(Case(cligen.cli_line("tcp", rng.randrange(256), [cligen.call_op(req)]), {"k": "emit_req", "nparts": 1}))
            rsp = mb.rnd_rsp(rng)
            if mb.spec_rsp_size(rsp) <= 253:
                cs.append(Case("SRV tcp d%s - - r=%s" % (mb.tcp_frame(3, 4, b"\x11").hex(), mb.show_rsp(rsp)), {"k": "emit_rsp", "nparts": 1}))
            cs.append(Case("SRV tcp d%s - - x=%d" % (mb.tcp_frame(3, 4, b"\x11").hex(), rng.randrange(256)), {"k": "emit_rsp", "nparts": 1}))
        # emitted frames when an earlier call (write error, zero write, abandoned mid-write) left bytes in the write buffer
        for _ in range(200 if tier == "quick" else 2000):
            slave = rng.randrange(256)
            ops = []
            for i in range(rng.randrange(2, 5)):
                req = mb.rnd_req(rng, rng.choice(["RC", "RHR", "WSR", "WSC", "MWR", "WMR", "RSI", "WMC"]))
                if mb.spec_req_size(req) > 60:
                    req = ("RHR", 1, 1)
                flen = 7 + mb.spec_req_size(req)
                k = rng.randrange(0, flen)
                mode = rng.choice(["ok", "ok", "werr", "abandon", "zero", "oversize"]) if i < 3 else "ok"
                if mode == "oversize":
                    # a request the encoder refuses (PDU > 253 bytes): nothing of it -- no part of an MBAP header either -- may reach the stream
                    big = rng.choice([("WMR", 7, [1] * rng.randrange(124, 140)), ("WMC", 7, [True] * rng.randrange(1977, 2100)),
                                      ("CU", 0x41, bytes(rng.randrange(253, 300))), ("RWMR", 1, 1, 2, [5] * rng.randrange(122, 130))])
                    ops.append(cligen.call_op(big))
                    continue
                if mode == "ok":
                    ops.append(cligen.call_op(req, R="e:Other"))
                elif mode == "werr":
                    ops.append(cligen.call_op(req, W=("a%d," % k if k else "") + "e:Other"))
                elif mode == "zero":
                    ops.append(cligen.call_op(req, W=("a%d," % k if k else "") + "z"))
                else:
                    ops.append(cligen.call_op(req, W=("a%d," % k if k else "") + "p", drop="0"))
            cs.append(Case(cligen.cli_line("tcp", slave, ops), {"k": "emit_hist", "nparts": 2}))
        return cs

    @staticmethod
    def check_emitted(h):
        b = bytes.fromhex(h)
        if len(b) < 8:
            return "emitted frame shorter than a header + 1"
        if b[2] or b[3]:
            return "emitted protocol identifier %02x%02x" % (b[2], b[3])
        if (b[4] << 8 | b[5]) != len(b) - 6:
            return "emitted length field %d, PDU length + 1 = %d" % (b[4] << 8 | b[5], len(b) - 6)
        return None

    def oracle(self, c):
        m, r = c.meta, c.impl or ""
        k = m["k"]
        if "PANIC" in r or "HUNG" in r:
            return "panic/hang"
        tr = r.split(",")
        if k in ("srv_pipe", "srv_allcomp", "srv_prefix"):
            return None if tr == m["exp"] else "delivered %s, want %s" % (",".join(tr)[:90], ",".join(m["exp"])[:90])
        if k == "srv_prefix_eof":
            if any(t.startswith("C:") for t in tr):
                return "request delivered from an incomplete frame"
            return None if tr[-1].startswith("R:") else "truncated frame at end of stream not reported: %s" % r[:60]
        if k == "cli_allcomp":
            res, _ = cligen.res_and_w(r)
            return None if res == m["want"] else "client returned %s, want %s" % (res[:60], m["want"])
        if k == "srv_len":
            L, p = m["L"], m["p"]
            calls = [t for t in tr if t.startswith("C:")]
            if L == 0:
                return None if (not calls and tr[-1] == "R:InvalidData") else "length 0 not reported as invalid data: %s" % r[:60]
            if p < L - 1:
                return None if tr == ["WAIT"] else "delivered/ended before the announced frame was complete: %s" % r[:60]
            if p == L - 1:
                return None if len(calls) == 1 else "exact frame not delivered once: %s" % r[:60]
            # announced PDU shorter than the payload: the first L-1 bytes are the PDU, the rest belongs to the next frame
            if len(calls) > 1:
                return "more than one request delivered: %s" % r[:80]
            return None
        if k == "cli_len":
            res, _ = cligen.res_and_w(r)
            L = m["L"]
            if L == 0:
                return None if res == "T:InvalidData" else "length 0: %s" % res[:60]
            if L - 1 > 4:
                return None if res == "WAIT" else "returned before the announced frame was complete: %s" % res[:60]
            if L - 1 == 4:
                return None if res == "OK:RHR:7" else "exact frame: %s" % res[:60]
            return None if not res.startswith("OK:") else "success from a frame announced shorter than its PDU: %s" % res[:60]
        if k == "srv_bare":
            if tr[:-1] != m["exp"]:
                return "before the bare header: delivered %s, want %s" % (",".join(tr[:-1])[:90], ",".join(m["exp"])[:90])
            if m["kind"] == "empty":
                return None if tr[-1].startswith("R:") else "frame with an empty PDU not reported as an error: %s" % r[-60:]
            return None if tr[-1] == "R:InvalidData" else "complete invalid header (%s) not reported as an error: %s" % (m["kind"], r[-60:])
        if k == "cli_bare":
            res, _ = cligen.res_and_w(r)
            if m["kind"] == "empty":
                return None if res.startswith("T:") else "empty PDU frame: %s" % res[:60]
            return None if res == "T:InvalidData" else "complete invalid header (%s) in a reply not reported: %s" % (m["kind"], res[:60])
        if k == "srv_pid":
            if any(t.startswith("C:") for t in tr) or any(t.startswith("W:") for t in tr):
                return "frame with a non-zero protocol identifier was delivered / answered: %s" % r[:80]
            return None if tr[-1] == "R:InvalidData" else "non-zero protocol identifier not reported as an error: %s" % r[:60]
        if k == "cli_pid":
            res, _ = cligen.res_and_w(r)
            return None if res == "T:InvalidData" else "non-zero protocol identifier in a reply: %s" % res[:60]
        if k == "cli_pid_next":
            rs = cligen.split_results(r)
            if len(rs) != 2:
                return "result count: %s" % r[:80]
            r1, r2 = cligen.res_and_w(rs[0])[0], cligen.res_and_w(rs[1])[0]
            if r1 != "T:InvalidData":
                return "reply with a non-zero protocol identifier split at offset %d: %s" % (m["cut"], r1[:60])
            return None if r2 == "OK:RHR:42" else "after a refused frame (split at offset %d) the next call returned %s instead of its own reply 42: bytes of the refused frame were delivered" % (m["cut"], r2[:60])
        if k == "emit_hist":
            stream = b"".join(cligen.res_and_w(x)[1] for x in cligen.split_results(r))
            pos = 0
            while pos + 7 <= len(stream):
                ln = stream[pos + 4] << 8 | stream[pos + 5]
                if stream[pos + 2] or stream[pos + 3]:
                    return "transmitted stream: protocol identifier %02x%02x at offset %d" % (stream[pos + 2], stream[pos + 3], pos)
                if ln < 2 or ln > 254:
                    return "transmitted stream: length field %d at offset %d is not a PDU length + 1" % (ln, pos)
                if pos + 6 + ln > len(stream):
                    break
                cl = mb.classify_req(stream[pos + 7:pos + 6 + ln])
                if cl[0] != "accept":
                    return "transmitted stream: frame at offset %d does not carry a well-formed request PDU of the announced length" % pos
                pos += 6 + ln
            return None
        if k == "emit_req":
            res, w = cligen.res_and_w(r)
            return self.check_emitted(w.hex())
        if k == "emit_rsp":
            ws = [t[2:] for t in tr if t.startswith("W:")]
            if len(ws) != 1:
                return "expected one reply frame: %s" % r[:60]
            return self.check_emitted(ws[0])
        return None

    def nontrivial(self, c):
        return c.meta.get("nparts", 1) >= 2 or c.meta["k"] in ("srv_pid", "cli_pid", "cli_pid_next", "srv_len", "cli_len", "srv_bare", "cli_bare") or c.meta.get("nframes", 1) >= 2

    def distribution(self, cases):
        d = {}
        for c in cases:
            d[c.meta["k"]] = d.get(c.meta["k"], 0) + 1
        return d
