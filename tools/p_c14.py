"""C14 -- a server connection ends cleanly or with one error report; the server lives on."""
from runner import Prop
from vlib import Case
import mb, cligen, p_c18, vlib
from p_c07 import gen_pipeline, svc_tok, expected_trace


class PROP(Prop):
    id = "C14"
    profiles = ["debug"]
    rule = ("request sequences (1..4 requests) on the real TCP and RTU-over-TCP servers with: end of stream at EVERY byte offset; a write failure (zero write or an error of every io::ErrorKind, rotating) and a failing flush "
            "(error / zero write) at EVERY offset of every reply; read errors; every class of malformed input (invalid MBAP header, undecodable "
            "PDU, RTU noise beyond the retry limit, oversized reply); accept-loop histories mixing good, rejected, misbehaving, reset-in-the-backlog and failing connection setups, "
            "a setup that never completes, and an abort signal over real loopback sockets; the serial RTU server (server::rtu) on a pty with undecodable requests after j good ones and with the abort signal.  Oracle: silent end on a frame boundary; otherwise exactly one error report; all "
            "complete requests before the fault served (and answered), none after; accept loop keeps serving after failed/rejected/misbehaving "
            "connections, stops with the error on a failing setup, reports Aborted on abort.  non-trivial = a fault was injected")

    def cases(self, rng, tier):
        cs = []
        n = 25 if tier == "quick" else 150
        wrot = rng.randrange(100)
        for proto in ("tcp", "rtu"):
            for _ in range(n):
                k = rng.choice([1, 2, 3, 4])
                frames, hdrs, reqs, svc = gen_pipeline(rng, proto, k)
                frames = [f for f in frames]
                stream = b"".join(frames)
                if len(stream) > 120:
                    continue
                bounds = [0]
                for f in frames:
                    bounds.append(bounds[-1] + len(f))
                svctok = ",".join(svc_tok(e) for e in svc)
                full = expected_trace(proto, hdrs, reqs, svc)
                # --- EOF / read error at every offset
                for off in range(len(stream) + 1):
                    for tail in ("eof", "e:ConnectionReset"):
                        ncomplete = max(i for i, b in enumerate(bounds) if b <= off)
                        exp = expected_trace(proto, hdrs[:ncomplete], reqs[:ncomplete], svc[:ncomplete])
                        on_boundary = off in bounds
                        parts = [stream[:off]] if rng.random() < 0.5 else mb.chunkings(stream[:off], rng, 1)[0] if off > 1 else [stream[:off]]
                        line = "SRV %s %s - - %s" % (proto, mb.rscript(parts, [tail]), svctok)
                        cs.append(Case(line, {"k": "readend", "proto": proto, "exp": exp, "clean": on_boundary and tail == "eof", "tail": tail, "off": off}))
                # --- write failure at every offset of every reply
                wpos = 0
                replies = [e[2:] for e in full if e.startswith("W:")]
                total = sum(len(r) // 2 for r in replies)
                kinds = cligen.KINDS
                for off in range(total):
                    # every error kind is a failure to write the reply, also the ones that look transient (Interrupted, WouldBlock) or like
                    # an encoder refusal (InvalidInput, InvalidData): each kind rotates over the offsets
                    for fault in ("e:BrokenPipe", "z", "e:" + kinds[(off + wrot) % len(kinds)], "e:" + kinds[(2 * off + wrot + 7) % len(kinds)]):
                        # one accept event per reply that is written completely, then the partial accept, then the fault
                        exp, acc, wev = [], 0, []
                        for e in full:
                            if e.startswith("W:"):
                                ln = len(e[2:]) // 2
                                if acc + ln > off:
                                    part = e[2:][: 2 * (off - acc)]
                                    if part:
                                        exp.append("W:" + part)
                                        wev.append("a%d" % (off - acc))
                                    break
                                wev.append("a%d" % ln)
                                acc += ln
                            exp.append(e)
                        W = ",".join(wev + [fault])
                        line = "SRV %s %s %s - %s" % (proto, mb.rscript([stream]), W, svctok)
                        cs.append(Case(line, {"k": "writefail", "proto": proto, "exp": exp, "clean": False, "off": off}))
                wrot += total
                # --- the reply is accepted by the transport but the flush that follows it fails
                if replies:
                    first = next(i for i, e in enumerate(full) if e.startswith("W:"))
                    for kind in rng.sample(kinds, 4):
                        line = "SRV %s %s - e:%s %s" % (proto, mb.rscript([stream]), kind, svctok)
                        cs.append(Case(line, {"k": "flushfail", "proto": proto, "exp": full[:first + 1], "clean": False}))
            # --- malformed input classes after j good requests
            for _ in range(150 if tier == "quick" else 1000):
                k = rng.choice([0, 1, 2])
                frames, hdrs, reqs, svc = gen_pipeline(rng, proto, k)
                good = b"".join(frames)
                if proto == "tcp":
                    bad = rng.choice([
                        mb.be16(1) + b"\x00\x01" + mb.be16(6) + b"\x01\x03\x00\x00\x00\x01",          # protocol id
                        mb.be16(1) + b"\x00\x00" + mb.be16(0) + b"\x01\x03\x00\x00\x00\x01",          # length 0
                        mb.tcp_frame(1, 1, b"\x05\x00\x01\x12\x34"),                                   # bad coil value
                        mb.tcp_frame(1, 1, b"\x83\x02"),                                               # fc >= 0x80
                        mb.tcp_frame(1, 1, b"\x10\x00\x01\x00\x02\x03\x00\x01\x00"),                   # bad byte count
                        mb.tcp_frame(1, 1, b"\x0f\x00\x00\xff\xff\x01\xaa"),
                        mb.tcp_frame(1, 1, b"\x03\x00\x10"),                                           # PDU cut short inside a complete frame
                        mb.tcp_frame(1, 1, b"\x10\x00\x01\x00\x02\x04\x00\x01"),
                        mb.tcp_frame(1, 1, b""),                                                       # no PDU at all (length 1)
                        mb.tcp_frame(1, 1, b"\x16\x00"),
                    ])
                else:
                    bad = rng.choice([
                        bytes([0x00, 0x80] * 13),                                                       # noise beyond retry limit
                        mb.rtu_frame(1, b"\x05\x00\x01\x12\x34"),
                        mb.rtu_frame(1, b"\x10\x00\x01\x00\x02\x03\x00\x01\x00"),
                        mb.rtu_frame(1, b"\x0f\x00\x00\xff\xff\x01\xaa"),
                    ])
                # followed by a further good request, by nothing at all (the malformed input is the last thing in the buffer,
                # the line then stays open or is closed), or arriving in a read of its own
                after = rng.choice([cligen.frame(proto, 9, 9, b"\x11"), b"", b""])
                tail = rng.choice([[], ["eof"]])
                parts = rng.choice([[good + bad + after], [good, bad + after], [good + bad, after]])
                exp = expected_trace(proto, hdrs, reqs, svc)
                line = "SRV %s %s - - %s" % (proto, mb.rscript(parts, tail), ",".join([svc_tok(e) for e in svc] + ["r=RSI:1:1:-"]))
                cs.append(Case(line, {"k": "malformed", "proto": proto, "exp": exp, "clean": False}))
        # --- a header announcing (nearly) the largest frame a u16 length field can, then the stream ends inside that frame: one report
        for L in (0xFFFF, 0xFFFE, 0xFFFA, 0xFFF9, 0x8000, 0x0100):
            for extra in (0, 1, 40):
                k = rng.choice([0, 1, 2])
                frames, hdrs, reqs, svc = gen_pipeline(rng, "tcp", k)
                good = b"".join(frames)
                bad = mb.be16(1) + b"\x00\x00" + mb.be16(L) + b"\x01" + bytes([0x41] * min(extra, 1)) + bytes(max(0, extra - 1))
                exp = expected_trace("tcp", hdrs, reqs, svc)
                line = "SRV tcp %s - - %s" % (mb.rscript([good + bad] if rng.random() < 0.5 else [good, bad], ["eof"]), ",".join([svc_tok(e) for e in svc] + ["r=RSI:1:1:-"]))
                cs.append(Case(line, {"k": "malformed", "proto": "tcp", "exp": exp, "clean": False}))
        # --- the serial RTU server's own loop over a pty: no error callback, the report is the value serve_until returns
        for _ in range(40 if tier == "quick" else 300):
            k = rng.choice([0, 1, 2, 3])
            frames, hdrs, reqs, svc = gen_pipeline(rng, "rtu", k)
            good = b"".join(frames)
            exp = expected_trace("rtu", hdrs, reqs, svc)
            svctok = ",".join([svc_tok(e) for e in svc] + ["r=RSI:1:1:-"])
            mode = rng.choice(["bad", "bad", "abort"])
            if mode == "bad":
                bad = rng.choice([mb.rtu_frame(1, b"\x05\x00\x01\x12\x34"), mb.rtu_frame(1, b"\x10\x00\x01\x00\x02\x03\x00\x01\x00"),
                                  mb.rtu_frame(1, b"\x0f\x00\x00\xff\xff\x01\xaa"), mb.rtu_frame(7, b"\x06\x00\x01\x00")[:0] or mb.rtu_frame(7, b"\x0f\x00\x00\x00\x09\x01\xff")])
                stream = good + bad + mb.rtu_frame(9, b"\x11")
                parts = [stream] if rng.random() < 0.5 else mb.chunkings(stream, rng, 1)[0]
                cs.append(cligen.ser_case(parts, svctok, exp, "e", meta={"k": "serial", "proto": "serial", "exp": exp, "clean": False, "want_end": "E"}))
            else:
                parts = [good] if rng.random() < 0.5 or len(good) < 2 else mb.chunkings(good, rng, 1)[0]
                cs.append(cligen.ser_case(parts if good else [], svctok, exp, "w", abort=True, meta={"k": "serial", "proto": "serial", "exp": exp, "clean": False, "want_end": "ABORTED"}))
        # --- accept loop
        for _ in range(40 if tier == "quick" else 300):
            evs = [rng.choice(["s", "s", "r", "b", "k"]) for _ in range(rng.randrange(1, 7))]     # k: peer reset while still in the backlog
            end = rng.choice(["a", "e:Other", "e:PermissionDenied", "a", "h,a", "h,a"])            # h: a connection setup that never completes
            for proto in ("tcp", "rtu"):
                good = cligen.frame(proto, 1, 1, b"\x11").hex()
                bad = (b"\x00\x01\x00\x01\x00\x02\x01\x11" if proto == "tcp" else bytes([0x00, 0x80] * 13)).hex()
                cs.append(Case("ACCEPT %s %s %s %s" % (proto, good, bad, ",".join(evs + [end])), {"k": "accept", "proto": proto, "evs": evs, "end": end}))
        # other connections are unaffected when a later connection's setup fails (serve stops with that error) or is rejected
        cs += p_c18.survive_cases(rng, tier)
        return cs

    def project(self, case, s):
        if case.meta.get("ser"):
            return vlib.ser_norm(s, case.meta.get("abort"))
        return s

    def oracle(self, c):
        m = c.meta
        r = c.impl or ""
        if "PANIC" in r or "HUNG" in r:
            return "panic/hang: %s" % r[:80]
        if m["k"] == "survive":
            return p_c18.survive_oracle(c)
        if m["k"] == "accept":
            # served connections: every 's' and 'b' (misbehaving) gets a task; 'r' rejected; then end
            served = sum(1 for e in m["evs"] if e in ("s", "b", "k"))
            want_end = "ABORTED" if m["end"] in ("a", "h,a") else "E:" + m["end"][2:]
            parts = r.split(" ")
            if len(parts) != 3:
                return "accept result: %s" % r[:80]
            if parts[0] != "served=%d" % served:
                return "accept loop served %s connections, want %d (events %s)" % (parts[0], served, m["evs"])
            if parts[2] != want_end:
                return "serve ended with %s, want %s" % (parts[2], want_end)
            bad = sum(1 for e in m["evs"] if e == "b")
            if parts[1] != "reports=%d" % bad:
                return "error reports %s, want %d" % (parts[1], bad)
            return None
        if m["k"] == "serial":
            got = vlib.ser_norm(r, m.get("abort")).split("|")
            want = vlib.ser_norm(",".join(m["exp"] + ["WAIT"]), m.get("abort")).split("|")
            if len(got) != 3:
                return "serial server result: %s" % r[:80]
            if got[:2] != want[:2]:
                return "serial RTU server served %s / wrote %s before the fault; want %s / %s" % (got[0][:80], got[1][:60], want[0][:80], want[1][:60])
            if m["want_end"] == "E":
                return None if got[2].startswith("E:") else "undecodable request must end serve_until with an error; it ended with %s" % got[2]
            return None if got[2] == m["want_end"] else "serve_until ended with %s, want %s" % (got[2], m["want_end"])
        tr = r.split(",")
        body, end = tr[:-1], tr[-1]
        reports = [t for t in tr if t.startswith("R:")]
        if m["clean"]:
            if end != "CLOSED" or reports:
                return "peer closed on a frame boundary but the connection ended with %s" % ",".join(tr[-2:])[:80]
        else:
            if len(reports) != 1 or not end.startswith("R:"):
                return "fault must end the connection with exactly one error report; trace ends %s" % ",".join(tr[-3:])[:100]
        if body != m["exp"]:
            for i, (a, b) in enumerate(zip(body + ["<end>"], m["exp"] + ["<end>"])):
                if a != b:
                    return "requests served before the fault differ at event %d: got %s, want %s" % (i, a[:60], b[:60])
            return "served events: got %d, want %d" % (len(body), len(m["exp"]))
        return None

    def nontrivial(self, c):
        return not c.meta.get("clean", False)

    def distribution(self, cases):
        d = {}
        for c in cases:
            d[c.meta["k"]] = d.get(c.meta["k"], 0) + 1
        return d
