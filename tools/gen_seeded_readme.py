#!/usr/bin/env python3
import json, glob, os
V = os.path.dirname(os.path.dirname(os.path.abspath(__file__)))
rows = []
for p in sorted(glob.glob(os.path.join(V, "seeded", "*", "meta.json"))):
    m = json.load(open(p))
    rows.append(m)
out = ["# Seeded changes\n",
       "Each directory holds `patch.diff` (apply with `git -C /repo apply`, undo with `git -C /repo checkout -- .`), the demonstration",
       "(`mutant_demo.rs`, an integration test using only the public API that fails with the change and passes without it) and `meta.json`.",
       "The `Cxx-*` entries were written by independent sub-agents that saw only the property text and a scratch worktree; I re-confirmed each",
       "in a fresh worktree (`tools/confirm_mutant.sh`: demo passes without the change; with it the crate builds with all features, the 90 pinned",
       "tests pass, the demo fails) and then ran the checks with `tools/try_mutant.sh`. The `revert-Fx` entries undo one `fix:` commit each.\n",
       "| change | breaks | needs, in order to manifest | checks that report it | checks run that stay green |", "|---|---|---|---|---|"]
for m in rows:
    cr = m.get("checks_run", {})
    hit = ", ".join(k for k, v in cr.items() if v.startswith("VIOLATION"))
    ok = ", ".join(k for k, v in cr.items() if v == "passed")
    need = (m.get("needs_to_manifest") or "").replace("\n", " ").replace("|", "/")[:260]
    out.append("| %s | %s | %s | %s | %s |" % (m["name"], m["breaks_property"], need, hit, ok))
out.append("\nNotes on strengthening: `C04-crc-over-whole-write-buffer` was first missed by check C04 (caught only by C16); C04 now also replays call histories that leave bytes in the write buffer.")
out.append("`C13-eof-kind-from-errno` needs errno 103/104, which the quick tier did not force; the orderly-end-of-stream cases now run under every errno state in both tiers.")
out.append("`C18-accept-loop-waits-for-first-byte` needs an idle earlier connection; the concurrent runs now contain idle connections and a one-sided completion-time bound for the others")
out.append("(the change is also reported by C07/C14 because every injected-transport connection then hangs; a hang circuit breaker in the harness keeps such runs short).")
out.append("\nChanges first missed by the check of the property they break (each led to a stronger check; `history` in meta.json):")
for m in rows:
    for h in m.get("history", []):
        out.append("* `%s`: %s" % (m["name"], h))
open(os.path.join(V, "seeded", "README.md"), "w").write("\n".join(out) + "\n")
print(len(rows), "entries")
