"""C11 -- RTU framing delivers every clean frame and resynchronises after line noise."""
from runner import Prop
from vlib import Case
import mb, cligen, rtugen


class PROP(Prop):
    id = "C11"
    profiles = ["debug"]
    rule = ("RTU server and client: pipelined clean streams of supported requests/responses for all slave ids under random chunkings, byte-wise "
            "delivery and ALL compositions of short streams; every payload length of every variable-size request and response (all in thorough, all "
            ">= 200 bytes plus a sample in quick); noise strings over {0x00,0x80,0x41-0x48,0x64-0x6E} of length 0..=16 (and up to 40 to "
            "probe the limit, compared with the model only) before a valid frame whose slave id is a noise value, under random chunkings, one chunk, "
            "byte-wise; long noise (up to 1031 bytes, every length around the multiples of the decoder's 256-entry skip record; every length 0..1099 in the thorough tier) arriving byte by byte and in bursts, server and client side.  Oracle: every clean frame delivered once in order; frame after "
            "admissible noise delivered.  non-trivial = >= 2 frames, a split frame, or noise present")

    def cases(self, rng, tier):
        cs = []
        n = 300 if tier == "quick" else 3000
        # clean pipelines, server side
        for _ in range(n):
            k = rng.choice([1, 2, 3, 6])
            frames, exp = [], []
            for _i in range(k):
                req = rtugen.rtu_req(rng)
                slave = rng.randrange(256)
                frames.append(mb.rtu_frame(slave, mb.spec_req_pdu(req)))
                exp.append("C:%d:%s" % (slave, mb.show_req(req)))
            stream = b"".join(frames)
            for parts in mb.chunkings(stream, rng, 2) + [[stream]] + ([[stream[i:i + 1] for i in range(len(stream))]] if len(stream) < 120 else []):
                cs.append(Case("SRV rtu %s - - -" % mb.rscript(parts), {"k": "srv_clean", "exp": exp + ["WAIT"], "nparts": len(parts), "nframes": k}))
                # the same stream to a service that ANSWERS every request (with an exception): answering must not cost any of the
                # frames that arrived in the same read
                cs.append(Case("SRV rtu %s - - %s" % (mb.rscript(parts), ",".join(["x=%d" % rng.randrange(1, 12) for _ in range(k)])),
                               {"k": "srv_clean", "exp": exp + ["WAIT"], "nparts": len(parts), "nframes": k, "answered": True}))
        # EVERY payload length of the variable-size requests (complete sweep of the byte-count arithmetic of the request table),
        # each between two small frames so that a lost frame or a lost successor shows
        small1, small2 = mb.rtu_frame(0x11, b"\x11"), mb.rtu_frame(0x22, b"\x03\x00\x01\x00\x02")
        big = [("WMR", rng.randrange(65536), [rng.randrange(65536) for _ in range(q)]) for q in range(1, 124)]
        big += [("WMC", rng.randrange(65536), [rng.random() < 0.5 for _ in range(8 * bc - rng.randrange(0, 8))]) for bc in range(1, 247)]
        big += [("RWMR", rng.randrange(65536), rng.randrange(1, 126), rng.randrange(65536), [rng.randrange(65536) for _ in range(q)]) for q in range(1, 122)]
        if tier == "quick":
            big = [r for r in big if mb.spec_req_size(r) >= 200 or rng.random() < 0.2]
        for req in big:
            if mb.spec_req_size(req) > 253:
                continue
            slave = rng.randrange(256)
            stream = small1 + mb.rtu_frame(slave, mb.spec_req_pdu(req)) + small2
            parts = rng.choice([[stream], mb.chunkings(stream, rng, 1)[0], [stream[:7], stream[7:100], stream[100:]]])
            cs.append(Case("SRV rtu %s - - -" % mb.rscript(parts), {"k": "srv_clean", "exp": ["C:17:RSI", "C:%d:%s" % (slave, mb.show_req(req)), "C:34:RHR:1:2", "WAIT"], "nparts": len(parts), "nframes": 3}))
        # EVERY payload length of the variable-size responses, client side
        bigr = [(("RHR", 1, q), ("RHR", [rng.randrange(65536) for _ in range(q)])) for q in range(1, 126)]
        bigr += [(("RIR", 1, q), ("RIR", [rng.randrange(65536) for _ in range(q)])) for q in range(1, 126)]
        bigr += [(("RWMR", 1, q, 2, [7]), ("RWMR", [rng.randrange(65536) for _ in range(q)])) for q in range(1, 126)]
        bigr += [((k, 1, 8 * bc), (k, [rng.random() < 0.5 for _ in range(8 * bc)])) for bc in range(1, 251) for k in ("RC", "RDI")]
        bigr += [(("RSI",), ("RSI", rng.randrange(256), rng.random() < 0.5, bytes(rng.randrange(256) for _ in range(n)))) for n in range(0, 250)]
        if tier == "quick":
            bigr = [x for x in bigr if mb.spec_rsp_size(x[1]) >= 235 or rng.random() < 0.12]
        for req, rsp in bigr:
            if mb.spec_rsp_size(rsp) > 253:
                continue
            slave = rng.randrange(256)
            fr = mb.rtu_frame(slave, mb.spec_rsp_pdu(rsp))
            parts = rng.choice([[fr], mb.chunkings(fr, rng, 1)[0], [fr[:3], fr[3:]]])
            cs.append(Case(cligen.cli_line("rtu", slave, [cligen.call_op(req, R=mb.rscript(parts))]),
                           {"k": "cli_clean", "want": "OK:" + mb.show_rsp(mb.pad_rsp(rsp)), "nparts": len(parts), "nframes": 1}))
        # all compositions of short streams
        f = mb.rtu_frame(0x11, b"\x11")            # 4 bytes
        g = mb.rtu_frame(0x22, b"\x03\x00\x01\x00\x02")   # 8 bytes
        for stream, exp in [(f + g, ["C:17:RSI", "C:34:RHR:1:2", "WAIT"]), (g + f, ["C:34:RHR:1:2", "C:17:RSI", "WAIT"])] + ([(g + g[:6], ["C:34:RHR:1:2", "WAIT"])] if tier == "thorough" else []):
            for parts in mb.all_compositions(stream):
                cs.append(Case("SRV rtu %s - - -" % mb.rscript(parts), {"k": "srv_allcomp", "exp": exp, "nparts": len(parts), "nframes": 2}))
        # client side clean replies, all slaves
        for slave in range(256):
            req = mb.rnd_req(rng, rng.choice(["RC", "RHR", "WSR", "WSC", "MWR", "RIR", "RDI", "WMR", "WMC", "RSI"]))
            if mb.spec_req_size(req) > 253:
                continue
            rsp = mb.matching_rsp(rng, req)
            if mb.spec_rsp_size(rsp) > 253:
                continue
            fr = mb.rtu_frame(slave, mb.spec_rsp_pdu(rsp))
            for parts in mb.chunkings(fr, rng, 2) + ([list(p) for p in mb.all_compositions(fr)] if len(fr) <= 8 and slave < 8 else []):
                cs.append(Case(cligen.cli_line("rtu", slave, [cligen.call_op(req, R=mb.rscript(parts))]),
                               {"k": "cli_clean", "want": "OK:" + mb.show_rsp(mb.pad_rsp(rsp)), "nparts": len(parts), "nframes": 1}))
        # every KIND of reply the response length table knows -- the serial-line codes (0x07, 0x0B, 0x0C, 0x18 with its 16-bit count)
        # and the exception form of every function code 0x01..0x2B (0x81..0xAB) included -- cut in two at EVERY offset and byte by byte
        kinds = [(("CU", 0x18, b"\x12\x34"), ("CU", 0x18, bytes([0, 4, 0xAA, 0xBB, 0xCC, 0xDD]))), (("CU", 0x18, b"\x00\x01"), ("CU", 0x18, bytes([0, 0]))),
                 (("CU", 0x07, b""), ("CU", 0x07, b"\x55")), (("CU", 0x0C, b""), ("CU", 0x0C, bytes([3, 1, 2, 3]))), (("CU", 0x0B, b""), ("CU", 0x0B, bytes([0, 0, 0, 9]))),
                 (("RSI",), ("RSI", 7, True, b"xy")), (("MWR", 1, 2, 3), ("MWR", 1, 2, 3)), (("WMC", 1, [True] * 9), ("WMC", 1, 9)), (("WMR", 1, [5, 6]), ("WMR", 1, 2)),
                 (("RWMR", 1, 2, 3, [4]), ("RWMR", [8, 9]))]
        for req, rsp in kinds:
            slave = rng.randrange(1, 248)
            fr = mb.rtu_frame(slave, mb.spec_rsp_pdu(rsp))
            for parts in [[fr]] + [[fr[:i], fr[i:]] for i in range(1, len(fr))] + [[fr[i:i + 1] for i in range(len(fr))]]:
                cs.append(Case(cligen.cli_line("rtu", slave, [cligen.call_op(req, R=mb.rscript(parts))]),
                               {"k": "cli_clean", "want": "OK:" + mb.show_rsp(mb.pad_rsp(rsp)), "nparts": len(parts), "nframes": 1}))
        for fc in range(0x01, 0x2C):
            slave, code = rng.randrange(1, 248), rng.randrange(1, 12)
            named = {1: ("RC", 1, 1), 2: ("RDI", 1, 1), 3: ("RHR", 1, 1), 4: ("RIR", 1, 1), 5: ("WSC", 1, True), 6: ("WSR", 1, 2), 0x0F: ("WMC", 1, [True]),
                     0x10: ("WMR", 1, [2]), 0x11: ("RSI",), 0x16: ("MWR", 1, 2, 3), 0x17: ("RWMR", 1, 1, 2, [3])}
            req = named.get(fc, ("CU", fc, b"\x00"))
            fr = mb.rtu_frame(slave, bytes([fc | 0x80, code]))
            for parts in [[fr], [fr[:2], fr[2:]], [fr[:3], fr[3:]], [fr[i:i + 1] for i in range(len(fr))]]:
                cs.append(Case(cligen.cli_line("rtu", slave, [cligen.call_op(req, R=mb.rscript(parts))]),
                               {"k": "cli_clean", "want": "EX:%d" % code, "nparts": len(parts), "nframes": 1}))
        # two calls on one client: the first fails on a noise burst longer than the decoder's retry budget (in ONE read, so bytes stay
        # in the receive buffer when it gives up); the second one's reply -- clean, or behind admissible noise -- is delivered all the same
        for burst in list(range(21, 64, 3 if tier == "quick" else 1)) + [100, 200]:
            for nz in (0, 3, 16):
                slave = rng.choice(rtugen.NOISE)          # (an id that cannot pass for a function code behind a noise byte, as in the cases below)
                noise1 = bytes(rng.choice(rtugen.NOISE) for _ in range(burst))
                req = ("RHR", rng.randrange(65536), 2)
                rsp = ("RHR", [rng.randrange(65536), rng.randrange(65536)])
                data = bytes(rng.choice(rtugen.NOISE) for _ in range(nz)) + mb.rtu_frame(slave, mb.spec_rsp_pdu(rsp))
                parts = [data] if rng.random() < 0.5 else [data[i:i + 1] for i in range(len(data))]
                ops = [cligen.call_op(("RHR", 1, 1), R=mb.rscript([noise1])), cligen.call_op(req, R=mb.rscript(parts))]
                cs.append(Case(cligen.cli_line("rtu", slave, ops), {"k": "cli_clean", "want": "OK:" + mb.show_rsp(rsp), "nparts": len(parts), "nframes": 1, "last": True}))
        # noise then frame
        for nl in range(0, 41):
            for rep in range(6 if tier == "quick" else 40):
                noise = bytes(rng.choice(rtugen.NOISE) for _ in range(nl))
                slave = rng.choice(rtugen.NOISE)
                req = rtugen.rtu_req(rng)
                fr = mb.rtu_frame(slave, mb.spec_req_pdu(req))
                data = noise + fr
                for mode in ("one", "rand", "bytes"):
                    if mode == "one":
                        parts = [data]
                    elif mode == "rand":
                        parts = mb.chunkings(data, rng, 1)[0]
                    else:
                        parts = [data[i:i + 1] for i in range(len(data))]
                    adm = nl <= 16 or mode == "bytes"
                    cs.append(Case("SRV rtu %s - - -" % mb.rscript(parts), {"k": "srv_noise", "adm": adm, "exp": ["C:%d:%s" % (slave, mb.show_req(req)), "WAIT"], "nparts": len(parts), "nl": nl}))
                # client side
                creq = mb.rnd_req(rng, rng.choice(["RHR", "WSR", "RC"]))
                rsp = mb.matching_rsp(rng, creq)
                if mb.spec_rsp_size(rsp) <= 40:
                    rfr = mb.rtu_frame(slave, mb.spec_rsp_pdu(rsp))
                    data = noise + rfr
                    for mode in ("one", "bytes"):
                        parts = [data] if mode == "one" else [data[i:i + 1] for i in range(len(data))]
                        adm = nl <= 16 or mode == "bytes"
                        cs.append(Case(cligen.cli_line("rtu", slave, [cligen.call_op(creq, R=mb.rscript(parts))]),
                                       {"k": "cli_noise", "adm": adm, "want": "OK:" + mb.show_rsp(mb.pad_rsp(rsp)), "nparts": len(parts), "nl": nl}))
        # exhaustive probe of both length tables.  For every pair (n, b) of noise values: ONE noise byte n before a valid frame
        # whose slave id is b, with the frame's own fields chosen so that "n b <first L-1 PDU bytes>" is followed by the
        # CRC-16 of that window.  Any table row that treats b as a function code of PDU length L (L = 2: an exception-like
        # row; L = 5: an ordinary read/write row) makes that window a CRC-valid frame and the real frame is lost; with the
        # tables as specified b is not a function code, n is dropped and the real frame must be delivered.
        def crcb(x):
            c = mb.crc16(x)
            return c & 0xFF, c >> 8
        pairs = [(n, b) for n in rtugen.NOISE for b in rtugen.NOISE]
        if tier == "quick":
            pairs = [(rng.choice(rtugen.NOISE), b) for b in rtugen.NOISE] + rng.sample(pairs, 60)
        for (n, b) in pairs:
            # L = 2, both directions: write-single-register, address := crc(n b 06)
            lo, hi = crcb(bytes([n, b, 6]))
            val = rng.randrange(65536)
            req = ("WSR", lo << 8 | hi, val)
            fr = mb.rtu_frame(b, mb.spec_req_pdu(req))
            cs.append(Case("SRV rtu %s - - -" % mb.rscript([bytes([n]) + fr]), {"k": "probe_srv", "exp": ["C:%d:%s" % (b, mb.show_req(req)), "WAIT"], "nparts": 1, "nl": 1}))
            rsp = ("WSR", lo << 8 | hi, val)
            cs.append(Case(cligen.cli_line("rtu", b, [cligen.call_op(req, R=mb.rscript([bytes([n]) + mb.rtu_frame(b, mb.spec_rsp_pdu(rsp))]))]),
                           {"k": "probe_cli", "want": "OK:" + mb.show_rsp(rsp), "nparts": 1, "nl": 1}))
            # L = 5, response: read-holding-registers with 2 words, second word := crc(n b 03 04 d0 d1)
            d0, d1 = rng.randrange(256), rng.randrange(256)
            lo, hi = crcb(bytes([n, b, 3, 4, d0, d1]))
            rsp = ("RHR", [d0 << 8 | d1, lo << 8 | hi])
            cs.append(Case(cligen.cli_line("rtu", b, [cligen.call_op(("RHR", 9, 2), R=mb.rscript([bytes([n]) + mb.rtu_frame(b, mb.spec_rsp_pdu(rsp))]))]),
                           {"k": "probe_cli", "want": "OK:" + mb.show_rsp(rsp), "nparts": 1, "nl": 1}))
            # L = 5, request: read/write-multiple, read address searched so that crc(n b 17 rah ral 00) = (read qty, write addr hi)
            for ra in range(65536):
                lo, hi = crcb(bytes([n, b, 0x17, ra >> 8, ra & 0xFF, 0]))
                if 1 <= lo <= 125:
                    req = ("RWMR", ra, lo, hi << 8 | rng.randrange(256), [rng.randrange(65536)])
                    fr = mb.rtu_frame(b, mb.spec_req_pdu(req))
                    cs.append(Case("SRV rtu %s - - -" % mb.rscript([bytes([n]) + fr]), {"k": "probe_srv", "exp": ["C:%d:%s" % (b, mb.show_req(req)), "WAIT"], "nparts": 1, "nl": 1}))
                    break
        # long byte-wise noise
        # (the decoder keeps a bounded record of the bytes it skipped -- 256 entries -- which must not influence what it delivers:
        #  lengths around every multiple of that bound, byte by byte and in bursts with the frame attached to the last burst,
        #  on the server and on the client side)
        longs = [50, 100, 300] + list(range(253, 262)) + list(range(511, 520)) + [770, 773, 774, 775, 1031]
        if tier == "thorough":
            longs = sorted(set(longs + list(range(0, 1100))))
        for nl in longs:
            noise = bytes(rng.choice(rtugen.NOISE) for _ in range(nl))
            slave = rng.choice(rtugen.NOISE)
            fr = mb.rtu_frame(slave, b"\x03\x00\x01\x00\x01")
            data = noise + fr
            cs.append(Case("SRV rtu %s - - -" % mb.rscript([data[i:i + 1] for i in range(len(data))]), {"k": "srv_noise", "adm": True, "exp": ["C:%d:RHR:1:1" % slave, "WAIT"], "nparts": len(data), "nl": nl}))
            for burst in (7, 10, 16):
                if nl < 200 or (tier == "quick" and burst != 10):
                    continue
                parts = [noise[i:i + burst] for i in range(0, nl, burst)]
                parts[-1] = parts[-1] + fr
                cs.append(Case("SRV rtu %s - - -" % mb.rscript(parts), {"k": "srv_noise", "adm": True, "exp": ["C:%d:RHR:1:1" % slave, "WAIT"], "nparts": len(parts), "nl": nl}))
            rsp = ("RHR", [rng.randrange(65536)])
            rfr = mb.rtu_frame(slave, mb.spec_rsp_pdu(rsp))
            rdata = noise + rfr
            cs.append(Case(cligen.cli_line("rtu", slave, [cligen.call_op(("RHR", 1, 1), R=mb.rscript([rdata[i:i + 1] for i in range(len(rdata))]))]),
                           {"k": "cli_noise", "adm": True, "want": "OK:" + mb.show_rsp(mb.pad_rsp(rsp)), "nparts": len(rdata), "nl": nl}))
        return cs

    def oracle(self, c):
        m, r = c.meta, c.impl or ""
        if "PANIC" in r or "HUNG" in r:
            return "panic/hang"
        k = m["k"]
        if k in ("srv_clean", "srv_allcomp"):
            tr = [t for t in r.split(",") if not (m.get("answered") and t.startswith("W:"))]
            return None if tr == m["exp"] else "clean stream: delivered %s, want %s" % (r[:90], ",".join(m["exp"])[:90])
        if k == "cli_clean":
            res, _ = cligen.res_and_w(cligen.split_results(r)[-1])
            return None if res == m["want"] else "clean reply: %s, want %s" % (res[:60], m["want"][:60])
        if k == "srv_noise":
            if not m["adm"]:
                return None
            tr = r.split(",")
            return None if tr == m["exp"] else "frame after %d noise bytes: delivered %s, want %s" % (m["nl"], r[:70], ",".join(m["exp"])[:70])
        if k == "probe_srv":
            tr = r.split(",")
            return None if tr == m["exp"] else "a noise-valued byte was taken for a function code by the request table: delivered %s, want %s" % (r[:70], ",".join(m["exp"])[:70])
        if k == "probe_cli":
            res, _ = cligen.res_and_w(r)
            return None if res == m["want"] else "a noise-valued byte was taken for a function code by the response table: %s, want %s" % (res[:60], m["want"])
        if k == "cli_noise":
            if not m["adm"]:
                return None
            res, _ = cligen.res_and_w(r)
            return None if res == m["want"] else "reply after %d noise bytes: %s, want %s" % (m["nl"], res[:60], m["want"][:60])
        return None

    def nontrivial(self, c):
        return c.meta.get("nframes", 1) >= 2 or c.meta.get("nparts", 1) >= 2 or c.meta.get("nl", 0) > 0

    def distribution(self, cases):
        d = {}
        for c in cases:
            d[c.meta["k"]] = d.get(c.meta["k"], 0) + 1
        return d
