#!/usr/bin/env python3
"""Regenerates MANIFEST.json from the table below (kept valid at all times)."""
import json, os
V = os.path.dirname(os.path.dirname(os.path.abspath(__file__)))
CLAIMS = {
 "C19": dict(
   text="Theorems over the Gallina model (finite domains closed by vm_compute sweeps lifted with forallb_forall, the first-byte law by case analysis for unbounded payloads), closed under the global context; the tie to the code is an EXHAUSTIVE differential run (all 256 bytes, all spellings of 0..=65535 in thorough) through the public API, so for this property the correspondence is complete, not sampled.",
   note="Trusted: Coq kernel + vm_compute; hand model of FunctionCode/ExceptionCode/Slave and of std's u8::from_str_radix (modelled, tied exhaustively); harness/driver/orchestrator; extraction (cross-checked in-kernel on a sample).",
   technique="Coq theorems (finite sweeps + case analysis) + exhaustive differential correspondence", ref="5 C19"),
}
def main():
    checks = []
    for pid in sorted(CLAIMS):
        c = CLAIMS[pid]
        checks.append(dict(property_id=pid, quick_cmd="./check %s --tier quick" % pid, thorough_cmd="./check %s --tier thorough" % pid,
            evidence_file="evidence/%s.json" % pid, replay_cmd_template="./check %s --replay {path}" % pid, engine="coq-model+correspondence",
            level_claimed=dict(category="proof", text=c["text"], design_ref="DESIGN.md section " + c["ref"]), level_note=c["note"], technique=c["technique"]))
    props = [json.loads(l)["id"] for l in open(os.path.join(V, "properties.jsonl"))]
    na = [dict(property_id=p, reason="check not yet built in this revision (work in progress; see DESIGN.md section 5 for the plan)") for p in props if p not in CLAIMS]
    m = dict(version=1, setup_cmd="./setup.sh",
      hooks=dict(guard="tokio_modbus_verif", enable="none needed: all observation goes through the public API (no source hooks)", baseline_off_cmd="cd /repo && cargo test --workspace --no-fail-fast --offline", source_commits=[], add_only=True),
      engines=[dict(name="coq-model+correspondence", path="coq/ tools/ harness/ ocaml/", serves_properties=sorted(CLAIMS), kind_free_text="Coq 8.16 theorems about a hand-written executable Gallina model; differential correspondence (Rust harness vs extracted model, in-kernel cross-check) ties the model to /repo on every run")],
      checks=checks, not_applicable=na,
      notes="Every check: proof step (make + Print Assumptions + forbidden-construct grep), rebuild of the harness against /repo's working tree, correspondence, independent oracle, verdict. See DESIGN.md.")
    json.dump(m, open(os.path.join(V, "MANIFEST.json"), "w"), indent=1)
main()
