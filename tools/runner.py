"""runner -- the generic decision procedure of a check (DESIGN.md section 4)."""
import copy, glob, json, os, random, sys, time

from vlib import *


class Prop:
    id = "C00"
    profiles = ["debug"]
    rule = ""
    exhaustive = False
    kernel_sample = 48
    shard_min = 50

    def cases(self, rng, tier):
        return []

    def followup(self, cases, rng, tier):
        return []

    def project(self, case, s):
        return s

    def oracle(self, case):
        """None if the implementation's observation satisfies the property on this case,
        else a short description of the failure.  Must not look at case.model."""
        return None

    def nontrivial(self, case):
        return True

    def key(self, case):
        return case.line

    def kernel_pool(self, cases):
        """the cases from which the in-kernel (vm_compute) cross-check of the extracted model draws its sample"""
        return cases

    def distribution(self, cases):
        return {}

    def extra_checks(self, cases, tier, rng):
        """property-specific additional checks; returns list of (case_or_dict, message)"""
        return []


def corpus_cases(prop):
    out = []
    for p in sorted(glob.glob(os.path.join(VERIF, "corpus", prop.id, "*.case"))):
        for l in open(p):
            l = l.rstrip("\n")
            if l and not l.startswith("#"):
                prof = "debug"
                if l.startswith("@release "):
                    prof, l = "release", l[len("@release "):]
                out.append(Case(l, {"corpus": os.path.basename(p)}, prof))
    return out


def judge(prop, cases):
    disagreements, failures, known = [], [], []
    for c in cases:
        if prop.project(c, c.impl) != prop.project(c, c.model):
            disagreements.append(c)
        msg = prop.oracle(c)
        if msg:
            k = known_match(prop.id, c, msg)
            if k:
                known.append((c, msg, k))
            else:
                failures.append((c, msg))
    return disagreements, failures, known


def run_check(prop, tier, seed, replay=None):
    t0 = time.time()
    SHARD_MIN[0] = prop.shard_min
    rng = random.Random(seed * 1000003 + sum(map(ord, prop.id)))
    # translation, Coq build, extraction, driver and harness builds write shared files: one check at a time
    import fcntl
    os.makedirs(os.path.join(VERIF, ".cache"), exist_ok=True)
    lock = open(os.path.join(VERIF, ".cache", "build.lock"), "w")
    fcntl.flock(lock, fcntl.LOCK_EX)
    try:
        proof = proof_step(prop.id)
        try:
            errs = ensure_built(prop.profiles)
        except CheckError as e:
            errs = e
    finally:
        fcntl.flock(lock, fcntl.LOCK_UN)
        lock.close()
    try:
        if isinstance(errs, CheckError):
            raise errs
    except CheckError as e:
        path = write_replay(prop.id, "no-failing-input-found", ["model-build"], [], seed, tier, {"detail": str(e)})
        write_evidence(prop.id, tier, seed, t0, proof, dict(evaluations=0, distinct_nontrivial=0, rule=prop.rule, samples=[], explanation=str(e)[:500]), 1)
        print("VIOLATION property=%s replay=%s no-failing-input-found" % (prop.id, path))
        return 1
    if errs:
        path = write_replay(prop.id, "no-failing-input-found", ["harness-build:" + ",".join(errs)], [], seed, tier, {"compiler_output": errs})
        write_evidence(prop.id, tier, seed, t0, proof, dict(evaluations=0, distinct_nontrivial=0, rule=prop.rule, samples=[], explanation="the repository does not build: " + list(errs.values())[0][-400:]), 1)
        print("VIOLATION property=%s replay=%s no-failing-input-found" % (prop.id, path))
        return 1

    if replay:
        body = json.load(open(replay))
        cases = [Case(c["line"], c.get("meta"), c.get("profile", "debug"), c.get("errno")) for c in body.get("cases", []) if isinstance(c, dict) and "line" in c]
    else:
        cases = corpus_cases(prop) + prop.cases(rng, tier)
    execute(cases)
    if not replay:
        for _round in range(4):
            more = prop.followup(cases, rng, tier)
            if not more:
                break
            execute(more)
            cases += more

    # extraction cross-check inside the kernel
    kernel_checked = 0
    kernel_bad = []
    pool = [c for c in prop.kernel_pool(cases) if len(c.line) < 3000]
    sample = rng.sample(pool, min(prop.kernel_sample, len(pool))) if pool else []
    for prof in set(c.profile for c in sample):
        cs = [c for c in sample if c.profile == prof]
        try:
            rk = run_model_in_kernel([c.model_line or c.line for c in cs], prof)
        except CheckError as e:
            kernel_bad.append(dict(line="(kernel run)", impl=None, model=str(e)[:300]))
            continue
        for c, r in zip(cs, rk):
            kernel_checked += 1
            if r != c.model:
                kernel_bad.append(dict(line=c.line, kernel=r, model=c.model))

    disagreements, failures, known = judge(prop, cases)
    extra = prop.extra_checks(cases, tier, rng)
    failures += extra

    # the theorem says the model satisfies the property: the oracle must accept the model's outputs
    model_fail = []
    for c in cases:
        c2 = copy.copy(c)
        c2.impl = c.model
        c2.meta = dict(c.meta, on_model=True)
        m = prop.oracle(c2)
        if m:
            model_fail.append((c, m))

    searched = 0
    broken = list(proof.get("broken", []))
    if not proof["ok"] and "proof" not in broken:
        broken.append("proof:" + (proof.get("detail", "")[:200]))
    if disagreements:
        broken.append("correspondence(%d cases)" % len(disagreements))
    if kernel_bad:
        broken.append("extraction-cross-check(%d cases)" % len(kernel_bad))
    if model_fail:
        broken.append("model-fails-oracle(%d cases)" % len(model_fail))

    if broken and not failures and not replay:
        # directed search for a concrete failing input on the implementation
        rng2 = random.Random(seed + 7919)
        extra_cases = prop.cases(rng2, "thorough" if tier == "quick" else tier)
        extra_cases = extra_cases[:200000]
        execute(extra_cases)
        searched = len(extra_cases)
        d2, f2, k2 = judge(prop, extra_cases)
        failures += f2
        known += k2
        disagreements += d2

    for c, msg, k in known:
        pass
    seen_known = set()
    for c, msg, k in known:
        if k.get("id") not in seen_known:
            seen_known.add(k.get("id"))
            print("KNOWN-FINDING: property=%s %s (%s; e.g. %s)" % (prop.id, k.get("what", msg), k.get("id"), c.line[:120]))

    nontrivial = set(prop.key(c) for c in cases if prop.nontrivial(c))
    samples = [dict(case=c.line[:400], impl=(c.impl or "")[:300], model=(c.model or "")[:300]) for c in (rng.sample(cases, min(5, len(cases))) if cases else [])]
    cov = dict(
        evaluations=len(cases) + searched,
        distinct_nontrivial=len(nontrivial),
        rule=prop.rule,
        samples=samples,
        exhaustive=bool(prop.exhaustive),
        traces_validated_against_impl=len(cases),
        disagreements_checked=len(disagreements),
        in_kernel_sample=kernel_checked,
        distribution=prop.distribution(cases),
        profiles=prop.profiles,
        known_findings_reported=sorted(seen_known),
        proof_detail=proof.get("detail", ""),
    )
    rc = 0
    if failures:
        failures.sort(key=lambda f: len(f[0].line) if isinstance(f[0], Case) else 0)
        c0, m0 = failures[0]
        fc = []
        for c, m in failures[:20]:
            j = c.to_json() if isinstance(c, Case) else dict(c)
            j["oracle"] = m
            fc.append(j)
        path = write_replay(prop.id, "failing-input", broken, fc, seed, tier)
        print("VIOLATION property=%s replay=%s" % (prop.id, path))
        print("  failing input: %s\n  impl: %s\n  oracle: %s" % ((c0.line if isinstance(c0, Case) else str(c0))[:300], (getattr(c0, "impl", "") or "")[:200], m0))
        rc = 1
    elif broken:
        dc = []
        for c in disagreements[:20]:
            j = c.to_json()
            j["oracle"] = "no property failure found on this case"
            dc.append(j)
        dc += kernel_bad[:10]
        for c, m in model_fail[:10]:
            j = c.to_json()
            j["oracle_on_model"] = m
            dc.append(j)
        path = write_replay(prop.id, "no-failing-input-found", broken, dc, seed, tier, {"proof_detail": proof.get("detail", "")})
        print("VIOLATION property=%s replay=%s no-failing-input-found" % (prop.id, path))
        print("  broken: %s" % "; ".join(broken)[:600])
        rc = 1
    write_evidence(prop.id, tier, seed, t0, proof, cov, len(failures) + (1 if broken and not failures else 0),
                   assumptions=getattr(prop, "assumptions", []))
    if replay:
        for c in cases:
            print("case: %s\n  impl : %s\n  model: %s\n  oracle: %s" % (c.line[:300], c.impl, c.model, prop.oracle(c)))
    if rc == 0:
        print("OK property=%s tier=%s cases=%d nontrivial=%d theorems=%d/%d kernel_sample=%d wall=%.1fs" % (
            prop.id, tier, len(cases), len(nontrivial), proof["discharged"], proof["obligations"], kernel_checked, time.time() - t0))
    return rc
