#!/usr/bin/env python3
"""tools/translate.py [repo] [out.v]  -- regenerates coq/gen/Generated.v from the Rust source on every run.

Translates the TABLE-LIKE parts of tokio-modbus (the parts that are data rather than control flow) into Gallina data
of the types of coq/model/Tables.v:
  FunctionCode::new / ::value, ExceptionCode::new / From<ExceptionCode> for u8      -> name_table
  get_request_pdu_len / get_response_pdu_len (RTU length inference)                 -> len_table
  request_pdu_size / response_pdu_size                                              -> size_table
  MAX_PDU_SIZE, MAX_RETRIES, MAX_FRAME_LEN, HEADER_LEN, PROTOCOL_ID, the CRC constants
The obligations `generated = the model's table` live in coq/gen/Ob*.v and are re-checked by Coq on every run.

The translator is deliberately STRICT: it accepts only the syntactic forms it knows.  A piece whose source no longer
has a recognised shape is not translated (the model's own table is emitted in its place, marked NOT TRANSLATED, and
the piece is listed under "skipped" in the JSON summary): the tie for that piece then rests on the correspondence
check alone, and nothing is reported.  A piece that IS translated and differs from the model breaks its obligation."""
import json, os, re, sys

REPO = sys.argv[1] if len(sys.argv) > 1 else os.environ.get("VERIF_REPO", "/repo")
V = os.path.dirname(os.path.dirname(os.path.abspath(__file__)))
OUT = sys.argv[2] if len(sys.argv) > 2 else os.path.join(V, "coq", "gen", "Generated.v")


class Skip(Exception):
    pass


def read(rel):
    try:
        return open(os.path.join(REPO, rel)).read()
    except OSError as e:
        raise Skip("cannot read %s: %s" % (rel, e))


def strip_comments(s):
    s = re.sub(r"//[^\n]*", "", s)
    return re.sub(r"/\*.*?\*/", "", s, flags=re.S)


def block_after(src, header_re):
    """the text between the braces that follow the first match of header_re (brace matching)"""
    m = re.search(header_re, src)
    if not m:
        raise Skip("header not found: %s" % header_re)
    i = src.index("{", m.end() - 1) if src[m.end() - 1] != "{" else m.end() - 1
    depth, j = 0, i
    while j < len(src):
        if src[j] == "{":
            depth += 1
        elif src[j] == "}":
            depth -= 1
            if depth == 0:
                return src[i + 1:j]
        j += 1
    raise Skip("unbalanced braces after %s" % header_re)


def split_arms(body):
    """split a match body into (pattern, expr) at top-level commas / closing braces"""
    arms, depth, cur, i = [], 0, "", 0
    while i < len(body):
        c = body[i]
        if c in "{([":
            depth += 1
        elif c in "})]":
            depth -= 1
        cur += c
        if depth == 0 and (c == "," or (c == "}" and "=>" in cur)):
            t = cur.strip().rstrip(",").strip()
            if t:
                if "=>" not in t:
                    raise Skip("arm without =>: %r" % t[:60])
                p, e = t.split("=>", 1)
                arms.append((" ".join(p.split()), " ".join(e.split())))
            cur = ""
        i += 1
    t = cur.strip().rstrip(",").strip()
    if t:
        if "=>" not in t:
            raise Skip("trailing text in match: %r" % t[:60])
        p, e = t.split("=>", 1)
        arms.append((" ".join(p.split()), " ".join(e.split())))
    return arms


def num(s):
    s = s.strip().replace("_", "")
    if re.fullmatch(r"0[xX][0-9a-fA-F]+", s):
        return int(s, 16)
    if re.fullmatch(r"[0-9]+", s):
        return int(s)
    if re.fullmatch(r"0b[01]+", s):
        return int(s, 2)
    raise Skip("not a number: %r" % s)


# ------------------------------------------------------------------ name tables
def name_table_new(src, impl_re, fn_re, prefix):
    impl = block_after(src, impl_re)
    fn = block_after(impl, fn_re)
    m = block_after(fn, r"match\s+value\s*\{")
    rows, default_seen = [], False
    for p, e in split_arms(m):
        if re.fullmatch(r"[a-z_]+", p):
            # `x => Custom(x)` or `_ => Custom(value)` (value being the matched byte)
            want = "value" if p == "_" else p
            if not re.fullmatch(r"(%s)?Custom\(\s*%s\s*\)" % (prefix, re.escape(want)), e):
                raise Skip("default arm is not Custom(x): %s => %s" % (p, e))
            default_seen = True
            continue
        if default_seen:
            raise Skip("arm after the default arm")
        mm = re.fullmatch(r"(%s)?([A-Z][A-Za-z]+)" % prefix, e)
        if not mm:
            raise Skip("unrecognised arm body: %s" % e)
        for alt in p.split("|"):
            rows.append((num(alt), mm.group(2)))
    if not default_seen:
        raise Skip("no default arm")
    return rows


def name_table_value(src, header_re, subject, prefix):
    fn = block_after(src, header_re)
    m = block_after(fn, r"match\s+%s\s*\{" % subject)
    rows, custom = [], False
    for p, e in split_arms(m):
        mc = re.fullmatch(r"(%s)?Custom\(\s*([a-z_]+)\s*\)" % prefix, p)
        if mc:
            if e != mc.group(2):
                raise Skip("Custom(x) does not map to x")
            custom = True
            continue
        mm = re.fullmatch(r"(%s)?([A-Z][A-Za-z]+)" % prefix, p)
        if not mm:
            raise Skip("unrecognised pattern: %s" % p)
        rows.append((num(e), mm.group(2)))
    if not custom:
        raise Skip("no Custom arm")
    return rows


# ------------------------------------------------------------------ RTU length tables
def len_table(src, fn_name):
    fn = block_after(src, r"fn\s+%s\s*\(\s*adu_buf\s*:\s*&BytesMut\s*\)\s*->\s*Result<Option<usize>>\s*\{" % fn_name)
    if not re.search(r"if\s+let\s+Some\(fn_code\)\s*=\s*adu_buf\.get\(1\)", fn):
        raise Skip("%s: the function code is not read from index 1" % fn_name)
    if not re.search(r"Ok\(Some\(len\)\)", fn) or not re.search(r"else\s*\{\s*Ok\(None\)\s*\}", fn):
        raise Skip("%s: outer shape changed" % fn_name)
    m = block_after(fn, r"match\s+fn_code\s*\{")
    rows, default_seen = [], False
    for p, e in split_arms(m):
        if p == "_":
            if not re.fullmatch(r"\{\s*return Err\(Error::new\(\s*ErrorKind::InvalidData\s*,.*\)\s*,?\s*\)\s*;\s*\}", e):
                raise Skip("%s: default arm is not the InvalidData error" % fn_name)
            default_seen = True
            continue
        if default_seen:
            raise Skip("arm after the default arm")
        if re.fullmatch(r"[0-9xXa-fA-F_]+", e):
            rule = "LConst %d" % num(e)
        else:
            mc = re.fullmatch(r"\{\s*return Ok\(\s*adu_buf\s*\.get\((\d+)\)\s*\.map\(\|&byte_count\|\s*(\d+)\s*\+\s*usize::from\(byte_count\)\)\s*\)\s*;\s*\}", e)
            m16 = re.fullmatch(r"\{\s*if adu_buf\.len\(\)\s*>\s*(\d+)\s*\{\s*(\d+)\s*\+\s*usize::from\(Cursor::new\(&adu_buf\[(\d+)\.\.=(\d+)\]\)\.read_u16::<BigEndian>\(\)\?\)\s*\}\s*else\s*\{\s*return Ok\(None\);\s*\}\s*\}", e)
            if mc:
                if mc.group(1) != mc.group(2):
                    raise Skip("%s: count index %s but offset %s" % (fn_name, mc.group(1), mc.group(2)))
                rule = "LCount %s" % mc.group(1)
            elif m16:
                k = int(m16.group(1))
                if not (int(m16.group(2)) == k and int(m16.group(3)) == k - 1 and int(m16.group(4)) == k):
                    raise Skip("%s: 16-bit count arm has inconsistent indices" % fn_name)
                rule = "LCount16 %d" % k
            else:
                raise Skip("%s: unrecognised arm body: %s" % (fn_name, e[:80]))
        for alt in p.split("|"):
            alt = alt.strip()
            if "..=" in alt:
                lo, hi = alt.split("..=")
                rows.append((num(lo), num(hi), rule))
            else:
                rows.append((num(alt), num(alt), rule))
    if not default_seen:
        raise Skip("%s: no default arm" % fn_name)
    return rows


# ------------------------------------------------------------------ size tables
def size_table(src, fn_name, subject):
    fn = block_after(src, r"fn\s+%s\s*\(" % fn_name)
    if not re.search(r"if\s+size\s*>\s*MAX_PDU_SIZE\s*\{", fn) or "ErrorKind::InvalidInput" not in fn or not re.search(r"Ok\(size\)", fn):
        raise Skip("%s: the size check changed shape" % fn_name)
    m = block_after(fn, r"let\s+size\s*=\s*match\s+%s\s*\{" % subject)
    rows = []
    for p, e in split_arms(m):
        if re.fullmatch(r"[0-9]+", e):
            rule = "SConst %s" % e
        else:
            mp = re.fullmatch(r"(\d+)\s*\+\s*packed_coils_size\((\w+)\)", e)
            mw = re.fullmatch(r"(\d+)\s*\+\s*(\w+)\.len\(\)\s*\*\s*2", e)
            mb = re.fullmatch(r"(\d+)\s*\+\s*(\w+)\.len\(\)", e)
            if mp:
                rule, var = "SPacked %s" % mp.group(1), mp.group(2)
            elif mw:
                rule, var = "SWords %s" % mw.group(1), mw.group(2)
            elif mb:
                rule, var = "SBytes %s" % mb.group(1), mb.group(2)
            else:
                raise Skip("%s: unrecognised size expression: %s" % (fn_name, e))
        for alt in p.split("|"):
            alt = alt.strip()
            ma = re.fullmatch(r"([A-Z][A-Za-z]+)(\((.*)\))?", alt)
            if not ma:
                raise Skip("%s: unrecognised pattern %s" % (fn_name, alt))
            if not rule.startswith("SConst"):
                args = [a.strip().replace("ref ", "") for a in (ma.group(3) or "").split(",")]
                if args.count(var) != 1 or args[-1] != var:
                    raise Skip("%s: %s does not bind the payload %s last" % (fn_name, alt, var))
            rows.append((ma.group(1), rule))
    return rows


def const(src, name):
    m = re.search(r"const\s+%s\s*:\s*\w+\s*=\s*([0-9a-fA-FxX_]+)\s*;" % name, src)
    if not m:
        raise Skip("constant %s not found" % name)
    return num(m.group(1))


def crc_consts(src):
    fn = block_after(src, r"fn\s+calc_crc\s*\(\s*data\s*:\s*&\[u8\]\s*\)\s*->\s*u16\s*\{")
    m = re.fullmatch(r"\s*let mut crc = (0x[0-9A-Fa-f]+);\s*for x in data \{\s*crc \^= u16::from\(\*x\);\s*for _ in 0\.\.(\d+) \{\s*let crc_odd = \(crc & 0x0001\) != 0;\s*crc >>= 1;\s*if crc_odd \{\s*crc \^= (0x[0-9A-Fa-f]+);\s*\}\s*\}\s*\}\s*crc\.rotate_right\((\d+)\)\s*", fn)
    if not m:
        raise Skip("calc_crc changed shape")
    return num(m.group(1)), int(m.group(2)), num(m.group(3)), int(m.group(4))


def fc_of_variant(src, impl_re):
    """Request::function_code / Response::function_code: variant name -> FunctionCode name ("Custom" -> "Custom")"""
    impl = block_after(src, impl_re)
    fn = block_after(impl, r"pub\s+const\s+fn\s+function_code\s*\(\s*&self\s*\)\s*->\s*FunctionCode\s*\{")
    m = block_after(fn, r"match\s+self\s*\{")
    rows = []
    for p, e in split_arms(m):
        mp = re.fullmatch(r"(Self::)?([A-Z][A-Za-z]+)(\((.*)\))?", p)
        if not mp:
            raise Skip("function_code: unrecognised pattern %s" % p)
        if mp.group(2) == "Custom":
            mc = re.fullmatch(r"FunctionCode::Custom\(\*(\w+)\)", e)
            args = [a.strip() for a in (mp.group(4) or "").split(",")]
            if not mc or not args or args[0] != mc.group(1):
                raise Skip("function_code: Custom arm does not pass its own code on")
            rows.append(("Custom", "Custom"))
            continue
        me = re.fullmatch(r"FunctionCode::([A-Z][A-Za-z]+)", e)
        if not me:
            raise Skip("function_code: unrecognised body %s" % e)
        rows.append((mp.group(2), me.group(1)))
    return rows


def slave_consts(src):
    """(broadcast, min_device, max_device, tcp_device) and the shape of the three classification predicates"""
    vals = []
    for fn in ("broadcast", "min_device", "max_device", "tcp_device"):
        body = block_after(src, r"pub\s+const\s+fn\s+%s\s*\(\s*\)\s*->\s*Self\s*\{" % fn)
        m = re.fullmatch(r"\s*Slave\(\s*([0-9a-fA-FxX_]+)\s*\)\s*", body)
        if not m:
            raise Skip("Slave::%s is not a literal" % fn)
        vals.append(num(m.group(1)))
    shapes = {"is_broadcast": r"\s*self\s*==\s*Self::broadcast\(\)\s*",
              "is_single_device": r"\s*self\s*>=\s*Self::min_device\(\)\s*&&\s*self\s*<=\s*Self::max_device\(\)\s*",
              "is_reserved": r"\s*self\s*>\s*Self::max_device\(\)\s*"}
    for fn, shape in shapes.items():
        body = block_after(src, r"pub\s+fn\s+%s\s*\(\s*self\s*\)\s*->\s*bool\s*\{" % fn)
        if not re.fullmatch(shape, body):
            raise Skip("Slave::%s changed shape" % fn)
    return tuple(vals)


def coil_consts(src):
    b2c = block_after(src, r"fn\s+bool_to_coil\s*\(\s*state\s*:\s*bool\s*\)\s*->\s*u16\s*\{")
    m1 = re.fullmatch(r"\s*if state \{\s*(0x[0-9A-Fa-f]+)\s*\} else \{\s*(0x[0-9A-Fa-f]+)\s*\}\s*", b2c)
    c2b = block_after(src, r"fn\s+coil_to_bool\s*\(\s*coil\s*:\s*u16\s*\)\s*->\s*io::Result<bool>\s*\{")
    m2 = re.fullmatch(r"\s*match coil \{\s*(0x[0-9A-Fa-f]+) => Ok\(true\),\s*(0x[0-9A-Fa-f]+) => Ok\(false\),\s*_ => Err\(Error::new\(ErrorKind::InvalidData,.*\)\),\s*\}\s*", c2b, flags=re.S)
    ps = block_after(src, r"fn\s+packed_coils_size\s*\(\s*coils\s*:\s*&\[Coil\]\s*\)\s*->\s*usize\s*\{")
    m3 = re.fullmatch(r"\s*\(coils\.len\(\) \+ (\d+)\) / (\d+)\s*", ps)
    if not (m1 and m2 and m3):
        raise Skip("coil conversion helpers changed shape")
    return (num(m1.group(1)), num(m1.group(2)), num(m2.group(1)), num(m2.group(2)), int(m3.group(1)), int(m3.group(2)))



# ------------------------------------------------------------------ PDU encoders as put programs
def split_stmts(body):
    """top-level statements of a block: `...;` and `for ... { ... }`"""
    stmts, depth, cur = [], 0, ""
    for c in body:
        if c in "{([":
            depth += 1
        elif c in "})]":
            depth -= 1
        cur += c
        if depth == 0 and (c == ";" or (c == "}" and cur.strip().startswith("for "))):
            t = " ".join(cur.split())
            if t and t != ";":
                stmts.append(t)
            cur = ""
    if cur.strip():
        raise Skip("trailing text in block: %r" % cur.strip()[:60])
    return stmts


def enc_prog(src, fn_name, subject):
    fn = block_after(src, r"fn\s+%s\s*\(" % fn_name)
    stmts_head = fn[:fn.index("match")]
    if not re.search(r"buf\.put_u8\(\s*%s\.function_code\(\)\.value\(\)\s*\)\s*;" % subject, stmts_head):
        raise Skip("%s: the function code is not written first" % fn_name)
    if len([t for t in split_stmts(re.sub(r"use [^;]*;", "", stmts_head)) if t]) != 1:
        raise Skip("%s: more than the function code is written before the match" % fn_name)
    m = block_after(fn, r"match\s+%s\s*\{" % subject)
    after = fn[fn.index(m) + len(m):].strip().lstrip("}").strip()
    if after:
        raise Skip("%s: statements after the match" % fn_name)
    rows = []
    for p, e in split_arms(m):
        e = e.strip()
        if not (e.startswith("{") and e.endswith("}")):
            raise Skip("%s: arm body is not a block: %s" % (fn_name, e[:60]))
        prog_for = {}
        for alt in p.split("|"):
            alt = alt.strip()
            ma = re.fullmatch(r"([A-Z][A-Za-z]+)(\((.*)\))?", alt)
            if not ma:
                raise Skip("%s: unrecognised pattern %s" % (fn_name, alt))
            args = [a.strip() for a in (ma.group(3) or "").split(",")] if ma.group(3) else []
            idx = {a: i for i, a in enumerate(args) if a != "_"}
            lens = {}                                  # let-bound names standing for field.len()
            prog = ["PFc"]

            def field(name):
                if name not in idx:
                    raise Skip("%s: %s is not a field of %s" % (fn_name, name, alt))
                return idx[name]

            def length_of(t):
                t = t.strip()
                if t in lens:
                    return lens[t]
                ml = re.fullmatch(r"(\w+)\.len\(\)", t)
                if ml:
                    return field(ml.group(1))
                raise Skip("%s: not a length: %s" % (fn_name, t))

            def expr(t):
                t = t.strip()
                mm = re.fullmatch(r"\*(\w+)", t)
                if mm:
                    return "EArg %d" % field(mm.group(1))
                mm = re.fullmatch(r"bool_to_coil\(\s*\*(\w+)\s*\)", t)
                if mm:
                    return "ECoil %d" % field(mm.group(1))
                mm = re.fullmatch(r"if \*(\w+) \{ 0xFF \} else \{ 0x00 \}", t)
                if mm:
                    return "ERun %d" % field(mm.group(1))
                mm = re.fullmatch(r"u16_len\((.*)\)", t)
                if mm:
                    return "ELen16 %d" % length_of(mm.group(1))
                mm = re.fullmatch(r"u8_len\(\s*packed_coils_size\(\s*(\w+)\s*\)\s*\)", t)
                if mm:
                    return "EPacked8 %d" % field(mm.group(1))
                mm = re.fullmatch(r"u8_len\((.*)\* 2\s*\)", t)
                if mm:
                    return "ELen2x8 %d" % length_of(mm.group(1))
                mm = re.fullmatch(r"2 \+ u8_len\((.*)\)", t)
                if mm:
                    return "E2PlusLen8 %d" % length_of(mm.group(1))
                raise Skip("%s: unrecognised expression: %s" % (fn_name, t[:60]))

            for st in split_stmts(e[1:-1]):
                mm = re.fullmatch(r"let (\w+) = (\w+)\.len\(\);", st)
                if mm:
                    lens[mm.group(1)] = field(mm.group(2))
                    continue
                mm = re.fullmatch(r"buf\.put_u16\((.*)\);", st)
                if mm:
                    prog.append("PU16 (%s)" % expr(mm.group(1)))
                    continue
                mm = re.fullmatch(r"buf\.put_u8\((.*)\);", st)
                if mm:
                    prog.append("PU8 (%s)" % expr(mm.group(1)))
                    continue
                mm = re.fullmatch(r"encode_packed_coils\(\s*buf\s*,\s*(\w+)\s*\);", st)
                if mm:
                    prog.append("PCoils %d" % field(mm.group(1)))
                    continue
                mm = re.fullmatch(r"for (\w+) in (\w+)(\.as_ref\(\)|\.iter\(\))? \{ buf\.put_u16\(\*(\w+)\); \}", st)
                if mm and mm.group(1) == mm.group(4):
                    prog.append("PWords %d" % field(mm.group(2)))
                    continue
                mm = re.fullmatch(r"buf\.put_slice\(\s*(\w+)(\.as_ref\(\))?\s*\);", st)
                if mm:
                    prog.append("PSlice %d" % field(mm.group(1)))
                    continue
                raise Skip("%s: unrecognised statement in %s: %s" % (fn_name, alt, st[:70]))
            rows.append((ma.group(1), prog))
    return rows


def len_helpers(src):
    """u16_len / u8_len: checked narrowing (debug assertion, truncating cast) -- the shape eval_pexp assumes"""
    for name, ty in (("u16_len", "u16"), ("u8_len", "u8")):
        body = block_after(src, r"fn\s+%s\s*\(\s*len\s*:\s*usize\s*\)\s*->\s*%s\s*\{" % (name, ty))
        if not re.fullmatch(r"\s*debug_assert!\(\s*len\s*<=\s*%s::MAX\.into\(\)\s*\)\s*;\s*len as %s\s*" % (ty, ty), body):
            raise Skip("%s changed shape" % name)
    return (65535, 255)


# ------------------------------------------------------------------ frame encoders (impl Encoder for ClientCodec / ServerCodec)
def frame_prog(src, impl_re, size_fn, pdu_fn, subject):
    impl = block_after(src, impl_re)
    fn = block_after(impl, r"fn\s+encode\s*\(\s*&mut self\s*,\s*adu\s*:[^,]*,\s*buf\s*:\s*&mut BytesMut\s*\)\s*->\s*Result<\(\)>\s*\{")
    fn = re.sub(r"^\s*let\s+\w+Adu\s*\{[^;]*\}\s*=\s*adu\s*;", "", fn, count=1, flags=re.S)      # the destructuring of the ADU
    if not re.search(r"Ok\(\(\)\)\s*$", fn.rstrip()):
        raise Skip("encode does not end with Ok(())")
    stmts = split_stmts(re.sub(r"Ok\(\(\)\)\s*$", "", fn.rstrip()))
    ops, sizevar, offvar, crcvar = [], None, None, None
    for st in stmts:
        mm = re.fullmatch(r"let (\w+) = buf\.len\(\);", st)
        if mm:
            offvar = mm.group(1); ops.append("FOffset"); continue
        mm = re.fullmatch(r"let (\w+) = (super::)?%s\(&%s\)\?;" % (size_fn, subject), st)
        if mm:
            sizevar = mm.group(1); ops.append("FSize"); continue
        mm = re.fullmatch(r"buf\.reserve\((\w+) \+ (\d+)\);", st)
        if mm and mm.group(1) == sizevar:
            ops.append("FReserve %s" % mm.group(2)); continue
        if st == "buf.put_u8(hdr.slave_id);":
            ops.append("FSlave"); continue
        if st == "buf.put_u8(hdr.unit_id);":
            ops.append("FUid"); continue
        if st == "buf.put_u16(hdr.transaction_id);":
            ops.append("FTid"); continue
        if st == "buf.put_u16(PROTOCOL_ID);":
            ops.append("FPid"); continue
        mm = re.fullmatch(r"buf\.put_u16\(u16_len\((\w+) \+ (\d+)\)\);", st)
        if mm and mm.group(1) == sizevar:
            ops.append("FLenField %s" % mm.group(2)); continue
        if re.fullmatch(r"(super::)?%s\(buf, &%s\);" % (pdu_fn, subject), st):
            ops.append("FPdu"); continue
        mm = re.fullmatch(r"let (\w+) = calc_crc\(&buf\[(\w+)\.\.\]\);", st)
        if mm and mm.group(2) == offvar:
            crcvar = mm.group(1); continue
        mm = re.fullmatch(r"buf\.put_u16\((\w+)\);", st)
        if mm and crcvar and mm.group(1) == crcvar:
            ops.append("FCrc"); crcvar = None; continue
        raise Skip("encode: unrecognised statement: %s" % st[:70])
    if crcvar:
        raise Skip("encode: CRC computed but not written")
    return ops


# ------------------------------------------------------------------ PDU decoders as read programs
ERR_INVALID_DATA = r"return Err\((io::)?Error::new\(\s*(io::)?ErrorKind::InvalidData\s*,[^;]*\)\s*,?\s*\);"


def split_block(body):
    """top-level statements of a block; the last one may be an expression without `;`.  `if`/`for` blocks end at their brace."""
    stmts, depth, cur = [], 0, ""
    for c in body:
        if c in "{([":
            depth += 1
        elif c in "})]":
            depth -= 1
        cur += c
        t = cur.strip()
        if depth == 0 and (c == ";" or (c == "}" and (t.startswith("for ") or t.startswith("if ")))):
            stmts.append(" ".join(t.split()))
            cur = ""
    if cur.strip():
        stmts.append(" ".join(cur.split()))
    return stmts


def dec_prog(src, fn_name, chk_fn, result_var):
    fn = block_after(src, r"fn\s+%s\s*\(" % fn_name)
    head = fn[:fn.index("match fn_code")]
    for need in (r"let pdu_size = bytes\.len\(\);", r"let rdr = &mut Cursor::new\(&bytes\);", r"let fn_code = rdr\.read_u8\(\)\?;"):
        if not re.search(need, " ".join(head.split())):
            raise Skip("%s: prologue changed (%s)" % (fn_name, need))
    if not re.search(r"let %s = match fn_code \{" % result_var, " ".join(head.split()) + " match fn_code {"):
        raise Skip("%s: the match on the function code is not bound to `%s`" % (fn_name, result_var))
    m = block_after(fn, r"match\s+fn_code\s*\{")
    tail = " ".join(fn[fn.index(m) + len(m):].split())
    if not re.fullmatch(r"\}; if rdr\.has_remaining\(\) \{ " + ERR_INVALID_DATA + r" \} Ok\(%s\)" % result_var, tail):
        raise Skip("%s: epilogue (all data consumed) changed: %s" % (fn_name, tail[:80]))
    rows, custom_below, default_seen = [], None, False
    for p, e in split_arms(m):
        e = e.strip()
        if not re.fullmatch(r"0[xX][0-9a-fA-F]+|\d+", p):
            # default arms
            body = " ".join(e.split())
            if re.fullmatch(r"fn_code if fn_code < (0x[0-9a-fA-F]+)", p):
                if not re.fullmatch(r"\{ return Ok\(Custom\(fn_code, bytes\[1\.\.\]\.to_vec\(\)\.into\(\)\)\); \}", body):
                    raise Skip("%s: Custom arm changed" % fn_name)
                custom_below = num(re.fullmatch(r"fn_code if fn_code < (0x[0-9a-fA-F]+)", p).group(1))
                continue
            if p == "fn_code" and custom_below is not None:
                if not re.fullmatch(r"\{ " + ERR_INVALID_DATA + r" \}", body):
                    raise Skip("%s: invalid-function-code arm changed" % fn_name)
                default_seen = True
                continue
            if p == "_":
                if not re.fullmatch(r"\{ let mut bytes = bytes; return Ok\(Custom\(fn_code, bytes\.split_off\(1\)\)\); \}", body):
                    raise Skip("%s: default arm changed" % fn_name)
                default_seen = True
                continue
            raise Skip("%s: unrecognised pattern %s" % (fn_name, p))
        if default_seen or custom_below is not None:
            raise Skip("%s: arm after a default arm" % fn_name)
        key = num(p)
        stmts = split_block(e[1:-1]) if e.startswith("{") else [e]
        if not stmts:
            raise Skip("%s: empty arm" % fn_name)
        env, prog, lets = {}, [], {}          # name -> index of the bound value; pure lets: name -> expression

        def bind(name):
            env[name] = len(env)
            # positions are those of bound values in execution order
            return env[name]

        nbound = [0]

        def push(name=None):
            i = nbound[0]
            nbound[0] += 1
            if name:
                env[name] = i
            return i

        def atom(t):
            t = t.strip()
            mm = re.fullmatch(r"usize::from\((\w+)\)|u16::from\((\w+)\)|(\w+)", t)
            if mm:
                v = mm.group(1) or mm.group(2) or mm.group(3)
                if re.fullmatch(r"\d+", v):
                    return "DConst %s" % v
                if v in lets:
                    return lets[v]
                if v in env:
                    return "DVar %d" % env[v]
            if t == "bytes.len()":
                return "DLenAll"
            raise Skip("%s: unrecognised operand %s" % (fn_name, t))

        def expr(t):
            t = t.strip()
            mm = re.fullmatch(r"\((.*)\)\.into\(\)", t)
            if mm:
                return expr(mm.group(1))
            mm = re.fullmatch(r"(.*)\.into\(\)", t)
            if mm and "(" not in mm.group(1):
                return expr(mm.group(1))
            for op, ctor in ((" + ", "DAdd"), (" - ", "DSub"), (" * ", "DMul"), (" / ", "DDiv")):
                if op in t:
                    a, b = t.split(op, 1)
                    if any(o in b for o in (" + ", " - ", " * ", " / ")):
                        raise Skip("%s: compound expression %s" % (fn_name, t))
                    return "%s (%s) (%s)" % (ctor, patom(a), patom(b))
            return atom(t)

        def patom(t):
            a = atom(t)
            return a

        def cond(t):
            t = t.strip()
            mm = re.fullmatch(r"(.*) % 2 != 0", t)
            if mm:
                return "COdd (%s)" % atom(mm.group(1))
            if " != " in t:
                a, b = t.split(" != ")
                return "CNe (%s) (%s)" % (expr(a), expr(b))
            if " == " in t:
                a, b = t.split(" == ")
                return "CEq (%s) (%s)" % (expr(a), expr(b))
            if " <= " in t:
                a, b = t.split(" <= ")
                return "CLe (%s) (%s)" % (expr(a), expr(b))
            if " >= " in t:
                a, b = t.split(" >= ")
                return "CLe (%s) (%s)" % (expr(b), expr(a))
            if " < " in t:
                a, b = t.split(" < ")
                return "CLt (%s) (%s)" % (expr(a), expr(b))
            if " > " in t:
                a, b = t.split(" > ")
                return "CLt (%s) (%s)" % (expr(b), expr(a))
            raise Skip("%s: unrecognised condition %s" % (fn_name, t))

        slices = {}                 # name -> (lo, hi) of a `&bytes[lo..hi]` slice
        consumed = [None]
        pending_vec = {}            # name -> count expression of a Vec::with_capacity
        for st in stmts[:-1]:
            if re.fullmatch(r"%s\(pdu_size\)\?;" % chk_fn, st):
                prog.append("DChkSize"); continue
            mm = re.fullmatch(r"let (\w+) = read_u16_be\(rdr\)\?;", st)
            if mm:
                prog.append("DRead16"); push(mm.group(1)); continue
            mm = re.fullmatch(r"let (\w+) = (usize::from\()?rdr\.read_u8\(\)\?\)?;", st)
            if mm:
                prog.append("DRead8"); push(mm.group(1)); continue
            mm = re.fullmatch(r"if (.*) \{ " + ERR_INVALID_DATA + r" \}", st)
            if mm:
                prog.append("DFailIf (%s)" % cond(mm.group(1))); continue
            mm = re.fullmatch(r"let (\w+) = &bytes\[(\d+)\.\.(\d+) \+ (.*)\];", st)
            if mm and mm.group(2) == mm.group(3):
                slices[mm.group(1)] = (int(mm.group(2)), atom(mm.group(4))); continue
            mm = re.fullmatch(r"rdr\.consume\((.*)\);", st)
            if mm:
                consumed[0] = expr(mm.group(1)); continue
            mm = re.fullmatch(r"let (\w+) = match rdr\.read_u8\(\)\? \{ 0x00 => false, 0xFF => true, \w+ => \{ " + ERR_INVALID_DATA + r" \} \};", st)
            if mm:
                prog.append("DReadRun"); push(mm.group(1)); continue
            mm = re.fullmatch(r"let mut (\w+) = Vec::with_capacity\((.*)\);", st)
            if mm:
                pending_vec[mm.group(1)] = expr(mm.group(2)); continue
            mm = re.fullmatch(r"for _ in 0\.\.(\w+) \{ (\w+)\.push\((read_u16_be\(rdr\)\?|rdr\.read_u8\(\)\?)\); \}", st)
            if mm and mm.group(2) in pending_vec:
                n = atom(mm.group(1))
                if pending_vec[mm.group(2)] != n:
                    raise Skip("%s: Vec capacity and loop bound differ" % fn_name)
                prog.append(("DWords (%s)" if "u16" in mm.group(3) else "DBytes (%s)") % n); push(mm.group(2)); continue
            mm = re.fullmatch(r"let (\w+) = (.*);", st)
            if mm and "rdr" not in mm.group(2) and "bytes[" not in mm.group(2):
                lets[mm.group(1)] = expr(mm.group(2)); continue          # a pure let is inlined where it is used
            raise Skip("%s: unrecognised statement in arm 0x%02X: %s" % (fn_name, key, st[:70]))
        # the variant built at the end
        last = stmts[-1]
        mv = re.fullmatch(r"([A-Z][A-Za-z]+)(\((.*)\))?", last)
        if not mv:
            raise Skip("%s: arm 0x%02X does not end with a variant: %s" % (fn_name, key, last[:60]))
        args, depth, cur = [], 0, ""
        for c in (mv.group(3) or ""):
            if c == "(":
                depth += 1
            elif c == ")":
                depth -= 1
            if c == "," and depth == 0:
                args.append(cur.strip()); cur = ""
            else:
                cur += c
        if cur.strip():
            args.append(cur.strip())
        picks = []
        for a in args:
            if a == "read_u16_be(rdr)?":
                prog.append("DRead16"); picks.append(push()); continue
            if a == "coil_to_bool(read_u16_be(rdr)?)?":
                prog.append("DReadCoil"); picks.append(push()); continue
            mm = re.fullmatch(r"decode_packed_coils\((\w+), (\w+)\)(\.into\(\))?", a)
            if mm and mm.group(1) in slices:
                lo, n = slices[mm.group(1)]
                # the slice starts where the cursor stands (lo bytes were read: fn code + fields) and the cursor skips it
                if consumed[0] is None or consumed[0] != n:
                    raise Skip("%s: arm 0x%02X: the packed coils are not the bytes the cursor skips" % (fn_name, key))
                nread = 1 + sum(2 if x in ("DRead16", "DReadCoil") else 1 if x in ("DRead8", "DReadRun") else 0 for x in prog)
                if nread != lo:
                    raise Skip("%s: arm 0x%02X: the slice starts at %d but %d bytes were read" % (fn_name, key, lo, nread))
                prog.append("DBits (%s) (%s)" % (n, atom(mm.group(2)))); picks.append(push()); continue
            mm = re.fullmatch(r"(\w+)(\.into\(\))?", a)
            if mm and mm.group(1) in env:
                picks.append(env[mm.group(1)]); continue
            raise Skip("%s: arm 0x%02X: unrecognised field %s" % (fn_name, key, a[:50]))
        rows.append((key, prog, mv.group(1), picks))
    if not default_seen:
        raise Skip("%s: no default arm" % fn_name)
    return rows, custom_below


def chk_kinds(src):
    out = []
    for fn in ("check_request_pdu_size", "check_response_pdu_size"):
        body = " ".join(block_after(src, r"fn\s+%s\s*\(\s*pdu_size\s*:\s*usize\s*\)\s*->\s*io::Result<\(\)>\s*\{" % fn).split())
        mm = re.fullmatch(r"if pdu_size > MAX_PDU_SIZE \{ return Err\(io::Error::new\( ?ErrorKind::(\w+), \"[^\"]*\",? ?\)\); \} Ok\(\(\)\)", body)
        if not mm:
            raise Skip("%s changed shape" % fn)
        out.append(mm.group(1))
    return tuple(out)


# ------------------------------------------------------------------ typed client methods / blocking client
def split_top(t, sep=","):
    out, depth, cur = [], 0, ""
    for c in t:
        if c in "([{":
            depth += 1
        elif c in ")]}":
            depth -= 1
        if c == sep and depth == 0:
            out.append(cur.strip()); cur = ""
        else:
            cur += c
    if cur.strip():
        out.append(cur.strip())
    return out


def fn_bodies(impl):
    """[(name, params text, body)] of the `fn`s in an impl block"""
    out = []
    for m in re.finditer(r"(async\s+)?fn\s+(\w+)(<[^>]*>)?\s*\(", impl):
        start = m.end() - 1
        depth, j = 0, start
        while j < len(impl):
            if impl[j] == "(":
                depth += 1
            elif impl[j] == ")":
                depth -= 1
                if depth == 0:
                    break
            j += 1
        params = impl[start + 1:j]
        k = impl.index("{", j)
        body = block_after(impl[k - 1:], r"\{") if False else None
        depth, e = 0, k
        while e < len(impl):
            if impl[e] == "{":
                depth += 1
            elif impl[e] == "}":
                depth -= 1
                if depth == 0:
                    break
            e += 1
        out.append((m.group(2), params, impl[k + 1:e]))
    return out


def typed_table(src):
    for name, shape in (("expect_coils", r"if coils\.len\(\) < usize::from\(cnt\) \{ return Err\(unexpected_response\(.*\)\); \} coils\.truncate\(cnt\.into\(\)\); Ok\(coils\)"),
                        ("expect_words", r"if words\.len\(\) != usize::from\(cnt\) \{ return Err\(unexpected_response\(.*\)\); \} Ok\(words\)"),
                        ("expect_echo", r"if request != response \{ return Err\(unexpected_response\(.*\)\); \} Ok\(\(\)\)")):
        body = " ".join(block_after(src, r"fn\s+%s\s*(<[^>]*>)?\s*\(" % name).split())
        if not re.fullmatch(shape, body):
            raise Skip("%s changed shape" % name)
    ur = " ".join(block_after(src, r"fn\s+unexpected_response\s*\(").split())
    if not re.fullmatch(r"io::Error::new\(io::ErrorKind::InvalidData, message\)\.into\(\)", ur):
        raise Skip("unexpected_response changed shape")
    rows = []
    for impl_re in (r"impl\s+Reader\s+for\s+Context\s*\{", r"impl\s+Writer\s+for\s+Context\s*\{"):
        impl = block_after(src, impl_re)
        for name, params, body in fn_bodies(impl):
            b = "".join(body.split())
            lens = {}
            mm = re.match(r"let(\w+)=(\w+)\.len\(\);", b)
            if mm:
                lens[mm.group(1)] = mm.group(2)
                b = b[mm.end():]
            mm = re.fullmatch(r"self\.client\.call\(Request::(\w+)\((.*?)\)\)\.await\.and_then\(\|result\|matchresult\{"
                              r"Ok\(Response::(\w+)\((.*?)\)\)=>\{?(.*?)\.map\(Ok\)\}?,?"
                              r"Ok\(_\)=>unreachable!\(.*?\),Err\(exception\)=>Ok\(Err\(exception\)\),\}\)", b)
            if not mm:
                raise Skip("typed method %s changed shape" % name)
            reqv, reqargs, rspv, rspargs, post = mm.groups()
            qa = [re.sub(r"^Cow::Borrowed\((\w+)\)$", r"\1", a) for a in split_top(reqargs.rstrip(", "))]
            ra = split_top(rspargs)
            pnames = [p.split(":")[0].strip() for p in split_top(params) if ":" in p and "self" not in p.split(":")[0]]
            if qa != pnames:
                raise Skip("typed method %s: the request is not built from the parameters in order" % name)
            qi = {a: i for i, a in enumerate(qa)}
            ri = {a: i for i, a in enumerate(ra)}
            post = post.strip()
            mc = re.fullmatch(r"expect_(coils|words)\((\w+),(\w+)\)", post)
            if mc:
                if ri.get(mc.group(2)) != 0 or mc.group(3) not in qi:
                    raise Skip("typed method %s: %s" % (name, post))
                rule = "%s %d" % ("PRCoils" if mc.group(1) == "coils" else "PRWords", qi[mc.group(3)])
            else:
                me = re.fullmatch(r"expect_echo\(\((.*?),?\),\((.*?),?\),?\)", post)
                if not me:
                    raise Skip("typed method %s: unrecognised post-processing %s" % (name, post[:60]))
                left, right = split_top(me.group(1)), split_top(me.group(2))
                if len(left) != len(right):
                    raise Skip("typed method %s: echo tuples differ in length" % name)
                pairs = []
                for l, r in zip(left, right):
                    r = re.sub(r"^usize::from\((\w+)\)$", r"\1", r)
                    if r not in ri:
                        raise Skip("typed method %s: %s is not a reply field" % (name, r))
                    if l in qi:
                        pairs.append("(EF %d, %d)" % (qi[l], ri[r]))
                    elif l in lens and lens[l] in qi:
                        pairs.append("(EFLen %d, %d)" % (qi[lens[l]], ri[r]))
                    else:
                        raise Skip("typed method %s: %s is not a request field" % (name, l))
                rule = "PREcho [%s]%%nat" % "; ".join(pairs)
            rows.append((reqv, rspv, rule))
    return rows


def sync_table(src):
    rows = []
    body = " ".join(block_after(src, r"fn\s+block_on_with_timeout\s*<").split())
    for impl_re in (r"impl\s+Client\s+for\s+Context\s*\{", r"impl\s+Reader\s+for\s+Context\s*\{", r"impl\s+Writer\s+for\s+Context\s*\{"):
        impl = block_after(src, impl_re)
        for name, params, fb in fn_bodies(impl):
            b = "".join(fb.split())
            mm = re.fullmatch(r"block_on_with_timeout\(&self\.runtime,self\.timeout,self\.async_ctx\.(\w+)\((.*?)\),?\)", b)
            if not mm:
                raise Skip("blocking method %s changed shape" % name)
            pnames = [p.split(":")[0].strip() for p in split_top(params) if ":" in p and "self" not in p.split(":")[0]]
            args = [a for a in mm.group(2).split(",") if a]
            rows.append((name, mm.group(1), args == pnames))
    return rows


def exc_consts(src):
    """ExceptionResponse::try_from, ResponsePdu::try_from, encode_exception_response_pdu, response_result_pdu_size: their shapes and constants"""
    dec = "".join(block_after(block_after(src, r"impl\s+TryFrom<Bytes>\s+for\s+ExceptionResponse\s*\{"), r"fn\s+try_from\s*\(").split())
    m1 = re.fullmatch(r"letmutrdr=Cursor::new\(&bytes\);letfn_err_code=rdr\.read_u8\(\)\?;iffn_err_code<(0x[0-9A-Fa-f]+)\{returnErr\(Error::new\(ErrorKind::InvalidData,[^;]*\)\);\}"
                      r"letfunction=fn_err_code-(0x[0-9A-Fa-f]+);letexception=ExceptionCode::new\(rdr\.read_u8\(\)\?\);Ok\(ExceptionResponse\{function:FunctionCode::new\(function\),exception,\}\)", dec)
    disp = "".join(block_after(block_after(src, r"impl\s+TryFrom<Bytes>\s+for\s+ResponsePdu\s*\{"), r"fn\s+try_from\s*\(").split())
    m2 = re.fullmatch(r"letfn_code=Cursor::new\(&bytes\)\.read_u8\(\)\?;letpdu=iffn_code<(0x[0-9A-Fa-f]+)\{Response::try_from\(bytes\)\?\.into\(\)\}else\{ExceptionResponse::try_from\(bytes\)\?\.into\(\)\};Ok\(pdu\)", disp)
    enc = "".join(block_after(src, r"fn\s+encode_exception_response_pdu\s*\(").split())
    m3 = re.fullmatch(r"usecrate::bytes::BufMutas_;debug_assert!\(response\.function\.value\(\)<(0x[0-9A-Fa-f]+)\);buf\.put_u8\(response\.function\.value\(\)\+(0x[0-9A-Fa-f]+)\);buf\.put_u8\(response\.exception\.into\(\)\);", enc)
    size = "".join(block_after(src, r"fn\s+response_result_pdu_size\s*\(").split())
    m4 = re.fullmatch(r"matchres\{Ok\(response\)=>response_pdu_size\(response\),Err\(_\)=>Ok\((\d+)\),\}", size)
    rr = "".join(block_after(src, r"fn\s+encode_response_result_pdu\s*\(").split())
    m5 = re.fullmatch(r"matchres\{Ok\(response\)=>encode_response_pdu\(buf,response\),Err\(response\)=>encode_exception_response_pdu\(buf,\*response\),\}", rr)
    if not (m1 and m2 and m3 and m4 and m5):
        raise Skip("exception response helpers changed shape (%s)" % ",".join(n for n, m in (("decode", m1), ("dispatch", m2), ("encode", m3), ("size", m4), ("result", m5)) if not m))
    return (num(m1.group(1)), num(m1.group(2)), num(m2.group(1)), num(m3.group(1)), num(m3.group(2)), int(m4.group(1)))


# ------------------------------------------------------------------ Client::call and its helpers (shape)
CALL_STEPS = [
    ("KFc", r"let (\w+) = req\.function_code\(\);"),
    ("KAdu", r"let (\w+) = self\.next_request_adu\(req\);"),
    ("KHdr", r"let (\w+) = (\w+)\.hdr;"),
    ("KFramed", r"let framed = self\.framed\(\)\?;"),
    ("KClear", r"framed\.read_buffer_mut\(\)\.clear\(\);"),
    ("KSend", r"framed\.send\((\w+)\)\.await\?;"),
    ("KNext", r"let (\w+) = match framed\.next\(\)\.await \{ Some\(Ok\((\w+)\)\) => \2, Some\(Err\(err\)\) => \{ let _ = framed\.next\(\)\.now_or_never\(\); return Err\(err\.into\(\)\); \} None => return Err\(io::Error::from\(io::ErrorKind::(\w+)\)\.into\(\)\), \};"),
    ("KSplit", r"let ResponseAdu \{ hdr: (\w+), pdu: (\w+), \} = (\w+);"),
    ("KSplit2", r"let ResponsePdu\((\w+)\) = (\w+);"),
    ("KVerifyHdr", r"if let Err\(message\) = verify_response_header\(&(\w+), &(\w+)\) \{ return Err\(ProtocolError::HeaderMismatch \{ message, result \}\.into\(\)\); \}"),
    ("KFcOf", r"let (\w+) = match &result \{ Ok\(response\) => response\.function_code\(\), Err\(ExceptionResponse \{ function, \.\. \}\) => \*function, \};"),
    ("KVerifyFc", r"if (\w+)\.value\(\) != (\w+)\.value\(\) \{ return Err\(ProtocolError::FunctionCodeMismatch \{ request: \1, result, \} \.into\(\)\); \}"),
    ("KMapExc", r"Ok\(result\.map_err\( \|ExceptionResponse \{ function: _, exception, \}\| exception, \)\)"),
]


def call_shape(src):
    """the statement sequence of Client::call (both clients have the same one): tokens in source order, plus what `None` maps to"""
    impl = block_after(src, r"impl<T>\s+Client<T>")
    body = None
    for name, params, b in fn_bodies(impl):
        if name == "call":
            body = b
    if body is None:
        raise Skip("Client::call not found")
    stmts = [t for t in split_block(body) if not t.startswith("log::")]
    toks, none_kind = [], None
    for st in stmts:
        for name, rx in CALL_STEPS:
            mm = re.fullmatch(rx, st)
            if mm:
                toks.append(name)
                if name == "KNext":
                    none_kind = mm.group(3)
                break
        else:
            raise Skip("Client::call: unrecognised statement: %s" % st[:80])
    fr = " ".join(block_after(impl, r"fn\s+framed\s*\(").split())
    mk = re.fullmatch(r"let Some\(framed\) = &mut self\.framed else \{ return Err\(io::Error::new\(io::ErrorKind::(\w+), \"[^\"]*\"\)\); \}; Ok\(framed\)", fr)
    if not mk:
        raise Skip("Client::framed changed shape")
    return toks, none_kind, mk.group(1)


def tid_shape(src):
    impl = block_after(src, r"impl\s+TransactionIdGenerator\s*\{")
    nxt = " ".join(block_after(impl, r"fn\s+next\s*\(").split())
    if not re.fullmatch(r"let (\w+) = self\.next_transaction_id; self\.next_transaction_id = \1\.wrapping_add\((\d+)\); \1", nxt):
        raise Skip("TransactionIdGenerator::next changed shape")
    step = int(re.fullmatch(r".*wrapping_add\((\d+)\).*", nxt).group(1))
    new = " ".join(block_after(impl, r"const\s+fn\s+new\s*\(").split())
    if not re.fullmatch(r"Self \{ next_transaction_id: INITIAL_TRANSACTION_ID, \}", new):
        raise Skip("TransactionIdGenerator::new changed shape")
    return (const(src, "INITIAL_TRANSACTION_ID"), step)


def service_helpers(src):
    d = " ".join(block_after(src, r"async\s+fn\s+disconnect\s*<").split())
    md = re.fullmatch(r"use tokio::io::AsyncWriteExt as _; framed \.into_inner\(\) \.shutdown\(\) \.await \.or_else\(\|err\| match err\.kind\(\) \{ std::io::ErrorKind::(\w+) \| std::io::ErrorKind::(\w+) => \{ Ok\(\(\)\) \} _ => Err\(err\), \}\)", d)
    v = " ".join(block_after(src, r"fn\s+verify_response_header\s*<").split())
    mv = re.fullmatch(r"if req_hdr != rsp_hdr \{ return Err\(format!\(.*\)\); \} Ok\(\(\)\)", v)
    if not (md and mv):
        raise Skip("service::disconnect / verify_response_header changed shape")
    return tuple(sorted([md.group(1), md.group(2)]))


# ------------------------------------------------------------------ the servers' per-connection loop (shape)
def process_shape(src):
    fn = block_after(src, r"async\s+fn\s+process\s*<")
    t = re.sub(r'"(?:[^"\\]|\\.)*"', '""', fn)                     # string literals carry braces and parentheses of their own
    t = re.sub(r"log::\w+!\([^;]*\);", "", t)
    t = "".join(t.split())
    t = re.sub(r"\.inspect_err\(\|err\|\{\}\)", "", t)
    mm = re.fullmatch(
        r"loop\{"
        r"letSome\(request_adu\)=framed\.next\(\)\.await\.transpose\(\)\?else\{(break|continue);\};"
        r"letRequestAdu\{hdr,pdu:RequestPdu\(request\),\}=&request_adu;"
        r"lethdr=\*hdr;"
        r"letfc=request\.function_code\(\);"
        r"letOptionalResponsePdu\(Some\(response_pdu\)\)=service\.call\(request_adu\.into\(\)\)\.await\.map\(Into::into\)"
        r"\.map_err\(\|e\|ExceptionResponse\{function:fc,exception:e\.into\(\),\}\)\.into\(\)else\{(break|continue);\};"
        r"framed\.send\(ResponseAdu\{hdr,pdu:response_pdu,\}\)\.await\?;"
        r"\}Ok\(\(\)\)", t)
    if not mm:
        raise Skip("the per-connection loop `process` changed shape")
    return (mm.group(1), mm.group(2))

# ------------------------------------------------------------------ emit
def s2l(name):
    return 's2l "%s"' % name


def emit_names(rows):
    return "[" + "; ".join("(%d, %s)" % (b, s2l(n)) for b, n in rows) + "]"


def emit_len(rows):
    return "[" + "; ".join("(%d, %d, %s)" % r for r in rows) + "]"


def emit_size(rows):
    return "[" + "; ".join("(%s, %s)" % (s2l(n), r) for n, r in rows) + "]"


def main():
    pieces, skipped, out = {}, {}, []
    out.append("(* GENERATED by tools/translate.py from the Rust source under %s -- regenerated on every run, do not edit *)" % REPO)
    out.append("From Coq Require Import String.\nFrom TM Require Import Base Frame Pdu Crc RtuCodec TcpCodec Text Tables DecProg TypedTab.\nLocal Open Scope string_scope.\n")

    def piece(name, typ, fallback, thunk, emit):
        try:
            v = thunk()
            pieces[name] = v if not isinstance(v, list) else len(v)
            out.append("Definition %s : %s := %s." % (name, typ, emit(v)))
        except Exception as e:          # Skip, or any error of the translator itself on a form it did not expect: not translated
            skipped[name] = str(e) if isinstance(e, Skip) else "translator error %s: %s" % (type(e).__name__, e)
            why = re.sub(r"[^A-Za-z0-9_ .,:;=<>!&|/+\-\[\]{}]", "?", str(e))       # no quotes, parentheses or stars inside a Coq comment
            out.append("(* NOT TRANSLATED -- %s -- the model's own value stands in *)\nDefinition %s : %s := %s." % (why, name, typ, fallback))

    try:
        frame = strip_comments(read("src/frame/mod.rs"))
    except Skip as e:
        frame = ""
        skipped["src/frame/mod.rs"] = str(e)
    try:
        rtu = strip_comments(read("src/codec/rtu.rs"))
    except Skip as e:
        rtu = ""
    try:
        codec = strip_comments(read("src/codec/mod.rs"))
    except Skip as e:
        codec = ""
    try:
        tcp = strip_comments(read("src/codec/tcp.rs"))
    except Skip as e:
        tcp = ""

    piece("gen_fc_new_table", "name_table", "fc_table_model",
          lambda: name_table_new(frame, r"impl\s+FunctionCode\s*\{", r"pub\s+const\s+fn\s+new\s*\(\s*value\s*:\s*u8\s*\)\s*->\s*Self\s*\{", r"Self::"), emit_names)
    piece("gen_fc_value_table", "name_table", "fc_table_model",
          lambda: name_table_value(block_after(frame, r"impl\s+FunctionCode\s*\{"), r"pub\s+const\s+fn\s+value\s*\(\s*self\s*\)\s*->\s*u8\s*\{", "self", r"Self::"), emit_names)
    piece("gen_ex_new_table", "name_table", "ex_table_model",
          lambda: name_table_new(frame, r"impl\s+ExceptionCode\s*\{", r"pub\s+const\s+fn\s+new\s*\(\s*value\s*:\s*u8\s*\)\s*->\s*Self\s*\{", r""), emit_names)
    piece("gen_ex_value_table", "name_table", "ex_table_model",
          lambda: name_table_value(block_after(frame, r"impl\s+From<ExceptionCode>\s+for\s+u8\s*\{"), r"fn\s+from\s*\(\s*from\s*:\s*ExceptionCode\s*\)\s*->\s*Self\s*\{", "from", r""), emit_names)
    emit_pairs = lambda rows: "[" + "; ".join("(%s, %s)" % (s2l(a), s2l(b)) for a, b in rows) + "]"
    piece("gen_req_fc_table", "list (list N * list N)", "req_fc_table_model", lambda: fc_of_variant(frame, r"impl\s+Request<'_>\s*\{"), emit_pairs)
    piece("gen_rsp_fc_table", "list (list N * list N)", "rsp_fc_table_model", lambda: fc_of_variant(frame, r"impl\s+Response\s*\{"), emit_pairs)
    piece("gen_req_len_table", "len_table", "req_len_table_model", lambda: len_table(rtu, "get_request_pdu_len"), emit_len)
    piece("gen_rsp_len_table", "len_table", "rsp_len_table_model", lambda: len_table(rtu, "get_response_pdu_len"), emit_len)
    piece("gen_req_size_table", "size_table", "req_size_table_model", lambda: size_table(codec, "request_pdu_size", "request"), emit_size)
    piece("gen_rsp_size_table", "size_table", "rsp_size_table_model", lambda: size_table(codec, "response_pdu_size", "response"), emit_size)
    piece("gen_MAX_PDU_SIZE", "N", "MAX_PDU_SIZE", lambda: const(codec, "MAX_PDU_SIZE"), str)
    piece("gen_MAX_RETRIES", "N", "N.of_nat MAX_RETRIES", lambda: const(rtu, "MAX_RETRIES"), str)
    piece("gen_MAX_FRAME_LEN", "N", "MAX_FRAME_LEN", lambda: const(rtu, "MAX_FRAME_LEN"), str)
    piece("gen_HEADER_LEN", "N", "HEADER_LEN", lambda: const(tcp, "HEADER_LEN"), str)
    piece("gen_PROTOCOL_ID", "N", "0", lambda: const(tcp, "PROTOCOL_ID"), str)
    piece("gen_CRC", "N * N * N * N", "(65535, 8, 40961, 8)", lambda: crc_consts(rtu), lambda t: "(%d, %d, %d, %d)" % t)
    try:
        slave = strip_comments(read("src/slave.rs"))
    except Skip:
        slave = ""
    piece("gen_SLAVE", "N * N * N * N", "(0, 1, 247, 255)", lambda: slave_consts(slave), lambda t: "(%d, %d, %d, %d)" % t)
    piece("gen_COIL", "N * N * N * N * N * N", "(65280, 0, 65280, 0, 7, 8)", lambda: coil_consts(codec), lambda t: "(%d, %d, %d, %d, %d, %d)" % t)
    emit_prog = lambda rows: "[" + "; ".join("(%s, [%s])" % (s2l(n), "; ".join(pr)) for n, pr in rows) + "]"
    piece("gen_req_enc_prog", "enc_table", "req_enc_prog_model", lambda: enc_prog(codec, "encode_request_pdu", "request"), emit_prog)
    piece("gen_rsp_enc_prog", "enc_table", "rsp_enc_prog_model", lambda: enc_prog(codec, "encode_response_pdu", "response"), emit_prog)
    emit_ops = lambda ops: "[" + "; ".join(ops) + "]"
    piece("gen_rtu_client_frame", "list fop", "rtu_frame_prog_model",
          lambda: frame_prog(rtu, r"impl<'a>\s+Encoder<RequestAdu<'a>>\s+for\s+ClientCodec\s*\{", "request_pdu_size", "encode_request_pdu", "request"), emit_ops)
    piece("gen_rtu_server_frame", "list fop", "rtu_frame_prog_model",
          lambda: frame_prog(rtu, r"impl\s+Encoder<ResponseAdu>\s+for\s+ServerCodec\s*\{", "response_result_pdu_size", "encode_response_result_pdu", r"(pdu_res|pdu_result)"), emit_ops)
    piece("gen_tcp_client_frame", "list fop", "tcp_frame_prog_model",
          lambda: frame_prog(tcp, r"impl<'a>\s+Encoder<RequestAdu<'a>>\s+for\s+ClientCodec\s*\{", "request_pdu_size", "encode_request_pdu", "request"), emit_ops)
    piece("gen_tcp_server_frame", "list fop", "tcp_frame_prog_model",
          lambda: frame_prog(tcp, r"impl\s+Encoder<ResponseAdu>\s+for\s+ServerCodec\s*\{", "response_result_pdu_size", "encode_response_result_pdu", r"(pdu_res|pdu_result)"), emit_ops)
    emit_dec = lambda rows: "[" + "; ".join("(%d, ([%s], (%s, [%s]%%nat)))" % (k, "; ".join(pr), s2l(n), "; ".join(map(str, pk))) for k, pr, n, pk in rows) + "]"
    dec_cache = {}
    def dec(fn_name, chk, var):
        if fn_name not in dec_cache:
            dec_cache[fn_name] = dec_prog(codec, fn_name, chk, var)
        return dec_cache[fn_name]
    piece("gen_req_dec_prog", "dec_table", "req_dec_prog_model", lambda: dec("decode_request_pdu_bytes", "check_request_pdu_size", "req")[0], emit_dec)
    piece("gen_req_custom_below", "N", "128", lambda: dec("decode_request_pdu_bytes", "check_request_pdu_size", "req")[1] or (_ for _ in ()).throw(Skip("no Custom arm")), str)
    piece("gen_rsp_dec_prog", "dec_table", "rsp_dec_prog_model", lambda: dec("decode_response_pdu_bytes", "check_response_pdu_size", "response")[0], emit_dec)
    piece("gen_chk_kinds", "list N * list N", '(s2l "InvalidData", s2l "InvalidInput")', lambda: chk_kinds(codec), lambda t: "(%s, %s)" % (s2l(t[0]), s2l(t[1])))
    try:
        client = strip_comments(read("src/client/mod.rs"))
    except Skip:
        client = ""
    try:
        syncsrc = strip_comments(read("src/client/sync/mod.rs"))
    except Skip:
        syncsrc = ""
    piece("gen_typed_table", "typed_table", "typed_table_model", lambda: typed_table(client),
          lambda rows: "[" + "; ".join("(%s, (%s, %s))" % (s2l(a), s2l(b), r) for a, b, r in rows) + "]")
    piece("gen_sync_table", "list sync_row", "map (fun n => (n, (n, true))) sync_methods", lambda: sync_table(syncsrc),
          lambda rows: "[" + "; ".join("(%s, (%s, %s))" % (s2l(a), s2l(b), "true" if ok else "false") for a, b, ok in rows) + "]")
    piece("gen_EXC", "N * N * N * N * N * N", "(128, 128, 128, 128, 128, 2)", lambda: exc_consts(codec), lambda t: "(%d, %d, %d, %d, %d, %d)" % t)
    srcs = {}
    for key, rel in (("stcp", "src/service/tcp.rs"), ("srtu", "src/service/rtu.rs"), ("smod", "src/service/mod.rs")):
        try:
            srcs[key] = strip_comments(read(rel))
        except Skip:
            srcs[key] = ""
    emit_call = lambda t: "([%s], (%s, %s))" % ("; ".join(t[0]), s2l(t[1]), s2l(t[2]))
    model_call = '(call_prog_model, (s2l "BrokenPipe", s2l "NotConnected"))'
    piece("gen_tcp_call", "list ctok * (list N * list N)", model_call, lambda: call_shape(srcs["stcp"]), emit_call)
    piece("gen_rtu_call", "list ctok * (list N * list N)", model_call, lambda: call_shape(srcs["srtu"]), emit_call)
    piece("gen_TID", "N * N", "(0, 1)", lambda: tid_shape(srcs["stcp"]), lambda t: "(%d, %d)" % t)
    piece("gen_disc_tolerated", "list N * list N", '(s2l "BrokenPipe", s2l "NotConnected")', lambda: service_helpers(srcs["smod"]), lambda t: "(%s, %s)" % (s2l(t[0]), s2l(t[1])))
    for key, rel in (("gen_tcp_process", "src/server/tcp.rs"), ("gen_rtu_over_tcp_process", "src/server/rtu_over_tcp.rs"), ("gen_rtu_process", "src/server/rtu.rs")):
        try:
            ssrc = strip_comments(read(rel))
        except Skip:
            ssrc = ""
        piece(key, "list N * list N", '(s2l "break", s2l "continue")', (lambda x: (lambda: process_shape(x)))(ssrc), lambda t: "(%s, %s)" % (s2l(t[0]), s2l(t[1])))
    piece("gen_LEN_MAX", "N * N", "(65535, 255)", lambda: len_helpers(codec), lambda t: "(%d, %d)" % t)
    os.makedirs(os.path.dirname(OUT), exist_ok=True)
    new = "\n".join(out) + "\n"
    old = open(OUT).read() if os.path.exists(OUT) else None
    if old != new:                       # keep the timestamp when nothing changed: no needless rebuild
        open(OUT, "w").write(new)
    summary = dict(repo=REPO, out=OUT, translated=pieces, skipped=skipped)
    print(json.dumps(summary))
    return 0


if __name__ == "__main__":
    sys.exit(main())
