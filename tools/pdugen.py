"""pdugen -- generators of PDU byte strings shared by C03 and C08."""
import itertools
import mb


def short_strings(maxlen):
    for n in range(maxlen + 1):
        for t in itertools.product(range(256), repeat=n):
            yield bytes(t)


REQ_CODES = [1, 2, 3, 4, 5, 6, 0x0F, 0x10, 0x11, 0x16, 0x17]
RSP_CODES = [1, 2, 3, 4, 5, 6, 0x0F, 0x10, 0x11, 0x16, 0x17]


def fill(rng, n):
    r = rng.random()
    if r < 0.3:
        return bytes(n)
    if r < 0.5:
        return bytes([0xFF]) * n
    return bytes(rng.randrange(256) for _ in range(n))


def req_shapes(rng, fc, L):
    """PDUs of total length L for function code fc with adversarial count fields"""
    out = []
    if L == 0:
        return [b""]
    body = fill(rng, L - 1)
    out.append(bytes([fc]) + body)
    if fc == 0x0F and L >= 6:
        for bc in {L - 6, L - 7, L - 5, 0, 255}:
            if 0 <= bc <= 255:
                for q in {8 * bc, 8 * bc + 1, max(0, 8 * bc - 7), 0, 0xFFFF, 0x8000, 1}:
                    if 0 <= q <= 0xFFFF:
                        out.append(bytes([fc]) + body[:2] + mb.be16(q) + bytes([bc]) + body[5:])
    if fc == 0x10 and L >= 6:
        for bc in {L - 6, L - 7, L - 5, 0, 255, 254}:
            if 0 <= bc <= 255:
                for q in {bc // 2, bc // 2 + 1, 0x8000 + bc // 2, 0xFFFF, 0, 0x8000, bc}:
                    if 0 <= q <= 0xFFFF:
                        out.append(bytes([fc]) + body[:2] + mb.be16(q) + bytes([bc]) + body[5:])
    if fc == 0x17 and L >= 10:
        for bc in {L - 10, L - 11, L - 9, 0, 255, 254}:
            if 0 <= bc <= 255:
                for q in {bc // 2, bc // 2 + 1, 0x8000 + bc // 2, 0xFFFF, 0, 0x8000}:
                    if 0 <= q <= 0xFFFF:
                        out.append(bytes([fc]) + body[:6] + mb.be16(q) + bytes([bc]) + body[9:])
    if fc == 5 and L == 5:
        for v in (0, 0xFF00, 0x00FF, 0xFF01, 0xFFFF, 1):
            out.append(bytes([fc]) + body[:2] + mb.be16(v))
    return out


def rsp_shapes(rng, fc, L):
    out = []
    if L == 0:
        return [b""]
    body = fill(rng, L - 1)
    out.append(bytes([fc]) + body)
    if fc in (1, 2, 3, 4, 0x17, 0x11) and L >= 2:
        for bc in {L - 2, L - 3, L - 1, 0, 255, 254, 1, 2}:
            if 0 <= bc <= 255:
                b = bytes([fc, bc]) + body[1:]
                out.append(b)
                if fc == 0x11 and L >= 4:
                    for run in (0, 0xFF, 1, 0xFE):
                        out.append(b[:3] + bytes([run]) + b[4:])
    if fc == 5 and L == 5:
        for v in (0, 0xFF00, 0x00FF, 0xFF01, 0xFFFF, 1):
            out.append(bytes([fc]) + body[:2] + mb.be16(v))
    return out


def mutate(rng, b):
    b = bytearray(b)
    r = rng.random()
    if r < 0.25 and len(b) > 0:
        del b[rng.randrange(len(b)):]
    elif r < 0.5:
        b += bytes(rng.randrange(256) for _ in range(rng.randrange(1, 4)))
    elif r < 0.8 and len(b) > 0:
        b[rng.randrange(len(b))] ^= 1 << rng.randrange(8)
    elif len(b) > 1:
        i = rng.randrange(1, len(b))
        b[i] = rng.choice([0, 0xFF, 0x80, 0x7F])
    return bytes(b)


def pdu_inputs(rng, tier):
    """yields (op, bytes): the C08/C03 domain"""
    maxshort = 2
    for b in short_strings(maxshort):
        yield "DREQ", b
        yield "DRSP", b
        yield "DEXC", b
    n3 = 30000 if tier == "quick" else 400000
    for _ in range(n3):
        b = bytes([rng.randrange(256), rng.randrange(256), rng.randrange(256)])
        yield rng.choice(["DREQ", "DRSP", "DEXC"]), b
    if tier == "thorough":
        for fc in REQ_CODES:
            for x in range(65536):
                yield "DREQ", bytes([fc, x >> 8, x & 255])
                yield "DRSP", bytes([fc, x >> 8, x & 255])
    # every function code x every length 0..=300 x boundary fields
    codes = list(range(256)) if tier == "thorough" else sorted(set(REQ_CODES + [0, 7, 8, 0x0B, 0x0C, 0x14, 0x18, 0x2B, 0x41, 0x7F, 0x80, 0x81, 0x83, 0x90, 0xAB, 0xFF] + [rng.randrange(256) for _ in range(12)]))
    for fc in codes:
        lens = range(0, 301) if (fc in REQ_CODES or tier == "thorough") else list(range(0, 12)) + [252, 253, 254, 255, 300]
        for L in lens:
            for b in req_shapes(rng, fc, L):
                yield "DREQ", b
            for b in rsp_shapes(rng, fc, L):
                yield "DRSP", b
            if fc >= 0x80 and L <= 8:
                yield "DEXC", bytes([fc]) + fill(rng, max(0, L - 1)) if L else b""
    # random structured: valid encodings and their mutations
    n = 4000 if tier == "quick" else 40000
    for _ in range(n):
        r = mb.rnd_req(rng, oversize=3)
        b = mb.spec_req_pdu(r) if mb.spec_req_size(r) <= 300 and (r[0] != "WMC" or len(r[2]) < 65536) else b"\x01"
        yield "DREQ", b
        yield "DREQ", mutate(rng, b)
        p = mb.rnd_rsp(rng, oversize=3)
        try:
            b = mb.spec_rsp_pdu(p)
        except ValueError:
            b = b"\x01\x00"
        yield "DRSP", b
        yield "DRSP", mutate(rng, b)
        yield "DEXC", bytes([0x80 + rng.randrange(128), rng.randrange(256)])
