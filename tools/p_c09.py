"""C09 -- oversized PDUs are refused before sending; PDUs up to 253 bytes go out intact."""
from runner import Prop
from vlib import Case
import mb, cligen


def var_req(kind, n, rng):
    if kind == "WMC":
        return ("WMC", 5, [rng.random() < 0.5 for _ in range(n)])
    if kind == "WMR":
        return ("WMR", 5, [rng.randrange(65536) for _ in range(n)])
    if kind == "RWMR":
        return ("RWMR", 1, 2, 3, [rng.randrange(65536) for _ in range(n)])
    return ("CU", 0x41, bytes(rng.randrange(256) for _ in range(n)))


def var_rsp(kind, n, rng):
    if kind in ("RC", "RDI"):
        return (kind, [rng.random() < 0.5 for _ in range(n)])
    if kind in ("RIR", "RHR", "RWMR"):
        return (kind, [rng.randrange(65536) for _ in range(n)])
    if kind == "RSI":
        return ("RSI", 7, True, bytes(rng.randrange(256) for _ in range(n)))
    return ("CU", 0x41, bytes(rng.randrange(256) for _ in range(n)))

REQ_LIMITS = {"WMC": 1976, "WMR": 123, "RWMR": 121, "CU": 252}
RSP_LIMITS = {"RC": 2008, "RDI": 2008, "RIR": 125, "RHR": 125, "RWMR": 125, "RSI": 249, "CU": 252}
RSP_REQ = {"RC": ("RC", 0, 1), "RDI": ("RDI", 0, 1), "RIR": ("RIR", 0, 1), "RHR": ("RHR", 0, 1), "RWMR": ("RWMR", 0, 1, 0, [1]), "RSI": ("RSI",), "CU": ("CU", 0x41, b"")}


class PROP(Prop):
    id = "C09"
    profiles = ["debug", "release"]
    exhaustive = True
    rule = ("for each variable-length request variant (multiple coils, multiple registers, read/write registers, custom) and response variant "
            "(bit reads, register reads, read/write, server id, custom): EVERY payload length from 0 to limit+40 (coils: byte-boundary steps plus "
            "every length in limit-20..limit+40), on TCP and RTU framing, debug and release; an oversized call is followed by a good exchange on "
            "the same client.  Oracle: oversize => InvalidInput transport error, zero bytes written, client still usable / server writes nothing "
            "and reports exactly one error; otherwise the frame equals the spec encoding (count and length fields not truncated). "
            "non-trivial = every case (each length is a distinct obligation)")

    def lengths(self, limit, dense):
        if dense:
            return list(range(0, limit + 41))
        s = set(range(0, 40)) | set(range(limit - 20, limit + 41)) | set(range(0, limit + 41, 8)) | set(range(7, limit + 41, 8)) | {65535, 65536, 65537, 70000}
        return sorted(x for x in s if x >= 0)

    def cases(self, rng, tier):
        cs = []
        for prof in self.profiles:
            for proto in ("tcp", "rtu"):
                for kind, limit in REQ_LIMITS.items():
                    for n in self.lengths(limit, kind != "WMC"):
                        if kind != "WMC" and n > limit + 40:
                            continue
                        req = var_req(kind, n, rng)
                        slave = rng.randrange(256)
                        good = ("RHR", 1, 1)
                        reply = cligen.frame(proto, 1, slave, mb.spec_rsp_pdu(("RHR", [42])))
                        ops = [cligen.call_op(req), cligen.call_op(good, R="d" + reply.hex())]
                        cs.append(Case(cligen.cli_line(proto, slave, ops), {"k": "req", "proto": proto, "slave": slave, "req": mb.show_req(req), "n": n, "limit": limit, "kind": kind}, prof))
                        # the same request through the typed method of that name (it must not add a limit of its own, nor lift one)
                        if kind in ("WMC", "WMR", "RWMR") and (abs(n - limit) <= 12 or n in (0, 1) or rng.random() < 0.05):
                            ops = [cligen.call_op(req, typed=True), cligen.call_op(good, R="d" + reply.hex())]
                            cs.append(Case(cligen.cli_line(proto, slave, ops), {"k": "req", "proto": proto, "slave": slave, "req": mb.show_req(req), "n": n, "limit": limit, "kind": kind, "typed": True}, prof))
                for kind, limit in RSP_LIMITS.items():
                    for n in self.lengths(limit, kind not in ("RC", "RDI")):
                        if n > limit + 200 and kind not in ("RC", "RDI"):
                            continue
                        rsp = var_rsp(kind, n, rng)
                        rq = RSP_REQ[kind]
                        if proto == "rtu" and not cligen.rtu_supported_req(rq):
                            rq = ("RSI",)
                        slave = rng.randrange(256)
                        f1 = cligen.frame(proto, 7, slave, mb.spec_req_pdu(rq))
                        f2 = cligen.frame(proto, 8, slave, mb.spec_req_pdu(("RSI",)))
                        line = "SRV %s d%s,d%s - - r=%s,r=RSI:1:1:-" % (proto, f1.hex(), f2.hex(), mb.show_rsp(rsp))
                        cs.append(Case(line, {"k": "rsp", "proto": proto, "slave": slave, "rsp": mb.show_rsp(rsp), "n": n, "limit": limit, "kind": kind}, prof))
        # a refused request touches the transport in no way, also when an earlier call left (part of) its frame unsent
        for proto in ("tcp", "rtu"):
            for _ in range(40 if tier == "quick" else 400):
                slave = rng.randrange(256)
                first = ("RHR", rng.randrange(65536), 1)
                k = rng.randrange(0, 6)
                W1 = rng.choice([("a%d," % k if k else "") + "e:TimedOut", ("a%d," % k if k else "") + "p"])
                op1 = cligen.call_op(first, W=W1, drop="0" if W1.endswith("p") else "-")
                big = rng.choice([("WMR", 7, [1] * rng.randrange(124, 140)), ("WMC", 7, [True] * rng.randrange(1977, 2100)), ("CU", 0x41, bytes(rng.randrange(253, 300))), ("RWMR", 1, 1, 2, [5] * rng.randrange(122, 130))])
                # ... and a request that fits (often a maximal one) goes out intact behind those unsent bytes: the stream is frame after frame
                fit = rng.choice([("WMR", 7, [rng.randrange(65536) for _ in range(rng.choice([1, 122, 123]))]), ("CU", 0x41, bytes(rng.choice([0, 251, 252]))), ("RHR", 1, 125)])
                if proto == "tcp" or cligen.rtu_supported_req(fit):
                    f1 = cligen.frame(proto, 0, slave, mb.spec_req_pdu(first)); f2 = cligen.frame(proto, 1, slave, mb.spec_req_pdu(fit))
                    cs.append(Case(cligen.cli_line(proto, slave, [op1, cligen.call_op(fit, R="e:Other")]), {"k": "fit_after_pending", "proto": proto, "want": (f1 + f2).hex(), "kind": fit[0], "n": 1, "limit": 1}, "debug"))
                # the transport would accept everything now: whatever the refused call writes is a violation
                cs.append(Case(cligen.cli_line(proto, slave, [op1, cligen.call_op(big, typed=(big[0] != "CU" and rng.random() < 0.5))]), {"k": "refused_after_pending", "proto": proto, "accepted": k, "kind": big[0], "n": 1, "limit": 0}, "debug"))
        return cs

    def key(self, c):
        return c.line + c.profile

    def oracle(self, c):
        m = c.meta
        if "PANIC" in (c.impl or "") or "CRASH" in (c.impl or ""):
            return "panic"
        if m["k"] == "fit_after_pending":
            got = b"".join(cligen.res_and_w(x)[1] for x in cligen.split_results(c.impl)).hex()
            return None if got == m["want"] else "a request sent behind bytes an earlier call left unsent: the transport received %s..., the two frames are %s..." % (got[:64], m["want"][:64])
        if m["k"] == "refused_after_pending":
            rs = cligen.split_results(c.impl)
            r1, w1 = cligen.res_and_w(rs[1]) if len(rs) > 1 else ("", b"")
            if r1 != "T:InvalidInput":
                return "oversized request after a call that left bytes unsent: not refused with InvalidInput: %s" % r1[:60]
            return None if not len(w1) else "the refused request made the client write %d bytes (%s...) to the transport" % (len(w1), w1.hex()[:40])
        if m["k"] == "req":
            rs = cligen.split_results(c.impl)
            r0, w0 = cligen.res_and_w(rs[0])
            r1, w1 = cligen.res_and_w(rs[1]) if len(rs) > 1 else ("", b"")
            req = mb.parse_req(m["req"])
            if mb.spec_req_size(req) > 253:
                if r0 != "T:InvalidInput":
                    return "oversized request (%d items, PDU %d bytes) not refused with InvalidInput: %s" % (m["n"], mb.spec_req_size(req), r0[:60])
                if len(w0):
                    return "oversized request wrote %d bytes" % len(w0)
                tid1 = cligen.frame(m["proto"], 1, m["slave"], mb.spec_req_pdu(("RHR", 1, 1)))
                tid0 = cligen.frame(m["proto"], 0, m["slave"], mb.spec_req_pdu(("RHR", 1, 1)))
                if w1 not in (tid0, tid1):
                    return "client not usable after an oversized request: the following call wrote %s and returned %s" % (w1.hex()[:80], r1[:40])
                # the scripted reply answers transaction id 1 (the refused call having used up id 0, which it may or may not do):
                # a client that did not use one up performs a normal exchange too, and sees that reply as a foreign one
                if r1 != "OK:RHR:42" and not (m["proto"] == "tcp" and w1 == tid0 and r1 == "HM:R:RHR:42"):
                    return "client not usable after an oversized request: %s" % r1[:60]
                return None
            want = cligen.frame(m["proto"], 0, m["slave"], mb.spec_req_pdu(req))
            if w0 != want:
                return "request with %d items: wrote %s, spec frame %s" % (m["n"], w0.hex()[:60], want.hex()[:60])
            return None
        # responses
        rsp = mb.parse_rsp(m["rsp"])
        tr = (c.impl or "").split(",")
        ws = [t[2:] for t in tr if t.startswith("W:")]
        reps = [t for t in tr if t.startswith("R:")]
        calls = [t for t in tr if t.startswith("C:")]
        if mb.spec_rsp_size(rsp) > 253:
            if ws:
                return "oversized response (PDU %d bytes) was written: %s..." % (mb.spec_rsp_size(rsp), ws[0][:40])
            if reps != ["R:InvalidInput"] or len(calls) != 1:
                return "oversized response: expected one service call and one InvalidInput report, trace %s" % (c.impl or "")[:100]
            return None
        want = cligen.frame(m["proto"], 7, m["slave"], mb.spec_rsp_pdu(rsp)).hex()
        if not ws or ws[0] != want:
            return "response with %d items: wrote %s, spec frame %s" % (m["n"], (ws or [""])[0][:60], want[:60])
        if len(calls) != 2 or len(ws) != 2:
            return "connection did not continue after a maximal response: %s" % (c.impl or "")[:100]
        return None

    def distribution(self, cases):
        d = {}
        for c in cases:
            k = "%s_%s_%s" % (c.meta["k"], c.meta["kind"], "over" if c.meta["n"] > c.meta["limit"] else "fit")
            d[k] = d.get(k, 0) + 1
        return d
