"""C10 -- TCP transaction identifiers are fresh for every transmitted request."""
from runner import Prop
from vlib import Case
import mb, cligen


class PROP(Prop):
    id = "C10"
    profiles = ["debug"]
    kernel_sample = 2
    rule = ("one TCP client driven through 70 000 (quick) / 140 000 (thorough) consecutive calls (> 1 resp. > 2 wraps of the 16-bit id) interleaved "
            "with exception replies, mismatching replies, read errors, write errors, oversized requests and set_slave; plus shorter random "
            "histories; 2..5 client contexts in one process with interleaved calls (TIDS).  Oracle (on the transaction ids of the frames actually written): each transmitted id = previous transmitted id + 1 + "
            "(number of untransmitted calls in between) mod 65536, hence no repeat within a window of 65536 transmitted requests. "
            "non-trivial = call count of histories containing failures")

    def history(self, rng, ncalls):
        slave = 1
        ops, kinds = [], []
        k = 0
        for i in range(ncalls):
            r = rng.random()
            tid = k & 0xFFFF
            req = ("RHR", i & 0xFFFF, 1)
            if r < 0.80:
                R = "d" + cligen.frame("tcp", tid, slave, b"\x03\x02\x00\x07").hex()
                ops.append(cligen.call_op(req, R=R)); kinds.append("good"); k += 1
            elif r < 0.84:
                # every exception code, also the ones that suggest "try again later" (Acknowledge 5, ServerDeviceBusy 6, gateway 10 / 11)
                R = "d" + cligen.frame("tcp", tid, slave, bytes([0x83, rng.choice([1, 2, 3, 4, 5, 6, 6, 8, 10, 11, rng.randrange(256)])])).hex()
                ops.append(cligen.call_op(req, R=R)); kinds.append("exc"); k += 1
            elif r < 0.88:
                R = "d" + cligen.frame("tcp", (tid + 5) & 0xFFFF, slave, b"\x03\x02\x00\x07").hex()
                ops.append(cligen.call_op(req, R=R)); kinds.append("mismatch"); k += 1
            elif r < 0.91:
                ops.append(cligen.call_op(req, R="e:ConnectionReset")); kinds.append("readerr"); k += 1
            elif r < 0.93:
                ops.append(cligen.call_op(req, W="e:Other", R="-")); kinds.append("writeerr"); k += 1
            elif r < 0.96:
                ops.append(cligen.call_op(("WMR", 0, [1] * 124))); kinds.append("oversize"); k += 1
            elif r < 0.98:
                R = "d" + cligen.frame("tcp", tid, slave, b"\x05\x00\x01\x12\x34").hex()
                ops.append(cligen.call_op(req, R=R)); kinds.append("undecodable"); k += 1
            else:
                slave = rng.randrange(256)
                ops.append("slave %d" % slave); kinds.append("slave")
        return cligen.cli_line("tcp", 1, ops), kinds

    def cases(self, rng, tier):
        cs = []
        total = 70000 if tier == "quick" else 140000
        line, kinds = self.history(rng, total)
        cs.append(Case(line, {"kinds": "".join(k[0] for k in kinds), "n": total}))
        for _ in range(20 if tier == "quick" else 100):
            n = rng.randrange(1, 400)
            line, kinds = self.history(rng, n)
            cs.append(Case(line, {"kinds": "".join(k[0] for k in kinds), "n": n}))
        # several client contexts in one process, their calls interleaved: each connection numbers its OWN requests (the ids on one
        # connection advance by exactly one whatever other connections send in between)
        for _ in range(30 if tier == "quick" else 300):
            n = rng.randrange(2, 6)
            order = [rng.randrange(n) for _ in range(rng.randrange(2, 60))]
            cs.append(Case("TIDS %d %s" % (n, ",".join(map(str, order))), {"tids": True, "n": len(order), "kinds": "g" * len(order)}))
        # two contexts alternating over more than a whole id cycle
        cs.append(Case("TIDS 2 %s" % ",".join(str(i % 2) for i in range(2 * 65540 if tier == "thorough" else 2 * 1200)), {"tids": True, "n": 2400, "kinds": "g"}))
        return cs

    def oracle(self, c):
        if c.meta.get("tids"):
            for ci, conn in enumerate((c.impl or "").split("|")):
                if conn == "-":
                    continue
                ids = conn.split(".")
                if "-" in ids:
                    return "a call transmitted no frame"
                ids = [int(x) for x in ids]
                for a, b in zip(ids, ids[1:]):
                    if b != (a + 1) & 0xFFFF:
                        return "connection %d: transaction id %d follows %d while other connections were sending in between (must advance by exactly one)" % (ci, b, a)
            return None
        rs = cligen.split_results(c.impl)
        kinds = c.meta["kinds"]
        if len(rs) != len(kinds):
            return "got %d results for %d ops: %s" % (len(rs), len(kinds), (c.impl or "")[:80])
        stream = bytearray()
        encoded_calls = []       # call indices (set_slave not counted) whose request was encoded
        ci = 0
        for i, (r, k) in enumerate(zip(rs, kinds)):
            if k == "s":
                continue
            res, w = cligen.res_and_w(r)
            if "PANIC" in res:
                return "panic at op %d" % i
            stream += w
            if k != "o":
                encoded_calls.append(ci)
            ci += 1
        # split the transmitted byte stream into MBAP frames
        tids, pos = [], 0
        while pos + 7 <= len(stream):
            ln = stream[pos + 4] << 8 | stream[pos + 5]
            if ln == 0 or stream[pos + 2] or stream[pos + 3]:
                return "transmitted stream is not a sequence of MBAP frames at offset %d" % pos
            if pos + 6 + ln > len(stream):
                break
            tids.append(stream[pos] << 8 | stream[pos + 1])
            pos += 6 + ln
        if len(tids) > len(encoded_calls):
            return "more frames transmitted (%d) than requests encoded (%d)" % (len(tids), len(encoded_calls))
        for j in range(1, len(tids)):
            step = (tids[j] - tids[j - 1]) & 0xFFFF
            allowed = encoded_calls[j] - encoded_calls[j - 1]
            if not (1 <= step <= allowed):
                return "transmitted request %d carries id %d after id %d (%d call(s) rejected before transmission in between)" % (j, tids[j], tids[j - 1], allowed - 1)
        # pairwise distinct ids among transmitted requests spanning fewer than 65536 calls
        # (implied by the step rule; checked directly as a safeguard)
        last_seen = {}
        for j, t in enumerate(tids):
            if t in last_seen and encoded_calls[j] - encoded_calls[last_seen[t]] < 65536:
                return "transaction id %d repeats after only %d calls" % (t, encoded_calls[j] - encoded_calls[last_seen[t]])
            last_seen[t] = j
        return None

    def nontrivial(self, c):
        return True

    def key(self, c):
        return str(hash(c.line))

    def distribution(self, cases):
        d = {}
        for c in cases:
            for ch in c.meta["kinds"]:
                d[ch] = d.get(ch, 0) + 1
        return d
