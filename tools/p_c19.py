"""C19 -- function codes, exception codes and slave ids convert without loss."""
from runner import Prop
from vlib import Case
import mb


class PROP(Prop):
    id = "C19"
    profiles = ["debug"]
    exhaustive = True
    rule = ("exhaustive: all 256 bytes through FunctionCode::new/value and ExceptionCode::new/u8::from; Display and "
            "classification of all 256 slave ids; decimal, 0x-lower and 0x-upper spellings of every n in 0..=65535 "
            "(leading-zero variants for a band + sample in quick, for all n in thorough) through Slave::from_str; "
            "function_code() of generated requests/responses vs first PDU byte on the wire. "
            "non-trivial = distinct case whose oracle is decisive (spec-defined expectation exists)")

    def cases(self, rng, tier):
        cs = []
        for n in range(256):
            cs.append(Case("FC %d" % n, {"k": "fc", "n": n}))
            cs.append(Case("EX %d" % n, {"k": "ex", "n": n}))
            cs.append(Case("SLD %d" % n, {"k": "sld", "n": n}))
        # the slave / unit id on the wire is the slave id the service is given and the one the client stamps, for all 256 values
        for n in range(256):
            for proto in ("tcp", "rtu"):
                fr = mb.tcp_frame(3, n, b"\x11") if proto == "tcp" else mb.rtu_frame(n, b"\x11")
                cs.append(Case("SRV %s d%s - - n" % (proto, fr.hex()), {"k": "slave_in", "n": n}))
                cs.append(Case("CLI %s %d call RSI - - - -" % (proto, n), {"k": "slave_out", "n": n, "proto": proto}))
        def sp(n, s, exp=True):
            cs.append(Case("SLP " + s.encode().hex(), {"k": "slp", "n": n, "s": s, "spec": exp}))
        for n in range(65536):
            sp(n, "%d" % n); sp(n, "0x%x" % n); sp(n, "0x%X" % n)
            zeros = (tier == "thorough") or n < 1024 or rng.random() < 0.02
            if zeros:
                for z in ("0", "00"):
                    sp(n, z + "%d" % n); sp(n, "0x" + z + "%x" % n); sp(n, "0x" + z + "%X" % n)
        # spellings outside the statement: compared with the model only (oracle: unspecified)
        for s in ["", "+", "-", "+5", "-5", "0x", "0x+1f", " 5", "5 ", "0b101", "1e2", "0X1F", "0x1g", "256", "0x100",
                  "+255", "+256", "0x-1", "00x1", "x1", "0x0x1", "٣", "1_0", "0x1_0", "+0x10", "0xfF", "٣"]:
            sp(None, s, False)
        for _ in range(600 if tier == "quick" else 6000):
            r = mb.rnd_req(rng)
            cs.append(Case("RFC " + mb.show_req(r), {"k": "rfc", "fc": mb.req_fc(r)}))
            if mb.spec_req_size(r) <= 253:
                cs.append(Case("CLI tcp 1 call %s - - - -" % mb.show_req(r), {"k": "reqwire", "fc": mb.req_fc(r)}))
            p = mb.rnd_rsp(rng)
            cs.append(Case("PFC " + mb.show_rsp(p), {"k": "pfc", "fc": mb.rsp_fc(p)}))
            if mb.spec_rsp_size(p) <= 253:
                req = mb.tcp_frame(7, 9, b"\x11")
                cs.append(Case("SRV tcp d%s - - r=%s" % (req.hex(), mb.show_rsp(p)), {"k": "rspwire", "fc": mb.rsp_fc(p)}))
        return cs

    def oracle(self, c):
        m, r = c.meta, c.impl
        k = m.get("k")
        if k == "fc":
            n = m["n"]
            want = "%d %s" % (n, mb.SPEC_FC.get(n, "Custom(%d)" % n))
            return None if r == want else "FunctionCode::new(%d): got %r want %r" % (n, r, want)
        if k == "ex":
            n = m["n"]
            want = "%d %s" % (n, mb.SPEC_EX.get(n, "Custom(%d)" % n))
            return None if r == want else "ExceptionCode::new(%d): got %r want %r" % (n, r, want)
        if k == "sld":
            n = m["n"]
            disp = ("%d (0x%02X)" % (n, n)).encode().hex()
            want = "%s %d %d %d" % (disp, n == 0, 1 <= n <= 247, n >= 248)
            return None if r == want else "slave %d display/classification: got %r want %r" % (n, r, want)
        if k == "slp":
            if not m["spec"]:
                return None
            n = m["n"]
            want = "S %d" % n if n < 256 else "E"
            return None if r == want else "Slave::from_str(%r): got %r want %r" % (m["s"], r, want)
        if k == "slave_in":
            return None if r.startswith("C:%d:RSI," % m["n"]) else "request for slave id %d reached the service as %s" % (m["n"], r[:40])
        if k == "slave_out":
            w = r.split(" w=")[-1].split(" q=")[0]
            got = int(w[12:14], 16) if m["proto"] == "tcp" and len(w) >= 14 else (int(w[0:2], 16) if len(w) >= 2 else -1)
            return None if got == m["n"] else "client selected slave %d but stamped %d on the frame %s" % (m["n"], got, w[:40])
        if k in ("rfc", "pfc"):
            return None if r == str(m["fc"]) else "function_code() = %r, want %d" % (r, m["fc"])
        if k == "reqwire":
            w = r.split(" w=")[-1].split(" q=")[0]
            return None if len(w) >= 16 and int(w[14:16], 16) == m["fc"] else "first PDU byte of encoded request != function code %d: %r" % (m["fc"], r[:80])
        if k == "rspwire":
            ws = [t for t in r.split(",") if t.startswith("W:")]
            return None if ws and len(ws[0]) >= 18 and int(ws[0][16:18], 16) == m["fc"] else "first PDU byte of encoded response != function code %d: %r" % (m["fc"], r[:80])
        return None

    def nontrivial(self, c):
        return c.meta.get("spec", True)

    def distribution(self, cases):
        d = {}
        for c in cases:
            d[c.meta.get("k")] = d.get(c.meta.get("k"), 0) + 1
        return d
