"""C08 -- only well-formed PDUs are accepted, each with its unique meaning."""
from runner import Prop
from vlib import Case
import mb, pdugen, cligen


def proj(s):
    if s is None:
        return "NONE"
    if s.startswith("E "):
        return "REJECT"
    return s


class PROP(Prop):
    id = "C08"
    profiles = ["debug", "release"]
    rule = ("all byte strings of length <= 2 (exhaustive) and sampled (quick) / all modelled-code (thorough) 3-byte strings; every function code x "
            "every length 0..=300 x boundary count fields; random valid encodings and their mutations; through Request/Response/"
            "ExceptionResponse::try_from, debug profile (release for a sample); then every distinct accepted value is re-encoded by the "
            "real client/server and decoded again.  Judged by an independent spec classifier (tools/mb.py). "
            "non-trivial = distinct input that the classifier accepts or that has a modelled function code")

    def cases(self, rng, tier):
        cs = []
        seen = set()
        for op, b in pdugen.pdu_inputs(rng, tier):
            k = (op, b)
            if k in seen:
                continue
            seen.add(k)
            cs.append(Case("%s %s" % (op, mb.hexs(b)), {"op": op, "b": b.hex(), "stage": 0}))
        # a sample also in the release profile
        extra = [Case(c.line, dict(c.meta), "release") for c in rng.sample(cs, min(len(cs), 20000))]
        return cs + extra

    def followup(self, cases, rng, tier):
        out = []
        st = max((c.meta.get("stage", 0) for c in cases), default=0)
        if st == 0:
            reqs, rsps = set(), set()
            for c in cases:
                if c.profile != "debug" or not (c.impl or "").startswith("V "):
                    continue
                if len(c.meta["b"]) > 2 * 253:
                    continue   # cannot be sent at all (C09); re-encoding is only observable by sending
                if c.meta["op"] == "DREQ":
                    reqs.add(c.impl[2:])
                elif c.meta["op"] == "DRSP":
                    rsps.add(c.impl[2:])
            lim = 3000 if tier == "quick" else 30000
            reqs = sorted(reqs); rsps = sorted(rsps)
            rng.shuffle(reqs); rng.shuffle(rsps)
            for t in reqs[:lim]:
                out.append(Case("CLI tcp 1 call %s - - - -" % t, {"op": "REENC_REQ", "tok": t, "stage": 1}))
            rq = mb.tcp_frame(1, 1, b"\x11").hex()
            for t in rsps[:lim]:
                out.append(Case("SRV tcp d%s - - r=%s" % (rq, t), {"op": "REENC_RSP", "tok": t, "stage": 1}))
        elif st == 1:
            for c in cases:
                if c.meta.get("stage") != 1:
                    continue
                if c.meta["op"] == "REENC_REQ":
                    w = cligen.res_and_w(c.impl or "")[1].hex()
                    if len(w) > 14 and w != "-":
                        out.append(Case("DREQ " + w[14:], {"op": "DREQ2", "tok": c.meta["tok"], "stage": 2, "b": w[14:]}))
                else:
                    ws = [t for t in (c.impl or "").split(",") if t.startswith("W:")]
                    if ws and len(ws[0]) > 16:
                        out.append(Case("DRSP " + ws[0][16:], {"op": "DRSP2", "tok": c.meta["tok"], "stage": 2, "b": ws[0][16:]}))
        return out

    def project(self, case, s):
        if case.meta.get("stage", 0) == 1:
            return s
        return proj(s)

    def oracle(self, c):
        op, r = c.meta["op"], c.impl or ""
        if op in ("DREQ", "DRSP", "DEXC"):
            b = bytes.fromhex(c.meta["b"])
            if op == "DREQ":
                cl = mb.classify_req(b); show = mb.show_req
            elif op == "DRSP":
                cl = mb.classify_rsp(b); show = mb.show_rsp
            else:
                cl = mb.classify_exc(b); show = lambda v: "X:%d:%d" % v
            if cl[0] == "unspecified":
                return None
            if cl[0] == "reject":
                return None if r.startswith("E ") else "ill-formed PDU %s not rejected with an error: %s" % (b.hex(), r[:80])
            want = "V " + show(cl[1])
            return None if r == want else "well-formed PDU %s: got %s, want %s" % (b.hex()[:60], r[:80], want[:80])
        if op in ("DREQ2", "DRSP2"):
            want = "V " + c.meta["tok"]
            return None if r == want else "re-encoding of accepted value %s decodes to %s" % (c.meta["tok"][:60], r[:80])
        if op == "REENC_REQ":
            return None if r.startswith("WAIT w=") and len(cligen.res_and_w(r)[1]) > 0 else "accepted request value %s could not be re-encoded: %s" % (c.meta["tok"][:60], r[:80])
        if op == "REENC_RSP":
            return None if ",W:" in r else "accepted response value %s could not be re-encoded: %s" % (c.meta["tok"][:60], r[:80])
        return None

    def nontrivial(self, c):
        if c.meta["op"] in ("DREQ", "DRSP"):
            b = bytes.fromhex(c.meta["b"])
            return len(b) > 0 and (b[0] in pdugen.REQ_CODES) or (c.impl or "").startswith("V ")
        return True

    def key(self, c):
        return c.meta["op"] + c.meta.get("b", c.line)

    def distribution(self, cases):
        d = {"accepted": 0, "rejected": 0, "panic": 0}
        for c in cases:
            r = c.impl or ""
            d["accepted" if r.startswith("V ") else "panic" if r.startswith("P") else "rejected"] += 1
            d[c.meta["op"]] = d.get(c.meta["op"], 0) + 1
        return d
