#!/bin/sh
# usage (inside a `vp run --with-repo` snapshot of /verif):  tools/batch_round.sh <round dir> [Cxx ...]
# For every <round dir>/<id>/_mutant/patch.diff: applies it to the repository snapshot $VP_RUN_REPO (never to /repo),
# runs the given checks (default: all 20, quick tier) of THIS snapshot of /verif against it, writes one line per
# check to <round dir>/results/<id>.txt and restores the snapshot.  Results are not evidence; they only tell which
# checks report which change (tools/ingest_mutant.py --results stores them in seeded/<name>/meta.json).
set -u
ROUND="$1"; shift
PROPS="${*:-C01 C02 C03 C04 C05 C06 C07 C08 C09 C10 C11 C12 C13 C14 C15 C16 C17 C18 C19 C20}"
R="${VP_RUN_REPO:?needs vp run --with-repo}"
cd "$(dirname "$0")/.."
./tools/use_repo.sh "$R"
export VERIF_REPO="$R"
./setup.sh > setup.log 2>&1 || { echo "setup failed"; tail -20 setup.log; exit 2; }
mkdir -p "$ROUND/results"
# baseline on the unchanged snapshot: every check must be green, otherwise the results below mean nothing
: > "$ROUND/results/BASELINE.txt"
for p in $PROPS; do
  out=$(./check "$p" --tier quick 2>&1); rc=$?
  echo "$p rc=$rc" >> "$ROUND/results/BASELINE.txt"
done
SUB="${SUB:-_mutant}"
for d in "$ROUND"/*/"$SUB"; do
  id=$(basename "$(dirname "$d")")
  [ -f "$d/patch.diff" ] || continue
  [ -f "$ROUND/results/$id.txt" ] && continue
  git -C "$R" checkout -q -- . ; git -C "$R" apply "$d/patch.diff" || { echo "patch does not apply" > "$ROUND/results/$id.txt"; continue; }
  : > "$ROUND/results/$id.tmp"
  for p in $PROPS; do
    out=$(./check "$p" --tier quick 2>&1); rc=$?
    echo "$p rc=$rc $(echo "$out" | grep -E '^(OK|VIOLATION|KNOWN)' | head -1 | cut -c1-200)" >> "$ROUND/results/$id.tmp"
    [ $rc -ne 0 ] && echo "$out" | grep -E '^  (failing input|impl|oracle|broken)' | cut -c1-220 >> "$ROUND/results/$id.tmp"
  done
  git -C "$R" checkout -q -- .
  mv "$ROUND/results/$id.tmp" "$ROUND/results/$id.txt"
  echo "done $id: $(grep -c 'rc=1' "$ROUND/results/$id.txt") checks report it"
done
