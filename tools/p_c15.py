"""C15 -- disconnect shuts the transport down once and makes the client inert."""
import itertools
from runner import Prop
from vlib import Case
import mb, cligen

SHUT = ["ok", "p,ok", "e:NotConnected", "e:BrokenPipe"] + ["e:" + k for k in cligen.KINDS if k not in ("NotConnected", "BrokenPipe")]


ENDS = ["ok", "eof", "eofmid", "rerr", "garbage", "foreign", "werr", "oversize", "dropw", "dropr", "dropw_werr", "werr_werr"]


class PROP(Prop):
    id = "C15"
    profiles = ["debug"]
    rule = ("all operation sequences of length <= 4 (quick) / 5 (thorough) over {call, disconnect, set_slave}, crossed with shutdown outcomes "
            "{Ok, Pending then Ok, every tested io::ErrorKind} and, for the calls before the first disconnect, with every way a call can end "
            "(reply, orderly end of stream, end of stream inside the reply, read error, undecodable reply, foreign header, write error, refused "
            "oversized request, abandoned while sending / receiving, also with a transport that would refuse any further write), TCP and RTU, plus random longer ones.  Oracle: the transport's shutdown "
            "completes exactly once (first disconnect); its result is Ok for Ok/NotConnected/BrokenPipe, the error otherwise; afterwards every "
            "call returns NotConnected and writes nothing, every disconnect returns Ok without touching the transport. "
            "non-trivial = sequence containing a disconnect followed by another operation")

    def cases(self, rng, tier):
        cs = []
        maxlen = 4 if tier == "quick" else 5
        for proto in ("tcp", "rtu"):
            seqs = []
            for n in range(1, maxlen + 1):
                seqs += list(itertools.product("cds", repeat=n))
            for _ in range(200):
                seqs.append(tuple(rng.choice("ccds") for _ in range(rng.randrange(5, 10))))
            for seq in seqs:
                if "d" not in seq:
                    continue
                outs = SHUT if len(seq) <= 3 else rng.sample(SHUT, 3)
                for sh in outs:
                    cs.append(self.build(proto, seq, sh, rng))
            # the calls before the first disconnect end in every possible way
            for seq in [s for n in range(2, 4 if tier == "quick" else 5) for s in itertools.product("cds", repeat=n)]:
                if "d" not in seq or "c" not in seq[:seq.index("d")]:
                    continue
                for end in ENDS:
                    for sh in (SHUT if len(seq) == 2 else ["ok", "e:BrokenPipe", "e:PermissionDenied"]):
                        cs.append(self.build(proto, seq, sh, rng, end=end))
            # a disconnect whose future is dropped while the transport's shutdown is still pending (a timeout around disconnect()):
            # the client is inert all the same; what follows must not touch the transport
            for seq in [s for n in range(2, 5) for s in itertools.product("cdsD", repeat=n)]:
                if "D" not in seq or (tier == "quick" and len(seq) == 4 and rng.random() < 0.6):
                    continue
                cs.append(self.build(proto, seq, rng.choice(["ok", "e:Other"]), rng, end=rng.choice(["ok", "mix"])))
            for _ in range(150 if tier == "quick" else 1500):
                seq = tuple(rng.choice("cccds") for _ in range(rng.randrange(3, 8)))
                if "d" in seq:
                    cs.append(self.build(proto, seq, rng.choice(SHUT), rng, end="mix"))
        return cs

    def build(self, proto, seq, sh, rng, end="ok"):
        slave = slave0 = rng.randrange(256)
        ops, ncall, disconnected = [], 0, False
        for o in seq:
            if o == "c":
                R, W, req, drop = "-", "-", ("RHR", 1, 1), "-"
                if disconnected:
                    # whatever is asked of an inert client -- also what the encoder would refuse -- the answer is NotConnected
                    req = rng.choice([("RHR", 1, 1), ("RHR", 1, 1), ("WMR", 0, [1] * 130), ("CU", 0x41, bytes(300)), ("WMC", 0, [True] * 2100), ("RSI",), ("RWMR", 1, 1, 2, [5] * 125),
                                      ("WMR", 3, []), ("WMC", 3, []), ("RC", 1, 0), ("RHR", 1, 0), ("WSR", 1, 2)])
                    typed_inert = req[0] not in ("CU", "RSI") and rng.random() < 0.6      # the typed methods too (empty writes, zero quantities)
                if not disconnected:
                    good = cligen.frame(proto, ncall, slave, b"\x03\x02\x00\x07").hex()
                    e = rng.choice(ENDS) if end == "mix" else end
                    if e == "ok":
                        R = "d" + good
                    elif e == "eof":
                        R = "eof"
                    elif e == "eofmid":
                        R = "d" + good[:6] + ",eof"
                    elif e == "rerr":
                        R = "e:ConnectionReset"
                    elif e == "garbage":
                        R = "d" + (cligen.frame(proto, ncall, slave, b"\x03\x03\x00\x07\x01").hex() if proto == "tcp" else "ffffffffffffffffffffffffffffffffffffffffffffffff")
                    elif e == "foreign":
                        R = "d" + cligen.frame(proto, (ncall + 7) & 0xFFFF, (slave + 1) & 0xFF, b"\x03\x02\x00\x07").hex()
                    elif e == "werr":
                        W = "e:BrokenPipe"
                    elif e == "oversize":
                        req = ("WMR", 0, [1] * 130)
                    elif e == "dropw":
                        W, drop = "p,p", "1"
                    elif e == "dropw_werr":
                        # abandoned after a partial write; the transport would refuse any further write (disconnect must not attempt one)
                        W, drop = "a3,p,e:PermissionDenied,e:PermissionDenied", "0"
                    elif e == "werr_werr":
                        W = "a3,e:TimedOut,e:PermissionDenied,e:PermissionDenied"
                    elif e == "dropr":
                        R, drop = "p,p,p", "2"
                ops.append(cligen.call_op(req, W=W, R=R, drop=drop, typed=disconnected and typed_inert))
                ncall += 1
            elif o == "d":
                ops.append("disc %s" % (sh if not disconnected else rng.choice(["ok", "e:Other", "-"])))
                disconnected = True
            elif o == "D":
                # pending shutdown, future dropped after 0..2 Pending polls (before the shutdown could complete)
                npend = rng.randrange(1, 4)
                ops.append("disc %s %d" % (",".join(["p"] * npend + [rng.choice(["ok", "e:Other"])]), rng.randrange(0, npend)))
                disconnected = True
            else:
                slave = rng.randrange(256)
                ops.append("slave %d" % slave)
        return Case(cligen.cli_line(proto, slave0, ops), {"seq": "".join(seq), "sh": sh, "proto": proto})

    def oracle(self, c):
        rs = cligen.split_results(c.impl)
        seq, sh = c.meta["seq"], c.meta["sh"]
        if len(rs) != len(seq):
            return "result count"
        disc = False
        for i, (o, r) in enumerate(zip(seq, rs)):
            if "PANIC" in r:
                return "panic"
            if o == "D":
                res, sd = r.split(" sd=")
                if not disc:
                    if res != "WAIT" or sd != "0":
                        return "disconnect dropped while its shutdown was pending: %s (want WAIT, no completed shutdown)" % r
                    disc = True
                elif sd != "0" or res != "OK":
                    return "repeated disconnect: %s (want OK, no shutdown)" % r
            elif o == "d":
                res, sd = r.split(" sd=")
                if not disc:
                    k = sh.split(",")[-1]
                    want = "OK" if k in ("ok", "e:NotConnected", "e:BrokenPipe") else "T:" + k[2:]
                    if sd != "1":
                        return "first disconnect completed %s shutdowns, want 1" % sd
                    if res != want:
                        return "shutdown outcome %s: disconnect returned %s, want %s" % (sh, res, want)
                    disc = True
                else:
                    if sd != "0" or res != "OK":
                        return "repeated disconnect: %s (want OK, no shutdown)" % r
            elif o == "c" and disc:
                res, w = cligen.res_and_w(r)
                if res != "T:NotConnected" or len(w):
                    return "call after disconnect: %s" % r[:60]
        return None

    def nontrivial(self, c):
        s = c.meta["seq"]
        s = s.replace("D", "d")
        return "d" in s and s.index("d") < len(s) - 1
