"""C15 -- disconnect shuts the transport down once and makes the client inert."""
import itertools
from runner import Prop
from vlib import Case
import mb, cligen

SHUT = ["ok", "p,ok", "e:NotConnected", "e:BrokenPipe"] + ["e:" + k for k in cligen.KINDS if k not in ("NotConnected", "BrokenPipe")]


class PROP(Prop):
    id = "C15"
    profiles = ["debug"]
    rule = ("all operation sequences of length <= 4 (quick) / 5 (thorough) over {call, disconnect, set_slave}, crossed with shutdown outcomes "
            "{Ok, Pending then Ok, every tested io::ErrorKind}, TCP and RTU, plus random longer ones.  Oracle: the transport's shutdown "
            "completes exactly once (first disconnect); its result is Ok for Ok/NotConnected/BrokenPipe, the error otherwise; afterwards every "
            "call returns NotConnected and writes nothing, every disconnect returns Ok without touching the transport. "
            "non-trivial = sequence containing a disconnect followed by another operation")

    def cases(self, rng, tier):
        cs = []
        maxlen = 4 if tier == "quick" else 5
        for proto in ("tcp", "rtu"):
            seqs = []
            for n in range(1, maxlen + 1):
                seqs += list(itertools.product("cds", repeat=n))
            for _ in range(200):
                seqs.append(tuple(rng.choice("ccds") for _ in range(rng.randrange(5, 10))))
            for seq in seqs:
                if "d" not in seq:
                    continue
                outs = SHUT if len(seq) <= 3 else rng.sample(SHUT, 3)
                for sh in outs:
                    cs.append(self.build(proto, seq, sh, rng))
        return cs

    def build(self, proto, seq, sh, rng):
        slave = slave0 = rng.randrange(256)
        ops, ncall, disconnected = [], 0, False
        for o in seq:
            if o == "c":
                R = "-"
                if not disconnected:
                    R = "d" + cligen.frame(proto, ncall, slave, b"\x03\x02\x00\x07").hex()
                ops.append(cligen.call_op(("RHR", 1, 1), R=R))
                ncall += 1
            elif o == "d":
                ops.append("disc %s" % (sh if not disconnected else rng.choice(["ok", "e:Other", "-"])))
                disconnected = True
            else:
                slave = rng.randrange(256)
                ops.append("slave %d" % slave)
        return Case(cligen.cli_line(proto, slave0, ops), {"seq": "".join(seq), "sh": sh, "proto": proto})

    def oracle(self, c):
        rs = cligen.split_results(c.impl)
        seq, sh = c.meta["seq"], c.meta["sh"]
        if len(rs) != len(seq):
            return "result count"
        disc = False
        for i, (o, r) in enumerate(zip(seq, rs)):
            if "PANIC" in r:
                return "panic"
            if o == "d":
                res, sd = r.split(" sd=")
                if not disc:
                    k = sh.split(",")[-1]
                    want = "OK" if k in ("ok", "e:NotConnected", "e:BrokenPipe") else "T:" + k[2:]
                    if sd != "1":
                        return "first disconnect completed %s shutdowns, want 1" % sd
                    if res != want:
                        return "shutdown outcome %s: disconnect returned %s, want %s" % (sh, res, want)
                    disc = True
                else:
                    if sd != "0" or res != "OK":
                        return "repeated disconnect: %s (want OK, no shutdown)" % r
            elif o == "c" and disc:
                res, w = cligen.res_and_w(r)
                if res != "T:NotConnected" or len(w):
                    return "call after disconnect: %s" % r[:60]
        return None

    def nontrivial(self, c):
        s = c.meta["seq"]
        return "d" in s and s.index("d") < len(s) - 1
